------------------------------- MODULE Metric -------------------------------
(***************************************************************************)
(* internal/metrics/metric.go : one dimensioned Metric (C08, C09).         *)
(*                                                                         *)
(* Implementation-shaped layer: variables lvs / idx = Metric.LabelValues   *)
(* and Metric.labelValuesMap, one action per public method, each applying  *)
(* the operator of MetricOps.tla that follows the method line by line.     *)
(* Ideal layer: `amap`, an insertion-ordered map from label tuples to      *)
(* (value, timestamp, expiry) evolving by the statement of C09.            *)
(* TLC checks that the implementation refines the ideal (Refines,          *)
(* ResultAgrees), that the two representations agree (IndexOK), that an    *)
(* operation on one tuple leaves every other tuple alone (OthersUntouched, *)
(* the operational form of C08) and that rejected calls change nothing.    *)
(*                                                                         *)
(* Second state space in the same module (KeyInit/KeyNext): the key        *)
(* encoding alone, over all tuples of a given arity and label length.      *)
(*                                                                         *)
(* Tuples are referred to by their index in AllTuples (Tuples \o           *)
(* BadTuples) so that emitted cases stay small.                            *)
(***************************************************************************)
EXTENDS MetricOps, Json

CONSTANTS Arity,        \* len(m.Keys)
          Tuples,       \* sequence of label tuples of length Arity (the universe)
          BadTuples,    \* sequence of label tuples of another length
          VTypes,       \* subset of {"Int", "Float", "String", "Buckets"}  (metrics.Type)
          WideTypes,    \* types explored over all Tuples; the others use the first two only
          MaxTs,        \* timestamps handed to datum updates are 1..MaxTs
          ValBound,     \* bound on counter values / observation counts (finite state space)
          Expiries,     \* set of expiry durations (>0) handed to ExpireDatum
          Mode,         \* "check" | "graph" | "walk"   what Emit prints
          WalkLen,      \* length of emitted walks in Mode "walk"
          Alphabet, KeyDomains   \* key-encoding state space: characters, set of <<arity, max label length>>

VARIABLES vtype,        \* m.Type, fixed when the metric is made
          lvs, idx,     \* the metric, as in the code
          amap,         \* ideal: sequence of [labels, val, time, exp], labels pairwise distinct
          h,            \* Mode "walk": history of calls with the projected state after each
          probe         \* key-encoding state space: the tuple (or pair of tuples) examined
vars == <<vtype, lvs, idx, amap, h, probe>>

M == [lvs |-> lvs, idx |-> idx]
AllTuples == Tuples \o BadTuples
NT == Len(Tuples)
NA == Len(AllTuples)
TupleNo(t) == CHOOSE i \in 1..NA : AllTuples[i] = t
\* buildLabelValueKey of every tuple of the universe, computed once (TLC evaluates
\* constant definitions once); observers use it, the methods compute Key themselves
KeyTab == [i \in 1..NA |-> Key(AllTuples[i])]

-----------------------------------------------------------------------------
(* datum values per metrics.Type; timestamp 0 = "as stamped by the constructor" *)
Zero == [val  |-> IF vtype = "Buckets" THEN <<0, 0, 0, 0>>   \* <<bucket le 1, bucket +Inf, Count, Sum>>
                  ELSE 0,                                    \* Int 0 / Float 0 / String ""
         time |-> 0]

\* the datum operations the VM performs on a datum it looked up
Updates ==
  CASE vtype = "Int"     -> {[f |-> "set", a |-> 1], [f |-> "inc", a |-> 2]}      \* Int.Set, Int.IncBy
    [] vtype = "Float"   -> {[f |-> "set", a |-> 1], [f |-> "set", a |-> 2]}      \* Float.Set
    [] vtype = "String"  -> {[f |-> "set", a |-> 1], [f |-> "set", a |-> 2]}      \* String.Set
    [] vtype = "Buckets" -> {[f |-> "obs", a |-> 1], [f |-> "obs", a |-> 3]}      \* Buckets.Observe

\* bound on values (keeps the state space finite)
CanApply(val, u) ==
  CASE u.f = "inc" -> val < ValBound
    [] u.f = "obs" -> val[3] < ValBound
    [] OTHER -> TRUE

ApplyUpd(d, u, ts) ==
  [val  |-> CASE u.f = "set" -> u.a
              [] u.f = "inc" -> d.val + u.a
              [] u.f = "obs" -> IF u.a <= 1 THEN <<d.val[1] + 1, d.val[2], d.val[3] + 1, d.val[4] + u.a>>
                                            ELSE <<d.val[1], d.val[2] + 1, d.val[3] + 1, d.val[4] + u.a>>,
   time |-> ts]

-----------------------------------------------------------------------------
(* calls: records [op, t, u, ts, e] with dummies in unused fields *)
NoU == [f |-> "none", a |-> 0]
\* tuple numbers handed to calls for this metric
Usable == (IF vtype \in WideTypes THEN 1..NT ELSE 1..2) \cup ((NT + 1)..NA)
Call(op, ti, u, ts, e) == [op |-> op, t |-> ti, u |-> u, ts |-> ts, e |-> e]
Calls ==
  {Call("get", ti, NoU, 0, 0)    : ti \in Usable} \cup
  {Call("update", ti, u, ts, 0)  : ti \in Usable, u \in Updates, ts \in 1..MaxTs} \cup
  {Call("remove", ti, NoU, 0, 0) : ti \in Usable} \cup
  {Call("expire", ti, NoU, 0, e) : ti \in Usable, e \in Expiries} \cup
  {Call("oldest", 0, NoU, 0, 0), Call("emit", 0, NoU, 0, 0)}

\* ---- implementation: apply the method to M; returns [M, err, created, pos, t] where
\* pos = position in the slice of the *LabelValue the call returned/affected (0 = none)
\* and t = index of the tuple the call was about (for "oldest": the tuple it chose)
Ret(r, t) == [M |-> r.M, err |-> r.err, created |-> r.created,
              pos |-> IF r.id = NilId THEN 0 ELSE PosOfId(r.M, r.id), t |-> t]

Do(m, c) ==
  CASE c.op = "get"    -> Ret(GetDatum(m, Arity, AllTuples[c.t], Zero), c.t)
    [] c.op = "update" -> LET g == GetDatum(m, Arity, AllTuples[c.t], Zero) IN
                          IF g.err THEN Ret(g, c.t)
                          ELSE LET F(d) == ApplyUpd(d, c.u, c.ts)
                               IN Ret([g EXCEPT !.M = UpdateDatum(g.M, g.id, F)], c.t)
    [] c.op = "remove" -> LET r == RemoveDatum(m, Arity, AllTuples[c.t]) IN
                          [M |-> r.M, err |-> r.err, created |-> FALSE, pos |-> 0, t |-> c.t]
    [] c.op = "expire" -> Ret(ExpireDatum(m, Arity, c.e, AllTuples[c.t]), c.t)
    [] c.op = "oldest" -> LET o == OldestPos(m)
                              r == RemoveOldestDatum(m, Arity) IN
                          [M |-> r.M, err |-> FALSE, created |-> FALSE, pos |-> 0,
                           t |-> IF o = 0 THEN 0 ELSE TupleNo(m.lvs[o].labels)]
    [] c.op = "emit"   -> [M |-> m, err |-> FALSE, created |-> FALSE, pos |-> 0, t |-> 0]

\* the datum an update goes to must exist in the slice for CanApply to be evaluated
Applicable(m, c) ==
  IF c.op # "update" \/ c.t > NT THEN TRUE
  ELSE LET f == FindByKey(m, KeyTab[c.t])
           p == IF f = NilId THEN 0 ELSE PosOfId(m, f)
       IN CanApply(IF p = 0 THEN Zero.val ELSE m.lvs[p].val, c.u)

\* ---- ideal: the statement of C09 on an insertion-ordered map
IPos(a, t) == LET ps == {i \in DOMAIN a : a[i].labels = t} IN IF ps = {} THEN 0 ELSE CHOOSE i \in ps : TRUE
IRet(a, err, created, pos, t) == [A |-> a, err |-> err, created |-> created, pos |-> pos, t |-> t]
IOldest(a) == IF a = <<>> THEN 0
              ELSE CHOOSE i \in DOMAIN a : /\ \A j \in DOMAIN a : a[i].time <= a[j].time
                                           /\ \A j \in 1..(i - 1) : a[j].time > a[i].time
IGet(a, t, ti) ==
  IF Len(t) # Arity THEN IRet(a, TRUE, FALSE, 0, ti)
  ELSE IF IPos(a, t) # 0 THEN IRet(a, FALSE, FALSE, IPos(a, t), ti)
  ELSE IRet(Append(a, [labels |-> t, val |-> Zero.val, time |-> Zero.time, exp |-> 0]), FALSE, TRUE, Len(a) + 1, ti)

IDo(a, c) ==
  CASE c.op = "get"    -> IGet(a, AllTuples[c.t], c.t)
    [] c.op = "update" -> LET g == IGet(a, AllTuples[c.t], c.t) IN
                          IF g.err THEN g
                          ELSE LET n == ApplyUpd([val |-> g.A[g.pos].val, time |-> g.A[g.pos].time], c.u, c.ts)
                               IN [g EXCEPT !.A = [g.A EXCEPT ![g.pos].val = n.val, ![g.pos].time = n.time]]
    [] c.op = "remove" -> LET t == AllTuples[c.t] IN
                          IF Len(t) # Arity THEN IRet(a, TRUE, FALSE, 0, c.t)          \* rejected, nothing changes
                          ELSE IF IPos(a, t) = 0 THEN IRet(a, FALSE, FALSE, 0, c.t)    \* deleting an absent tuple is a no-op
                          ELSE IRet(Splice(a, IPos(a, t)), FALSE, FALSE, 0, c.t)
    [] c.op = "expire" -> LET t == AllTuples[c.t] IN
                          IF Len(t) # Arity \/ IPos(a, t) = 0 THEN IRet(a, TRUE, FALSE, 0, c.t)  \* absent: an error
                          ELSE IRet([a EXCEPT ![IPos(a, t)].exp = c.e], FALSE, FALSE, IPos(a, t), c.t)
    [] c.op = "oldest" -> IF a = <<>> THEN IRet(a, FALSE, FALSE, 0, 0)
                          ELSE IRet(Splice(a, IOldest(a)), FALSE, FALSE, 0, TupleNo(a[IOldest(a)].labels))
    [] c.op = "emit"   -> IRet(a, FALSE, FALSE, 0, 0)

-----------------------------------------------------------------------------
(* projections *)
Strip(lv) == [labels |-> lv.labels, val |-> lv.val, time |-> lv.time, exp |-> lv.exp]
Abs(m) == [i \in DOMAIN m.lvs |-> Strip(m.lvs[i])]

\* what the harness compares after every call: the slice in order (tuple index, value,
\* timestamp, expiry) and, for every tuple of the universe, the slice position its index
\* entry points at (0 = no entry, -1 = entry pointing outside the slice)
ProjLvs(m) == [i \in DOMAIN m.lvs |-> <<TupleNo(m.lvs[i].labels), m.lvs[i].val, m.lvs[i].time, m.lvs[i].exp>>]
ProjIdx(m) == [ti \in 1..NT |->
                 LET f == FindByKey(m, KeyTab[ti])
                     p == IF f = NilId THEN 0 ELSE PosOfId(m, f)
                 IN IF f = NilId THEN 0 ELSE IF p = 0 THEN -1 ELSE p]
Proj(m) == [l |-> ProjLvs(m), x |-> ProjIdx(m), n |-> Cardinality(DOMAIN m.idx)]

\* EmitLabelSets: one LabelSet per element of the slice, in order
EmitLabelSets(m) == [i \in DOMAIN m.lvs |-> <<m.lvs[i].labels, m.lvs[i].val>>]

Obs(c, r) == [c |-> c, err |-> r.err, created |-> r.created, pos |-> r.pos, t |-> r.t]

-----------------------------------------------------------------------------
(* behaviours *)
Init == /\ vtype \in VTypes
        /\ lvs = <<>> /\ idx = <<>> /\ amap = <<>> /\ h = <<>> /\ probe = <<>>

Step(c) ==
  /\ Mode = "walk" => Len(h) < WalkLen
  /\ Applicable(M, c)
  /\ LET r == Do(M, c)
     IN /\ lvs' = r.M.lvs /\ idx' = r.M.idx
        /\ amap' = IDo(amap, c).A
        /\ h' = IF Mode = "walk" THEN Append(h, [o |-> Obs(c, r), s |-> Proj(r.M)]) ELSE h
  /\ UNCHANGED <<vtype, probe>>

GetDatumA          == \E ti \in Usable : Step(Call("get", ti, NoU, 0, 0))
UpdateA            == \E ti \in Usable, u \in Updates, ts \in 1..MaxTs : Step(Call("update", ti, u, ts, 0))
RemoveDatumA       == \E ti \in Usable : Step(Call("remove", ti, NoU, 0, 0))
ExpireDatumA       == \E ti \in Usable, e \in Expiries : Step(Call("expire", ti, NoU, 0, e))
RemoveOldestDatumA == Step(Call("oldest", 0, NoU, 0, 0))
EmitLabelSetsA     == Step(Call("emit", 0, NoU, 0, 0))

Next == \/ GetDatumA \/ UpdateA \/ RemoveDatumA \/ ExpireDatumA \/ RemoveOldestDatumA \/ EmitLabelSetsA
Spec == Init /\ [][Next]_vars

-----------------------------------------------------------------------------
(* properties.  State invariants speak about the state reached; the step properties are
   written as invariants too ("every call that can be made in this state ...") so that the
   call and its result need not be carried in the state. *)
TypeOK == /\ \A i \in DOMAIN lvs : lvs[i].labels \in {Tuples[j] : j \in 1..NT} /\ lvs[i].time \in 0..MaxTs
                                   /\ lvs[i].exp \in Expiries \cup {0}
          /\ Len(lvs) <= NT

\* C09: slice and index describe the same set of LabelValues, no tuple twice
IndexOK == IndexAgrees(M)

\* C09: the metric IS the insertion-ordered map
Refines == Abs(M) = amap

\* C09: enumeration lists each live tuple exactly once with its current value
EmitOnce == /\ EmitLabelSets(M) = [i \in DOMAIN amap |-> <<amap[i].labels, amap[i].val>>]
            /\ \A i, j \in DOMAIN lvs : i # j => lvs[i].labels # lvs[j].labels

EnabledCalls == {c \in Calls : Applicable(M, c)}

\* C09: every call returns what the map would return: wrong length rejected, expire-absent an
\* error, delete-absent no error, a lookup creates iff the tuple was absent and returns the
\* element of that tuple
AgreesR(r, i) == r.err = i.err /\ r.created = i.created /\ r.pos = i.pos /\ r.t = i.t
ResultAgrees == \A c \in EnabledCalls : AgreesR(Do(M, c), IDo(amap, c))

\* C09: a rejected call changes nothing
RejectedR(r) == r.err => r.M = M
RejectedUnchanged == \A c \in EnabledCalls : RejectedR(Do(M, c))

\* C08 (operational form): the datum of every tuple other than the one the call is about is
\* untouched: same pointer, same value, timestamp, expiry, still (or still not) there
DatumOf(m, ti) == LET f == FindByKey(m, KeyTab[ti])
                      p == IF f = NilId THEN 0 ELSE PosOfId(m, f)
                  IN IF p = 0 THEN <<"absent">> ELSE <<"present", m.lvs[p]>>
UntouchedR(r) == \A ti \in 1..NT : ti # r.t => DatumOf(r.M, ti) = DatumOf(M, ti)
OthersUntouched == \A c \in EnabledCalls : UntouchedR(Do(M, c))

\* the three step properties in one pass
StepOK == \A c \in EnabledCalls :
            LET r == Do(M, c) IN AgreesR(r, IDo(amap, c)) /\ RejectedR(r) /\ UntouchedR(r)

\* C08: two tuples of the universe address the same element iff they are equal
DistinctData == \A i, j \in 1..NT :
                  LET a == DatumOf(M, i)   b == DatumOf(M, j)
                  IN (a # <<"absent">> /\ b # <<"absent">> /\ a[2].id = b[2].id) => Tuples[i] = Tuples[j]

-----------------------------------------------------------------------------
(* emission (direction A) *)
\* Mode "graph": every state prints itself and all its outgoing transitions; the check
\* computes a transition-covering set of walks over this graph and replays them.
Succ(m) == {LET r == Do(m, c) IN [o |-> Obs(c, r), s |-> Proj(r.M)] : c \in {c \in Calls : Applicable(m, c)}}
Emit ==
  CASE Mode = "graph" -> PrintT(<<"CASE", ToJson([v |-> vtype, s |-> Proj(M), out |-> Succ(M)])>>)
    [] Mode = "walk"  -> (Len(h) = WalkLen => PrintT(<<"CASE", ToJson([v |-> vtype, walk |-> h])>>))
    [] OTHER -> TRUE

\* pointers are interchangeable: states that differ only in the ids are one state
View == <<vtype, Proj(M), amap, h>>
\* Mode "graph": the nodes are the implementation states (in the corrected design amap is
\* Abs(M) anyway; with a deviation on it may drift away from M without bound)
GraphView == <<vtype, Proj(M)>>

-----------------------------------------------------------------------------
(* the key encoding alone (C08) *)
StrsUpTo(n) == UNION {[1..k -> Alphabet] : k \in 0..n}
TuplesOver(a, n) == [1..a -> StrsUpTo(n)]
KeyTuples == UNION {TuplesOver(d[1], d[2]) : d \in KeyDomains}
Idle == vtype = "Int" /\ lvs = <<>> /\ idx = <<>> /\ amap = <<>> /\ h = <<>>

KeyInitOne  == probe \in KeyTuples /\ Idle                                \* every tuple
KeyInitPair == probe \in UNION {TuplesOver(d[1], d[2]) \X TuplesOver(d[1], d[2]) : d \in KeyDomains} /\ Idle
KeyInitAll  == probe = <<>> /\ Idle                                       \* one state, set-level check
KeyNext == UNCHANGED vars

\* the encoding under examination has a left inverse on this tuple (hence is injective)
RoundTrip == Decode(Key(probe)) = probe
\* C08, pairwise: equal keys only for equal tuples
PairInjective == Key(probe[1]) = Key(probe[2]) => probe[1] = probe[2]
\* C08, whole domain at once
Injective == \A d \in KeyDomains :
               Cardinality({Key(t) : t \in TuplesOver(d[1], d[2])}) = Cardinality(TuplesOver(d[1], d[2]))
\* print the tuple with its key under the corrected design (k0) and under the deviation (k1)
EmitKey == PrintT(<<"CASE", ToJson([t |-> probe, k0 |-> KeyWith(FALSE, probe), k1 |-> KeyWith(TRUE, probe)])>>)
=============================================================================
