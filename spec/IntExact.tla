------------------------------ MODULE IntExact ------------------------------
(***************************************************************************)
(* C01, the clause "arithmetic, comparisons ... equal those defined by the *)
(* language reference" at the edges of the integer type.  mtail integers   *)
(* are 64-bit; TLC's are 32-bit, so MtailLang.tla stops at 1e9 (`ovf`).     *)
(* This module covers what lies beyond with SYMBOLIC points: ten integers  *)
(* known only by their order (the index in Points), by which of them are   *)
(* successors of each other, and by their decimal spelling, which the      *)
(* harness feeds to the real program as log-line tokens.                   *)
(*                                                                         *)
(* Statement shapes (L and R are the two captured integers, ga/gb are      *)
(* integer gauges holding them - a metric operand makes the code generator *)
(* choose the generic `cmp` instruction instead of `icmp`):                *)
(*   cmp   : `L op R { hit++ }`           hit = 1 iff the relation holds   *)
(*   store : `ga = $1`                    ga reads back exactly $1         *)
(*   inc   : `ga = $1  ga++`              ga is the successor of $1        *)
(*   dec   : `ga = $1  ga--`              ga is the predecessor of $1      *)
(*   addk  : `ga = $1 + 1`, `ga = $1 - 1` likewise, through iadd/isub      *)
(* The expected results follow from the order alone: no 64-bit arithmetic  *)
(* is done by TLC.                                                         *)
(***************************************************************************)
EXTENDS Integers, Sequences, Json, TLC

CONSTANT EmitCases

Points == << [name |-> "-2^63",   dec |-> "-9223372036854775808"],
             [name |-> "-2^53-1", dec |-> "-9007199254740993"],
             [name |-> "-2^53",   dec |-> "-9007199254740992"],
             [name |-> "-1",      dec |-> "-1"],
             [name |-> "0",       dec |-> "0"],
             [name |-> "1",       dec |-> "1"],
             [name |-> "2^53",    dec |-> "9007199254740992"],
             [name |-> "2^53+1",  dec |-> "9007199254740993"],
             [name |-> "2^63-2",  dec |-> "9223372036854775806"],
             [name |-> "2^63-1",  dec |-> "9223372036854775807"] >>
N == Len(Points)
\* i+1 is the arithmetic successor of i exactly for these indices
SuccOf == {2, 4, 5, 7, 9}          \* -2^53-1 -> -2^53, -1 -> 0, 0 -> 1, 2^53 -> 2^53+1, 2^63-2 -> 2^63-1

CmpOps == {"<", "<=", ">", ">=", "==", "!="}
Operand == {"cap", "met"}          \* a captured integer, or an integer gauge holding it
Holds(op, i, j) == CASE op = "<"  -> i < j  [] op = "<=" -> i <= j [] op = ">"  -> i > j
                     [] op = ">=" -> i >= j [] op = "==" -> i = j  [] OTHER     -> i # j

VARIABLE c
Cases == {[kind |-> "cmp", op |-> op, l |-> l, r |-> r, i |-> i, j |-> j] : op \in CmpOps, l \in Operand, r \in Operand, i \in 1..N, j \in 1..N}
         \cup {[kind |-> k, op |-> "", l |-> "", r |-> "", i |-> i, j |-> 0] : k \in {"store"}, i \in 1..N}
         \cup {[kind |-> k, op |-> "", l |-> "", r |-> "", i |-> i, j |-> 0] : k \in {"inc", "addk"}, i \in SuccOf}
         \cup {[kind |-> k, op |-> "", l |-> "", r |-> "", i |-> i + 1, j |-> 0] : k \in {"dec", "subk"}, i \in SuccOf}
Init == c \in Cases
Next == UNCHANGED c
Spec == Init /\ [][Next]_c

Expected(x) == CASE x.kind = "cmp"   -> [hit |-> IF Holds(x.op, x.i, x.j) THEN 1 ELSE 0, ga |-> Points[x.i].dec]
                 [] x.kind = "store" -> [hit |-> 0, ga |-> Points[x.i].dec]
                 [] x.kind \in {"inc", "addk"} -> [hit |-> 0, ga |-> Points[x.i + 1].dec]
                 [] OTHER            -> [hit |-> 0, ga |-> Points[x.i - 1].dec]

\* sanity of the table itself: a trichotomy that any total order satisfies (checked on every case)
Trichotomy == c.kind = "cmp" =>
                (IF Holds("<", c.i, c.j) THEN 1 ELSE 0) + (IF Holds("==", c.i, c.j) THEN 1 ELSE 0) + (IF Holds(">", c.i, c.j) THEN 1 ELSE 0) = 1
Emit == EmitCases => PrintT(<<"CASE", ToJson([kind |-> c.kind, op |-> c.op, l |-> c.l, r |-> c.r,
                                               a |-> Points[c.i].dec, b |-> IF c.j = 0 THEN "0" ELSE Points[c.j].dec,
                                               an |-> Points[c.i].name, bn |-> IF c.j = 0 THEN "" ELSE Points[c.j].name,
                                               want |-> Expected(c)])>>)
=============================================================================
