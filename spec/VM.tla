--------------------------------- MODULE VM ---------------------------------
(***************************************************************************)
(* internal/runtime/vm/vm.go : the bytecode interpreter, abstracted to     *)
(* what property C04 is about - the REPRESENTATION of the values on the    *)
(* operand stack, the program counter and the constant/metric/regexp       *)
(* indexes.  Data is abstract: a regular expression may or may not match,  *)
(* a string may or may not be convertible, a comparison may go either way; *)
(* so every path of a bytecode program is explored.                        *)
(*                                                                         *)
(* The model runs the REAL bytecode: the harness compiles each program     *)
(* with the real compiler and exports the object (opcode names, operand    *)
(* kinds, metric types, regexp group counts) as ndjson; this module loads  *)
(* it with ndJsonDeserialize.                                              *)
(*                                                                         *)
(* Outcomes of an instruction:                                             *)
(*   run    - next pc and stack                                            *)
(*   error  - one of the VM's explicit checked conditions (string->number  *)
(*            or time conversion, integer division by zero, shift/base out *)
(*            of range, capture of a pattern that did not match, missing   *)
(*            datum for a delayed delete): the line ends                   *)
(*   fault  - internal VM fault: pop from an empty stack, an operand whose *)
(*            Go representation the instruction's Pop does not accept,     *)
(*            jump outside the program, constant/regexp/metric index out   *)
(*            of range, datum of the wrong type (the datum getters panic)  *)
(* Property C04:  NoFault.                                                 *)
(*                                                                         *)
(* Two modes (constant Mode):                                              *)
(*  "explore" all paths of every program; each reachable fault is printed  *)
(*            as a CASE (program, pc, reason) - a CANDIDATE that the       *)
(*            harness must reproduce on the real VM before it counts;      *)
(*  "trace"   direction B: the pc sequences the real VM recorded for real  *)
(*            lines must be paths of this model (a stuck trace = deadlock) *)
(*            and must end the way the model allows.                       *)
(***************************************************************************)
EXTENDS Integers, Sequences, FiniteSets, Json, TLC

CONSTANTS Mode, ProgFile

Progs == ndJsonDeserialize(ProgFile)

T(t) == [t |-> t]
Dat(ty) == [t |-> "dat", ty |-> ty]
Met(i) == [t |-> "met", i |-> i]

VARIABLES p,      \* program index
          pc, stk,
          st,     \* "run" | "end" | "stop" | "error" | "fault"
          why,    \* reason of the fault
          li, k   \* trace mode: line index and position in its pc sequence
vars == <<p, pc, stk, st, why, li, k>>

P == Progs[p]
NInstr == Len(P.prog)

-----------------------------------------------------------------------------
(* what the VM's Pop helpers accept *)
IntOK(v)   == v.t \in {"i64", "int", "str"} \/ (v.t = "dat" /\ v.ty = "Int")           \* thread.PopInt (+ time.Time, never pushed)
FloatOK(v) == v.t \in {"f64", "int", "i64", "str"} \/ (v.t = "dat" /\ v.ty = "Float")  \* thread.PopFloat
StrOK(v)   == v.t \in {"str", "f64", "int", "i64"} \/ (v.t = "dat" /\ v.ty = "String") \* thread.PopString
MayFailConv(v) == v.t = "str"        \* a string operand can fail its conversion: checked error

Top(s, n) == s[Len(s) - n + 1]       \* n-th from the top, 1 = top
Drop(s, n) == SubSeq(s, 1, Len(s) - n)

Run(npc, s) == [st |-> "run", pc |-> npc, stk |-> s, why |-> ""]
Err(s)      == [st |-> "error", pc |-> pc, stk |-> s, why |-> ""]
Fault(w)    == [st |-> "fault", pc |-> pc, stk |-> stk, why |-> w]
Under(n)    == Len(stk) < n

\* pop n operands, each checked with ok(_); push result tags; conversions of strings may raise the checked error
PopPush(n, okIdx, res, extraErr) ==
  IF Under(n) THEN {Fault("stack underflow")}
  ELSE LET bad == {i \in 1..n : ~okIdx[i]} IN
       \* operands are popped and converted one at a time, top first: a checked conversion error of an operand popped
       \* BEFORE the ill-represented one ends the line first (`cf | td["foo"]` with td["foo"] = "")
       IF bad # {} THEN {Fault("operand " \o ToString(CHOOSE i \in bad : TRUE) \o " from top has representation " \o Top(stk, CHOOSE i \in bad : TRUE).t)}
                        \cup (IF \E i \in 1..n : i \notin bad /\ MayFailConv(Top(stk, i)) /\ \E j \in bad : i < j THEN {Err(Drop(stk, n))} ELSE {})
       ELSE {Run(pc + 1, Drop(stk, n) \o res)}
            \cup (IF extraErr \/ \E i \in 1..n : MayFailConv(Top(stk, i)) THEN {Err(Drop(stk, n))} ELSE {})

JumpOK(target) == target \in 0..NInstr

\* Dload / Del / Expire: metric on top, then n keys
KeysAndMetric(n, withDur, push, mayErr) ==
  IF Under(1) THEN {Fault("stack underflow")}
  ELSE IF Top(stk, 1).t # "met" THEN {Fault("expected a metric on the stack, found " \o Top(stk, 1).t)}
  ELSE LET m == Top(stk, 1).i
           need == 1 + n + (IF withDur THEN 1 ELSE 0) IN
       IF m < 0 \/ m >= Len(P.mets) THEN {Fault("metric index out of range")}
       ELSE IF Under(need) THEN {Fault("stack underflow")}
       ELSE IF \E i \in 2..(n + 1) : ~StrOK(Top(stk, i)) THEN {Fault("index key has representation that PopString rejects")}
       ELSE IF withDur /\ Top(stk, need).t # "dur" THEN {Fault("expected a duration under the keys")}
       ELSE IF n # P.mets[m + 1].nk THEN {Fault("number of keys differs from the metric's dimension")}
       ELSE {Run(pc + 1, Drop(stk, need) \o (IF push THEN <<Dat(P.mets[m + 1].ty)>> ELSE <<>>))}
            \cup (IF mayErr THEN {Err(Drop(stk, need))} ELSE {})

Outcomes ==
  LET I == P.prog[pc + 1]  op == I.op  a == I.ov IN
  CASE op = "stop" -> {[st |-> "stop", pc |-> pc, stk |-> stk, why |-> ""]}
    [] op = "match" -> IF a < 0 \/ a >= Len(P.re) THEN {Fault("regexp index out of range")} ELSE {Run(pc + 1, Append(stk, T("bool")))}
    [] op = "smatch" -> IF a < 0 \/ a >= Len(P.re) THEN {Fault("regexp index out of range")}
                        ELSE IF Under(1) THEN {Fault("stack underflow")} ELSE PopPush(1, <<StrOK(Top(stk, 1))>>, <<T("bool")>>, FALSE)
    [] op = "cmp" ->      \* generic compare(): numbers and strings in any mix; a non-numeric string vs a number is the checked error
         IF Under(2) THEN {Fault("stack underflow")}
         ELSE PopPush(2, <<Top(stk, 1).t \in {"i64", "int", "f64", "str"}, Top(stk, 2).t \in {"i64", "int", "f64", "str"}>>, <<T("bool")>>, FALSE)
    [] op = "icmp" -> IF Under(2) THEN {Fault("stack underflow")} ELSE PopPush(2, <<IntOK(Top(stk, 1)), IntOK(Top(stk, 2))>>, <<T("bool")>>, FALSE)
    [] op = "fcmp" -> IF Under(2) THEN {Fault("stack underflow")} ELSE PopPush(2, <<FloatOK(Top(stk, 1)), FloatOK(Top(stk, 2))>>, <<T("bool")>>, FALSE)
    [] op = "scmp" -> IF Under(2) THEN {Fault("stack underflow")} ELSE PopPush(2, <<StrOK(Top(stk, 1)), StrOK(Top(stk, 2))>>, <<T("bool")>>, FALSE)
    [] op \in {"jnm", "jm"} ->
         IF Under(1) THEN {Fault("stack underflow")}
         ELSE IF ~JumpOK(a) THEN {Fault("jump outside the program")}
         \* the type switch of Jnm/Jm has cases for bool and int64 only: any other representation (the Go int that
         \* len() pushes, a float, a string) takes neither - the jump is not taken and nothing is reported
         ELSE IF Top(stk, 1).t \notin {"bool", "i64"} THEN {Run(pc + 1, Drop(stk, 1))}
         ELSE {Run(pc + 1, Drop(stk, 1)), Run(a, Drop(stk, 1))}
    [] op = "jmp" -> IF ~JumpOK(a) THEN {Fault("jump outside the program")} ELSE {Run(a, stk)}
    [] op \in {"inc", "dec"} ->
         LET d == IF I.ok = "nil" THEN 0 ELSE 1 IN
         IF Under(d + 1) THEN {Fault("stack underflow")}
         ELSE IF d = 1 /\ ~IntOK(Top(stk, 1)) THEN {Fault("increment delta has representation " \o Top(stk, 1).t)}
         ELSE IF Top(stk, d + 1).t # "dat" \/ Top(stk, d + 1).ty # "Int" THEN {Fault("increment of something that is not an Int datum")}
         ELSE {Run(pc + 1, Drop(stk, d + 1) \o <<T("i64")>>)} \cup (IF d = 1 /\ MayFailConv(Top(stk, 1)) THEN {Err(Drop(stk, d + 1))} ELSE {})
    [] op \in {"iset", "fset", "sset"} ->
         IF Under(2) THEN {Fault("stack underflow")}
         ELSE LET v == Top(stk, 1)  d == Top(stk, 2)
                  vok == CASE op = "iset" -> IntOK(v) [] op = "fset" -> FloatOK(v) [] OTHER -> StrOK(v)
                  dok == d.t = "dat" /\ (CASE op = "iset" -> d.ty \in {"Int", "Buckets"} [] op = "fset" -> d.ty \in {"Float", "Buckets"} [] OTHER -> d.ty = "String")
              IN IF ~vok THEN {Fault(op \o " value has representation " \o v.t)}
                 ELSE IF ~dok THEN {Fault(op \o " target is not a datum of the matching type")}
                 ELSE {Run(pc + 1, Drop(stk, 2))} \cup (IF MayFailConv(v) /\ op # "sset" THEN {Err(Drop(stk, 2))} ELSE {})
    [] op = "strptime" ->       \* layout string, then the value: a string (or the legacy capref form)
         IF Under(2) THEN {Fault("stack underflow")}
         ELSE IF ~StrOK(Top(stk, 1)) THEN {Fault("strptime layout has representation " \o Top(stk, 1).t)}
         ELSE IF Top(stk, 2).t # "str" THEN {Fault("strptime value has representation " \o Top(stk, 2).t)}
         ELSE {Run(pc + 1, Drop(stk, 2)), Err(Drop(stk, 2))}
    [] op = "timestamp" -> {Run(pc + 1, Append(stk, T("i64")))}
    [] op = "settime" -> IF Under(1) THEN {Fault("stack underflow")} ELSE PopPush(1, <<IntOK(Top(stk, 1))>>, <<>>, FALSE)
    [] op = "push" -> IF I.ok \in {"i64", "int", "f64", "bool", "dur"} THEN {Run(pc + 1, Append(stk, T(I.ok)))} ELSE {Fault("push of an operand of kind " \o I.ok)}
    [] op = "capref" ->
         IF Under(1) THEN {Fault("stack underflow")}
         ELSE IF Top(stk, 1).t # "int" THEN {Fault("capref regexp index has representation " \o Top(stk, 1).t)}
         ELSE {Run(pc + 1, Drop(stk, 1) \o <<T("str")>>), Err(Drop(stk, 1))}        \* not enough groups matched: checked
    [] op = "str" -> IF a < 0 \/ a >= P.nstr THEN {Fault("string constant index out of range")} ELSE {Run(pc + 1, Append(stk, T("str")))}
    [] op \in {"fadd", "fsub", "fmul", "fdiv", "fmod", "fpow"} ->
         IF Under(2) THEN {Fault("stack underflow")} ELSE PopPush(2, <<FloatOK(Top(stk, 1)), FloatOK(Top(stk, 2))>>, <<T("f64")>>, FALSE)
    [] op \in {"iadd", "isub", "imul", "ipow", "and", "or", "xor"} ->
         IF Under(2) THEN {Fault("stack underflow")} ELSE PopPush(2, <<IntOK(Top(stk, 1)), IntOK(Top(stk, 2))>>, <<T("i64")>>, FALSE)
    [] op \in {"idiv", "imod", "shl", "shr"} ->          \* zero divisor / shift out of range: checked
         IF Under(2) THEN {Fault("stack underflow")} ELSE PopPush(2, <<IntOK(Top(stk, 1)), IntOK(Top(stk, 2))>>, <<T("i64")>>, TRUE)
    [] op = "neg" -> IF Under(1) THEN {Fault("stack underflow")} ELSE PopPush(1, <<IntOK(Top(stk, 1))>>, <<T("i64")>>, FALSE)
    [] op = "not" -> IF Under(1) THEN {Fault("stack underflow")} ELSE PopPush(1, <<Top(stk, 1).t = "bool">>, <<T("bool")>>, FALSE)
    [] op = "mload" -> IF a < 0 \/ a >= Len(P.mets) THEN {Fault("metric index out of range")} ELSE {Run(pc + 1, Append(stk, Met(a)))}
    [] op = "dload" -> KeysAndMetric(a, FALSE, TRUE, FALSE)
    [] op = "del" -> KeysAndMetric(a, FALSE, FALSE, FALSE)
    [] op = "expire" -> KeysAndMetric(a, TRUE, FALSE, TRUE)                         \* missing datum: checked
    [] op \in {"iget", "fget", "sget"} ->
         IF Under(1) THEN {Fault("stack underflow")}
         ELSE LET d == Top(stk, 1)  want == CASE op = "iget" -> "Int" [] op = "fget" -> "Float" [] OTHER -> "String" IN
              IF d.t # "dat" \/ d.ty # want THEN {Fault(op \o " on something that is not a " \o want \o " datum")}
              ELSE {Run(pc + 1, Drop(stk, 1) \o <<T(CASE op = "iget" -> "i64" [] op = "fget" -> "f64" [] OTHER -> "str")>>)}
    [] op = "tolower" -> IF Under(1) THEN {Fault("stack underflow")} ELSE PopPush(1, <<StrOK(Top(stk, 1))>>, <<T("str")>>, FALSE)
    [] op = "length" -> IF Under(1) THEN {Fault("stack underflow")} ELSE PopPush(1, <<StrOK(Top(stk, 1))>>, <<T("int")>>, FALSE)
    [] op = "s2i" ->
         IF I.ok = "nil" THEN (IF Under(1) THEN {Fault("stack underflow")}
                               ELSE IF ~StrOK(Top(stk, 1)) THEN {Fault("s2i operand has representation " \o Top(stk, 1).t)}
                               ELSE {Run(pc + 1, Drop(stk, 1) \o <<T("i64")>>), Err(Drop(stk, 1))})
         ELSE (IF Under(2) THEN {Fault("stack underflow")}
               ELSE IF ~IntOK(Top(stk, 1)) THEN {Fault("strtol base has representation " \o Top(stk, 1).t)}
               ELSE IF ~StrOK(Top(stk, 2)) THEN {Fault("strtol operand has representation " \o Top(stk, 2).t)}
               ELSE {Run(pc + 1, Drop(stk, 2) \o <<T("i64")>>), Err(Drop(stk, 2))})
    [] op = "s2f" -> IF Under(1) THEN {Fault("stack underflow")}
                     ELSE IF ~StrOK(Top(stk, 1)) THEN {Fault("s2f operand has representation " \o Top(stk, 1).t)}
                     ELSE {Run(pc + 1, Drop(stk, 1) \o <<T("f64")>>), Err(Drop(stk, 1))}
    [] op = "i2f" -> IF Under(1) THEN {Fault("stack underflow")} ELSE PopPush(1, <<IntOK(Top(stk, 1))>>, <<T("f64")>>, FALSE)
    [] op = "i2s" -> IF Under(1) THEN {Fault("stack underflow")} ELSE PopPush(1, <<IntOK(Top(stk, 1))>>, <<T("str")>>, FALSE)
    [] op = "f2s" -> IF Under(1) THEN {Fault("stack underflow")} ELSE PopPush(1, <<FloatOK(Top(stk, 1))>>, <<T("str")>>, FALSE)
    [] op = "setmatched" -> IF I.ok = "bool" THEN {Run(pc + 1, stk)} ELSE {Fault("setmatched operand is not a bool")}
    [] op = "otherwise" -> {Run(pc + 1, Append(stk, T("bool")))}
    [] op = "getfilename" -> {Run(pc + 1, Append(stk, T("str")))}
    [] op = "cat" -> IF Under(2) THEN {Fault("stack underflow")} ELSE PopPush(2, <<StrOK(Top(stk, 1)), StrOK(Top(stk, 2))>>, <<T("str")>>, FALSE)
    [] op = "subst" -> IF Under(3) THEN {Fault("stack underflow")}
                       ELSE PopPush(3, <<StrOK(Top(stk, 1)), StrOK(Top(stk, 2)), StrOK(Top(stk, 3))>>, <<T("str")>>, FALSE)
    [] op = "rsubst" ->
         IF Under(3) THEN {Fault("stack underflow")}
         ELSE IF Top(stk, 1).t # "int" THEN {Fault("rsubst regexp index has representation " \o Top(stk, 1).t)}
         ELSE PopPush(3, <<TRUE, StrOK(Top(stk, 2)), StrOK(Top(stk, 3))>>, <<T("str")>>, FALSE)
    [] OTHER -> {Fault("illegal instruction " \o op)}

-----------------------------------------------------------------------------
Init == /\ p \in 1..Len(Progs)
        /\ pc = 0 /\ stk = <<>> /\ st = "run" /\ why = ""
        /\ IF Mode = "trace" THEN li \in 1..Len(Progs[p].traces) /\ k = 1 ELSE li = 0 /\ k = 0

\* explore: every outcome
StepExplore ==
  /\ Mode = "explore" /\ st = "run"
  /\ IF pc >= NInstr THEN st' = "end" /\ UNCHANGED <<pc, stk, why>>
     ELSE \E o \in Outcomes : st' = o.st /\ pc' = o.pc /\ stk' = o.stk /\ why' = o.why
  /\ UNCHANGED <<p, li, k>>

\* trace: the real VM executed P.traces[li].pcs ; position k is the instruction about to run
Tr == P.traces[li]
StepTrace ==
  /\ Mode = "trace" /\ st = "run"
  /\ k <= Len(Tr.pcs) /\ pc = Tr.pcs[k]
  /\ pc < NInstr
  /\ \E o \in Outcomes :
        /\ IF k < Len(Tr.pcs)
           THEN o.st = "run" /\ o.pc = Tr.pcs[k + 1]                     \* the real VM went on to that pc
           ELSE \/ (o.st = "run" /\ o.pc >= NInstr /\ ~Tr.err)           \* fell off the end of the program
                \/ (o.st = "stop" /\ ~Tr.err)
                \/ (o.st = "error" /\ Tr.err /\ ~Tr.internal)           \* a checked runtime error ended the line
                \/ (o.st = "fault" /\ Tr.err /\ Tr.internal)            \* the real VM reported an internal fault here
        /\ st' = IF k < Len(Tr.pcs) THEN "run" ELSE "done"
        /\ pc' = o.pc /\ stk' = o.stk /\ why' = o.why
  /\ k' = k + 1
  /\ UNCHANGED <<p, li>>
\* an empty program or a finished trace idles (so that only a stuck trace is a deadlock)
Idle == /\ (st # "run" \/ (Mode = "trace" /\ Len(Tr.pcs) = 0)) /\ UNCHANGED vars

Next == StepExplore \/ StepTrace \/ Idle
Spec == Init /\ [][Next]_vars

-----------------------------------------------------------------------------
NoFault == st # "fault"
TypeOK == /\ pc \in 0..(NInstr + 1) /\ Len(stk) <= 64
\* explore mode: report every fault candidate instead of stopping at the first one
EmitFault == (Mode = "explore" /\ st = "fault") =>
               PrintT(<<"CASE", ToJson([id |-> P.id, pc |-> pc, op |-> P.prog[pc + 1].op, why |-> why, depth |-> Len(stk)])>>)
\* trace mode: a fault that the real VM really reported
EmitRealFault == (Mode = "trace" /\ st = "done" /\ why # "") =>
               PrintT(<<"CASE", ToJson([id |-> P.id, pc |-> pc, op |-> P.prog[pc + 1].op, why |-> why, line |-> li, real |-> TRUE])>>)
\* the explore state does not depend on how a fault state was reached
View == <<p, pc, stk, st, why, li, k>>
=============================================================================
