---------------------------- MODULE TraceCounters ----------------------------
(***************************************************************************)
(* Direction B for C25: validates recorded runs of the real code against   *)
(* Counters.tla.                                                           *)
(*                                                                         *)
(* Mode "driven": traces of the harness driver (internal/verif/c25), which *)
(* runs a real runtime.Runtime (lines offered directly) or a real          *)
(* mtail.Server over temp log files, and records                           *)
(*   - its own operations (the events themselves):                         *)
(*       h.write / h.offer (a line of a known kind), h.load.begin (program *)
(*       p rewritten with a source of kind k, stamp s) / h.load.end (error *)
(*       returned or not), h.end                                           *)
(*   - every verifhook event of the code (where the expvars are updated)   *)
(*   - h.obs: the expvar values read at quiescent points (deltas / unique  *)
(*       names, the expvars being process-global).                         *)
(* Every record must be the event of one action of Counters.tla (actions   *)
(* without a hook are silent); at h.obs the logged expvars must equal the  *)
(* specification's counters, and (Strict) CountersExact must hold in every *)
(* state.  Line texts are checked through the pipeline (what the reader    *)
(* counted is what the runtime received is what the VM processed).         *)
(*                                                                         *)
(* Mode "events": traces of the repository's own tests (hook events only,  *)
(* no expvar values): internal consistency of the line pipeline - a line   *)
(* received from a log was delivered by its stream before (FIFO), every    *)
(* rt.line.sent belongs to the line last received, a VM starts no more     *)
(* lines than were sent to it, the tailer forwards no more than was read.  *)
(*                                                                         *)
(* Many runs are validated by one TLC start: Init picks the segment.       *)
(***************************************************************************)
EXTENDS Counters, Json

CONSTANTS TraceFile, SegFile,
          Mode,           \* "driven" | "events"
          Strict,         \* TRUE: CountersExact is part of Good
          Guarded         \* TRUE: Good is a guard of the next-state relation; FALSE: list it as INVARIANT

Trace == TLCEval(ndJsonDeserialize(TraceFile))
Segs  == TLCEval(ndJsonDeserialize(SegFile))

VARIABLES seg, i,
          ftxt,     \* [Files -> Seq(text)] written, not yet read         (events: delivered by the stream, not yet received)
          ttxt,     \* [Files -> Seq(text)] read, not yet received
          itxt,     \* Seq(text) offered, not yet received
          cur,      \* text of the line the fan-out has in hand
          vmof,     \* [Progs -> vm identity of the running version] (0: none), pending identity at index 0 - see below
          pendvm,   \* vm identity announced by rt.load.registered, installed by rt.load.swapped
          nfwd,     \* [Files -> lines forwarded by the tailer]
          cnt       \* events mode: [lr, recv : Files -> Nat, sent, start : vm -> Nat]
tvars == <<seg, i, ftxt, ttxt, itxt, cur, vmof, pendvm, nfwd, cnt>>

InSeg == i <= Segs[seg].last
T == Trace[i]

EvNames(a) ==
  CASE a = "Write" -> {"h.write"}          [] a = "ReadCount" -> {"lr.line", "lr.finish"}
    [] a = "Offer" -> {"h.offer"}          [] a = "Recv" -> {"rt.line.recv"}
    [] a = "Deliver" -> {"vm.line.start"}  [] a = "VmError" -> {"vm.error"}
    [] a = "VmEnd" -> {"vm.line.end"}      [] a = "LdBegin" -> {"h.load.begin"}
    [] a = "LdUnchanged" -> {"rt.load.unchanged"}
    [] a = "LdCompileError" -> {"rt.load.compile_error"}
    [] a \in {"LdAdd", "LdAddRefused"} -> {"rt.load.add"}
    [] a = "LdCount" -> {"rt.load.registered"}
    [] a = "LdSwap" -> {"rt.load.swapped"} [] a = "LdRet" -> {"h.load.end"}
    [] a = "Unload" -> {"rt.unload"}
    [] OTHER -> {}                         \* LdOpen, LdHash, LdCompile, FanDone: no hook

Good == TypeOK /\ (Strict => CountersExact)

TInit == /\ Init
         /\ seg \in 1..Len(Segs) /\ i = Segs[seg].first
         /\ ftxt = [f \in Files |-> <<>>] /\ ttxt = [f \in Files |-> <<>>] /\ itxt = <<>>
         /\ cur = "" /\ vmof = [p \in Progs |-> 0] /\ pendvm = 0
         /\ nfwd = [f \in Files |-> 0]
         /\ cnt = [lr |-> [f \in Files |-> 0], recv |-> [f \in Files |-> 0], sent |-> << >>, start |-> << >>]

-----------------------------------------------------------------------------
(* driven mode *)
\* the record T is the event of the Counters action described by l (= last'), and the identities agree
Bind(l) ==
  /\ T.ev \in EvNames(l.a)
  /\ CASE l.a = "Write" ->
            /\ T.file = l.f /\ T.kind = l.x
            /\ ftxt' = [ftxt EXCEPT ![l.f] = Append(@, T.text)]
            /\ UNCHANGED <<ttxt, itxt, cur, vmof, pendvm>>
       [] l.a = "ReadCount" ->
            /\ T.file = l.f /\ ftxt[l.f] # <<>> /\ T.text = Head(ftxt[l.f])               \* the reader counts the line that was written
            /\ ftxt' = [ftxt EXCEPT ![l.f] = Tail(@)]
            /\ ttxt' = [ttxt EXCEPT ![l.f] = Append(@, T.text)]
            /\ UNCHANGED <<itxt, cur, vmof, pendvm>>
       [] l.a = "Offer" ->
            /\ T.kind = l.x /\ itxt' = Append(itxt, T.text)
            /\ UNCHANGED <<ftxt, ttxt, cur, vmof, pendvm>>
       [] l.a = "Recv" ->
            /\ T.file = l.f /\ T.nprogs = Cardinality(fan'.todo)       \* len(r.handles) under RLock
            /\ IF l.f = 0
               THEN itxt # <<>> /\ T.text = Head(itxt) /\ itxt' = Tail(itxt) /\ UNCHANGED ttxt
               ELSE ttxt[l.f] # <<>> /\ T.text = Head(ttxt[l.f]) /\ ttxt' = [ttxt EXCEPT ![l.f] = Tail(@)] /\ UNCHANGED itxt
            /\ cur' = T.text
            /\ UNCHANGED <<ftxt, vmof, pendvm>>
       [] l.a = "Deliver" ->
            /\ T.prog = l.p /\ T.vm = vmof[l.p] /\ T.text = cur         \* the running version gets the line in hand
            /\ UNCHANGED <<ftxt, ttxt, itxt, cur, vmof, pendvm>>
       [] l.a \in {"VmError", "VmEnd"} ->
            /\ T.prog = l.p /\ T.vm = vmof[l.p]
            /\ UNCHANGED <<ftxt, ttxt, itxt, cur, vmof, pendvm>>
       [] l.a = "LdBegin" ->
            /\ T.prog = l.p /\ T.kind = l.x /\ T.stamp = l.f
            /\ UNCHANGED <<ftxt, ttxt, itxt, cur, vmof, pendvm>>
       [] l.a \in {"LdAdd", "LdAddRefused"} ->
            /\ T.prog = l.p /\ (T.err = 1 <=> l.a = "LdAddRefused")
            /\ UNCHANGED <<ftxt, ttxt, itxt, cur, vmof, pendvm>>
       [] l.a = "LdCount" ->
            /\ T.prog = l.p /\ pendvm' = T.vm
            /\ UNCHANGED <<ftxt, ttxt, itxt, cur, vmof>>
       [] l.a = "LdSwap" ->
            /\ T.prog = l.p /\ T.vm = pendvm /\ vmof' = [vmof EXCEPT ![l.p] = pendvm]
            /\ UNCHANGED <<ftxt, ttxt, itxt, cur, pendvm>>
       [] l.a = "LdRet" ->
            /\ T.prog = l.p /\ (T.err = 1 <=> l.x = "error")              \* LoadProgram's outcome
            /\ UNCHANGED <<ftxt, ttxt, itxt, cur, vmof, pendvm>>
       [] l.a = "Unload" ->
            /\ T.prog = l.p /\ vmof' = [vmof EXCEPT ![l.p] = 0]
            /\ UNCHANGED <<ftxt, ttxt, itxt, cur, pendvm>>
       [] OTHER ->
            /\ T.prog = l.p
            /\ UNCHANGED <<ftxt, ttxt, itxt, cur, vmof, pendvm>>

\* the action of Counters.tla that the record announces, with the record's arguments
ActionOf(t) ==
  CASE t.ev = "h.write" -> t.file \in Files /\ t.kind \in LineKinds /\ Write(t.file, t.kind)
    [] t.ev = "h.offer" -> t.kind \in LineKinds /\ Offer(t.kind)
    [] t.ev \in {"lr.line", "lr.finish"} -> t.file \in Files /\ ReadCount(t.file)
    [] t.ev = "rt.line.recv" -> IF t.file \in Files THEN Recv(t.file) ELSE RecvDirect
    [] t.ev = "vm.line.start" -> t.prog \in Progs /\ Deliver(t.prog)
    [] t.ev = "vm.error" -> t.prog \in Progs /\ VmError(t.prog)
    [] t.ev = "vm.line.end" -> t.prog \in Progs /\ VmEnd(t.prog)
    [] t.ev = "h.load.begin" -> t.prog \in Progs /\ t.kind \in SrcKinds /\ LdBegin(t.prog, t.kind, t.stamp)
    [] t.ev = "rt.load.unchanged" -> LdHash
    [] t.ev = "rt.load.compile_error" -> LdCompile
    [] t.ev = "rt.load.add" -> LdAdd
    [] t.ev = "rt.load.registered" -> LdCount
    [] t.ev = "rt.load.swapped" -> LdSwap
    [] t.ev = "h.load.end" -> LdRet
    [] t.ev = "rt.unload" -> t.prog \in Progs /\ Unload(t.prog)
    [] OTHER -> FALSE
DEvent == /\ InSeg /\ ActionOf(T) /\ Bind(last')
          /\ i' = i + 1 /\ UNCHANGED <<seg, nfwd, cnt>>
\* code that runs between two hook points
DSilent == /\ (LdOpen \/ LdHash \/ LdCompile \/ FanDone) /\ EvNames(last'.a) = {}
           /\ UNCHANGED tvars
\* events without an action of their own
DFwd == /\ InSeg /\ T.ev = "tail.fwd" /\ T.file \in Files
        /\ nfwd' = [nfwd EXCEPT ![T.file] = @ + 1]
        /\ nfwd'[T.file] <= ctr.log_lines[T.file]                         \* never forwards more than was read
        /\ i' = i + 1 /\ UNCHANGED <<vars, seg, ftxt, ttxt, itxt, cur, vmof, pendvm, cnt>>
DSent == /\ InSeg /\ T.ev = "rt.line.sent"
         /\ T.text = cur /\ T.vm = vmof[T.prog]                          \* belongs to the line last received
         /\ i' = i + 1 /\ UNCHANGED <<vars, seg, ftxt, ttxt, itxt, cur, vmof, pendvm, nfwd, cnt>>
\* expvars read at a quiescent point
Obs == /\ T.lines_total = ctr.lines_total
       /\ \A p \in Progs : /\ T.loads[p] = ctr.loads[p] /\ T.unloads[p] = ctr.unloads[p]
                           /\ T.load_errors[p] = ctr.load_errors[p] /\ T.rt_errors[p] = ctr.rt_errors[p]
       /\ \A f \in Files : T.log_lines[f] = ctr.log_lines[f]
DObs == /\ InSeg /\ T.ev = "h.obs"
        /\ PipelineQuiet /\ ld.pc = "idle"
        /\ Obs
        /\ i' = i + 1 /\ UNCHANGED <<vars, seg, ftxt, ttxt, itxt, cur, vmof, pendvm, nfwd, cnt>>
DEnd == /\ InSeg /\ T.ev = "h.end"
        /\ PipelineQuiet /\ ld.pc = "idle" /\ inq = <<>>
        /\ \A f \in Files : fileq[f] = <<>> /\ nfwd[f] = hist.delivered[f]
        /\ i' = i + 1 /\ UNCHANGED <<vars, seg, ftxt, ttxt, itxt, cur, vmof, pendvm, nfwd, cnt>>
DrivenNext == (DEvent \/ DSilent \/ DFwd \/ DSent \/ DObs \/ DEnd) /\ (Guarded => Good')

-----------------------------------------------------------------------------
(* events mode: the repository's tests *)
Get(f, k) == IF k \in DOMAIN f THEN f[k] ELSE 0
Put(f, k, v) == [d \in DOMAIN f \cup {k} |-> IF d = k THEN v ELSE f[d]]
EKeep == UNCHANGED <<vars, seg, ttxt, itxt, vmof, pendvm>>
ENext ==
  /\ InSeg /\ i' = i + 1
  /\ CASE T.ev \in {"lr.line", "lr.finish"} ->
            /\ ftxt' = [ftxt EXCEPT ![T.file] = Append(@, T.text)]
            /\ cnt' = [cnt EXCEPT !.lr[T.file] = @ + 1]
            /\ UNCHANGED <<cur, nfwd>> /\ EKeep
       [] T.ev = "rt.line.recv" ->
            \* a line that comes from a tailed log was delivered by its stream, in order
            /\ IF T.file \in Files /\ cnt.lr[T.file] > 0
               THEN /\ ftxt[T.file] # <<>> /\ Head(ftxt[T.file]) = T.text
                    /\ ftxt' = [ftxt EXCEPT ![T.file] = Tail(@)]
                    /\ cnt' = [cnt EXCEPT !.recv[T.file] = @ + 1]
               ELSE UNCHANGED <<ftxt, cnt>>
            /\ cur' = T.text
            /\ UNCHANGED nfwd /\ EKeep
       [] T.ev = "tail.fwd" ->
            /\ nfwd' = [nfwd EXCEPT ![T.file] = @ + 1]
            /\ nfwd'[T.file] <= cnt.lr[T.file]
            /\ UNCHANGED <<ftxt, cur, cnt>> /\ EKeep
       [] T.ev = "rt.line.sent" ->
            /\ T.text = cur
            /\ cnt' = [cnt EXCEPT !.sent = Put(@, T.vm, Get(@, T.vm) + 1)]
            /\ UNCHANGED <<ftxt, cur, nfwd>> /\ EKeep
       [] T.ev = "vm.line.start" ->
            \* the hand-over precedes both hook points: at most one start ahead of its sent
            /\ Get(cnt.start, T.vm) <= Get(cnt.sent, T.vm)
            /\ cnt' = [cnt EXCEPT !.start = Put(@, T.vm, Get(@, T.vm) + 1)]
            /\ UNCHANGED <<ftxt, cur, nfwd>> /\ EKeep
       [] OTHER -> UNCHANGED <<ftxt, cur, nfwd, cnt>> /\ EKeep

TraceNext == IF Mode = "driven" THEN DrivenNext ELSE ENext
TraceSpec == TInit /\ [][TraceNext]_<<vars, tvars>>

Reached == (i = Segs[seg].last + 1) => PrintT(<<"CASE", ToJson([accept |-> seg])>>)
\* diagnosis of a single rejected segment: how far does any behaviour get
Progress == PrintT(<<"CASE", ToJson([at |-> i])>>)
TView == <<View, tvars>>
=============================================================================
