------------------------------- MODULE Waker -------------------------------
(***************************************************************************)
(* internal/waker/testwaker.go - the barrier every replay engine of this   *)
(* tree drives the stream goroutines with (C16-C19, C25): it is part of    *)
(* the trusted base, and a small concurrent algorithm in its own right.    *)
(*                                                                         *)
(*   Wake()    (a "wakee", e.g. a log stream's goroutine)                  *)
(*       mu.Lock; w = t.wake; mu.Unlock; go helper(); return w             *)
(*   helper    wakeeDone <- ; <-waiting ; wakeeReady <-        (unbuffered)*)
(*   NewTest   go { for wait0 times: <-wakeeDone } ; close(initDone)       *)
(*   awaken(wake, wait)                                                    *)
(*       <-initDone                                                        *)
(*       for wake times: waiting <-                                        *)
(*       for wake times: <-wakeeReady                                      *)
(*       mu.Lock; close(t.wake); t.wake = make(chan); mu.Unlock  (bcast)   *)
(*       for wait times: <-wakeeDone                                       *)
(*                                                                         *)
(* One action per channel rendezvous (sender and receiver move together)   *)
(* and per critical section.  A wakee follows the discipline of the stream *)
(* goroutines: call Wake(), block on the returned channel until it is      *)
(* closed, do some work, call Wake() again - or exit instead.              *)
(*                                                                         *)
(* The test (the replay engine) follows the discipline the engines state   *)
(* as an assumption: awaken(wake, wait) is called with wake = the number   *)
(* of wakees parked in Wake() and wait = the number of them that will park *)
(* again (the others exit).  DisciplineOff drops that assumption and TLC   *)
(* shows what then goes wrong (a lost wake-up: a wakee parked on a channel *)
(* that is never closed, or a stale helper counted for a wakee that left). *)
(***************************************************************************)
EXTENDS Integers, Sequences, FiniteSets, TLC

CONSTANTS Wakees,        \* e.g. {1, 2, 3}
          MaxCycles,     \* awaken calls per behaviour
          DisciplineOff  \* TRUE: awaken may be called with any wake <= parked helpers, any wait

VARIABLES wpc,      \* wakee: "call" (about to call Wake) | "parked" (selecting on its channel) | "work" | "exited"
          hold,     \* wakee: generation of the channel its last Wake() returned
          leaving,  \* wakee: will exit instead of parking again after the next wake-up (prophecy, chosen at the wake-up)
          helpers,  \* bag of helper goroutines: sequence of [w, pc], pc in "done" | "wait" | "ready" | "end"
          gen,      \* generation of t.wake
          closed,   \* closed generations
          tpc,      \* test: "init" | "idle" | "send" | "recv" | "bcast" | "after" | "stop"
          n,        \* test: loop counter of the running loop
          wake, wait,   \* arguments of the running awaken call
          cycles
vars == <<wpc, hold, leaving, helpers, gen, closed, tpc, n, wake, wait, cycles>>

Parked == {w \in Wakees : wpc[w] = "parked"}
HelperIdx(pc) == {i \in 1..Len(helpers) : helpers[i].pc = pc}
SetPc(i, pc) == [helpers EXCEPT ![i].pc = pc]

Init == /\ wpc = [w \in Wakees |-> "call"] /\ hold = [w \in Wakees |-> 0] /\ leaving = [w \in Wakees |-> FALSE]
        /\ helpers = <<>> /\ gen = 1 /\ closed = {}
        /\ tpc = "init" /\ n = Cardinality(Wakees)          \* NewTest(ctx, wait0 = number of wakees, name)
        /\ wake = 0 /\ wait = 0 /\ cycles = 0

-----------------------------------------------------------------------------
(* wakees *)
\* w := Wake(): read t.wake under mu, start the helper
Call(w) == /\ wpc[w] = "call"
           /\ hold' = [hold EXCEPT ![w] = gen]
           /\ helpers' = Append(helpers, [w |-> w, pc |-> "done"])
           /\ wpc' = [wpc EXCEPT ![w] = "parked"]
           /\ UNCHANGED <<leaving, gen, closed, tpc, n, wake, wait, cycles>>
\* <-w returns: the channel was closed
Woken(w) == /\ wpc[w] = "parked" /\ hold[w] \in closed
            /\ wpc' = [wpc EXCEPT ![w] = "work"]
            /\ UNCHANGED <<hold, leaving, helpers, gen, closed, tpc, n, wake, wait, cycles>>
\* the work of one wake-up is done: park again, or leave (the stream ended)
Again(w) == /\ wpc[w] = "work"
            /\ wpc' = [wpc EXCEPT ![w] = IF leaving[w] THEN "exited" ELSE "call"]
            /\ UNCHANGED <<hold, leaving, helpers, gen, closed, tpc, n, wake, wait, cycles>>

-----------------------------------------------------------------------------
(* channel rendezvous between a helper and the test *)
\* wakeeDone <- struct{}{}  /  <-t.wakeeDone   (init loop, or the loop after the broadcast)
DoneRendezvous(i) ==
  /\ helpers[i].pc = "done" /\ tpc \in {"init", "after"} /\ n > 0
  /\ helpers' = SetPc(i, "wait")
  /\ n' = n - 1
  /\ tpc' = (IF n = 1 THEN "idle" ELSE tpc)
  /\ UNCHANGED <<wpc, hold, leaving, gen, closed, wake, wait, cycles>>
\* t.waiting <- struct{}{}  /  <-t.waiting
WaitingRendezvous(i) ==
  /\ helpers[i].pc = "wait" /\ tpc = "send" /\ n > 0
  /\ helpers' = SetPc(i, "ready")
  /\ n' = (IF n = 1 THEN wake ELSE n - 1)
  /\ tpc' = (IF n = 1 THEN "recv" ELSE tpc)
  /\ UNCHANGED <<wpc, hold, leaving, gen, closed, wake, wait, cycles>>
\* wakeeReady <- struct{}{}  /  <-t.wakeeReady
ReadyRendezvous(i) ==
  /\ helpers[i].pc = "ready" /\ tpc = "recv" /\ n > 0
  /\ helpers' = SetPc(i, "end")
  /\ n' = n - 1
  /\ tpc' = (IF n = 1 THEN "bcast" ELSE tpc)
  /\ UNCHANGED <<wpc, hold, leaving, gen, closed, wake, wait, cycles>>

-----------------------------------------------------------------------------
(* the test *)
\* awaken(k, m): the replay engines pass k = wakees parked in Wake(), m = those of them that will park again
Awaken(k, m, leave) ==
  /\ tpc = "idle" /\ cycles < MaxCycles
  /\ IF DisciplineOff
     THEN k \in 1..Cardinality(HelperIdx("wait")) /\ m \in 0..Cardinality(Wakees) /\ leave = {}
     ELSE /\ \A w \in Wakees : wpc[w] \in {"parked", "exited"}            \* every live wakee is parked ...
          /\ Cardinality(HelperIdx("wait")) = Cardinality(Parked)        \* ... and its helper has reported it
          /\ k = Cardinality(Parked) /\ k > 0
          /\ leave \subseteq Parked /\ m = k - Cardinality(leave)
  /\ leaving' = [w \in Wakees |-> w \in leave]
  /\ wake' = k /\ wait' = m /\ n' = k /\ tpc' = "send" /\ cycles' = cycles + 1
  /\ UNCHANGED <<wpc, hold, helpers, gen, closed>>
\* broadcastWakeAndReset
Broadcast == /\ tpc = "bcast"
             /\ closed' = closed \cup {gen} /\ gen' = gen + 1
             /\ tpc' = (IF wait = 0 THEN "idle" ELSE "after") /\ n' = wait
             /\ UNCHANGED <<wpc, hold, leaving, helpers, wake, wait, cycles>>

Next == \/ \E w \in Wakees : Call(w) \/ Woken(w) \/ Again(w)
        \/ \E i \in 1..Len(helpers) : DoneRendezvous(i) \/ WaitingRendezvous(i) \/ ReadyRendezvous(i)
        \/ \E k \in 1..Cardinality(Wakees), m \in 0..Cardinality(Wakees), lv \in SUBSET Wakees : Awaken(k, m, lv)
        \/ Broadcast
        \/ (tpc = "idle" /\ (cycles = MaxCycles \/ \A w \in Wakees : wpc[w] = "exited") /\ UNCHANGED vars)   \* the test is over
Spec == Init /\ [][Next]_vars /\ WF_vars(Next)

-----------------------------------------------------------------------------
(* properties *)
TypeOK == /\ \A w \in Wakees : wpc[w] \in {"call", "parked", "work", "exited"}
          /\ tpc \in {"init", "idle", "send", "recv", "bcast", "after"}
          /\ n >= 0 /\ gen \notin closed

\* no lost wake-up: a wakee is never parked on a channel of an OLDER generation that is still open - such a
\* channel is never closed again (broadcast closes the current one only)
NoLostWakeup == \A w \in Wakees : wpc[w] = "parked" => (hold[w] \in closed \/ hold[w] = gen)

\* what the replay engines rely on when awaken returns: the wakees that did not leave are parked again, ON THE
\* CURRENT channel, and their helpers are through `wakeeDone` (so the next awaken finds them)
Settled == (tpc = "idle" /\ cycles > 0 /\ ~DisciplineOff) =>
             LET stay == {w \in Wakees : ~leaving[w] /\ wpc[w] # "exited"} IN
             /\ \A w \in stay : wpc[w] = "parked" /\ hold[w] = gen
             /\ Cardinality(HelperIdx("wait")) = Cardinality(stay)
             /\ HelperIdx("done") = {} /\ HelperIdx("ready") = {}
             \* (a wakee that leaves may still be on its way out: the engines wait for its end by other means)

\* the broadcast wakes exactly the wakees that were counted: all of them hold the generation being closed
BroadcastReachesAll == (tpc = "bcast" /\ ~DisciplineOff) => \A w \in Parked : hold[w] = gen

\* under the discipline every awaken call returns (checked as: no deadlock, and the liveness property below)
AwakenReturns == (tpc # "idle") ~> (tpc = "idle")
=============================================================================
