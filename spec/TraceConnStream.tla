-------------------------- MODULE TraceConnStream --------------------------
(***************************************************************************)
(* Direction B for C17: validates event traces recorded by the harness     *)
(* (internal/verif/c17) around REAL fifo / unix / tcp / unixgram / udp /   *)
(* stdin log streams against ConnStream.tla.                               *)
(*                                                                         *)
(* The file holds many traces; each starts with a "reset" record carrying  *)
(* the stream configuration and ends with "end".  Every reset record is an *)
(* initial state, so one TLC run validates all traces independently.       *)
(* Harness events (ordered by one mutex-protected counter per trace):      *)
(*   open w / opened w / openfail w   before / after open(2), connect(2)   *)
(*   write w b / written w / writefail w   before / after write(2)         *)
(*   close w (before close(2)), cancel (before cancel())                   *)
(*   line b (after the receive from Lines()), chanclosed (after Lines()    *)
(*   was seen closed), wgdone (after wg.Wait()), stall what (a deadline    *)
(*   expired: nothing happened for >= 10 s), panic (the process died with  *)
(*   "send on closed channel" in this stream), end.                        *)
(* Kernel and goroutine steps are not observable: they are the silent      *)
(* K*/S* actions of ConnStream, taken only when the NEXT event can need    *)
(* them (the guards below keep TLC's search small; each is a step that     *)
(* commutes with every event it is delayed past).  Reads are inferred      *)
(* minimally: just enough bytes to complete the line that was observed.    *)
(* A trace is accepted iff some interleaving of silent steps consumes all  *)
(* its events: TEnd prints ACCEPT; per-trace high-water marks (TLCSet      *)
(* registers, -workers 1) tell which event could not be explained.         *)
(***************************************************************************)
EXTENDS ConnStream, Json

CONSTANT TraceFile
Trace == ndJsonDeserialize(TraceFile)

VARIABLES l,   \* index of the next event to explain
          tr   \* id of the trace being validated
tvars == <<vars, l, tr>>

N == Len(Trace)
Starts == {i \in 1..N : Trace[i].ev = "reset"}
CfgOf(r) == [kind |-> r.kind, oneShot |-> r.oneshot, lossy |-> r.lossy, nw |-> r.nw]

TInit == \E i \in Starts : /\ InitWith(CfgOf(Trace[i]))
                           /\ l = i + 1 /\ tr = Trace[i].id
                           /\ TLCSet(Trace[i].id, i + 1)

Ev     == Trace[l]
NextEv == IF l <= N THEN Trace[l].ev ELSE "eof"
Is(e)  == NextEv = e
Consume == /\ l' = l + 1 /\ tr' = tr
           /\ TLCSet(tr, IF TLCGet(tr) < l + 1 THEN l + 1 ELSE TLCGet(tr))
Silent  == l' = l /\ tr' = tr

\* the next event can only be explained after goroutines of the stream have wound down
Winding == NextEv \in {"chanclosed", "wgdone", "stall", "panic", "openfail", "writefail"}
FirstOwner == IF Ev.b = <<>> THEN 0 ELSE Owner(Ev.b[1])
\* for a stream socket only the connection that owns the observed line matters
ForLine(c) == Is("line") /\ (Sock /\ Ev.b # <<>> /\ ~MUT_SharedReader => c = FirstOwner)

(* environment events *)
TOpen      == Is("open") /\ EOpen(Ev.w) /\ Consume
TOpened    == Is("opened") /\ wst[Ev.w] = "open" /\ UNCHANGED vars /\ Consume
TOpenFail  == Is("openfail") /\ EOpenFail(Ev.w) /\ Consume
TWrite     == Is("write") /\ EWrite(Ev.w, Ev.b) /\ Consume
TWritten   == Is("written") /\ wst[Ev.w] = "open" /\ ~inflight[Ev.w].on /\ UNCHANGED vars /\ Consume
TWriteFail == Is("writefail") /\ EWriteFail(Ev.w) /\ Consume
TClose     == Is("close") /\ EClose(Ev.w) /\ Consume
TCancel    == Is("cancel") /\ ECancel /\ Consume

(* observable steps of the stream *)
TLine == /\ Is("line")
         /\ \E c \in Chans : SSend(c) \/ \E key \in Keys : SFinishSend(c, key)
         /\ out'[Len(out')].line = Ev.b
         /\ ~panic'
         /\ Consume
TChanClosed == /\ Is("chanclosed")
               /\ SCloseChan \/ (~Sock /\ SExit(0))
               /\ Consume
\* wg.Wait() returned: the goroutines registered with the caller's WaitGroup have exited
TWgDone == /\ Is("wgdone")
           /\ IF Sock THEN acc.pc = "done" /\ closer = "done" ELSE h[0].pc = "done"
           /\ UNCHANGED vars /\ Consume
TPanic == /\ Is("panic") /\ chanClosed
          /\ \E c \in Chans : SSend(c) \/ \E key \in Keys : SFinishSend(c, key)
          /\ Consume
\* the harness waited >= 10 s for `what` ("closed": Lines() to close after cancel / after the pipe's
\* writers closed; "lines": the lines still owed; "wg": wg.Wait()) - acceptable only if the model is stuck too
TStall == /\ Is("stall")
          /\ ~ENABLED (KernelNext \/ StreamNext)
          /\ Ev.what = "closed" => ~chanClosed
          /\ UNCHANGED vars /\ Consume
TEnd == /\ Is("end") /\ UNCHANGED vars /\ Consume
        /\ PrintT(<<"CASE", ToJson([accept |-> tr])>>)

(* silent steps, enabled only when the next event can need them *)
TSilent ==
  /\ Silent
  /\ \/ \E w \in Writers : KOpenLand(w) /\ ((Is("opened") /\ Ev.w = w) \/ Winding)
     \/ \E w \in Writers : KLand(w) /\ ((Is("written") /\ (Ev.w = w \/ ~Sock)) \/ ForLine(w) \/ Is("stall"))
     \/ \E w \in Writers : KDrop(w) /\ Is("written") /\ Ev.w = w
     \/ \E w \in Writers : SAccept(w) /\ (ForLine(w) \/ (Is("line") /\ cfg.oneShot) \/ Winding)
     \/ SAdd /\ (Is("line") \/ Winding)
     \/ (SAcceptFail \/ SCloserStart \/ SCloserListener \/ SCloserWait) /\ Winding
     \/ (SReadDgram \/ SReadZeroDgram) /\ (Is("line") \/ Winding)
     \/ \E c \in Chans :
          \/ (SDeadline(c) \/ SReadEof(c) \/ SReadTimeout(c) \/ SCloseFd(c)) /\ (ForLine(c) \/ Winding)
          \/ SSendNone(c)
          \/ SExit(c) /\ Sock /\ Winding
          \/ \E k \in 1..Len(q[c]) :
               /\ SRead(c, k)
               /\ \/ Is("stall") /\ k = Len(q[c])
                  \/ /\ ForLine(c)
                     /\ LET nb == buf[h[c].key] \o SubSeq(q[c], 1, k) IN nb = Ev.b \/ nb = Ev.b \o <<LF>>

TNext == TOpen \/ TOpened \/ TOpenFail \/ TWrite \/ TWritten \/ TWriteFail \/ TClose \/ TCancel
         \/ TLine \/ TChanClosed \/ TWgDone \/ TPanic \/ TStall \/ TEnd \/ TSilent
TSpec == TInit /\ [][TNext]_tvars

\* every ConnStream invariant is evaluated on every state of every real execution
TSafety == panic \/ Safety

\* POSTCONDITION: report the high-water mark of every trace
Post == \A i \in Starts : PrintT(<<"CASE", ToJson([tr |-> Trace[i].id, hw |-> TLCGet(Trace[i].id)])>>)
=============================================================================
