-------------------------- MODULE TraceConnStream --------------------------
(***************************************************************************)
(* Direction B for C17: validates event traces recorded by the harness     *)
(* (internal/verif/c17) around REAL fifo / unix / tcp / unixgram / udp /   *)
(* stdin log streams against ConnStream.tla.                               *)
(*                                                                         *)
(* The file holds many traces; each starts with a "reset" record carrying  *)
(* the stream configuration and ends with "end".  Every reset record is an *)
(* initial state, so one TLC run validates all traces independently.       *)
(* Harness events (ordered by one mutex-protected counter per trace):      *)
(*   open w / opened w / openfail w   before / after open(2), connect(2)   *)
(*   write w b / written w / writefail w   before / after write(2)         *)
(*   close w (before close(2)), cancel (before cancel())                   *)
(*   line b (after the receive from Lines()), chanclosed (after Lines()    *)
(*   was seen closed), wgdone (after wg.Wait()), stall what (a deadline    *)
(*   expired: nothing happened for >= 10 s), panic (the process died with  *)
(*   "send on closed channel" in this stream), end.                        *)
(* Kernel and goroutine steps are not observable: they are the silent      *)
(* K*/S* actions of ConnStream, taken only when the NEXT event can need    *)
(* them (the guards below keep TLC's search small; each is a step that     *)
(* commutes with every event it is delayed past).  Reads are inferred      *)
(* minimally: just enough bytes to complete the next line that was seen.   *)
(* An event that announces a call is logged before the call, so the model  *)
(* lets its effect start at the log point (never later than reality); an   *)
(* observation is logged after the fact, so the fact is a silent step at   *)
(* or before the log point.                                                *)
(* A trace is accepted iff some interleaving of silent steps consumes all  *)
(* its events: TEnd prints ACCEPT; per-trace high-water marks (TLCSet      *)
(* registers, -workers 1) tell which event could not be explained.         *)
(***************************************************************************)
EXTENDS ConnStream, Json

CONSTANTS TraceFile,
          Relaxed    \* TRUE: silent steps may be taken before ANY event (slow, complete by construction); the
                     \* check re-validates with it every trace that the pruned search (FALSE) could not explain
Trace == ndJsonDeserialize(TraceFile)

VARIABLES l,   \* index of the next event to explain
          tr   \* index of the "reset" record of the trace being validated
tvars == <<vars, l, tr>>

N == Len(Trace)
Starts == {i \in 1..N : Trace[i].ev = "reset"}
CfgOf(r) == [kind |-> r.kind, oneShot |-> r.oneshot, lossy |-> r.lossy, nw |-> r.nw]
Id == Trace[tr].id

TInit == \E i \in Starts : /\ InitWith(CfgOf(Trace[i]))
                           /\ l = i + 1 /\ tr = i
                           /\ TLCSet(Trace[i].id, i + 1)

Ev     == Trace[l]
NextEv == IF l <= N THEN Trace[l].ev ELSE "eof"
Is(e)  == NextEv = e
Consume == /\ l' = l + 1 /\ tr' = tr
           /\ TLCSet(Id, IF TLCGet(Id) < l + 1 THEN l + 1 ELSE TLCGet(Id))
Silent  == l' = l /\ tr' = tr

(* The consumer logs "line" AFTER it received the line, so the send itself happened at some earlier  *)
(* point: sends are silent steps.  The reset record carries, as a prophecy, all the lines this trace *)
(* observed in order (`lines`); a silent send must produce exactly the next one, and the k-th "line" *)
(* event then only asserts that the k-th send has happened.                                          *)
AllLines == Trace[tr].lines
NSent    == Len(out)
NextText == AllLines[NSent + 1]
Mine(c, t) == IF ~Sock \/ MUT_SharedReader \/ t = <<>> THEN TRUE ELSE Owner(t[1]) = c   \* (IF: actions explore both disjuncts)
LastOwned(c) == LET js == {j \in 1..Len(AllLines) : Mine(c, AllLines[j])} IN
                IF js = {} THEN 0 ELSE CHOOSE j \in js : \A j2 \in js : j2 <= j
\* events that can only be explained after the whole stream has wound down / by trying everything
Terminal  == NextEv \in {"chanclosed", "wgdone", "stall", "panic"}
AllSilent == NextEv \in {"stall", "panic"}
\* sends up to this ordinal may be needed before the next event can be explained: the observed line itself;
\* everything, before the stream winds down; and everything before an event after which a silent step would
\* behave differently (a datagram reader treats a zero-length datagram differently once cancelled; a pipe's
\* reader cannot see EOF any more once another writer has opened it)
Target == IF Is("line") THEN Ev.k
          ELSE IF Terminal THEN Len(AllLines)
          ELSE IF Is("writefail") \/ (Is("openfail") /\ ~Sock)
               THEN (IF Sock THEN LastOwned(Ev.w) ELSE Len(AllLines))
          ELSE IF (Dgram /\ Is("cancel")) \/ (Fifo /\ Is("opened")) THEN Len(AllLines)
          ELSE 0
MaySend     == (Relaxed \/ NSent < Target) /\ NSent < Len(AllLines)
SendTurn(c) == MaySend /\ Mine(c, NextText)
\* the next event's precondition depends on handler c having progressed (EOF / timeout / close / exit)
NeedHandler(c) == \/ Relaxed
                  \/ SendTurn(c)
                  \/ (Is("writefail") /\ (~Sock \/ c = Ev.w))    \* EPIPE/ECONNRESET: that read side is gone
                  \/ (Is("openfail") /\ ~Sock)                   \* ENXIO: the pipe's reader is gone
                  \/ (Is("opened") /\ Fifo)                      \* EOF may have been seen just before this open
                  \/ Terminal
\* ... on the closer goroutine having closed the listener / the channel
NeedCloser == Relaxed \/ Terminal \/ (Sock /\ (Is("openfail") \/ (Is("writefail") /\ h[Ev.w].pc = "none")))
\* ... on connection w having been accepted
\*     (closing the listener discards the backlog, so whatever may close it may be preceded by accepts)
NeedConn(w) == Sock /\ (SendTurn(w) \/ (MaySend /\ cfg.oneShot) \/ AllSilent \/ NeedCloser)
\* prophecies from the reset record: which writers' open/connect will be seen to succeed ("opens"), and
\* whether connection w still has lines to come
WillOpen(w)  == \E i \in 1..Len(Trace[tr].opens) : Trace[tr].opens[i] = w
HasFuture(w) == LastOwned(w) > NSent
\* an open that will be reported successful must take effect before the listener / the pipe's read end is closed
OpensPending == \E w \in Writers : wst[w] \in {"idle", "opening"} /\ WillOpen(w)
LandTurn(w)  == WillOpen(w) /\ \A w2 \in Writers : (w2 < w /\ wst[w2] = "opening") => ~WillOpen(w2)
\* connections worth accepting before the listener closes: those with lines to come, or any if a first
\* connection is still needed (`started`) or the accept/close race is being explained
Eligible(w)  == HasFuture(w) \/ ~started \/ DEV_HandlerAddedAfterWait \/ (Is("writefail") /\ Ev.w = w)
AcceptTurn(w) == cfg.oneShot \/ SendTurn(w) \/ \A w2 \in pend : w2 < w => ~Eligible(w2)
\* steps local to one handler commute with the local steps of every other handler: lowest handler first
LocalPossible(c) == CanDeadline(c) \/ CanEof(c) \/ CanTimeout(c) \/ h[c].pc = "fin" \/ (Sock /\ CanExit(c))
MyTurn(c) == Relaxed \/ SendTurn(c) \/ \A c2 \in Chans : c2 < c => ~(NeedHandler(c2) /\ LocalPossible(c2))

\* every datagram read ends up in some later line: what is in the buffer after the read must start one
DgramCompat(nb) ==
  \E j \in (NSent + 1)..Len(AllLines) :
     /\ DEV_DgramSharedBuffer => j = NSent + 1
     /\ IF HasLF(nb) THEN AllLines[j] = SubSeq(nb, 1, FirstLF(nb) - 1) ELSE IsPrefixOf(nb, AllLines[j])
DropHead == /\ cfg.lossy /\ Dgram /\ q[0] # <<>> /\ h[0].pc = "read" /\ NeedHandler(0)
            /\ q' = [q EXCEPT ![0] = Tail(@)] /\ dropped' = TRUE
            \* as if KDrop had taken it on arrival: it never "landed"
            /\ LET i == Len(landed[0]) - Len(q[0]) + 1 IN
                 landed' = [landed EXCEPT ![0] = SubSeq(@, 1, i - 1) \o SubSeq(@, i + 1, Len(@))]
            /\ UNCHANGED <<cfg, wst, nwr, inflight, lis, pend, acc, closer, started, connWg, h, buf, dl,
                           cancelled, out, chanClosed, panic, wr, rd, zeroRead>>

(* environment events *)
TOpen      == Is("open") /\ EOpen(Ev.w) /\ Consume
TOpened    == Is("opened") /\ wst[Ev.w] = "open" /\ UNCHANGED vars /\ Consume
TOpenFail  == Is("openfail") /\ EOpenFail(Ev.w) /\ Consume
TWrite     == Is("write") /\ EWrite(Ev.w, Ev.b) /\ Consume
TWritten   == Is("written") /\ wst[Ev.w] = "open" /\ ~inflight[Ev.w].on /\ UNCHANGED vars /\ Consume
TWriteFail == Is("writefail") /\ EWriteFail(Ev.w) /\ Consume
TClose     == Is("close") /\ EClose(Ev.w) /\ Consume
TCancel    == Is("cancel") /\ ECancel /\ Consume

(* observations of the stream *)
\* the k-th line was received (and sent before that); the one consumer sees the close after every line
TLine == /\ Is("line") /\ NSent >= Ev.k /\ out[Ev.k].line = Ev.b /\ ~chanClosed
         /\ UNCHANGED vars /\ Consume
TChanClosed == /\ Is("chanclosed") /\ NSent = Len(AllLines)
               /\ SCloseChan \/ SAccClose \/ (~Sock /\ SExit(0))
               /\ Consume
\* wg.Wait() returned: the goroutines registered with the caller's WaitGroup have exited
TWgDone == /\ Is("wgdone")
           /\ IF Sock THEN acc.pc = "done" /\ closer = "done" ELSE h[0].pc = "done"
           /\ UNCHANGED vars /\ Consume
\* the process died with "send on closed channel" inside this stream
TPanic == /\ Is("panic") /\ chanClosed
          /\ \E c \in Chans : SSend(c) \/ \E key \in Keys : SFinishSend(c, key)
          /\ Consume
\* the harness waited >= 10 s for `what` ("closed": Lines() to close after cancel / after the pipe's
\* writers closed; "lines": the lines still owed; "wg": wg.Wait()) - acceptable only if the model is stuck too
TStall == /\ Is("stall")
          /\ ~ENABLED (KernelNext \/ StreamNext)
          /\ Ev.what = "closed" => ~chanClosed
          /\ UNCHANGED vars /\ Consume
TEnd == /\ Is("end") /\ UNCHANGED vars /\ Consume
        /\ PrintT(<<"CASE", ToJson([accept |-> Id])>>)

(* silent steps, enabled only when the next event can need them *)
TSilent ==
  /\ Silent
  /\ \/ \E w \in Writers : KOpenLand(w) /\ (\/ (Is("opened") /\ Ev.w = w)
                                             \/ (Relaxed /\ WillOpen(w))
                                             \/ (Sock /\ NeedCloser /\ LandTurn(w))      \* before the listener is closed
                                             \/ (Fifo /\ NeedHandler(0) /\ LandTurn(w))  \* before the reader closes its end
                                             \/ AllSilent)
     \/ \E w \in Writers : KLand(w) /\ ((Is("written") /\ (Ev.w = w \/ ~Sock)) \/ NeedHandler(Chan(w)) \/ AllSilent)
     \* udp loss: a datagram dropped on arrival (KDrop) cannot be told from one discarded just before it would
     \* have been read; the second form is used here, so TLC need not guess at every "written" event
     \/ DropHead
     \/ \E w \in Writers : SAccept(w) /\ NeedConn(w) /\ (Relaxed \/ AllSilent \/ SendTurn(w) \/ (Eligible(w) /\ AcceptTurn(w)))
     \/ SAdd /\ NeedConn(acc.cur)
     \/ (SAcceptFail \/ SCloserStart \/ SCloserWait \/ SAccWait) /\ NeedCloser
     \/ /\ SCloserListener /\ NeedCloser
        /\ AllSilent \/ (~OpensPending /\ \A w \in Writers : HasFuture(w) => h[w].pc # "none")
     \/ SReadDgram /\ (AllSilent \/ (MaySend /\ DgramCompat(buf'[h'[0].key])))
     \/ SReadZeroDgram /\ (NeedHandler(0) \/ Is("cancel"))
     \/ \E c \in Chans :
          \/ (SDeadline(c) \/ SReadEof(c) \/ SReadTimeout(c)) /\ NeedHandler(c) /\ MyTurn(c)
          \/ SCloseFd(c) /\ NeedHandler(c) /\ MyTurn(c) /\ (Fifo => AllSilent \/ ~OpensPending)
          \/ SSendNone(c)
          \/ SExit(c) /\ Sock /\ NeedHandler(c) /\ MyTurn(c)
          \* the next line of the trace is sent (a complete line, or the remainder at Finish)
          \/ /\ SendTurn(c) /\ ~chanClosed
             /\ SSend(c) \/ \E key \in Keys : SFinishSend(c, key)
             /\ out'[Len(out')].line = NextText
          \* reads are inferred minimally: exactly the bytes that complete the next line of the trace
          \/ \E k \in 1..Len(q[c]) :
               /\ SRead(c, k)
               /\ \/ AllSilent /\ k = Len(q[c])
                  \/ /\ SendTurn(c)
                     /\ LET nb == buf[h[c].key] \o SubSeq(q[c], 1, k) IN nb = NextText \/ nb = NextText \o <<LF>>

TNext == TOpen \/ TOpened \/ TOpenFail \/ TWrite \/ TWritten \/ TWriteFail \/ TClose \/ TCancel
         \/ TLine \/ TChanClosed \/ TWgDone \/ TPanic \/ TStall \/ TEnd \/ TSilent
TSpec == TInit /\ [][TNext]_tvars

\* every ConnStream invariant is evaluated on every state of every real execution
TSafety == panic \/ Safety

\* POSTCONDITION: report the high-water mark of every trace
Post == \A i \in Starts : PrintT(<<"CASE", ToJson([tr |-> Trace[i].id, hw |-> TLCGet(Trace[i].id)])>>)
=============================================================================
