----------------------------- MODULE FileStream -----------------------------
(***************************************************************************)
(* C16 - a tailed file delivers every appended line exactly once across    *)
(* truncation / rotation / deletion.                                       *)
(*                                                                         *)
(* Code anchors                                                            *)
(*   internal/tailer/logstream/filestream.go  fileStream.stream            *)
(*   internal/tailer/logstream/reader.go      LineReader (spec/LineReader) *)
(*   internal/tailer/tail.go                  TailPath, doPatternGlob      *)
(*                                                                         *)
(* One tailed path.  The environment performs ONE operation on the         *)
(* filesystem (an Env action), then the tailer observes it completely before *)
(* the next operation (the premise of the property): every parked stream   *)
(* goroutine is woken and runs its loop until it parks again or returns    *)
(* (Stream actions, one per branch of the loop body of fileStream.stream),  *)
(* then the pattern poller runs doPatternGlob once (PatternPoll actions)   *)
(* and a stream created by it runs its first loop iteration.               *)
(*                                                                         *)
(* Step granularity.  "truncate and write at least as many bytes as were   *)
(* there before" is TWO environment steps (Truncate, then an append): under *)
(* the premise the truncation is observed (size < offset) before the new   *)
(* bytes exist.  In one unobserved step it would be invisible to the       *)
(* size < offset test; that is outside the property and outside the model. *)
(* Truncate means truncate-to-empty (what logrotate copytruncate and       *)
(* `: > file` do).                                                         *)
(*                                                                         *)
(* Operations: line, frag (no newline), crlf, trunc, rotate (rename +      *)
(* create empty), rotatew (rename + create with a first line inside - why  *)
(* the code reads a new generation from its start), copytrunc, delete,     *)
(* recreate, nop; finally stop (the tailer is cancelled).                  *)
(*                                                                         *)
(* Ideal layer: Expected(history) / the ghost pair exp, genBytes.          *)
(* Deviations of the code (TRUE reproduces mtail at the pinned commit):    *)
(*   DEV_FinishKeepsBuffer      reader.go Finish leaves lr.buf / lr.off    *)
(*                              untouched, so the flushed fragment is sent *)
(*                              again, merged with the next bytes read     *)
(*   DEV_RotationDropsFragment  the !os.SameFile branch starts the new     *)
(*                              generation without lr.Finish on the old    *)
(*                              reader: a pending fragment is lost         *)
(***************************************************************************)
EXTENDS Integers, Sequences, SequencesExt, FiniteSets, Json, TLC

CONSTANTS MaxOps,                     \* bound on the number of environment operations
          MinOps,                     \* tailing may stop only after this many (0 = any time; = MaxOps for -simulate)
          Ops,                        \* subset of AllOps enabled in this configuration
          PreKinds,                   \* subset of {"absent","empty","line","frag"}: the path when tailing starts
          DEV_FinishKeepsBuffer,
          DEV_RotationDropsFragment,
          EmitCases,                  \* print every finished behaviour as a CASE line
          ScriptFile                  \* "" = explore freely; else an ndjson file of {"pre":..,"ops":[..]} records:
                                      \* only these histories are generated (used to re-evaluate given histories
                                      \* under other DEV_ settings, and to replay a recorded case)

AllOps == {"line", "frag", "crlf", "trunc", "rotate", "rotatew", "copytrunc", "delete", "recreate", "nop"}
ASSUME Ops \subseteq AllOps /\ PreKinds \subseteq {"absent", "empty", "line", "frag"}

Scripts  == IF ScriptFile = "" THEN <<>> ELSE ndJsonDeserialize(ScriptFile)
Scripted == ScriptFile # ""

\* reader.go operators (Drain = the `for ok { ok = lr.send() }` loop, Split = the ideal framing).
\* Only constant-level operators of LineReader are used; its variables are instantiated away.
LR == INSTANCE LineReader WITH Size <- 1, MaxLen <- 0, MaxZeroReads <- 0, MaxErrReads <- 0, EmitCases <- FALSE,
                               stream <- <<>>, buf <- <<>>, cap <- 0, off <- 0, out <- <<>>,
                               chunks <- <<>>, done <- FALSE

\* Payload byte of operation number i: pairwise distinct symbols, none of them "n" (LF) or "r" (CR),
\* so that a delivered line identifies the operations whose bytes it contains.
Syms == << "a", "b", "c", "d", "e", "f", "g", "h", "i", "j", "k", "l", "m", "o", "p", "q", "s", "t", "u", "v",
           "w", "x", "y", "z", "A", "B", "C", "D", "E", "F", "G", "H", "I", "J", "K", "L", "M", "N", "O", "P",
           "Q", "R", "S", "T", "U", "V", "W", "X", "Y", "Z", "0", "1", "2", "3", "4", "5", "6", "7", "8", "9" >>
Sym(i) == Syms[((i - 1) % Len(Syms)) + 1]
PreSym == "_"                         \* byte that was in the file before tailing began

VARIABLES
  \* ---- filesystem ----
  files,      \* inode -> bytes          (inodes are never reused while something refers to them)
  pathIno,    \* inode the tailed path names, 0 = the path does not exist
  nextIno,
  \* ---- Tailer (tail.go) ----
  tailed,     \* pathname \in DOMAIN t.logstreams
  \* ---- fileStream goroutine + its LineReader (filestream.go, reader.go) ----
  live,       \* a goroutine of this logstream exists (parked in `select` or running its loop)
  gen,        \* how many fs.stream() calls this logstream made (generations), for the record
  fdIno,      \* inode behind fd
  fiIno,      \* inode of the os.FileInfo `fi` the goroutine compares against (os.SameFile)
  offset,     \* file position of fd
  lrBuf,      \* lr.buf[0:len]
  lrOff,      \* lr.off
  \* ---- control ----
  pc,         \* "poll0": initial doPatternGlob inside AddPattern; "env": everything parked;
              \* "wake": stream goroutines woken by the stream waker; "poll": pattern poller woken;
              \* "start": first loop iteration of a stream created by the poll; "stop"/"done": cancellation
  \* ---- observables ----
  delivered,  \* lines received on the tailer's output channel, in order
  cnt,        \* expvar counters: log_lines_total, file_truncates_total, log_opens_total, log_closes_total, log_count
  \* ---- ideal (ghost) ----
  exp,        \* lines of finished generations
  genBytes,   \* bytes appended to the current generation since tailing of it began
  \* ---- bookkeeping (in VIEW) ----
  nops,       \* number of environment operations so far
  pre,        \* initial state of the path: "absent" | "empty" | "line" | "frag"
  nsym,       \* number of payload-carrying operations so far (selects the payload symbol of the next one)
  cand,       \* scripted mode: indices of the scripts the history so far is a prefix of
  \* ---- history, for case emission (excluded from VIEW) ----
  hist,       \* the operations, with their bytes
  obs,        \* the model's observation after each fully observed operation
  mark, wlive, ended   \* per-step scratch for obs: delivered so far, goroutines parked after the wake, stream ended

fsVars  == <<files, pathIno, nextIno>>
stVars  == <<live, gen, fdIno, fiIno, offset, lrBuf, lrOff>>
hVars   == <<nops, pre, hist, obs, mark, wlive, ended, nsym, cand>>
vars    == <<files, pathIno, nextIno, tailed, live, gen, fdIno, fiIno, offset, lrBuf, lrOff, pc,
             delivered, cnt, exp, genBytes, nops, pre, hist, obs, mark, wlive, ended, nsym, cand>>

-----------------------------------------------------------------------------
(* Ideal layer *)

AppendOps == {"line", "frag", "crlf"}
EndOps    == {"trunc", "rotate", "rotatew", "copytrunc", "delete"}   \* a file generation ends
WriteOps  == AppendOps \cup {"rotatew"}                               \* operations that carry payload bytes

BytesOf(op, i) == CASE op \in {"line", "rotatew"} -> <<Sym(i), "n">>
                    [] op = "crlf" -> <<Sym(i), "r", "n">>
                    [] op = "frag" -> <<Sym(i)>>
                    [] OTHER       -> <<>>

\* The statement of C16 as a function of the history alone: the bytes appended to a generation
\* are framed as lines (LR!Split = C15); a generation's unterminated remainder is a line of its
\* own when the generation ends (or tailing stops); nothing is carried into the next generation.
RECURSIVE ExpFold(_, _, _, _)
ExpFold(h, i, e, g) ==
  IF i > Len(h) THEN [closed |-> e, open |-> g]
  ELSE LET o == h[i] IN
       IF o.op \in AppendOps THEN ExpFold(h, i + 1, e, g \o o.bytes)
       ELSE IF o.op \in EndOps \/ o.op = "stop" THEN ExpFold(h, i + 1, e \o LR!Split(g), o.bytes)
       ELSE ExpFold(h, i + 1, e, g)
Expected(h) == LET r == ExpFold(h, 1, <<>>, <<>>) IN r.closed \o LR!SplitNoFinish(r.open)

\* the same, maintained incrementally (so that `hist` can be dropped from the VIEW)
ExpectedNow == exp \o LR!SplitNoFinish(genBytes)

-----------------------------------------------------------------------------
(* Initial state: the file as it is when the Tailer is created *)

PreContent(k) == CASE k = "line" -> <<PreSym, "n">> [] k = "frag" -> <<PreSym>> [] OTHER -> <<>>

Init ==
  /\ pre \in IF Scripted THEN {Scripts[i].pre : i \in DOMAIN Scripts} ELSE PreKinds
  /\ cand = IF Scripted THEN {i \in DOMAIN Scripts : Scripts[i].pre = pre} ELSE {}
  /\ files = IF pre = "absent" THEN <<>> ELSE <<PreContent(pre)>>
  /\ pathIno = IF pre = "absent" THEN 0 ELSE 1
  /\ nextIno = IF pre = "absent" THEN 1 ELSE 2
  /\ tailed = FALSE /\ live = FALSE /\ gen = 0
  /\ fdIno = 0 /\ fiIno = 0 /\ offset = 0 /\ lrBuf = <<>> /\ lrOff = 0
  /\ pc = "poll0"
  /\ delivered = <<>>
  /\ cnt = [lines |-> 0, truncs |-> 0, opens |-> 0, closes |-> 0, logs |-> 0]
  /\ exp = <<>> /\ genBytes = <<>>
  /\ nops = 0 /\ hist = <<>> /\ obs = <<>> /\ mark = 0 /\ wlive = 0 /\ ended = FALSE /\ nsym = 0

-----------------------------------------------------------------------------
(* Environment: one filesystem operation, then everything parked is woken *)

NewFile(c) == Append(files, c)      \* creates inode nextIno

Follows(op) == {i \in cand : Len(Scripts[i].ops) > nops /\ Scripts[i].ops[nops + 1] = op}

EnvStep(op, fl, p, nino, e, g) ==
  /\ pc = "env" /\ nops < MaxOps /\ op \in Ops
  /\ IF Scripted THEN Follows(op) # {} /\ cand' = Follows(op) ELSE cand' = cand
  /\ files' = fl /\ pathIno' = p /\ nextIno' = nino
  /\ exp' = e /\ genBytes' = g
  /\ nops' = nops + 1
  /\ nsym' = IF op \in WriteOps THEN nsym + 1 ELSE nsym
  /\ hist' = Append(hist, [op |-> op, bytes |-> BytesOf(op, nsym + 1)])
  /\ mark' = Len(delivered) /\ ended' = FALSE
  /\ pc' = IF live THEN "wake" ELSE "poll"      \* awaken(streams) wakes every parked stream goroutine
  /\ wlive' = 0
  /\ UNCHANGED <<tailed, stVars, delivered, cnt, pre, obs>>

Write(op)   == /\ pathIno # 0
               /\ LET bs == BytesOf(op, nsym + 1) IN
                  EnvStep(op, [files EXCEPT ![pathIno] = @ \o bs], pathIno, nextIno, exp, genBytes \o bs)
EndGen      == exp \o LR!Split(genBytes)
\* truncate(path, 0)
Truncate    == pathIno # 0 /\ EnvStep("trunc", [files EXCEPT ![pathIno] = <<>>], pathIno, nextIno, EndGen, <<>>)
\* cp path copy.N ; truncate(path, 0)        (the copy is a new inode under a name nobody tails)
CopyTruncate == pathIno # 0 /\ EnvStep("copytrunc", [NewFile(files[pathIno]) EXCEPT ![pathIno] = <<>>],
                                       pathIno, nextIno + 1, EndGen, <<>>)
\* mv path path.N ; create path               (the old inode lives on under another name)
RenameCreate == pathIno # 0 /\ EnvStep("rotate", NewFile(<<>>), nextIno, nextIno + 1, EndGen, <<>>)
\* mv path path.N ; echo line > path      (the new file already holds a line when it is first seen:
\* this is why the code reads a new generation from the start)
RenameCreateWrite == /\ pathIno # 0
                     /\ LET bs == BytesOf("rotatew", nsym + 1) IN
                        EnvStep("rotatew", NewFile(bs), nextIno, nextIno + 1, EndGen, bs)
\* rm path
Delete      == pathIno # 0 /\ EnvStep("delete", files, 0, nextIno, EndGen, <<>>)
\* create path (empty)
Recreate    == pathIno = 0 /\ EnvStep("recreate", NewFile(<<>>), nextIno, nextIno + 1, exp, <<>>)
Nop         == EnvStep("nop", files, pathIno, nextIno, exp, genBytes)

Env == Write("line") \/ Write("frag") \/ Write("crlf") \/ Truncate \/ CopyTruncate \/ RenameCreate
       \/ RenameCreateWrite \/ Delete \/ Recreate \/ Nop

-----------------------------------------------------------------------------
(* fileStream.stream goroutine, one action per branch of the loop body *)

Running == pc \in {"wake", "start", "stop"} /\ live
\* where control goes when the goroutine parks in `select` or returns
Yield == CASE pc = "wake" -> "poll" [] pc = "start" -> "env" [] OTHER -> "done"

\* reader.go Finish
FinishOut   == IF Len(lrBuf) > lrOff THEN <<SubSeq(lrBuf, lrOff + 1, Len(lrBuf))>> ELSE <<>>
FinishBuf   == IF DEV_FinishKeepsBuffer THEN lrBuf ELSE <<>>
FinishOff   == IF DEV_FinishKeepsBuffer THEN lrOff ELSE 0
Count(c, field, k) == [c EXCEPT ![field] = @ + k]

\* lr.ReadAndSend returned count > 0: all bytes between the fd position and the end of the file
\* (one chunk; how chunking affects framing is C15) - `continue`
StreamRead ==
  /\ Running /\ offset < Len(files[fdIno])
  /\ LET bs == SubSeq(files[fdIno], offset + 1, Len(files[fdIno]))
         b1 == lrBuf \o bs
         r  == LR!Drain(b1, lrOff, <<>>)
     IN /\ lrBuf' = SubSeq(b1, r.off + 1, Len(b1)) /\ lrOff' = 0
        /\ delivered' = delivered \o r.out
        /\ cnt' = Count(cnt, "lines", Len(r.out))
  /\ offset' = Len(files[fdIno])
  /\ UNCHANGED <<fsVars, tailed, live, gen, fdIno, fiIno, pc, exp, genBytes, hVars>>

AtEOF == Running /\ offset >= Len(files[fdIno])

\* count = 0, io.EOF, os.Stat(pathname) fails with IsNotExist: lr.Finish; close(fs.lines); return.
\* The TailPath goroutine then leaves `range l.Lines()`, deletes the map entry, log_count--.
StreamEofGone ==
  /\ AtEOF /\ pc # "stop" /\ pathIno = 0
  /\ delivered' = delivered \o FinishOut
  /\ cnt' = [cnt EXCEPT !.lines = @ + Len(FinishOut), !.closes = @ + 1, !.logs = @ - 1]
  /\ lrBuf' = FinishBuf /\ lrOff' = FinishOff
  /\ live' = FALSE /\ tailed' = FALSE /\ ended' = TRUE
  /\ pc' = Yield
  /\ UNCHANGED <<fsVars, gen, fdIno, fiIno, offset, exp, genBytes, nops, pre, hist, obs, mark, wlive, nsym, cand>>

\* !os.SameFile(fi, newfi): fs.stream(newfi, streamFromStart = true) - a new goroutine with a new
\* LineReader on a new descriptor at offset 0 - and this goroutine returns (closing its fd).
\* Corrected design: the old reader's pending fragment is flushed first.
StreamEofRotated ==
  /\ AtEOF /\ pc # "stop" /\ pathIno # 0 /\ pathIno # fiIno
  /\ LET fo == IF DEV_RotationDropsFragment THEN <<>> ELSE FinishOut IN
     /\ delivered' = delivered \o fo
     /\ cnt' = [cnt EXCEPT !.lines = @ + Len(fo), !.opens = @ + 1, !.closes = @ + 1]
  /\ gen' = gen + 1 /\ fdIno' = pathIno /\ fiIno' = pathIno /\ offset' = 0
  /\ lrBuf' = <<>> /\ lrOff' = 0
  /\ UNCHANGED <<fsVars, tailed, live, pc, exp, genBytes, hVars>>

\* same file, newfi.Size() < current offset: lr.Finish; fd.Seek(0, SeekStart); file_truncates_total++; continue
StreamEofTruncated ==
  /\ AtEOF /\ pc # "stop" /\ pathIno # 0 /\ pathIno = fiIno /\ Len(files[pathIno]) < offset
  /\ delivered' = delivered \o FinishOut
  /\ cnt' = [cnt EXCEPT !.lines = @ + Len(FinishOut), !.truncs = @ + 1]
  /\ lrBuf' = FinishBuf /\ lrOff' = FinishOff
  /\ offset' = 0
  /\ UNCHANGED <<fsVars, tailed, live, gen, fdIno, fiIno, pc, exp, genBytes, hVars>>

\* nothing happened to the file: fall through to `Sleep:` and park in select { ctx.Done ; waker.Wake() }
StreamEofIdle ==
  /\ AtEOF /\ pc # "stop" /\ pathIno # 0 /\ pathIno = fiIno /\ Len(files[pathIno]) >= offset
  /\ pc' = Yield
  /\ wlive' = IF pc = "wake" THEN 1 ELSE wlive
  /\ UNCHANGED <<fsVars, tailed, stVars, delivered, cnt, exp, genBytes, nops, pre, hist, obs, mark, ended, nsym, cand>>

\* cancellation (tailing stops): the goroutine leaves select by ctx.Done, reads once more (StreamRead
\* above), and at EOF under `Sleep:` finds ctx.Done: lr.Finish; close(fs.lines); return
StreamEofCancelled ==
  /\ AtEOF /\ pc = "stop"
  /\ delivered' = delivered \o FinishOut
  /\ cnt' = [cnt EXCEPT !.lines = @ + Len(FinishOut), !.closes = @ + 1, !.logs = @ - 1]
  /\ lrBuf' = FinishBuf /\ lrOff' = FinishOff
  /\ live' = FALSE /\ tailed' = FALSE
  /\ pc' = "done"
  /\ obs' = Append(obs, [op |-> "stop", lines |-> SubSeq(delivered', mark + 1, Len(delivered')),
                         w |-> 0, rm |-> TRUE, p |-> 0, tailed |-> FALSE, cnt |-> cnt'])
  /\ UNCHANGED <<fsVars, gen, fdIno, fiIno, offset, exp, genBytes, nops, pre, hist, mark, wlive, ended, nsym, cand>>

Stream == StreamRead \/ StreamEofGone \/ StreamEofRotated \/ StreamEofTruncated \/ StreamEofIdle
          \/ StreamEofCancelled

-----------------------------------------------------------------------------
(* tail.go: doPatternGlob -> Ignore -> TailPath; logstream.New -> newFileStream *)

Observed(tl, lv, c) ==
  IF pc = "poll0" THEN obs
  ELSE Append(obs, [op |-> hist[Len(hist)].op, lines |-> SubSeq(delivered, mark + 1, Len(delivered)),
                    w |-> wlive, rm |-> ended, p |-> lv, tailed |-> tl, cnt |-> c])

\* the path exists and has no logstream: open it, seek to the end (streamFromStart = false), start
\* the goroutine, log_count++
PatternPollNew ==
  /\ pc \in {"poll0", "poll"} /\ pathIno # 0 /\ ~tailed
  /\ tailed' = TRUE /\ live' = TRUE /\ gen' = 1
  /\ fdIno' = pathIno /\ fiIno' = pathIno /\ offset' = Len(files[pathIno])
  /\ lrBuf' = <<>> /\ lrOff' = 0
  /\ cnt' = [cnt EXCEPT !.opens = @ + 1, !.logs = @ + 1]
  /\ pc' = "start"
  /\ obs' = Observed(TRUE, 1, cnt')
  /\ UNCHANGED <<fsVars, delivered, exp, genBytes, nops, pre, hist, mark, wlive, ended, nsym, cand>>

\* nothing matches, or "already got a logstream on <path>"
PatternPollSame ==
  /\ pc \in {"poll0", "poll"} /\ (pathIno = 0 \/ tailed)
  /\ pc' = "env"
  /\ obs' = Observed(tailed, IF live THEN 1 ELSE 0, cnt)
  /\ UNCHANGED <<fsVars, tailed, stVars, delivered, cnt, exp, genBytes, nops, pre, hist, mark, wlive, ended, nsym, cand>>

PatternPoll == PatternPollNew \/ PatternPollSame

-----------------------------------------------------------------------------
(* tailing stops: the Tailer's context is cancelled *)
Stop ==
  /\ pc = "env" /\ nops >= MinOps
  /\ Scripted => \E i \in cand : Len(Scripts[i].ops) = nops
  /\ "stop" \notin {hist[i].op : i \in 1..Len(hist)}
  /\ hist' = Append(hist, [op |-> "stop", bytes |-> <<>>])
  /\ exp' = exp \o LR!Split(genBytes) /\ genBytes' = <<>>
  /\ mark' = Len(delivered)
  /\ IF live THEN /\ pc' = "stop" /\ obs' = obs
             ELSE /\ pc' = "done"
                  /\ obs' = Append(obs, [op |-> "stop", lines |-> <<>>, w |-> 0, rm |-> FALSE, p |-> 0,
                                         tailed |-> FALSE, cnt |-> cnt])
  /\ UNCHANGED <<fsVars, tailed, stVars, delivered, cnt, nops, pre, wlive, ended, nsym, cand>>

Next == Env \/ Stream \/ PatternPoll \/ Stop
Spec == Init /\ [][Next]_vars

-----------------------------------------------------------------------------
(* Properties *)

TypeOK ==
  /\ pathIno \in 0..(nextIno - 1) /\ Len(files) = nextIno - 1
  /\ live => /\ fdIno \in 1..(nextIno - 1) /\ fiIno \in 1..(nextIno - 1)
             /\ offset >= 0 /\ lrOff \in 0..Len(lrBuf)
  /\ pc \in {"poll0", "env", "wake", "poll", "start", "stop", "done"}
  /\ nops <= MaxOps

Quiet == pc \in {"env", "done"}     \* the last operation has been observed completely

\* C16: after each observed step the lines delivered are exactly the expected ones
ExactlyOnce     == Quiet => delivered = ExpectedNow
\* ... stated on the history alone (needs `hist` in the fingerprint: configurations without VIEW)
ExactlyOnceHist == Quiet => delivered = Expected(hist)
GhostIsExpected == ExpectedNow = Expected(hist)
\* nothing wrong is ever delivered, not even in the middle of an observation
NeverWrong      == IsPrefix(delivered, ExpectedNow)
AppendOnly      == [][IsPrefix(delivered, delivered')]_vars
\* after an observed step the stream follows the file the path names now, and has read all of it;
\* an existing path is tailed, a vanished one is not; no reader state survives without a goroutine
TracksCurrent   == pc = "env" =>
                     /\ tailed = (pathIno # 0) /\ live = tailed
                     /\ live => fdIno = pathIno /\ fiIno = pathIno /\ offset = Len(files[pathIno]) /\ lrOff = 0
\* the unterminated remainder held by the reader is exactly the generation's pending fragment
PendingIsBuffer == (pc = "env" /\ live) => lrBuf = LR!Pending(genBytes)
CountersOK      == /\ cnt.lines = Len(delivered)
                   /\ cnt.logs = IF tailed THEN 1 ELSE 0
                   /\ cnt.opens - cnt.closes = IF live THEN 1 ELSE 0

Emit == (EmitCases /\ pc = "done") =>
          PrintT(<<"CASE", ToJson([pre |-> pre, hist |-> hist, obs |-> obs])>>)

View == <<files, pathIno, nextIno, tailed, live, gen, fdIno, fiIno, offset, lrBuf, lrOff, pc,
          delivered, cnt, exp, genBytes, nops, pre, nsym, cand>>
=============================================================================
