------------------------------ MODULE Counters ------------------------------
(***************************************************************************)
(* C25 - mtail's self-monitoring counters are exact.                       *)
(*                                                                         *)
(* The counters are ordinary variables (`ctr`) updated where the code      *)
(* updates the expvars:                                                    *)
(*   log_lines_total[f]          logstream/reader.go send / Finish         *)
(*                               (logLines.Add BEFORE `lr.lines <- line`)  *)
(*   lines_total                 runtime.go fan-out, after `range lines`   *)
(*                               receives a line, once per line            *)
(*   prog_load_errors_total[p]   LoadProgram (open fails), CompileAndRun   *)
(*                               (hash / compile fail)                     *)
(*   prog_loads_total[p]         CompileAndRun after the Store.Add loop    *)
(*   prog_unloads_total[p]       UnloadProgram                             *)
(*   prog_runtime_errors_total[p] vm.go errorf                             *)
(* The IDEAL layer (`hist`) counts the events themselves, at the place     *)
(* where they are *outcomes*: a line is delivered when the stream's send   *)
(* completes, a load has failed when LoadProgram/CompileAndRun returns an  *)
(* error, has succeeded when it returns nil having started a VM, a runtime *)
(* error is raised when the semantics of (program, line) says so.          *)
(* Property: whenever the corresponding activity is quiescent the counter  *)
(* equals the history.                                                     *)
(*                                                                         *)
(* The loader follows LoadProgram -> CompileAndRun branch by branch        *)
(* (open, hash, compile, Store.Add loop, ProgLoads, swap, return).         *)
(* Program sources are abstracted to kinds:                                *)
(*   "ok"   compiles, never raises          "err"  raises on a "txt" line  *)
(*   "bad"  does not compile                "missing" file cannot be read  *)
(*   "shc" / "shg"  declare the metric name Shared as counter / gauge: the *)
(*          second kind to arrive is refused by Store.Add (kind clash)     *)
(* and each source has a content stamp so that "unchanged" is decidable.   *)
(*                                                                         *)
(* DEVIATION DEV_RegisterErrorNotCounted: CompileAndRun returns the        *)
(* Store.Add error without incrementing prog_load_errors_total.            *)
(***************************************************************************)
EXTENDS Integers, Sequences, FiniteSets, TLC

CONSTANTS Progs,            \* program ids
          Files,            \* log files tailed by the tailer ({} : lines are offered directly)
          MaxLines,         \* bound on lines written/offered
          MaxLoads,         \* bound on load attempts
          MaxStamp,         \* content stamps 1..MaxStamp
          DirectInput,      \* lines may be offered directly on the runtime's input channel
          DEV_RegisterErrorNotCounted,
          KeepLast          \* TRUE: `last` describes the last action (trace validation)

SrcKinds  == {"ok", "err", "bad", "shc", "shg", "missing"}
LineKinds == {"num", "txt"}
SharedKind(k) == IF k = "shc" THEN "counter" ELSE IF k = "shg" THEN "gauge" ELSE "none"
Compiles(k) == k \in {"ok", "err", "shc", "shg"}
\* semantics: does a program of kind k raise a runtime error on a line of kind lk ?
Raises(k, lk) == k = "err" /\ lk = "txt"

VARIABLES fileq,   \* [Files -> Seq(LineKinds)]  appended to the log, not yet read by the stream
          tq,      \* [Files -> Seq(LineKinds)]  counted by the reader, being sent towards the runtime
          inq,     \* Seq(LineKinds)             offered directly to the runtime's input (no tailer)
          fan,     \* [busy, lk, todo]           the fan-out loop: line in hand, programs still to send to
          vmst,    \* [Progs -> [busy, k, lk, errs]] the running VM of each program (k: kind of the version in the line)
          src,     \* [Progs -> [k, stamp]]      running version, k = "none" if not loaded
          reg,     \* kind under which the metric name Shared is registered in the store
          ld,      \* the loader: [pc, p, k, stamp, res]
          ctr,     \* the expvars
          hist,    \* the events themselves
          nlines, nloads,
          last     \* description of the last action
vars == <<fileq, tq, inq, fan, vmst, src, reg, ld, ctr, hist, nlines, nloads, last>>

Zero(S) == [x \in S |-> 0]
Inc(f, x) == [f EXCEPT ![x] = @ + 1]
Sum(f) == LET RECURSIVE S(_)
              S(D) == IF D = {} THEN 0 ELSE LET x == CHOOSE y \in D : TRUE IN f[x] + S(D \ {x})
          IN S(DOMAIN f)
Loaded == {p \in Progs : src[p].k # "none"}
Act(a, p, f, x) == IF KeepLast THEN [a |-> a, p |-> p, f |-> f, x |-> x] ELSE [a |-> "", p |-> 0, f |-> 0, x |-> ""]
LdIdle == [pc |-> "idle", p |-> 0, k |-> "none", stamp |-> 0, res |-> ""]

Init == /\ fileq = [f \in Files |-> <<>>] /\ tq = [f \in Files |-> <<>>] /\ inq = <<>>
        /\ fan = [busy |-> FALSE, lk |-> "num", todo |-> {}]
        /\ vmst = [p \in Progs |-> [busy |-> FALSE, k |-> "none", lk |-> "num", errs |-> 0]]
        /\ src = [p \in Progs |-> [k |-> "none", stamp |-> 0]]
        /\ reg = "none"
        /\ ld = LdIdle
        /\ ctr = [lines_total |-> 0, log_lines |-> Zero(Files), loads |-> Zero(Progs),
                  unloads |-> Zero(Progs), load_errors |-> Zero(Progs), rt_errors |-> Zero(Progs)]
        /\ hist = [written |-> Zero(Files), delivered |-> Zero(Files), offered |-> 0,
                   loads |-> Zero(Progs), unloads |-> Zero(Progs), failed |-> Zero(Progs), raised |-> Zero(Progs)]
        /\ nlines = 0 /\ nloads = 0
        /\ last = Act("Init", 0, 0, "")

-----------------------------------------------------------------------------
(* lines: log file -> stream reader -> tailer -> runtime fan-out -> VMs *)

\* the environment appends a complete line to log file f
Write(f, lk) ==
  /\ nlines < MaxLines /\ nlines' = nlines + 1
  /\ fileq' = [fileq EXCEPT ![f] = Append(@, lk)]
  /\ hist' = [hist EXCEPT !.written = Inc(@, f)]
  /\ last' = Act("Write", 0, f, lk)
  /\ UNCHANGED <<tq, inq, fan, vmst, src, reg, ld, ctr, nloads>>

\* reader.go send/Finish: `logLines.Add(lr.sourcename, 1)` and then the blocking send
ReadCount(f) ==
  /\ fileq[f] # <<>>
  /\ ctr' = [ctr EXCEPT !.log_lines = Inc(@, f)]
  /\ tq' = [tq EXCEPT ![f] = Append(@, Head(fileq[f]))]
  /\ fileq' = [fileq EXCEPT ![f] = Tail(@)]
  /\ last' = Act("ReadCount", 0, f, Head(fileq[f]))
  /\ UNCHANGED <<inq, fan, vmst, src, reg, ld, hist, nlines, nloads>>

\* the environment offers a line directly on the runtime's input channel (runtime-only binding)
Offer(lk) ==
  /\ DirectInput /\ nlines < MaxLines /\ nlines' = nlines + 1
  /\ inq' = Append(inq, lk)
  /\ hist' = [hist EXCEPT !.offered = @ + 1]
  /\ last' = Act("Offer", 0, 0, lk)
  /\ UNCHANGED <<fileq, tq, fan, vmst, src, reg, ld, ctr, nloads>>

\* runtime.go: `for line := range lines { LineCount.Add(1); RLock; ... }`: the send of the stream
\* (through the tailer's forwarding goroutine) completes here - the line is delivered
Recv(f) ==
  /\ ~fan.busy /\ fan.todo = {}
  /\ tq[f] # <<>>
  /\ ctr' = [ctr EXCEPT !.lines_total = @ + 1]
  /\ hist' = [hist EXCEPT !.delivered = Inc(@, f)]
  /\ fan' = [busy |-> TRUE, lk |-> Head(tq[f]), todo |-> Loaded]
  /\ tq' = [tq EXCEPT ![f] = Tail(@)]
  /\ last' = Act("Recv", 0, f, Head(tq[f]))
  /\ UNCHANGED <<fileq, inq, vmst, src, reg, ld, nlines, nloads>>
RecvDirect ==
  /\ ~fan.busy /\ fan.todo = {}
  /\ inq # <<>>
  /\ ctr' = [ctr EXCEPT !.lines_total = @ + 1]
  /\ fan' = [busy |-> TRUE, lk |-> Head(inq), todo |-> Loaded]
  /\ inq' = Tail(inq)
  /\ last' = Act("Recv", 0, 0, Head(inq))
  /\ UNCHANGED <<fileq, tq, vmst, src, reg, ld, hist, nlines, nloads>>

\* `handles[p].lines <- line` meets the VM's `range lines`: ProcessLogLine starts
Deliver(p) ==
  /\ fan.busy /\ p \in fan.todo /\ ~vmst[p].busy
  /\ fan' = [fan EXCEPT !.todo = @ \ {p}]
  /\ vmst' = [vmst EXCEPT ![p] = [busy |-> TRUE, k |-> src[p].k, lk |-> fan.lk, errs |-> 0]]
  /\ last' = Act("Deliver", p, 0, fan.lk)
  /\ UNCHANGED <<fileq, tq, inq, src, reg, ld, ctr, hist, nlines, nloads>>
\* RUnlock: the loop over the handles is over
FanDone ==
  /\ fan.busy /\ fan.todo = {}
  /\ fan' = [fan EXCEPT !.busy = FALSE]
  /\ last' = Act("FanDone", 0, 0, "")
  /\ UNCHANGED <<fileq, tq, inq, vmst, src, reg, ld, ctr, hist, nlines, nloads>>

\* vm.go errorf: ProgRuntimeErrors.Add(v.name, 1); the line is abandoned (terminate)
VmError(p) ==
  /\ vmst[p].busy /\ vmst[p].errs = 0 /\ Raises(vmst[p].k, vmst[p].lk)
  /\ ctr' = [ctr EXCEPT !.rt_errors = Inc(@, p)]
  /\ vmst' = [vmst EXCEPT ![p].errs = 1]
  /\ last' = Act("VmError", p, 0, "")
  /\ UNCHANGED <<fileq, tq, inq, fan, src, reg, ld, hist, nlines, nloads>>
\* ProcessLogLine returns: by the semantics of the program the line raised an error or did not
VmEnd(p) ==
  /\ vmst[p].busy
  /\ (Raises(vmst[p].k, vmst[p].lk) => vmst[p].errs = 1)
  /\ hist' = IF Raises(vmst[p].k, vmst[p].lk) THEN [hist EXCEPT !.raised = Inc(@, p)] ELSE hist
  /\ vmst' = [vmst EXCEPT ![p].busy = FALSE]
  /\ last' = Act("VmEnd", p, 0, "")
  /\ UNCHANGED <<fileq, tq, inq, fan, src, reg, ld, ctr, nlines, nloads>>

-----------------------------------------------------------------------------
(* the loader: LoadProgram(path) -> CompileAndRun(name, f) *)
VmIdle(p) == ~vmst[p].busy /\ p \notin fan.todo

\* the environment has (re)written program p with source kind k, content stamp s, and calls LoadProgram
LdBegin(p, k, s) ==
  /\ ld.pc = "idle" /\ nloads < MaxLoads /\ nloads' = nloads + 1
  /\ VmIdle(p)                              \* C20 covers loads racing with line processing
  /\ ld' = [pc |-> "open", p |-> p, k |-> k, stamp |-> s, res |-> ""]
  /\ last' = Act("LdBegin", p, s, k)          \* (the f slot carries the stamp)
  /\ UNCHANGED <<fileq, tq, inq, fan, vmst, src, reg, ctr, hist, nlines>>
\* os.OpenFile fails: ProgLoadErrors.Add(name, 1); return error
LdOpen ==
  /\ ld.pc = "open"
  /\ IF ld.k = "missing"
     THEN /\ ctr' = [ctr EXCEPT !.load_errors = Inc(@, ld.p)]
          /\ ld' = [ld EXCEPT !.pc = "ret", !.res = "error"]
     ELSE /\ ld' = [ld EXCEPT !.pc = "hash"] /\ UNCHANGED ctr
  /\ last' = Act("LdOpen", ld.p, 0, "")
  /\ UNCHANGED <<fileq, tq, inq, fan, vmst, src, reg, hist, nlines, nloads>>
\* contentHash equal to the running version's: return nil, nothing loaded      -> rt.load.unchanged
LdHash ==
  /\ ld.pc = "hash"
  /\ IF src[ld.p].k # "none" /\ src[ld.p] = [k |-> ld.k, stamp |-> ld.stamp]
     THEN ld' = [ld EXCEPT !.pc = "ret", !.res = "unchanged"] /\ last' = Act("LdUnchanged", ld.p, 0, "")
     ELSE ld' = [ld EXCEPT !.pc = "compile"] /\ last' = Act("LdHash", ld.p, 0, "")
  /\ UNCHANGED <<fileq, tq, inq, fan, vmst, src, reg, ctr, hist, nlines, nloads>>
\* r.c.Compile: errs != nil -> ProgLoadErrors.Add(name, 1); return error     -> rt.load.compile_error
LdCompile ==
  /\ ld.pc = "compile"
  /\ IF ~Compiles(ld.k)
     THEN /\ ctr' = [ctr EXCEPT !.load_errors = Inc(@, ld.p)]
          /\ ld' = [ld EXCEPT !.pc = "ret", !.res = "error"]
          /\ last' = Act("LdCompileError", ld.p, 0, "")
     ELSE /\ ld' = [ld EXCEPT !.pc = "add"] /\ UNCHANGED ctr
          /\ last' = Act("LdCompile", ld.p, 0, "")
  /\ UNCHANGED <<fileq, tq, inq, fan, vmst, src, reg, hist, nlines, nloads>>
\* `for _, m := range v.Metrics { err := r.ms.Add(m); if err != nil { return err } }`
\* the metric named Shared comes first in these sources                       -> rt.load.add
LdAdd ==
  /\ ld.pc = "add"
  /\ LET sk == SharedKind(ld.k) IN
     IF sk # "none" /\ reg \notin {"none", sk}
     THEN \* Store.Add refuses: "metric has different kind"
          /\ ctr' = IF DEV_RegisterErrorNotCounted THEN ctr
                    ELSE [ctr EXCEPT !.load_errors = Inc(@, ld.p)]
          /\ ld' = [ld EXCEPT !.pc = "ret", !.res = "error"]
          /\ last' = Act("LdAddRefused", ld.p, 0, "")
          /\ UNCHANGED reg
     ELSE /\ reg' = IF sk # "none" THEN sk ELSE reg
          /\ ld' = [ld EXCEPT !.pc = "count"]
          /\ last' = Act("LdAdd", ld.p, 0, "")
          /\ UNCHANGED ctr
  /\ UNCHANGED <<fileq, tq, inq, fan, vmst, src, hist, nlines, nloads>>
\* ProgLoads.Add(name, 1)                                                      -> rt.load.registered
LdCount ==
  /\ ld.pc = "count"
  /\ ctr' = [ctr EXCEPT !.loads = Inc(@, ld.p)]
  /\ ld' = [ld EXCEPT !.pc = "swap"]
  /\ last' = Act("LdCount", ld.p, 0, ld.k)
  /\ UNCHANGED <<fileq, tq, inq, fan, vmst, src, reg, hist, nlines, nloads>>
\* Lock; close(old); handles[name] = new; go Run; Unlock                      -> rt.load.swapped
LdSwap ==
  /\ ld.pc = "swap" /\ ~fan.busy
  /\ VmIdle(ld.p)                           \* corrected design of C20: the old VM has left its line
  /\ src' = [src EXCEPT ![ld.p] = [k |-> ld.k, stamp |-> ld.stamp]]
  /\ ld' = [ld EXCEPT !.pc = "ret", !.res = "loaded"]
  /\ last' = Act("LdSwap", ld.p, 0, "")
  /\ UNCHANGED <<fileq, tq, inq, fan, vmst, reg, ctr, hist, nlines, nloads>>
\* LoadProgram returns: the outcome is the event
LdRet ==
  /\ ld.pc = "ret"
  /\ hist' = IF ld.res = "error" THEN [hist EXCEPT !.failed = Inc(@, ld.p)]
             ELSE IF ld.res = "loaded" THEN [hist EXCEPT !.loads = Inc(@, ld.p)]
             ELSE hist
  /\ ld' = LdIdle
  /\ last' = Act("LdRet", ld.p, 0, ld.res)
  /\ UNCHANGED <<fileq, tq, inq, fan, vmst, src, reg, ctr, nlines, nloads>>
\* UnloadProgram: Lock; close; delete; ProgUnloads.Add(name, 1); Unlock       -> rt.unload
Unload(p) ==
  /\ ld.pc = "idle" /\ src[p].k # "none" /\ ~fan.busy /\ VmIdle(p)
  /\ src' = [src EXCEPT ![p] = [k |-> "none", stamp |-> 0]]
  /\ ctr' = [ctr EXCEPT !.unloads = Inc(@, p)]
  /\ hist' = [hist EXCEPT !.unloads = Inc(@, p)]
  /\ last' = Act("Unload", p, 0, "")
  /\ UNCHANGED <<fileq, tq, inq, fan, vmst, reg, ld, nlines, nloads>>

Next == \/ \E f \in Files : (\E lk \in LineKinds : Write(f, lk)) \/ ReadCount(f) \/ Recv(f)
        \/ (\E lk \in LineKinds : Offer(lk)) \/ RecvDirect \/ FanDone
        \/ \E p \in Progs : Deliver(p) \/ VmError(p) \/ VmEnd(p) \/ Unload(p)
        \/ \E p \in Progs, k \in SrcKinds, s \in 1..MaxStamp : LdBegin(p, k, s)
        \/ LdOpen \/ LdHash \/ LdCompile \/ LdAdd \/ LdCount \/ LdSwap \/ LdRet
Spec == Init /\ [][Next]_vars

-----------------------------------------------------------------------------
(* C25 *)
LinesQuiet == /\ \A f \in Files : tq[f] = <<>>
PipelineQuiet == LinesQuiet /\ ~fan.busy /\ \A p \in Progs : ~vmst[p].busy
\* the lines received by the program loader equal the lines delivered by all log streams
LinesTotalExact == ctr.lines_total = Sum(hist.delivered) + (hist.offered - Len(inq))
\* each log's line count equals the lines delivered from it (once nothing is in flight from it)
LogLinesExact == \A f \in Files : ctr.log_lines[f] = hist.delivered[f] + Len(tq[f])
NothingLost == PipelineQuiet =>
   /\ \A f \in Files : ctr.log_lines[f] + Len(fileq[f]) = hist.written[f]
   /\ (((\A f \in Files : fileq[f] = <<>>) /\ inq = <<>>) =>
          ctr.lines_total = Sum(hist.written) + hist.offered)
\* each program's runtime-error count equals the runtime errors it raised
RuntimeErrorsExact == \A p \in Progs : ~vmst[p].busy => ctr.rt_errors[p] = hist.raised[p]
\* load, unload and load-error counts equal the corresponding events, including refusals at registration
LoadCountersExact == ld.pc = "idle" =>
  \A p \in Progs : /\ ctr.loads[p] = hist.loads[p]
                   /\ ctr.load_errors[p] = hist.failed[p]
                   /\ ctr.unloads[p] = hist.unloads[p]
CountersExact == LinesTotalExact /\ LogLinesExact /\ NothingLost /\ RuntimeErrorsExact /\ LoadCountersExact
TypeOK == /\ ctr.lines_total \in 0..MaxLines
          /\ ld.pc \in {"idle", "open", "hash", "compile", "add", "count", "swap", "ret"}
          /\ reg \in {"none", "counter", "gauge"}
View == <<fileq, tq, inq, fan, vmst, src, reg, ld, ctr, hist, nlines, nloads>>
=============================================================================
