----------------------------- MODULE MetricOps -----------------------------
(***************************************************************************)
(* internal/metrics/metric.go as operators on the record                   *)
(*     M = [lvs |-> <<lv, ...>>, idx |-> [key -> id]]                      *)
(* lvs mirrors Metric.LabelValues (a slice of *LabelValue), idx mirrors    *)
(* Metric.labelValuesMap (encoded tuple -> *LabelValue).  A *LabelValue is *)
(* a record [id, labels, val, time, exp]; `id` stands for the pointer, so  *)
(* that "the index points at an element of the slice" is expressible and   *)
(* a dangling index entry is a state, not a type error.                    *)
(*                                                                         *)
(* Constant-level module (no variables): used by Metric.tla (C08, C09) and *)
(* StoreGc.tla (C10).                                                      *)
(*                                                                         *)
(* Label values are sequences of one-character strings.                    *)
(***************************************************************************)
EXTENDS Integers, Sequences, SequencesExt, FiniteSets, TLC

CONSTANT DEV_BackslashNotEscaped   \* metric.go buildLabelValueKey escapes only "-" (finding C08)

-----------------------------------------------------------------------------
(* buildLabelValueKey *)

\* strings.ReplaceAll(label, "-", "\\-"); the corrected design also escapes
\* the escape character itself
EscChar(dev, c) == IF c = "-" THEN <<"\\", "-">>
                   ELSE IF c = "\\" /\ ~dev THEN <<"\\", "\\">>
                   ELSE <<c>>
RECURSIVE EscWith(_, _)
EscWith(dev, s) == IF s = <<>> THEN <<>> ELSE EscChar(dev, Head(s)) \o EscWith(dev, Tail(s))

\* for i := 0; i < len(labels); i++ { buf.WriteString(escaped label); buf.WriteString("-") }
RECURSIVE KeyWith(_, _)
KeyWith(dev, t) == IF t = <<>> THEN <<>> ELSE EscWith(dev, Head(t)) \o <<"-">> \o KeyWith(dev, Tail(t))

Key(t) == KeyWith(DEV_BackslashNotEscaped, t)

\* Ideal layer of the encoding: a decoder.  An encoding is injective iff it
\* has a left inverse; Decode is the left inverse of KeyWith(FALSE, _).
RECURSIVE Unkey(_, _, _)
Unkey(k, cur, acc) ==
  IF k = <<>> THEN acc
  ELSE IF k[1] = "\\" /\ Len(k) >= 2 THEN Unkey(SubSeq(k, 3, Len(k)), Append(cur, k[2]), acc)
  ELSE IF k[1] = "-" THEN Unkey(Tail(k), <<>>, Append(acc, cur))
  ELSE Unkey(Tail(k), Append(cur, k[1]), acc)
Decode(k) == Unkey(k, <<>>, <<>>)

-----------------------------------------------------------------------------
(* helpers on M *)
NilId == 0

Ids(M) == {M.lvs[i].id : i \in DOMAIN M.lvs} \cup {M.idx[k] : k \in DOMAIN M.idx}
\* allocation of a new *LabelValue: any address not reachable from M; the
\* smallest one keeps the state space canonical
FreshId(M) == CHOOSE n \in 1..(Cardinality(Ids(M)) + 1) :
                 n \notin Ids(M) /\ \A j \in 1..(n - 1) : j \in Ids(M)

\* first position of the element with this pointer, 0 if it is not in the slice
PosOfId(M, id) ==
  LET ps == {i \in DOMAIN M.lvs : M.lvs[i].id = id} IN
  IF ps = {} THEN 0 ELSE CHOOSE i \in ps : \A j \in ps : i <= j

Put(f, k, v) == [x \in DOMAIN f \cup {k} |-> IF x = k THEN v ELSE f[x]]
Del(f, k)    == [x \in DOMAIN f \ {k} |-> f[x]]
Splice(s, p) == SubSeq(s, 1, p - 1) \o SubSeq(s, p + 1, Len(s))

EmptyMetric == [lvs |-> <<>>, idx |-> <<>>]

Result(M, err, id, created) == [M |-> M, err |-> err, id |-> id, created |-> created]

-----------------------------------------------------------------------------
(* metric.go, one operator per method *)

\* func (m *Metric) FindLabelValueOrNil(labelvalues []string) *LabelValue
\*   k := buildLabelValueKey(labelvalues); lv, ok := m.labelValuesMap[k]
FindByKey(M, k) == IF k \in DOMAIN M.idx THEN M.idx[k] ELSE NilId
FindLabelValueOrNil(M, t) == FindByKey(M, Key(t))

\* func (m *Metric) AppendLabelValue(lv *LabelValue) error   (arity checked by the callers modelled here)
AppendLabelValue(M, lv) ==
  LET k == Key(lv.labels) IN [lvs |-> Append(M.lvs, lv), idx |-> Put(M.idx, k, lv.id)]

\* func (m *Metric) GetDatum(labelvalues ...string) (datum.Datum, error)
\* zero = [val, time] of a freshly made datum of the metric's type
GetDatum(M, arity, t, zero) ==
  IF Len(t) # arity THEN Result(M, TRUE, NilId, FALSE)
  ELSE LET f == FindLabelValueOrNil(M, t) IN
       IF f # NilId THEN Result(M, FALSE, f, FALSE)
       ELSE LET lv == [id |-> FreshId(M), labels |-> t, val |-> zero.val, time |-> zero.time, exp |-> 0]
            IN Result(AppendLabelValue(M, lv), FALSE, lv.id, TRUE)

\* func (m *Metric) RemoveDatum(labelvalues ...string) error
RemoveDatum(M, arity, t) ==
  IF Len(t) # arity THEN Result(M, TRUE, NilId, FALSE)
  ELSE LET k == Key(t) IN
       IF k \notin DOMAIN M.idx THEN Result(M, FALSE, NilId, FALSE)
       ELSE LET olv == M.idx[k]
                p   == PosOfId(M, olv)        \* the `for i ... if lv == olv` scan
            IN IF p = 0 THEN Result(M, FALSE, NilId, FALSE)   \* not in the slice: nothing happens, entry stays
               ELSE Result([lvs |-> Splice(M.lvs, p), idx |-> Del(M.idx, k)], FALSE, olv, FALSE)

\* func (m *Metric) ExpireDatum(expiry time.Duration, labelvalues ...string) error
ExpireDatum(M, arity, e, t) ==
  IF Len(t) # arity THEN Result(M, TRUE, NilId, FALSE)
  ELSE LET f == FindLabelValueOrNil(M, t) IN
       IF f = NilId THEN Result(M, TRUE, NilId, FALSE)
       ELSE Result([M EXCEPT !.lvs = [i \in DOMAIN M.lvs |->
                       IF M.lvs[i].id = f THEN [M.lvs[i] EXCEPT !.exp = e] ELSE M.lvs[i]]],
                   FALSE, f, FALSE)

\* the scan of RemoveOldestDatum: `oldestLV == nil || lv.Time.Before(oldestLV.Time)`:
\* position of the FIRST element with the minimal timestamp, 0 for an empty slice
RECURSIVE OldestFrom(_, _, _)
OldestFrom(lvs, i, o) ==
  IF i > Len(lvs) THEN o
  ELSE OldestFrom(lvs, i + 1, IF o = 0 \/ lvs[i].time < lvs[o].time THEN i ELSE o)
OldestPos(M) == OldestFrom(M.lvs, 1, 0)

\* func (m *Metric) RemoveOldestDatum()
RemoveOldestDatum(M, arity) ==
  LET o == OldestPos(M) IN
  IF o = 0 THEN Result(M, FALSE, NilId, FALSE)
  ELSE RemoveDatum(M, arity, M.lvs[o].labels)

\* a datum method (Set/IncBy/Observe ...) called through the pointer `id`:
\* f maps [val, time] to the new [val, time]
UpdateDatum(M, id, F(_)) ==
  [M EXCEPT !.lvs = [i \in DOMAIN M.lvs |->
     IF M.lvs[i].id = id
     THEN LET n == F([val |-> M.lvs[i].val, time |-> M.lvs[i].time])
          IN [M.lvs[i] EXCEPT !.val = n.val, !.time = n.time]
     ELSE M.lvs[i]]]

-----------------------------------------------------------------------------
(* well-formedness of the dual representation *)
IndexAgrees(M) ==
  /\ \A k \in DOMAIN M.idx : \E i \in DOMAIN M.lvs : M.lvs[i].id = M.idx[k] /\ Key(M.lvs[i].labels) = k
  /\ \A i \in DOMAIN M.lvs : /\ Key(M.lvs[i].labels) \in DOMAIN M.idx
                             /\ M.idx[Key(M.lvs[i].labels)] = M.lvs[i].id
  /\ \A i, j \in DOMAIN M.lvs : i # j => M.lvs[i].id # M.lvs[j].id /\ M.lvs[i].labels # M.lvs[j].labels
=============================================================================
