---------------------------- MODULE TraceRuntime ----------------------------
(***************************************************************************)
(* Direction B for C14 / C26: validates verifhook traces recorded from the *)
(* repository's own tests (go test -tags verif, VERIF_TRACE=<file>)        *)
(* against the control skeleton of Runtime.tla - the loader's program      *)
(* counter and the handle table.  The tests' programs are arbitrary, so    *)
(* the data part of Runtime.tla (versions, store) is not bound here; what  *)
(* is bound is exactly what the hook events carry:                         *)
(*                                                                         *)
(*   cr_hash       rt.load.unchanged(prog)      only if prog has a handle  *)
(*   cr_compile    rt.load.compile_error(prog)                             *)
(*   cr_add        rt.load.add(prog, metric, err)   err ends the load      *)
(*   cr_registered rt.load.registered(prog, vm)     vm is a fresh VM       *)
(*   cr_swap       rt.load.closed_old(prog, vm)     vm = handles[prog],    *)
(*                 rt.load.swapped(prog, vm)        exactly when a handle  *)
(*                                                  existed; vm registered *)
(*   Unload        rt.unload(prog)                  prog has a handle      *)
(*   fan-out       rt.line.sent(prog, vm)           vm = handles[prog]:    *)
(*                 a line goes to the installed version only, an unloaded  *)
(*                 or replaced VM receives no further line                 *)
(*                 rt.line.recv(nprogs)             nprogs <= live handles *)
(*   vm.exit(vm)   the Run loop of a VM ended (its channel was closed:     *)
(*                 before/after closed_old or unload, or runtime shutdown, *)
(*                 which closes every handle without a loader event)       *)
(*                                                                         *)
(* The loader events of one program are totally ordered (programErrorMu),  *)
(* handle changes and rt.line.sent are ordered by handleMu; nothing else   *)
(* is assumed about the order of events of different goroutines.           *)
(*                                                                         *)
(* TraceFile : ndjson [ev, prog, vm, err, nprogs]  (normalised by the      *)
(* check: pure projection of the recorded fields); SegFile : ndjson        *)
(* [first, last] - one segment per test process; Init picks the segment,   *)
(* an accepted segment prints CASE {accept: seg}.                          *)
(***************************************************************************)
EXTENDS Integers, Sequences, FiniteSets, Json, TLC

CONSTANTS TraceFile, SegFile

Trace == TLCEval(ndJsonDeserialize(TraceFile))
Segs  == TLCEval(ndJsonDeserialize(SegFile))

VARIABLES seg,      \* the segment being validated
          i,        \* index of the next event
          handles,  \* [prog -> [vm, exited]]   Runtime.handles as far as the trace shows it
          stage     \* [prog -> [st, vm]]       loader pc per program: idle | adding | registered | closed
tvars == <<seg, i, handles, stage>>

Idle == [st |-> "idle", vm |-> ""]
Upd(f, k, v) == [x \in DOMAIN f \cup {k} |-> IF x = k THEN v ELSE f[x]]
Del(f, k)    == [x \in DOMAIN f \ {k} |-> f[x]]

TInit == /\ seg \in 1..Len(Segs)
         /\ i = Segs[seg].first
         /\ handles = << >> /\ stage = << >>

E   == Trace[i]
P   == E.prog
St  == IF P \in DOMAIN stage THEN stage[P] ELSE Idle
Has == P \in DOMAIN handles
Live == {q \in DOMAIN handles : ~handles[q].exited}
\* a load may begin when the previous one of that program has ended ("registered" stays when the
\* runtime was built with CompileOnly: it returns after ProgLoads++)
CanStart == St.st \in {"idle", "registered"}

Consume(hd, sg) == /\ handles' = hd /\ stage' = sg /\ i' = i + 1 /\ UNCHANGED seg

Step ==
  /\ i <= Segs[seg].last
  /\ CASE E.ev = "rt.load.unchanged" ->
            /\ CanStart /\ (IF Has THEN ~handles[P].exited ELSE FALSE)
            /\ Consume(handles, Upd(stage, P, Idle))
       [] E.ev = "rt.load.compile_error" ->
            /\ CanStart
            /\ Consume(handles, Upd(stage, P, Idle))
       [] E.ev = "rt.load.add" ->
            /\ St.st \in {"idle", "registered", "adding"}
            /\ Consume(handles, Upd(stage, P, IF E.err THEN Idle ELSE [st |-> "adding", vm |-> ""]))
       [] E.ev = "rt.load.registered" ->
            /\ St.st \in {"idle", "registered", "adding"}
            /\ \A q \in Live : handles[q].vm # E.vm                            \* a fresh VM
            /\ Consume(handles, Upd(stage, P, [st |-> "registered", vm |-> E.vm]))
       [] E.ev = "rt.load.closed_old" ->
            /\ St.st = "registered" /\ (IF Has THEN handles[P].vm = E.vm ELSE FALSE)
            /\ Consume(handles, Upd(stage, P, [st |-> "closed", vm |-> St.vm]))
       [] E.ev = "rt.load.swapped" ->
            /\ IF St.st = "registered"
               THEN (IF Has THEN handles[P].exited ELSE TRUE)    \* no handle, or the previous runtime has shut down
               ELSE St.st = "closed"
            /\ E.vm = St.vm
            /\ Consume(Upd(handles, P, [vm |-> E.vm, exited |-> FALSE]), Upd(stage, P, Idle))
       [] E.ev = "rt.unload" ->
            /\ Has
            /\ Consume(Del(handles, P), stage)
       [] E.ev = "rt.line.sent" ->
            /\ (IF Has THEN handles[P].vm = E.vm /\ ~handles[P].exited ELSE FALSE)
            /\ Consume(handles, stage)
       [] E.ev = "rt.line.recv" ->
            /\ E.nprogs <= Cardinality(Live)
            /\ Consume(handles, stage)
       [] E.ev = "vm.exit" ->
            /\ Consume([q \in DOMAIN handles |-> IF handles[q].vm = E.vm THEN [handles[q] EXCEPT !.exited = TRUE] ELSE handles[q]],
                       stage)

TraceSpec == TInit /\ [][Step]_tvars

Reached == (i = Segs[seg].last + 1) => PrintT(<<"CASE", ToJson([accept |-> seg])>>)
\* diagnosis of a rejected segment (run alone): every consumed index is printed, the largest is where it stopped
Mark == PrintT(<<"CASE", ToJson([seg |-> seg, at |-> i])>>)
=============================================================================
