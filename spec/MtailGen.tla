------------------------------ MODULE MtailGen ------------------------------
(***************************************************************************)
(* The typed grammar of property C01's quantifier, as a generator: a pure  *)
(* function  GenCase(seed)  from an integer seed to (program AST, lines).  *)
(* TLC enumerates seeds (Init: seed \in Seeds, one initial state each),     *)
(* runs the reference semantics MtailLang!ExecLine line by line and prints *)
(* the program, the lines and the metrics expected after every line; the   *)
(* Go harness renders the AST to mtail source, compiles and runs it with   *)
(* the real compiler and VM, and the results are compared.                 *)
(*                                                                         *)
(* Randomness is a Lehmer generator (MINSTD, Schrage's method so that all  *)
(* intermediate values stay below 2^31) threaded explicitly: every Gen*    *)
(* operator takes a seed and returns [x, s] - so a case is reproducible    *)
(* from its seed alone.                                                    *)
(***************************************************************************)
EXTENDS MtailLang, Json

CONSTANTS SeedLo, SeedHi, \* seeds to run: SeedLo..SeedHi
          SeedSet,        \* ... or, when non-empty, exactly these seeds
          Profile       \* "lang" (C01), "fold" (C02), "time" (C05/C07), "leak" (C05), "fmt" (C23), "loose" (C04)

Rnd(s) == LET hi == s \div 127773  lo == s % 127773  t == 16807 * lo - 2836 * hi
          IN IF t > 0 THEN t ELSE t + 2147483647
Ch(s, n) == ((s \div 7) % n) + 1          \* choice in 1..n from the current seed
Coin(s, num, den) == ((s \div 11) % den) < num

G(x, s) == [x |-> x, s |-> s]

-----------------------------------------------------------------------------
(* Vocabulary *)
Words == << <<"f","o","o">>, <<"b","a","r">>, <<"B","a","Z">>, <<"q","u","x">> >>
IntToks == << <<"0">>, <<"5">>, <<"1","7">>, <<"0","0","7">>, <<"3">>, <<"1","2">> >>
FloatToks == << <<"1",".","5">>, <<"0",".","2","5">>, <<"2",".","0">>, <<"1","0",".","5">> >>
TimeToks == << <<"0","3","/","0","4","/","1","9","7","0">>,
               <<"2","5","/","1","2","/","1","9","7","0">>,
               <<"1","2","/","2","5","/","1","9","7","0">>,
               <<"1","9","7","0","-","0","1","-","0","2","T","0","3",":","0","4",":","0","5","Z">>,
               <<"0","3","/","0","4">>,
               <<"1","2","/","3","0">> >>      \* year-less, early and late in the year: one of the two lies in the future
OddToks == << <<"x","-","1">>, <<"5","x">>, <<"-","4">>, <<"1",".","5",".","2">> >>
AllToks == Words \o IntToks \o FloatToks \o OddToks \o (IF Profile = "time" THEN TimeToks ELSE <<>>)
Files == << <<"l","o","g","A">>, <<"l","o","g","B">> >>

\* metric pool: name, kind, keys, ty
Pool == <<
  [name |-> "ci", kind |-> "counter", keys |-> <<>>,            ty |-> "int"],
  [name |-> "cd", kind |-> "counter", keys |-> <<"k1">>,        ty |-> "int"],
  [name |-> "gi", kind |-> "gauge",   keys |-> <<>>,            ty |-> "int"],
  [name |-> "gk", kind |-> "gauge",   keys |-> <<"k1", "k2">>,  ty |-> "int"],
  [name |-> "gf", kind |-> "gauge",   keys |-> <<>>,            ty |-> "float"],
  [name |-> "fd", kind |-> "gauge",   keys |-> <<"k1">>,        ty |-> "float"],
  [name |-> "tx", kind |-> "text",    keys |-> <<>>,            ty |-> "string"],
  [name |-> "td", kind |-> "text",    keys |-> <<"k1">>,        ty |-> "string"],
  [name |-> "tm", kind |-> "gauge",   keys |-> <<>>,            ty |-> "int"],
  [name |-> "cf", kind |-> "counter", keys |-> <<>>,            ty |-> "float"],
  [name |-> "ti", kind |-> "timer",   keys |-> <<>>,            ty |-> "int"],
  [name |-> "hh", kind |-> "histogram", keys |-> <<>>,          ty |-> "buckets"] >>
PoolOfTy(ty) == SelectSeq(Pool, LAMBDA d : d.ty = ty /\ d.name # "tm")
PoolDim == SelectSeq(Pool, LAMBDA d : d.keys # <<>>)

-----------------------------------------------------------------------------
(* Patterns *)
GenPattern(idx, s) ==
  LET s1 == Rnd(s)  s2 == Rnd(s1)  s3 == Rnd(s2)  s4 == Rnd(s3)
      anch == Coin(s, 1, 4)
      w    == IF Coin(s1, 4, 5) THEN Words[Ch(s1, Len(Words))] ELSE <<>>
      nc   == IF w = <<>> THEN Ch(s2, 2) ELSE Ch(s2, 3) - 1
      kind(x) == CASE Ch(x, 5) \in {1, 2} -> "d" [] Ch(x, 5) = 3 -> "f" [] OTHER -> "s"
      nm(g, x) == IF Coin(x, 1, 3) THEN "n" \o ToString(idx) \o ToString(g) ELSE ""
      caps == [g \in 1..nc |-> LET x == IF g = 1 THEN s3 ELSE s4 IN [k |-> kind(x), name |-> nm(g, Rnd(x))]]
  IN G([anch |-> anch, w |-> w, caps |-> caps], Rnd(s4))

RECURSIVE GenPatterns(_, _, _)
GenPatterns(n, acc, s) == IF n = 0 THEN G(acc, s)
                          ELSE LET p == GenPattern(Len(acc) + 1, s) IN GenPatterns(n - 1, Append(acc, p.x), p.s)

-----------------------------------------------------------------------------
(* Expressions.  scope = sequence of visible captures [p, g, k, name]      *)
OneTok(pats) == {i \in 1..Len(pats) : pats[i].w = <<>> /\ Len(pats[i].caps) = 1}      \* patterns that can match a one-token string
CapsOf(scope, k) == SelectSeq(scope, LAMBDA c : c.k = k)
Lit(ty, s) == CASE ty = "int"   -> [n |-> "int", v |-> <<0, 1, 2, 3, 5, 7, 10, 20, -1, -4>>[Ch(s, 10)]]
                [] ty = "float" -> [n |-> "float", v |-> << <<1,2>>, <<3,2>>, <<2,1>>, <<1,4>>, <<5,2>>, <<-3,2>>, <<10,1>> >>[Ch(s, 7)]]
                [] OTHER        -> IF Profile = "fmt" /\ Coin(s, 1, 3)
                                   THEN [n |-> "str", v |-> << <<"q","\"","r">>, <<"b","\\","s">>, <<"\"">>, <<"e","n","d","\\">>, <<"d","\\","\"","q">>, <<"\\","\"">> >>[Ch(s, 6)]]
                                   ELSE [n |-> "str", v |-> << <<"a">>, <<"f","o","o">>, <<"B","a","Z">>, <<>>, <<"x","_","y">>, <<"4","2">> >>[Ch(s, 6)]]
NzLit(ty, s) == CASE ty = "int" -> [n |-> "int", v |-> <<1, 2, 3, 5, 7, -2>>[Ch(s, 6)]]
                  [] OTHER      -> [n |-> "float", v |-> << <<2,1>>, <<1,2>>, <<4,1>> >>[Ch(s, 3)]]
CapRef(c, s) == [n |-> "cap", p |-> c.p, slot |-> c.slot, g |-> Abs(c.g), byname |-> (c.name # "" /\ (c.g < 0 \/ Coin(s, 1, 2))), name |-> c.name]

RECURSIVE GenExpr(_, _, _, _), GenExprT(_, _, _, _), GenIdx(_, _, _, _), GenCmp(_, _, _)

\* leaf that is not a metric read (keeps index expressions shallow)
GenLeafNoVar(ty, scope, s) ==
  LET s1 == Rnd(s)  s2 == Rnd(s1)
      k == CASE ty = "int" -> "d" [] ty = "float" -> "f" [] OTHER -> "s"
      cs == CapsOf(scope, k)
  IN IF Ch(s, 10) <= 6 /\ cs # <<>> THEN G(CapRef(cs[Ch(s1, Len(cs))], s2), Rnd(s2))
     ELSE G(Lit(ty, s1), s2)

\* a leaf of the given type
GenLeaf(ty, scope, s) ==
  LET s1 == Rnd(s)  s2 == Rnd(s1)
      k == CASE ty = "int" -> "d" [] ty = "float" -> "f" [] OTHER -> "s"
      cs == CapsOf(scope, k)
      pool == PoolOfTy(ty)
      c == Ch(s, 10)
  IN IF Profile = "fold" /\ Coin(s1, 3, 5) THEN G(Lit(ty, s1), s2)        \* literal-rich: constant sub-expressions everywhere
     ELSE IF c <= 4 /\ cs # <<>> THEN G(CapRef(cs[Ch(s1, Len(cs))], s2), Rnd(s2))
     ELSE IF c <= 6 THEN
          LET d == pool[Ch(s1, Len(pool))]  ix == GenIdx(d.keys, scope, 0, s2)
          IN G([n |-> "var", m |-> d.name, idx |-> ix.x], ix.s)
     ELSE G(Lit(ty, s1), s2)

GenIdx(keys, scope, depth, s) ==
  IF keys = <<>> THEN G(<<>>, s)
  ELSE LET c == Ch(s, 6)
           ty == CASE c <= 3 -> "string" [] c <= 5 -> "int" [] OTHER -> "float"
           e == IF depth > 0 THEN GenExpr(ty, scope, 0, Rnd(s)) ELSE GenLeafNoVar(ty, scope, Rnd(s))
           rest == GenIdx(Tail(keys), scope, depth, e.s)
       IN G(<<e.x>> \o rest.x, rest.s)

Bin(op, l, r) == [n |-> "bin", op |-> op, l |-> l, r |-> r]
Call(f, args) == [n |-> "call", f |-> f, args |-> args]

\* profile "loose" (C04): the type discipline is broken on purpose now and then - an operand of another type, a
\* comparison used as a number - to reach every shape the checker's coercion rules let through; programs the
\* compiler rejects are simply not part of C04's domain
OtherTy(ty, s) == CASE ty = "int" -> IF Coin(s, 1, 2) THEN "float" ELSE "string"
                    [] ty = "float" -> IF Coin(s, 1, 2) THEN "int" ELSE "string"
                    [] OTHER -> IF Coin(s, 1, 2) THEN "int" ELSE "float"
GenExpr(ty, scope, depth, s) ==
  IF Profile = "loose" /\ Coin(s, 1, 7) THEN
       (IF Coin(Rnd(s), 1, 3) /\ depth > 0 THEN GenCmp(scope, depth - 1, Rnd(Rnd(s))) ELSE GenExprT(OtherTy(ty, Rnd(s)), scope, depth, Rnd(Rnd(s))))
  ELSE GenExprT(ty, scope, depth, s)

GenExprT(ty, scope, depth, s) ==
  IF depth = 0 THEN GenLeaf(ty, scope, s) ELSE
  LET s1 == Rnd(s)  s2 == Rnd(s1) IN
  CASE ty = "int" ->
         LET c == Ch(s, 20) IN
         IF c <= 3 THEN GenLeaf("int", scope, s1)
         ELSE IF c <= 12 THEN         \* + - * & | ^  on ints
              LET op == <<"+", "-", "*", "+", "-", "*", "&", "|", "^">>[c - 3]
                  l == GenExpr("int", scope, depth - 1, s1)  r == GenExpr("int", scope, depth - 1, l.s)
              IN G(Bin(op, l.x, r.x), r.s)
         ELSE IF c <= 14 THEN         \* / %  : divisor is a non-zero literal or a capture/metric (runtime zero possible)
              LET op == IF c = 13 THEN "/" ELSE "%"
                  l == GenExpr("int", scope, depth - 1, s1)
                  r == IF Coin(l.s, 1, 2) THEN G(NzLit("int", l.s), Rnd(l.s)) ELSE GenLeaf("int", scope, Rnd(l.s))
                  rr == IF r.x.n = "int" /\ r.x.v = 0 THEN G(NzLit("int", r.s), Rnd(r.s)) ELSE r
              IN G(Bin(op, l.x, rr.x), rr.s)
         ELSE IF c = 15 THEN          \* ** small literal exponent
              LET l == GenExpr("int", scope, depth - 1, s1) IN G(Bin("**", l.x, [n |-> "int", v |-> Ch(l.s, 4) - 1]), Rnd(l.s))
         ELSE IF c = 16 THEN          \* shifts
              LET l == GenExpr("int", scope, depth - 1, s1)
                  r == IF Coin(l.s, 2, 3) THEN G([n |-> "int", v |-> Ch(l.s, 5) - 1], Rnd(l.s)) ELSE GenLeaf("int", scope, Rnd(l.s))
              IN G(Bin(IF Coin(s1, 1, 2) THEN "<<" ELSE ">>", l.x, r.x), r.s)
         ELSE IF c = 17 THEN LET a == GenExpr("string", scope, depth - 1, s1) IN G(Call("len", <<a.x>>), a.s)
         ELSE IF c = 18 THEN LET a == GenExpr("string", scope, depth - 1, s1) IN G(Call("int", <<a.x>>), a.s)
         ELSE IF c = 19 THEN LET a == GenLeafNoVar("string", scope, s1)
                             IN G(Call("strtol", <<a.x, [n |-> "int", v |-> <<8, 10, 16, 2>>[Ch(a.s, 4)]]>>), Rnd(a.s))
         ELSE IF Profile # "fmt" /\ Coin(s1, 1, 2) THEN      \* the VALUE of an increment / decrement
              LET d == <<"gi", "ci", "ti">>[Ch(s1, 3)] IN G([n |-> IF d = "gi" /\ Coin(s2, 1, 2) THEN "dec" ELSE "inc", m |-> d, idx |-> <<>>], s2)
         ELSE GenLeaf("int", scope, s1)
    [] ty = "float" ->
         LET c == Ch(s, 12) IN
         IF c <= 2 THEN GenLeaf("float", scope, s1)
         ELSE IF c <= 7 THEN          \* + - *  with at least one float side (the other side may be an int: promotion)
              LET op == <<"+", "-", "*", "+", "*">>[c - 2]
                  lt == IF Coin(s1, 1, 3) THEN "int" ELSE "float"
                  l == GenExpr(lt, scope, depth - 1, s2)
                  rt == IF lt = "int" THEN "float" ELSE IF Coin(l.s, 1, 3) THEN "int" ELSE "float"
                  r == GenExpr(rt, scope, depth - 1, Rnd(l.s))
              IN G(Bin(op, l.x, r.x), r.s)
         ELSE IF c <= 9 THEN          \* / %  by an exact power of two literal (keeps every float dyadic and exact)
              LET l == GenExpr("float", scope, depth - 1, s1)
              IN G(Bin(IF c = 8 THEN "/" ELSE "%", l.x, NzLit("float", l.s)), Rnd(l.s))
         ELSE IF c = 10 THEN
              LET l == GenExpr("float", scope, depth - 1, s1) IN G(Bin("**", l.x, [n |-> "int", v |-> Ch(l.s, 4) - 1]), Rnd(l.s))
         ELSE IF c = 11 THEN LET a == GenExpr("string", scope, depth - 1, s1) IN G(Call("float", <<a.x>>), a.s)
         ELSE LET a == GenExpr("int", scope, depth - 1, s1) IN G(Call("float", <<a.x>>), a.s)
    [] OTHER ->
         LET c == Ch(s, 10) IN
         IF c <= 3 THEN GenLeaf("string", scope, s1)
         ELSE IF c <= 5 THEN LET a == GenExpr("string", scope, depth - 1, s1) IN G(Call("tolower", <<a.x>>), a.s)
         ELSE IF c = 6 THEN
              LET a == GenExpr("string", scope, depth - 1, s1)
                  old == << <<"o">>, <<"a">>, <<"f","o">>, <<"Z">> >>[Ch(a.s, 4)]
                  new == << <<>>, <<"_">>, <<"o","o">> >>[Ch(Rnd(a.s), 3)]
              IN G(Call("subst", << [n |-> "str", v |-> old], [n |-> "str", v |-> new], a.x >>), Rnd(Rnd(a.s)))
         ELSE IF c = 7 THEN LET a == GenExpr("int", scope, depth - 1, s1) IN G(Call("string", <<a.x>>), a.s)
         ELSE IF c = 8 THEN
              LET l == GenExpr("string", scope, depth - 1, s1)  r == GenExpr("string", scope, depth - 1, l.s)
              IN G(Bin("cat", l.x, r.x), r.s)
         ELSE IF c = 9 THEN G(Call("getfilename", <<>>), s1)
         ELSE GenLeaf("string", scope, s1)

\* a comparison between operands of one class
GenCmp(scope, depth, s) ==
  LET s1 == Rnd(s)
      op == <<"<", "<=", ">", ">=", "==", "!=">>[Ch(s, 6)]
      c  == Ch(s1, 10)
      lt == IF c <= 5 THEN "int" ELSE IF c <= 8 THEN "float" ELSE "string"
      \* string comparison: the left operand is a text that cannot be read as a number (the VM's generic compare
      \* coerces a numeric-looking left string and then fails on a non-numeric right one: outside the typed grammar)
      l  == IF lt = "string"
            THEN (IF Coin(s1, 1, 3) THEN G(Call("getfilename", <<>>), Rnd(s1))
                  ELSE G([n |-> "str", v |-> << <<"a">>, <<"f","o","o">>, <<"B","a","Z">>, <<>>, <<"x","_","y">> >>[Ch(Rnd(s1), 5)]], Rnd(Rnd(s1))))
            ELSE GenExpr(lt, scope, depth, Rnd(s1))
      rt == IF lt = "string" THEN "string" ELSE IF Coin(l.s, 1, 4) THEN (IF lt = "int" THEN "float" ELSE "int") ELSE lt
      r  == IF Coin(l.s, 1, 2) THEN G(Lit(rt, Rnd(l.s)), Rnd(Rnd(l.s))) ELSE GenExpr(rt, scope, depth, Rnd(l.s))
  IN G(Bin(op, l.x, r.x), r.s)

ScopeWithSlot(pats, p, outer, slot) ==      \* captures of pattern p shadow outer numbered captures of the same index
  LET mine == [g \in 1..Len(pats[p].caps) |-> [p |-> p, slot |-> slot, g |-> g, k |-> pats[p].caps[g].k, name |-> pats[p].caps[g].name]]
      mynames == {pats[p].caps[g].name : g \in 1..Len(pats[p].caps)} \ {""}
      keep == SelectSeq(outer, LAMBDA c : (Abs(c.g) > Len(pats[p].caps) \/ c.name # "") /\ c.name \notin mynames)
      \* an outer capture whose index is shadowed stays reachable by name only (unless the name is redeclared too)
      fix == [i \in 1..Len(keep) |-> IF Abs(keep[i].g) <= Len(pats[p].caps) THEN [keep[i] EXCEPT !.g = -Abs(keep[i].g)] ELSE keep[i]]
  IN mine \o fix
ScopeWith(pats, p, outer) == ScopeWithSlot(pats, p, outer, p)
\* captures with a negative g can only be written $name: CapRef honours that.
\* The else block of a conditional lies in the scope of the conditional too: the numbered captures of its
\* pattern shadow outer ones there as well (and are useless, the pattern did not match), so the else block may
\* only use outer captures that are not shadowed.
ScopeElse(pats, p, outer) ==
  LET mynames == {pats[p].caps[g].name : g \in 1..Len(pats[p].caps)} \ {""}
      keep == SelectSeq(outer, LAMBDA c : (Abs(c.g) > Len(pats[p].caps) \/ c.name # "") /\ c.name \notin mynames)
  IN [i \in 1..Len(keep) |-> IF Abs(keep[i].g) <= Len(pats[p].caps) THEN [keep[i] EXCEPT !.g = -Abs(keep[i].g)] ELSE keep[i]]

\* what a decorated block sees of the decorator's scope at `next`: checker.go flattens the scope with
\* Scope.CopyFrom, which re-inserts every symbol under its current name - a NAMED group keeps only its name
AtNext(scope) == [i \in 1..Len(scope) |-> IF scope[i].name # "" THEN [scope[i] EXCEPT !.g = -Abs(scope[i].g)] ELSE scope[i]]

\* scope `inner` laid over scope `outer`: numbered captures of inner shadow outer ones of the same index
Over(inner, outer) ==
  LET idx == {Abs(inner[i].g) : i \in {j \in 1..Len(inner) : inner[j].g > 0}}
      keep == SelectSeq(outer, LAMBDA c : Abs(c.g) \notin idx \/ c.name # "")
  IN inner \o [i \in 1..Len(keep) |-> IF Abs(keep[i].g) \in idx THEN [keep[i] EXCEPT !.g = -Abs(keep[i].g)] ELSE keep[i]]

\* condition: returns [x = [c, scope], s]
GenCond(pats, scope, s) ==
  LET s1 == Rnd(s)  s2 == Rnd(s1)
      p == Ch(s1, Len(pats))
      sc == ScopeWith(pats, p, scope)
      c0 == Ch(s, 12)
      se == ScopeElse(pats, p, scope)
      c == IF Profile = "leak" /\ c0 \in 5..11 THEN 11 ELSE c0     \* profile leak (C05): mostly match sites behind a short-circuit
  IN IF Profile = "loose" /\ Coin(s2, 1, 5) THEN
          \* profile loose (C04): the checker also accepts an INTEGER-valued condition (C-style truth value), alone or
          \* as an operand of && / ||: the conditional jumps then find an int on the stack
          LET a == GenExpr("int", scope, 1, Rnd(s2))
              b == GenCmp(scope, 0, a.s)
              k == Ch(a.s, 4)
              cnd == CASE k = 1 -> a.x [] k = 2 -> Bin("&&", a.x, b.x) [] k = 3 -> Bin("||", b.x, a.x)
                       [] OTHER -> Bin("&", a.x, [n |-> "int", v |-> 1])
          IN G([c |-> cnd, scope |-> scope, escope |-> scope], Rnd(b.s))
     ELSE IF c <= 6 THEN G([c |-> [n |-> "pat", p |-> p], scope |-> sc, escope |-> se], s2)
     ELSE IF c <= 8 THEN LET r == GenCmp(sc, 1, s2) IN G([c |-> Bin("&&", [n |-> "pat", p |-> p], r.x), scope |-> sc, escope |-> se], r.s)
     ELSE IF c = 9 THEN LET r == GenCmp(se, 1, s2) IN G([c |-> Bin("||", [n |-> "pat", p |-> p], r.x), scope |-> sc, escope |-> se], r.s)
     ELSE IF c = 10 THEN LET r == GenCmp(scope, 1, s2) IN G([c |-> r.x, scope |-> scope, escope |-> scope], r.s)
     ELSE IF c = 11 /\ OneTok(pats) = {} THEN LET r == GenCmp(scope, 1, s2) IN G([c |-> r.x, scope |-> scope, escope |-> scope], r.s)
     ELSE IF c = 11 THEN
          \* comparison || / && (string =~ /pattern with captures/) : the match instruction runs only when the
          \* comparison does not decide; the block may refer to the pattern's captures
          LET r == GenCmp(scope, 0, s2)
              a == GenLeafNoVar("string", scope, r.s)
              slot == 1000 + (a.s % 1000000)                    \* a capture slot of this match site alone
              \* a pattern that can match a one-token string: no literal word, one capture
              q == CHOOSE x \in OneTok(pats) : \A y \in OneTok(pats) : (x + a.s) % 7 <= (y + a.s) % 7 \/ x = y
          IN G([c |-> Bin(IF Coin(a.s, 2, 3) THEN "||" ELSE "&&", r.x, [n |-> "pmatch", l |-> a.x, p |-> q, slot |-> slot]),
                scope |-> ScopeWithSlot(pats, q, scope, slot), escope |-> ScopeElse(pats, q, scope)], Rnd(a.s))
     ELSE LET a == GenLeaf("string", scope, s2)
              lit == << <<"f","o">>, <<"a">>, <<"l","o","g","A">>, <<"B">> >>[Ch(a.s, 4)]
          IN G([c |-> [n |-> "smatch", l |-> a.x, s |-> lit, a |-> Coin(a.s, 1, 2), neg |-> Coin(Rnd(a.s), 1, 3)], scope |-> scope, escope |-> scope], Rnd(Rnd(a.s)))

-----------------------------------------------------------------------------
(* Statements *)
RECURSIVE GenBlock(_, _, _, _, _, _), GenStmt(_, _, _, _, _), GenBlockFrom(_, _, _, _, _, _, _)
\* ctx = [pats, decos (names), indeco (BOOLEAN: a `next` is still owed)]

GenWrite(scope, depth, s) ==          \* an assignment-like statement
  LET s1 == Rnd(s)  s2 == Rnd(s1)
      c == Ch(s, 14) IN
  IF c <= 3 THEN      \* ++ on an int metric
       LET pool == SelectSeq(PoolOfTy("int"), LAMBDA d : TRUE)  d == pool[Ch(s1, Len(pool))]
           ix == GenIdx(d.keys, scope, depth, s2)
       IN G([n |-> "expr", e |-> [n |-> "inc", m |-> d.name, idx |-> ix.x]], ix.s)
  ELSE IF c = 4 THEN  \* -- on an int gauge
       LET pool == SelectSeq(PoolOfTy("int"), LAMBDA d : d.kind = "gauge")  d == pool[Ch(s1, Len(pool))]
           ix == GenIdx(d.keys, scope, depth, s2)
       IN G([n |-> "expr", e |-> [n |-> "dec", m |-> d.name, idx |-> ix.x]], ix.s)
  ELSE IF c <= 10 THEN \* =
       LET ty == <<"int", "int", "float", "float", "string", "int">>[c - 4]
           pool == PoolOfTy(ty)  d == pool[Ch(s1, Len(pool))]
           ix == GenIdx(d.keys, scope, depth, s2)
           r == GenExpr(ty, scope, depth + 1, ix.s)
       IN G([n |-> "expr", e |-> [n |-> "assign", m |-> d.name, idx |-> ix.x, r |-> r.x]], r.s)
  ELSE IF c <= 12 THEN \* +=
       LET ty == IF c = 11 THEN "int" ELSE "float"
           pool == PoolOfTy(ty)  d == pool[Ch(s1, Len(pool))]
           ix == GenIdx(d.keys, scope, depth, s2)
           r == GenExpr(ty, scope, depth, ix.s)
       IN G([n |-> "expr", e |-> [n |-> "addassign", m |-> d.name, idx |-> ix.x, r |-> r.x]], r.s)
  ELSE IF c = 13 THEN \* tm = timestamp()
       G([n |-> "expr", e |-> [n |-> "assign", m |-> "tm", idx |-> <<>>, r |-> Call("timestamp", <<>>)]], s1)
  ELSE IF Profile \in {"lang", "time", "loose", "leak"} /\ Coin(s1, 1, 4) THEN      \* ++ on a histogram: accepted, panics in the VM
       G([n |-> "expr", e |-> [n |-> "inc", m |-> "hh", idx |-> <<>>]], s2)
  ELSE                \* settime(int)
       LET a == GenExpr("int", scope, IF Profile = "loose" THEN 1 ELSE 0, s1) IN G([n |-> "expr", e |-> Call("settime", <<a.x>>)], a.s)

GenStrptime(scope, s) ==
  LET s1 == Rnd(s)
      cs == CapsOf(scope, "s")
      a == IF cs # <<>> /\ Coin(s, 4, 5) THEN CapRef(cs[Ch(s1, Len(cs))], Rnd(s1))
           ELSE [n |-> "str", v |-> TimeToks[Ch(s1, Len(TimeToks))]]
  IN G([n |-> "expr", e |-> Call("strptime", <<a, [n |-> "int", v |-> <<2, 3, 2, 3, 1, 4>>[Ch(Rnd(s1), 6)]]>>)], Rnd(Rnd(s1)))

GenStmt(ctx, scope, depth, indeco, s) ==
  \* returns [x = [st, used (BOOLEAN: consumed the owed `next`)], s]
  LET s1 == Rnd(s)  s2 == Rnd(s1)
      c == Ch(s, 20)
      leafOnly == depth >= 3 IN
  IF indeco /\ (leafOnly \/ c = 20) THEN G([st |-> [n |-> "next"], used |-> TRUE, ns |-> AtNext(scope)], s1)
  ELSE IF (c <= 7 /\ ~leafOnly) THEN     \* conditional with optional else
       LET cd == GenCond(ctx.pats, scope, s1)
           tb == GenBlock(ctx, cd.x.scope, depth + 1, indeco, 0, cd.s)
           he == Coin(tb.s, 1, 3)
           eb == IF he THEN GenBlock(ctx, cd.x.escope, depth + 1, FALSE, 0, Rnd(tb.s)) ELSE G([b |-> <<>>, used |-> FALSE, ns |-> <<>>], Rnd(tb.s))
       IN G([st |-> [n |-> "cond", c |-> cd.x.c, t |-> tb.x.b, e |-> eb.x.b, he |-> he], used |-> tb.x.used, ns |-> tb.x.ns], eb.s)
  ELSE IF (c = 8 /\ ~leafOnly) THEN      \* otherwise
       LET tb == GenBlock(ctx, scope, depth + 1, indeco, 0, s1)
       IN G([st |-> [n |-> "otherwise", t |-> tb.x.b], used |-> tb.x.used, ns |-> tb.x.ns], tb.s)
  ELSE IF (c = 9 /\ ~leafOnly /\ ctx.decos # <<>> /\ ~indeco /\ ~ctx.indef) THEN   \* decorated block
       \* the decorated block is checked in the scope the decorator has at its `next` (checker.go DecoStmt:
       \* the definition's flattened scope is copied in front of the use site's scope)
       \* (no nested use of a decorator inside a decorated block: known finding DEV_NestedDecoratorRegexIndex)
       LET tb == GenBlock([ctx EXCEPT !.decos = <<>>], Over(ctx.dscope, scope), depth + 1, FALSE, 0, s1)
       IN G([st |-> [n |-> "deco", name |-> ctx.decos[Ch(s1, Len(ctx.decos))], t |-> tb.x.b], used |-> FALSE, ns |-> <<>>], tb.s)
  ELSE IF c = 10 THEN                     \* del
       LET d == PoolDim[Ch(s1, Len(PoolDim))]  ix == GenIdx(d.keys, scope, 0, s2)
       IN G([st |-> [n |-> "del", m |-> d.name, idx |-> ix.x], used |-> FALSE, ns |-> <<>>], ix.s)
  ELSE IF c = 11 THEN                     \* del after
       LET d == PoolDim[Ch(s1, Len(PoolDim))]  ix == GenIdx(d.keys, scope, 0, s2)
       IN G([st |-> [n |-> "delafter", m |-> d.name, idx |-> ix.x, h |-> Ch(ix.s, 3)], used |-> FALSE, ns |-> <<>>], Rnd(ix.s))
  ELSE IF c = 12 /\ Coin(s1, 1, 3) THEN G([st |-> [n |-> "stop"], used |-> FALSE, ns |-> <<>>], s2)
  ELSE IF c \in {13, 14, 15, 16} /\ Profile = "time" THEN LET r == GenStrptime(scope, s1) IN G([st |-> r.x, used |-> FALSE, ns |-> <<>>], r.s)
  ELSE LET w == GenWrite(scope, IF depth >= 2 THEN 0 ELSE 1, s1) IN G([st |-> w.x, used |-> FALSE, ns |-> <<>>], w.s)

\* a block of 1..3 statements; if a `next` is owed (indeco) exactly one statement consumes it
GenBlock(ctx, scope, depth, indeco, k, s) ==
  LET n == IF depth = 0 THEN 2 + Ch(s, 3) ELSE Ch(s, 3) IN
  IF k >= n THEN G([b |-> <<>>, used |-> FALSE, ns |-> <<>>], s)
  ELSE LET owe == indeco /\ k = n - 1            \* the last statement must take the `next` if nobody did
           st == GenStmt(ctx, scope, depth, indeco, Rnd(s))
           \* statements after the one that used `next` no longer owe it
           rest == GenBlockFrom(ctx, scope, depth, indeco /\ ~st.x.used, k + 1, n, st.s)
       IN G([b |-> <<st.x.st>> \o rest.x.b, used |-> st.x.used \/ rest.x.used,
             ns |-> IF st.x.used THEN st.x.ns ELSE rest.x.ns], rest.s)

GenBlockFrom(ctx, scope, depth, indeco, k, n, s) ==
  IF k >= n THEN
       \* still owed: append the `next`
       IF indeco THEN G([b |-> << [n |-> "next"] >>, used |-> TRUE, ns |-> AtNext(scope)], s) ELSE G([b |-> <<>>, used |-> FALSE, ns |-> <<>>], s)
  ELSE LET st == GenStmt(ctx, scope, depth, indeco, Rnd(s))
           rest == GenBlockFrom(ctx, scope, depth, indeco /\ ~st.x.used, k + 1, n, st.s)
       IN G([b |-> <<st.x.st>> \o rest.x.b, used |-> st.x.used \/ rest.x.used,
             ns |-> IF st.x.used THEN st.x.ns ELSE rest.x.ns], rest.s)

-----------------------------------------------------------------------------
(* Metrics used by a program (only those are declared) *)
RECURSIVE UsedE(_), UsedEs(_), UsedS(_), UsedSs(_)
UsedEs(es) == IF es = <<>> THEN {} ELSE UsedE(Head(es)) \cup UsedEs(Tail(es))
UsedE(e) ==
  CASE e.n \in {"int", "float", "str", "cap", "pat"} -> {}
    [] e.n = "var" -> {e.m} \cup UsedEs(e.idx)
    [] e.n = "bin" -> UsedE(e.l) \cup UsedE(e.r)
    [] e.n \in {"smatch", "pmatch"} -> UsedE(e.l)
    [] e.n \in {"assign", "addassign"} -> {e.m} \cup UsedEs(e.idx) \cup UsedE(e.r)
    [] e.n \in {"inc", "dec"} -> {e.m} \cup UsedEs(e.idx)
    [] e.n = "call" -> UsedEs(e.args)
    [] OTHER -> {}
UsedSs(ss) == IF ss = <<>> THEN {} ELSE UsedS(Head(ss)) \cup UsedSs(Tail(ss))
UsedS(st) ==
  CASE st.n = "cond" -> UsedE(st.c) \cup UsedSs(st.t) \cup UsedSs(st.e)
    [] st.n = "otherwise" -> UsedSs(st.t)
    [] st.n = "expr" -> UsedE(st.e)
    [] st.n \in {"del", "delafter"} -> {st.m} \cup UsedEs(st.idx)
    [] st.n = "deco" -> UsedSs(st.t)
    [] OTHER -> {}

RECURSIVE HasDeco(_)
HasDeco(ss) == IF ss = <<>> THEN FALSE
               ELSE LET st == Head(ss) IN
                    \/ st.n = "deco"
                    \/ (st.n = "cond" /\ (HasDeco(st.t) \/ HasDeco(st.e)))
                    \/ (st.n = "otherwise" /\ HasDeco(st.t))
                    \/ HasDeco(Tail(ss))

\* metrics that some statement writes with a value of the metric's own type (this is what lets the
\* compiler infer the declared type); metrics only read get a typing statement appended
RECURSIVE WrittenSs(_)
WrittenSs(ss) ==
  IF ss = <<>> THEN {} ELSE
  LET st == Head(ss)
      w == CASE st.n = "cond" -> WrittenSs(st.t) \cup WrittenSs(st.e)
             [] st.n \in {"otherwise", "deco"} -> WrittenSs(st.t)
             [] st.n = "expr" /\ st.e.n \in {"assign", "addassign"} -> {st.e.m}
             [] OTHER -> {}
  IN w \cup WrittenSs(Tail(ss))

TypingStmt(d) ==
  [n |-> "cond", he |-> FALSE, e |-> <<>>,
   c |-> Bin("==", [n |-> "int", v |-> 1], [n |-> "int", v |-> 2]),       \* never true: only fixes the inferred type
   t |-> << [n |-> "expr", e |-> [n |-> "assign", m |-> d.name,
                                   idx |-> [i \in 1..Len(d.keys) |-> [n |-> "str", v |-> <<"z">>]],
                                   r |-> Lit(d.ty, 3)]] >>]

-----------------------------------------------------------------------------
(* Lines *)
RECURSIVE GenToks(_, _, _)
GenToks(n, acc, s) == IF n = 0 THEN G(acc, s) ELSE GenToks(n - 1, Append(acc, AllToks[Ch(s, Len(AllToks))]), Rnd(s))
TokOfClass(k, s) == CASE k = "d" -> IntToks[Ch(s, Len(IntToks))]
                      [] k = "f" -> FloatToks[Ch(s, Len(FloatToks))]
                      [] OTHER   -> IF Profile = "time" /\ Coin(s, 2, 3) THEN TimeToks[Ch(s, Len(TimeToks))] ELSE AllToks[Ch(s, Len(AllToks))]
RECURSIVE CapToks(_, _, _)
CapToks(caps, acc, s) == IF caps = <<>> THEN G(acc, s) ELSE CapToks(Tail(caps), Append(acc, TokOfClass(Head(caps).k, s)), Rnd(s))
GenLine(pats, s) ==
  LET s1 == Rnd(s)  s2 == Rnd(s1) IN
  IF Coin(s, 3, 4) THEN      \* built to match one of the program's patterns
       LET p == pats[Ch(s1, Len(pats))]
           pre == IF ~p.anch /\ Coin(s1, 1, 3) THEN << AllToks[Ch(s2, Len(AllToks))] >> ELSE <<>>
           body == CapToks(p.caps, IF p.w = <<>> THEN <<>> ELSE <<p.w>>, s2)
           post == IF Coin(body.s, 1, 3) THEN << AllToks[Ch(body.s, Len(AllToks))] >> ELSE <<>>
       IN G(pre \o body.x \o post, Rnd(body.s))
  ELSE GenToks(Ch(s1, 4) - 1, <<>>, s2)
LeakLine(pats, s) ==
  LET s1 == Rnd(s)  s2 == Rnd(s1)
      kb == pats[Len(pats)].caps[1].k
      second == IF Coin(s1, 2, 3) THEN TokOfClass(kb, s2) ELSE AllToks[Ch(s2, Len(AllToks))]
  IN G(<< IntToks[Ch(s, Len(IntToks))], second >>, Rnd(s2))
RECURSIVE GenLines(_, _, _, _)
GenLines(pats, n, acc, s) ==
  IF n = 0 THEN G(acc, s)
  ELSE IF acc # <<>> /\ Coin(s, 1, 4) THEN GenLines(pats, n - 1, Append(acc, acc[Ch(s, Len(acc))]), Rnd(s))   \* repeat an earlier line
  ELSE LET l == IF Profile = "leak" /\ Coin(s, 3, 5) THEN LeakLine(pats, Rnd(s)) ELSE GenLine(pats, Rnd(s)) IN GenLines(pats, n - 1, Append(acc, [toks |-> l.x, file |-> Files[Ch(l.s, 2)]]), Rnd(l.s))

-----------------------------------------------------------------------------
(* A case *)
\* profile leak (C05): a DIRECTED first statement.  Inside /^(\d+) (\S+)/ a comparison of $1 decides whether the
\* match of $2 against a one-capture pattern is evaluated at all; the block uses that match's capture.  On a line
\* where the comparison short-circuits, the capture reference is reached without its match having run on THIS
\* line (a runtime error in the reference semantics) - whatever an earlier line left in that match site must not show.
LeakPats(kb) == << [anch |-> TRUE, w |-> <<>>, caps |-> << [k |-> "d", name |-> ""], [k |-> "s", name |-> ""] >>],
                   [anch |-> FALSE, w |-> <<>>, caps |-> << [k |-> kb, name |-> ""] >>] >>
LeakKind(s) == <<"d", "d", "f", "s">>[Ch(s, 4)]
LeakStmt(pats, s) ==
  LET iA == Len(pats) - 1  iB == Len(pats)
      s1 == Rnd(s)  s2 == Rnd(s1)  s3 == Rnd(s2)
      scA == ScopeWith(pats, iA, <<>>)
      scB == ScopeWithSlot(pats, iB, scA, 999)
      cmp == Bin(<<">", "<", ">=", "==">>[Ch(s, 4)], CapRef(scA[1], s1), [n |-> "int", v |-> <<3, 5, 10, 12>>[Ch(s1, 4)]])
      pm  == [n |-> "pmatch", l |-> CapRef(scA[2], s1), p |-> iB, slot |-> 999]
      use == CapRef(scB[1], s2)
      w   == IF pats[iB].caps[1].k # "s" \/ Coin(s2, 1, 2) THEN [n |-> "expr", e |-> [n |-> "inc", m |-> "cd", idx |-> <<use>>]]
             ELSE [n |-> "expr", e |-> [n |-> "assign", m |-> "td", idx |-> << [n |-> "str", v |-> <<"a">>] >>, r |-> use]]
      inner == [n |-> "cond", c |-> Bin(IF Coin(s3, 4, 5) THEN "||" ELSE "&&", cmp, pm), t |-> <<w>>, e |-> <<>>, he |-> FALSE]
  IN [n |-> "cond", c |-> [n |-> "pat", p |-> iA], t |-> <<inner>>, e |-> <<>>, he |-> FALSE]
GenCase(seed) ==
  LET s0 == Rnd(Rnd(seed + 7919))
      ps0 == GenPatterns(1 + Ch(s0, 3), <<>>, Rnd(s0))
      ps == IF Profile = "leak" THEN G(ps0.x \o LeakPats(LeakKind(s0)), ps0.s) ELSE ps0
      ndeco == IF Coin(ps.s, 1, 3) THEN 1 ELSE 0
      ctx0 == [pats |-> ps.x, decos |-> <<>>, indef |-> TRUE, dscope |-> <<>>]
      db == IF ndeco = 1 THEN GenBlock(ctx0, <<>>, 1, TRUE, 0, Rnd(ps.s)) ELSE G([b |-> <<>>, used |-> FALSE, ns |-> <<>>], Rnd(ps.s))
      decos == IF ndeco = 1 THEN << [name |-> "dec1", body |-> db.x.b] >> ELSE <<>>
      ctx == [pats |-> ps.x, decos |-> IF ndeco = 1 THEN <<"dec1">> ELSE <<>>, indef |-> FALSE, dscope |-> db.x.ns]
      bd == GenBlock(ctx, <<>>, 0, FALSE, 0, db.s)
      \* a defined decorator must be used (an unused one is a compile error): wrap the first statement
      body1 == IF ndeco = 1 /\ ~HasDeco(bd.x.b)
               THEN << [n |-> "deco", name |-> "dec1", t |-> <<Head(bd.x.b)>>] >> \o Tail(bd.x.b)
               ELSE bd.x.b
      body0 == IF Profile = "leak" THEN << LeakStmt(ps.x, Rnd(bd.s + 13)) >> \o body1 ELSE body1
      used == UsedSs(body0) \cup (IF decos # <<>> THEN UsedSs(decos[1].body) ELSE {})
      decls0 == SelectSeq(Pool, LAMBDA d : d.name \in used)
      \* every metric gets a (never executed) typed write FIRST - before the decorator definitions too - so
      \* that the compiler's inference of the declared value type does not depend on statement order
      typed0 == SelectSeq(decls0, LAMBDA d : d.kind # "histogram")
      \* profile loose (C04): half of the programs leave type inference to the first real use - a metric may then
      \* get its value type from nothing but a builtin's result (no reference semantics is computed in this profile)
      pre == IF Profile = "loose" /\ Coin(Rnd(bd.s) + 17, 1, 2) THEN <<>> ELSE [i \in 1..Len(typed0) |-> TypingStmt(typed0[i])]
      declsA == [i \in 1..Len(decls0) |-> IF decls0[i].kind = "histogram"
                                          THEN [name |-> decls0[i].name, kind |-> "histogram", keys |-> <<>>, ty |-> "buckets", hidden |-> FALSE,
                                                buckets |-> << <<1,1>>, <<2,1>>, <<4,1>> >>]
                                          ELSE [name |-> decls0[i].name, kind |-> decls0[i].kind, keys |-> decls0[i].keys,
                                                ty |-> decls0[i].ty, hidden |-> Coin(Rnd(bd.s) + i, 1, 6)]]
      \* formatter profile (C23): exported names, limits and a histogram with small boundaries
      declsF == [i \in 1..Len(decls0) |-> [name |-> decls0[i].name, kind |-> decls0[i].kind, keys |-> decls0[i].keys,
                                          ty |-> decls0[i].ty, hidden |-> Coin(Rnd(bd.s) + i, 1, 3),
                                          as |-> IF Coin(Rnd(bd.s) + 3 * i, 1, 2) THEN "x-" \o decls0[i].name ELSE "",
                                          limit |-> IF decls0[i].keys # <<>> /\ Coin(Rnd(bd.s) + 5 * i, 1, 2) THEN 100 * Ch(Rnd(bd.s) + i, 9) ELSE 0]]
                \o << [name |-> "hs", kind |-> "histogram", keys |-> <<>>, ty |-> "float", hidden |-> FALSE, as |-> "", limit |-> 0,
                       buckets |-> << << <<0,1>>, <<1,10000000>>, <<1,1000>>, <<5,2>> >>,
                                      << <<-2,1>>, <<0,1>>, <<1,4>>, <<1,1>>, <<1000000,1>> >>,
                                      << <<1,8>>, <<3,8>>, <<123456789,1000>> >> >>[Ch(Rnd(bd.s), 3)]] >>
      decls == IF Profile = "fmt" THEN declsF ELSE declsA
      hsuse == IF Profile = "fmt" THEN << [n |-> "expr", e |-> [n |-> "assign", m |-> "hs", idx |-> <<>>, r |-> Lit("float", Rnd(bd.s))]] >> ELSE <<>>
      ls == GenLines(ps.x, 2 + Ch(bd.s, 4), <<>>, Rnd(Rnd(bd.s)))
  IN [prog |-> [decls |-> decls, pre |-> pre, decos |-> decos, body |-> body0 \o hsuse, pats |-> ps.x], lines |-> ls.x]

-----------------------------------------------------------------------------
(* State machine: one behaviour per seed, one step per line *)
VARIABLES seed, prog, lines, ln, mem, hist
vars == <<seed, prog, lines, ln, mem, hist>>

Init == /\ seed \in (IF SeedSet # {} THEN SeedSet ELSE SeedLo..SeedHi)
        /\ LET c == GenCase(seed) IN prog = c.prog /\ lines = c.lines
        /\ ln = 0 /\ mem = InitMem(prog) /\ hist = <<>>

Step == /\ ln < Len(lines) /\ Profile # "loose"
        /\ LET r == ExecLine(prog, mem, lines[ln + 1].toks, lines[ln + 1].file, ln + 1) IN
           /\ mem' = [m |-> r.m, memo |-> r.memo]
           /\ hist' = Append(hist, [m |-> r.m, err |-> r.err, ovf |-> r.ovf])
        /\ ln' = ln + 1
        /\ UNCHANGED <<seed, prog, lines>>
Next == Step
Spec == Init /\ [][Next]_vars

\* C05 at the model level: what a line does may depend on the metrics but not on the strptime memo left behind by
\* earlier lines (true for the corrected design; each DEV_Memo* switch yields a counterexample)
MemoFree == ln < Len(lines) =>
              LET a == ExecLine(prog, mem, lines[ln + 1].toks, lines[ln + 1].file, ln + 1)
                  b == ExecLine(prog, [mem EXCEPT !.memo = <<>>], lines[ln + 1].toks, lines[ln + 1].file, ln + 1)
              IN a.m = b.m /\ a.err = b.err

Emit == (ln = Len(lines) \/ Profile = "loose") =>
          PrintT(<<"CASE", ToJson([seed |-> seed, profile |-> Profile, prog |-> prog, lines |-> lines, exp |-> hist,
                                   mt |-> [p \in 1..Len(prog.pats) |-> [l \in 1..Len(lines) |-> Match(prog.pats[p], lines[l].toks)]]])>>)
=============================================================================
