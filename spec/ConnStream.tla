---------------------------- MODULE ConnStream ----------------------------
(***************************************************************************)
(* internal/tailer/logstream: fifostream.go, socketstream.go,             *)
(* dgramstream.go, cancel.go - the streams that read from a kernel object  *)
(* other processes write to (property C17).                                *)
(*                                                                         *)
(* One module, three shapes chosen by cfg.kind:                            *)
(*   "fifo"  named pipe / stdin : ONE byte queue, ONE reader goroutine     *)
(*   "sock"  unix / tcp listener: one byte queue, one handleConn goroutine *)
(*           and one LineReader PER CONNECTION, an accept goroutine and a  *)
(*           closer goroutine                                              *)
(*   "dgram" unixgram / udp     : ONE datagram queue, ONE reader goroutine *)
(*                                                                         *)
(* Actors.  E* = the writers and the canceller (environment; the harness   *)
(* logs these), K* = the kernel (silent), S* = goroutines of the stream    *)
(* (silent, except the sends on the lines channel and its close).  One S   *)
(* action per critical section of the Go code; the LineReader itself is    *)
(* used through the interface C15 established for it (LineReader.tla:      *)
(* buf[off:] = bytes read and not yet sent; one send per complete line).   *)
(*                                                                         *)
(* Bytes are integers: 0 = LF, every other byte b belongs to writer        *)
(* Owner(b); writers never share payload bytes, so splicing is visible.    *)
(*                                                                         *)
(* Deviations of the real code (known_findings):                           *)
(*  DEV_CloserAwaitsFirstConn  socketstream.go stream(): the closer        *)
(*      goroutine blocks on `<-started` before it looks at ctx.Done(), so  *)
(*      a socket stream nobody ever connected to is never ended by cancel. *)
(*  DEV_HandlerAddedAfterWait  socketstream.go stream(): connWg.Add(1) is  *)
(*      done by the accept goroutine after Accept returned, unordered with *)
(*      the closer's connWg.Wait(); close(lines): a connection accepted    *)
(*      while the stream is cancelled sends on the closed channel (panic). *)
(*  DEV_DgramSharedBuffer  dgramstream.go: all senders' datagrams are      *)
(*      appended to one LineReader buffer, so an unterminated datagram of  *)
(*      one sender is glued to the next datagram of another sender.        *)
(* Model mutations (never findings; they show the properties bite):        *)
(*  MUT_SharedReader, MUT_FifoEndsOnStartupEof, MUT_FinishSkipped,         *)
(*  MUT_NoReadDeadline.                                                    *)
(***************************************************************************)
EXTENDS Integers, Sequences, FiniteSets, TLC

CONSTANTS Configs,      \* set of [kind, oneShot, lossy, nw] explored by Init
          ChunkShapes,  \* chunks a writer may write: sequences over {0 = LF, 1 = "my byte"}
          MaxChunks,    \* chunks per writer
          DEV_CloserAwaitsFirstConn, DEV_HandlerAddedAfterWait, DEV_DgramSharedBuffer,
          MUT_SharedReader, MUT_FifoEndsOnStartupEof, MUT_FinishSkipped, MUT_NoReadDeadline

LF == 0
Owner(b) == IF b >= 10 THEN b \div 10 ELSE b

VARIABLES
  cfg,        \* [kind, oneShot, lossy, nw]
  wst,        \* writer -> "idle" | "opening" | "open" | "closed" | "failed"
  nwr,        \* writer -> chunks written so far
  inflight,   \* writer -> [on, b] : a write(2)/send(2) in progress
  q,          \* channel -> kernel queue (bytes; for dgram a sequence of [w, b])
  lis,        \* sock: listener "open" | "closed"
  pend,       \* sock: connections in the listen backlog
  acc,        \* sock: accept goroutine [pc \in {"accept","add","done"}, cur]
  closer,     \* sock: closer goroutine "await" | "ctx" | "wait" | "close" | "done"
  started,    \* sock: `started` channel closed
  connWg,     \* sock: connWg counter
  h,          \* channel -> reader goroutine [pc \in none/read/send/fin/flush/done, key, got]
              \*   fin = the read loop has returned, flush = the deferred fd/conn.Close() has run
  buf,        \* buffer key -> LineReader bytes not yet sent
  dl,         \* channel -> read deadline set (cancel.go SetReadDeadlineOnDone fired)
  cancelled,  \* ctx cancelled
  out,        \* lines received from Lines(): sequence of [line, fin, c]
  chanClosed, \* Lines() closed
  panic,      \* a send on the closed channel happened
  wr,         \* history: writer -> bytes handed to write(2), in order
  landed,     \* history: channel -> everything that entered the kernel queue, in order
  rd,         \* history: buffer key -> bytes ever appended to that buffer
  zeroRead,   \* history: dgram: a zero-length datagram was read
  dropped     \* history: a datagram was dropped by the kernel (udp)

vars == <<cfg, wst, nwr, inflight, q, lis, pend, acc, closer, started, connWg, h, buf, dl,
          cancelled, out, chanClosed, panic, wr, landed, rd, zeroRead, dropped>>

Writers == 1..cfg.nw
Sock    == cfg.kind = "sock"
Fifo    == cfg.kind = "fifo"
Dgram   == cfg.kind = "dgram"
Chans   == IF Sock THEN Writers ELSE {0}
Chan(w) == IF Sock THEN w ELSE 0
\* the LineReader a handler appends to when it reads bytes sent by `sender`
KeyFor(c, sender) == IF Sock THEN (IF MUT_SharedReader THEN 0 ELSE c)
                     ELSE IF Dgram /\ ~DEV_DgramSharedBuffer THEN sender ELSE 0
KeysOf(c) == IF Sock THEN {KeyFor(c, c)}
             ELSE IF Dgram /\ ~DEV_DgramSharedBuffer THEN Writers ELSE {0}
Keys == UNION {KeysOf(c) : c \in Chans}

HasLF(s)  == \E i \in 1..Len(s) : s[i] = LF
FirstLF(s) == CHOOSE i \in 1..Len(s) : s[i] = LF /\ \A j \in 1..(i - 1) : s[j] # LF
Off == [on |-> FALSE, b |-> <<>>]

-----------------------------------------------------------------------------
InitWith(c) ==
  /\ cfg = c
  /\ wst = [w \in 1..c.nw |-> "idle"] /\ nwr = [w \in 1..c.nw |-> 0]
  /\ inflight = [w \in 1..c.nw |-> Off]
  /\ q = [x \in (IF c.kind = "sock" THEN 1..c.nw ELSE {0}) |-> <<>>]
  /\ lis = "open" /\ pend = {} /\ acc = [pc |-> IF c.kind = "sock" THEN "accept" ELSE "done", cur |-> 0]
  /\ closer = IF c.kind = "sock" THEN "await" ELSE "done"
  /\ started = FALSE /\ connWg = 0
  /\ h = [x \in (IF c.kind = "sock" THEN 1..c.nw ELSE {0}) |->
             [pc |-> IF c.kind = "sock" THEN "none" ELSE "read", key |-> 0, got |-> FALSE]]
  /\ buf = [k \in 0..c.nw |-> <<>>]            \* only the keys in Keys are ever used
  /\ dl = [x \in (IF c.kind = "sock" THEN 1..c.nw ELSE {0}) |-> FALSE]
  /\ cancelled = FALSE /\ out = <<>> /\ chanClosed = FALSE /\ panic = FALSE
  /\ wr = [w \in 1..c.nw |-> <<>>]
  /\ landed = [x \in (IF c.kind = "sock" THEN 1..c.nw ELSE {0}) |-> <<>>]
  /\ rd = [k \in 0..c.nw |-> <<>>]
  /\ zeroRead = FALSE /\ dropped = FALSE

Init == \E c \in Configs : InitWith(c)

-----------------------------------------------------------------------------
(* Environment: writers and the canceller *)

\* the read side the writer talks to no longer exists
ReceiverGone(w) ==
  IF Sock THEN \/ h[w].pc \in {"flush", "done"}
               \/ (h[w].pc = "none" /\ lis = "closed" /\ ~(acc.pc = "add" /\ acc.cur = w))
          ELSE h[0].pc \in {"flush", "done"}

EOpen(w) == /\ wst[w] = "idle" /\ wst' = [wst EXCEPT ![w] = "opening"]
            /\ UNCHANGED <<cfg, nwr, inflight, q, lis, pend, acc, closer, started, connWg, h, buf, dl,
                           cancelled, out, chanClosed, panic, wr, landed, rd, zeroRead, dropped>>

\* open(2) of the fifo for writing / connect(2) takes effect
KOpenLand(w) ==
  /\ wst[w] = "opening"
  /\ IF Sock THEN lis = "open" ELSE IF Fifo THEN h[0].pc \notin {"flush", "done"} ELSE TRUE
  /\ wst' = [wst EXCEPT ![w] = "open"]
  /\ pend' = IF Sock THEN pend \cup {w} ELSE pend
  /\ UNCHANGED <<cfg, nwr, inflight, q, lis, acc, closer, started, connWg, h, buf, dl,
                 cancelled, out, chanClosed, panic, wr, landed, rd, zeroRead, dropped>>

\* ENXIO / ECONNREFUSED / ENOENT
EOpenFail(w) ==
  /\ wst[w] = "opening"
  /\ IF Sock THEN lis = "closed" ELSE h[0].pc \in {"flush", "done"}
  /\ wst' = [wst EXCEPT ![w] = "failed"]
  /\ UNCHANGED <<cfg, nwr, inflight, q, lis, pend, acc, closer, started, connWg, h, buf, dl,
                 cancelled, out, chanClosed, panic, wr, landed, rd, zeroRead, dropped>>

EWrite(w, chunk) ==
  /\ wst[w] = "open" /\ ~inflight[w].on /\ nwr[w] < MaxChunks
  /\ inflight' = [inflight EXCEPT ![w] = [on |-> TRUE, b |-> chunk]]
  /\ nwr' = [nwr EXCEPT ![w] = @ + 1]
  /\ wr' = [wr EXCEPT ![w] = @ \o chunk]
  /\ UNCHANGED <<cfg, wst, q, lis, pend, acc, closer, started, connWg, h, buf, dl,
                 cancelled, out, chanClosed, panic, landed, rd, zeroRead, dropped>>

\* the bytes enter the pipe / socket buffer (pipe writes <= PIPE_BUF are atomic; a datagram is one unit)
KLand(w) ==
  /\ inflight[w].on
  /\ LET c == Chan(w)  b == inflight[w].b IN
       /\ q' = [q EXCEPT ![c] = IF Dgram THEN Append(@, [w |-> w, b |-> b]) ELSE @ \o b]
       /\ landed' = [landed EXCEPT ![c] = IF Dgram THEN Append(@, [w |-> w, b |-> b]) ELSE @ \o b]
  /\ inflight' = [inflight EXCEPT ![w] = Off]
  /\ UNCHANGED <<cfg, wst, nwr, lis, pend, acc, closer, started, connWg, h, buf, dl,
                 cancelled, out, chanClosed, panic, wr, rd, zeroRead, dropped>>

\* ASSUMPTION (udp only): the kernel may drop a datagram
KDrop(w) ==
  /\ cfg.lossy /\ inflight[w].on
  /\ inflight' = [inflight EXCEPT ![w] = Off] /\ dropped' = TRUE
  /\ UNCHANGED <<cfg, wst, nwr, q, lis, pend, acc, closer, started, connWg, h, buf, dl,
                 cancelled, out, chanClosed, panic, wr, landed, rd, zeroRead>>

\* EPIPE / ECONNRESET / ECONNREFUSED: only when the read side is gone
EWriteFail(w) ==
  /\ inflight[w].on /\ ReceiverGone(w)
  /\ inflight' = [inflight EXCEPT ![w] = Off]
  /\ wst' = [wst EXCEPT ![w] = "failed"]
  /\ UNCHANGED <<cfg, nwr, q, lis, pend, acc, closer, started, connWg, h, buf, dl,
                 cancelled, out, chanClosed, panic, wr, landed, rd, zeroRead, dropped>>

EClose(w) ==
  /\ wst[w] = "open" /\ ~inflight[w].on
  /\ wst' = [wst EXCEPT ![w] = "closed"]
  /\ UNCHANGED <<cfg, nwr, inflight, q, lis, pend, acc, closer, started, connWg, h, buf, dl,
                 cancelled, out, chanClosed, panic, wr, landed, rd, zeroRead, dropped>>

ECancel ==
  /\ ~cancelled /\ cancelled' = TRUE
  /\ UNCHANGED <<cfg, wst, nwr, inflight, q, lis, pend, acc, closer, started, connWg, h, buf, dl,
                 out, chanClosed, panic, wr, landed, rd, zeroRead, dropped>>

-----------------------------------------------------------------------------
(* socketstream.go stream(): accept goroutine *)

\* leaving the accept loop.  The code as repaired (fix 9cf62fdb): the accept goroutine itself, in a deferred call,
\* waits for the handlers and closes the channel ("wait", "close") - independently of the closer goroutine, which only
\* closes the listener: close(lines) may come BEFORE l.Close(), and a late dial may still succeed into a backlog nobody
\* will ever accept from.  The code before the repair (DEV_HandlerAddedAfterWait): the accept goroutine just returns
\* and the closer does Wait/close.
AccExit == IF DEV_HandlerAddedAfterWait THEN "done" ELSE "wait"

\* c, err := l.Accept()  (err == nil)
SAccept(w) ==
  /\ Sock /\ acc.pc = "accept" /\ lis = "open" /\ w \in pend
  /\ acc' = [pc |-> "add", cur |-> w] /\ pend' = pend \ {w}
  /\ UNCHANGED <<cfg, wst, nwr, inflight, q, lis, closer, started, connWg, h, buf, dl,
                 cancelled, out, chanClosed, panic, wr, landed, rd, zeroRead, dropped>>

\* l.Accept() returns "use of closed network connection": return
SAcceptFail ==
  /\ Sock /\ acc.pc = "accept" /\ lis = "closed"
  /\ acc' = [pc |-> AccExit, cur |-> 0]
  /\ UNCHANGED <<cfg, wst, nwr, inflight, q, lis, pend, closer, started, connWg, h, buf, dl,
                 cancelled, out, chanClosed, panic, wr, landed, rd, zeroRead, dropped>>

\* connWg.Add(1); go ss.handleConn(..); connOnce.Do(close(started)); if oneShot return
SAdd ==
  /\ Sock /\ acc.pc = "add"
  /\ connWg' = connWg + 1
  /\ h' = [h EXCEPT ![acc.cur] = [@ EXCEPT !.pc = "read", !.key = KeyFor(acc.cur, acc.cur)]]
  /\ started' = TRUE
  /\ acc' = [pc |-> IF cfg.oneShot THEN AccExit ELSE "accept", cur |-> 0]
  /\ UNCHANGED <<cfg, wst, nwr, inflight, q, lis, pend, closer, buf, dl,
                 cancelled, out, chanClosed, panic, wr, landed, rd, zeroRead, dropped>>

(* socketstream.go stream(): closer goroutine *)
\* <-started          (corrected: select on started and ctx.Done())
SCloserStart ==
  /\ Sock /\ closer = "await"
  /\ started \/ (~DEV_CloserAwaitsFirstConn /\ cancelled)
  /\ closer' = "ctx"
  /\ UNCHANGED <<cfg, wst, nwr, inflight, q, lis, pend, acc, started, connWg, h, buf, dl,
                 cancelled, out, chanClosed, panic, wr, landed, rd, zeroRead, dropped>>

\* if !oneShot { <-ctx.Done() } ; l.Close()  - the backlog is discarded
SCloserListener ==
  /\ Sock /\ closer = "ctx" /\ (cfg.oneShot \/ cancelled)
  /\ lis' = "closed" /\ pend' = {} /\ closer' = IF DEV_HandlerAddedAfterWait THEN "wait" ELSE "done"
  /\ UNCHANGED <<cfg, wst, nwr, inflight, q, acc, started, connWg, h, buf, dl,
                 cancelled, out, chanClosed, panic, wr, landed, rd, zeroRead, dropped>>

\* connWg.Wait()      (corrected: no handler can be added any more, i.e. the accept goroutine has returned)
SCloserWait ==
  /\ Sock /\ closer = "wait" /\ connWg = 0
  /\ DEV_HandlerAddedAfterWait \/ acc.pc = "done"
  /\ closer' = "close"
  /\ UNCHANGED <<cfg, wst, nwr, inflight, q, lis, pend, acc, started, connWg, h, buf, dl,
                 cancelled, out, chanClosed, panic, wr, landed, rd, zeroRead, dropped>>

\* the accept goroutine's deferred  connWg.Wait(); close(ss.lines)
SAccWait ==
  /\ Sock /\ acc.pc = "wait" /\ connWg = 0
  /\ acc' = [acc EXCEPT !.pc = "close"]
  /\ UNCHANGED <<cfg, wst, nwr, inflight, q, lis, pend, closer, started, connWg, h, buf, dl,
                 cancelled, out, chanClosed, panic, wr, landed, rd, zeroRead, dropped>>
SAccClose ==
  /\ Sock /\ acc.pc = "close"
  /\ chanClosed' = TRUE /\ acc' = [acc EXCEPT !.pc = "done"]
  /\ UNCHANGED <<cfg, wst, nwr, inflight, q, lis, pend, closer, started, connWg, h, buf, dl,
                 cancelled, out, panic, wr, landed, rd, zeroRead, dropped>>

\* close(ss.lines)
SCloseChan ==
  /\ Sock /\ closer = "close"
  /\ chanClosed' = TRUE /\ closer' = "done"
  /\ UNCHANGED <<cfg, wst, nwr, inflight, q, lis, pend, acc, started, connWg, h, buf, dl,
                 cancelled, out, panic, wr, landed, rd, zeroRead, dropped>>

-----------------------------------------------------------------------------
(* the reader goroutines: fifoStream.stream, socketStream.handleConn, dgramStream.stream *)

\* cancel.go SetReadDeadlineOnDone: <-ctx.Done(); d.SetReadDeadline(time.Now())
CanDeadline(c) == ~MUT_NoReadDeadline /\ cancelled /\ ~dl[c] /\ h[c].pc \notin {"none", "done"}
SDeadline(c) ==
  /\ CanDeadline(c)
  /\ dl' = [dl EXCEPT ![c] = TRUE]
  /\ UNCHANGED <<cfg, wst, nwr, inflight, q, lis, pend, acc, closer, started, connWg, h, buf,
                 cancelled, out, chanClosed, panic, wr, landed, rd, zeroRead, dropped>>

\* lr.ReadAndSend: Read returned k > 0 bytes of a byte stream (any prefix of what the kernel holds)
SRead(c, k) ==
  /\ ~Dgram /\ h[c].pc = "read" /\ ~dl[c] /\ k \in 1..Len(q[c])
  /\ LET key == h[c].key
         bs  == SubSeq(q[c], 1, k)
         nb  == buf[key] \o bs IN
       /\ buf' = [buf EXCEPT ![key] = nb]
       /\ rd'  = [rd EXCEPT ![key] = @ \o bs]
       /\ q'   = [q EXCEPT ![c] = SubSeq(@, k + 1, Len(@))]
       /\ h'   = [h EXCEPT ![c] = [@ EXCEPT !.pc = IF HasLF(nb) THEN "send" ELSE "read", !.got = TRUE]]
  /\ UNCHANGED <<cfg, wst, nwr, inflight, lis, pend, acc, closer, started, connWg, dl,
                 cancelled, out, chanClosed, panic, wr, landed, zeroRead, dropped>>

\* dgramConn.Read: one whole datagram (n > 0)
SReadDgram ==
  /\ Dgram /\ h[0].pc = "read" /\ ~dl[0] /\ q[0] # <<>> /\ Head(q[0]).b # <<>>
  /\ LET d   == Head(q[0])
         key == KeyFor(0, d.w)
         nb  == buf[key] \o d.b IN
       /\ buf' = [buf EXCEPT ![key] = nb]
       /\ rd'  = [rd EXCEPT ![key] = @ \o d.b]
       /\ q'   = [q EXCEPT ![0] = Tail(@)]
       /\ h'   = [h EXCEPT ![0] = [@ EXCEPT !.pc = IF HasLF(nb) THEN "send" ELSE "read", !.key = key, !.got = TRUE]]
  /\ UNCHANGED <<cfg, wst, nwr, inflight, lis, pend, acc, closer, started, connWg, dl,
                 cancelled, out, chanClosed, panic, wr, landed, zeroRead, dropped>>

\* a zero-length datagram: `if n == 0 { if oneShot {return}; select {case <-ctx.Done(): return; default:} }`
SReadZeroDgram ==
  /\ Dgram /\ h[0].pc = "read" /\ ~dl[0] /\ q[0] # <<>> /\ Head(q[0]).b = <<>>
  /\ q' = [q EXCEPT ![0] = Tail(@)]
  /\ zeroRead' = TRUE
  /\ h' = [h EXCEPT ![0] = [@ EXCEPT !.pc = IF cfg.oneShot \/ cancelled THEN "fin" ELSE "read"]]
  /\ UNCHANGED <<cfg, wst, nwr, inflight, lis, pend, acc, closer, started, connWg, buf, dl,
                 cancelled, out, chanClosed, panic, wr, landed, rd, dropped>>

\* Read returned (0, io.EOF): the peer closed (sock) / no write end is open (fifo, pipe(7)).
\* fifo: `n == 0 && total > 0` ends the stream; before any byte arrived the EOF is ignored (wait for Wake).
EofVisible(c) ==
  /\ q[c] = <<>>
  /\ IF Sock THEN wst[c] \in {"closed", "failed"} /\ ~inflight[c].on
             ELSE \A w \in Writers : wst[w] # "open"
CanEof(c) == /\ ~Dgram /\ h[c].pc = "read" /\ ~dl[c] /\ EofVisible(c)
             /\ Sock \/ h[c].got \/ MUT_FifoEndsOnStartupEof
SReadEof(c) ==
  /\ CanEof(c)
  /\ h' = [h EXCEPT ![c] = [@ EXCEPT !.pc = "fin"]]
  /\ UNCHANGED <<cfg, wst, nwr, inflight, q, lis, pend, acc, closer, started, connWg, buf, dl,
                 cancelled, out, chanClosed, panic, wr, landed, rd, zeroRead, dropped>>

\* Read returned an i/o timeout because the deadline has passed (nothing is read any more)
CanTimeout(c) == h[c].pc = "read" /\ dl[c]
SReadTimeout(c) ==
  /\ CanTimeout(c)
  /\ h' = [h EXCEPT ![c] = [@ EXCEPT !.pc = "fin"]]
  /\ UNCHANGED <<cfg, wst, nwr, inflight, q, lis, pend, acc, closer, started, connWg, buf, dl,
                 cancelled, out, chanClosed, panic, wr, landed, rd, zeroRead, dropped>>

Deliver(c, line, fin) ==
  /\ out' = Append(out, [line |-> line, fin |-> fin, c |-> c])
  /\ panic' = (panic \/ chanClosed)

\* LineReader.send: `lr.lines <- line` for the first complete line in the buffer
SSend(c) ==
  /\ h[c].pc = "send" /\ HasLF(buf[h[c].key])
  /\ LET key == h[c].key
         i   == FirstLF(buf[key])
         rest == SubSeq(buf[key], i + 1, Len(buf[key])) IN
       /\ Deliver(c, SubSeq(buf[key], 1, i - 1), FALSE)
       /\ buf' = [buf EXCEPT ![key] = rest]
       /\ h' = [h EXCEPT ![c] = [@ EXCEPT !.pc = IF HasLF(rest) THEN "send" ELSE "read"]]
  /\ UNCHANGED <<cfg, wst, nwr, inflight, q, lis, pend, acc, closer, started, connWg, dl,
                 cancelled, chanClosed, wr, landed, rd, zeroRead, dropped>>

\* send() found no newline: back to Read  (only reachable under MUT_SharedReader)
SSendNone(c) ==
  /\ h[c].pc = "send" /\ ~HasLF(buf[h[c].key])
  /\ h' = [h EXCEPT ![c] = [@ EXCEPT !.pc = "read"]]
  /\ UNCHANGED <<cfg, wst, nwr, inflight, q, lis, pend, acc, closer, started, connWg, buf, dl,
                 cancelled, out, chanClosed, panic, wr, landed, rd, zeroRead, dropped>>

\* deferred: fd.Close() / c.Close()
SCloseFd(c) ==
  /\ h[c].pc = "fin"
  /\ h' = [h EXCEPT ![c] = [@ EXCEPT !.pc = "flush"]]
  /\ UNCHANGED <<cfg, wst, nwr, inflight, q, lis, pend, acc, closer, started, connWg, buf, dl,
                 cancelled, out, chanClosed, panic, wr, landed, rd, zeroRead, dropped>>

\* deferred: lr.Finish(ctx) with a non-empty remainder
SFinishSend(c, key) ==
  /\ h[c].pc = "flush" /\ key \in KeysOf(c) /\ buf[key] # <<>> /\ ~MUT_FinishSkipped
  /\ Deliver(c, buf[key], TRUE)
  /\ buf' = [buf EXCEPT ![key] = <<>>]
  /\ UNCHANGED <<cfg, wst, nwr, inflight, q, lis, pend, acc, closer, started, connWg, h, dl,
                 cancelled, chanClosed, wr, landed, rd, zeroRead, dropped>>

\* deferred, after Finish: sock wg.Done(); fifo/dgram close(lines); cancel()
CanExit(c) == h[c].pc = "flush" /\ (MUT_FinishSkipped \/ \A key \in KeysOf(c) : buf[key] = <<>>)
SExit(c) ==
  /\ CanExit(c)
  /\ h' = [h EXCEPT ![c] = [@ EXCEPT !.pc = "done"]]
  /\ connWg' = IF Sock THEN connWg - 1 ELSE connWg
  /\ chanClosed' = IF Sock THEN chanClosed ELSE TRUE
  /\ UNCHANGED <<cfg, wst, nwr, inflight, q, lis, pend, acc, closer, started, buf, dl,
                 cancelled, out, panic, wr, landed, rd, zeroRead, dropped>>

-----------------------------------------------------------------------------
ChunkOf(w, shape) == [i \in 1..Len(shape) |-> IF shape[i] = 0 THEN LF ELSE w]

EnvNext == \/ \E w \in Writers : EOpen(w) \/ EOpenFail(w) \/ EWriteFail(w) \/ EClose(w)
              \/ \E s \in ChunkShapes : EWrite(w, ChunkOf(w, s))
           \/ ECancel
KernelNext == \E w \in Writers : KOpenLand(w) \/ KLand(w) \/ KDrop(w)
StreamNext == \/ \E w \in Writers : SAccept(w)
              \/ SAcceptFail \/ SAdd \/ SCloserStart \/ SCloserListener \/ SCloserWait \/ SCloseChan \/ SAccWait \/ SAccClose
              \/ SReadDgram \/ SReadZeroDgram
              \/ \E c \in Chans : \/ SDeadline(c) \/ SReadEof(c) \/ SReadTimeout(c) \/ SSend(c) \/ SSendNone(c) \/ SCloseFd(c) \/ SExit(c)
                                  \/ \E k \in 1..Len(q[c]) : SRead(c, k)
                                  \/ \E key \in Keys : SFinishSend(c, key)
Next == EnvNext \/ KernelNext \/ StreamNext

\* the kernel and the goroutines of the stream are scheduled fairly; writers and the canceller owe nothing
Fairness == /\ \A w \in 1..3 : WF_vars(w \in Writers /\ KOpenLand(w)) /\ WF_vars(w \in Writers /\ (KLand(w) \/ KDrop(w)))
            /\ \A c \in 0..3 : /\ WF_vars(c \in Chans /\ (SReadTimeout(c) \/ SReadEof(c)))
                               /\ WF_vars(c \in Chans /\ SDeadline(c))
                               /\ WF_vars(c \in Chans /\ (SSend(c) \/ SSendNone(c) \/ SCloseFd(c)))
                               /\ WF_vars(c \in Chans /\ (SExit(c) \/ \E key \in Keys : SFinishSend(c, key)))
                               /\ WF_vars(c \in Chans /\ \E k \in 1..Len(q[c]) : k = Len(q[c]) /\ SRead(c, k))
            /\ WF_vars(SReadDgram \/ SReadZeroDgram)
            /\ WF_vars(\E w \in Writers : SAccept(w)) /\ WF_vars(SAcceptFail) /\ WF_vars(SAdd)
            /\ WF_vars(SCloserStart) /\ WF_vars(SCloserListener) /\ WF_vars(SCloserWait) /\ WF_vars(SCloseChan)
            /\ WF_vars(SAccWait) /\ WF_vars(SAccClose)
Spec == Init /\ [][Next]_vars /\ Fairness

-----------------------------------------------------------------------------
(* Ideal layer: the statement of C17 *)
RECURSIVE SplitFrom(_, _, _)
SplitFrom(s, cur, acc0) ==
  IF s = <<>> THEN [lines |-> acc0, rest |-> cur]
  ELSE IF Head(s) = LF THEN SplitFrom(Tail(s), <<>>, Append(acc0, cur))
       ELSE SplitFrom(Tail(s), Append(cur, Head(s)), acc0)
Terminated(s) == SplitFrom(s, <<>>, <<>>).lines
Rest(s)       == SplitFrom(s, <<>>, <<>>).rest
Split(s)      == IF Rest(s) = <<>> THEN Terminated(s) ELSE Append(Terminated(s), Rest(s))
IsPrefixOf(a, b) == Len(a) <= Len(b) /\ SubSeq(b, 1, Len(a)) = a
RECURSIVE Flat(_)
Flat(ss) == IF ss = <<>> THEN <<>> ELSE Head(ss) \o Flat(Tail(ss))
\* bytes after the first n terminated lines of s
RECURSIVE DropLines(_, _)
DropLines(s, n) == IF n = 0 THEN s ELSE DropLines(SubSeq(s, FirstLF(s) + 1, Len(s)), n - 1)

LinesOnly(es) == [i \in 1..Len(es) |-> es[i].line]
OwnedBy(w)    == SelectSeq(out, LAMBDA e : e.line # <<>> /\ Owner(e.line[1]) = w)

\* what one source (a connection, the pipe, a datagram sender) was given: `s`; the part of it the stream
\* read: `r`; what was delivered for it: `d`.  Every delivered line is the next newline-terminated line;
\* only the LAST one may instead be an unterminated piece: after cancel any prefix of what follows
\* ("everything it read"), otherwise only when the source is closed, and then it is the whole tail.
LFCount(s) == Cardinality({i \in 1..Len(s) : s[i] = LF})
SourceOK(s, r, d, closedAll) ==
  LET n == Len(d)  t == Terminated(s) IN
  \/ IsPrefixOf(d, t)
  \/ /\ n >= 1 /\ n - 1 <= Len(t) /\ SubSeq(d, 1, n - 1) = SubSeq(t, 1, n - 1)
     /\ d[n] # <<>> /\ IsPrefixOf(d[n], DropLines(s, n - 1))
     /\ cancelled \/ (closedAll /\ LFCount(r) >= n - 1 /\ d[n] = DropLines(r, n - 1))

\* Lines from different stream-socket connections (ideally: datagram senders) are never merged
NoSplice == (Sock \/ Dgram) => \A i \in 1..Len(out) : \A j \in 1..Len(out[i].line) :
                                   Owner(out[i].line[j]) = Owner(out[i].line[1])
PipeStream == landed[0]
DgramsOf(w) == SelectSeq(landed[0], LAMBDA d : d.w = w)
SenderStream(w) == Flat([i \in 1..Len(DgramsOf(w)) |-> DgramsOf(w)[i].b])
InOrder ==
  IF Fifo THEN SourceOK(PipeStream, rd[0], LinesOnly(out), h[0].pc \in {"fin", "flush", "done"})
  ELSE \A w \in Writers :
         IF Sock THEN SourceOK(wr[w], wr[w], LinesOnly(OwnedBy(w)), wst[w] = "closed")
                 ELSE SourceOK(SenderStream(w), rd[KeyFor(0, w)], LinesOnly(OwnedBy(w)), cfg.oneShot /\ zeroRead)

\* the channel is closed after the last delivery, and everything read was delivered
NoSendAfterClose == ~panic
RECURSIVE Emitted(_)
Emitted(es) == IF es = <<>> THEN <<>>
               ELSE Head(es).line \o (IF Head(es).fin THEN <<>> ELSE <<LF>>) \o Emitted(Tail(es))
ReadIsDelivered ==
  \A key \in Keys :
     LET mine == SelectSeq(out, LAMBDA e : (IF Sock /\ ~MUT_SharedReader THEN e.c = key
                                            ELSE IF Dgram /\ ~DEV_DgramSharedBuffer
                                                 THEN e.line # <<>> /\ Owner(e.line[1]) = key ELSE TRUE))
     IN Emitted(mine) \o buf[key] = rd[key]
AllDeliveredAtClose == chanClosed => \A c \in Chans : h[c].pc \in {"none", "done"} /\ \A key \in KeysOf(c) : buf[key] = <<>>
\* the stream only ends for a reason the statement allows
EndJustified == chanClosed =>
   \/ cancelled
   \/ Fifo /\ rd[0] # <<>>
   \/ Sock /\ cfg.oneShot /\ \E c \in Chans : h[c].pc = "done"
   \/ Dgram /\ cfg.oneShot /\ zeroRead

TypeOK == /\ connWg >= 0
          /\ \A c \in Chans : h[c].pc \in {"none", "read", "send", "fin", "flush", "done"}

Safety == TypeOK /\ NoSplice /\ InOrder /\ NoSendAfterClose /\ ReadIsDelivered /\ AllDeliveredAtClose /\ EndJustified

(* liveness: the stream's output ends once it is cancelled / once the pipe's writers are gone *)
WritersDone == \A w \in Writers : wst[w] \in {"idle", "closed", "failed"} /\ ~inflight[w].on
EndsAfterCancel == cancelled ~> chanClosed
\* (if no writer ever comes back: a later writer may legitimately keep the pipe open for ever)
FifoEndsAfterClose == <>[](Fifo /\ WritersDone /\ landed[0] # <<>>) => <>chanClosed
\* without cancellation everything written is eventually delivered (tails included once the writer closed)
DeliveredAll ==
  IF Fifo THEN LinesOnly(out) = Split(rd[0]) /\ (chanClosed \/ q[0] = <<>>)
  ELSE IF Sock THEN (~cfg.oneShot => \A w \in Writers : wst[w] = "closed" => LinesOnly(OwnedBy(w)) = Split(wr[w]))
  ELSE dropped \/ chanClosed \/ \A w \in Writers : LinesOnly(OwnedBy(w)) = Terminated(SenderStream(w))
EventuallyDelivered == <>[](cancelled \/ ~WritersDone \/ DeliveredAll)

=============================================================================
