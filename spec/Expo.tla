------------------------------- MODULE Expo -------------------------------
(***************************************************************************)
(* internal/exporter : what every export format must say about a store.    *)
(* Properties C13 (Prometheus exposition) and C22 (JSON, varz, graphite,   *)
(* statsd, collectd report each label set's own value).                    *)
(*                                                                         *)
(* A state is an abstract store plus an exporter configuration; the        *)
(* actions GROW the store (AddMetric, AddLabelSet), so exhaustive TLC      *)
(* enumerates every small store and -simulate (Random = TRUE) samples      *)
(* large ones.  Every state is printed as a case                           *)
(*        (store, cfg, want, want_dev)                                     *)
(* where `want` is the ideal layer (the property's own words as set        *)
(* comprehensions over the store) and `want_dev` is the implementation-    *)
(* shaped layer: the exporters' loops written out as the code runs them    *)
(* (prometheus.go Collect, graphite.go metricToGraphite, json.go), with    *)
(* the code's departures named in Explain (the open findings) switched on. *)
(* The DEV_ constants switch the same departures for the invariants: with  *)
(* all of them FALSE TLC checks  implementation = ideal  (Refines...), with *)
(* one TRUE it must produce the store on which they differ.                *)
(*                                                                         *)
(* Abstract atoms (the harness owns the total, injective map to concrete   *)
(* values, internal/verif/expo):                                           *)
(*   names   "foo" "bar_x" plain, "a-b" hyphenated, "in valid" not a       *)
(*           Prometheus metric name                                        *)
(*   keys    "k1" "k2" plain, "prog" collides with the program label,      *)
(*           "k-x" not a Prometheus label name                             *)
(*   label values "a" "b" "c" plain, "esc" needs escaping (quote,          *)
(*           backslash, newline), "nonutf8" is not valid UTF-8             *)
(*   values  [tok, uid]: token in neg/zero/small/huge (+ nan/pinf/ninf for *)
(*           floats), made pairwise distinct by the unique uid of the      *)
(*           label set; the timestamp of a label set is its uid            *)
(*   histogram data: integer boundaries (+Inf implied) and observations    *)
(***************************************************************************)
EXTENDS Integers, Sequences, FiniteSets, Json, TLC

CONSTANTS MaxMetrics, MaxLsets, MaxKeys, MaxObs,
          Names, Progs, KindTypeNames, KeyNames, LabelVals, IntToks, FloatToks, BoundNames, ObsVals,
          Hosts, Prefixes,
          Mode,          \* "prom" (C13) or "formats" (C22): which expectations are printed
          Random,        \* TRUE under -simulate: every choice is one random element
          EmitCases,
          Explain,       \* names of the deviations `want_dev` is computed with (the open findings); the DEV_ constants
                         \* below switch the same branches for the Refines... invariants
          SharedNames,   \* generator: let metrics of different programs reach one exported name from different store
                         \* names ("a-b" and "a_b") or with different key lists
          DEV_CollectDropsRestOfMetric,       \* prometheus.go Collect `return nil` on an unrepresentable label set
          DEV_FamilyHelpFromSource,           \* prometheus.go Collect: HELP is "defined at <source>" of the first metric of a STORE name
          DEV_WriteNeedsEqualKeys,            \* prometheus.go Write: registers the collector's descriptors before gathering
          DEV_GraphiteHistogramFirstLabelSet, \* graphite.go metricToGraphite reads m.LabelValues[0].Value
          EpochTs,                            \* label sets may carry the epoch itself as their timestamp (C13)
          DEV_JsonFailsOnNonFinite            \* json.go: encoding/json rejects NaN/Inf, the whole store answers 500

VARIABLES store,   \* Seq of [name, prog, kind, type, keys, bounds, lsets]; lsets: Seq of [labels, val, obs, ts]
          cfg,     \* [omitProg, emitTs, host, prefix]
          uid      \* label sets created so far
vars == <<store, cfg, uid>>

INF == 1000000          \* the +Inf bucket boundary
-----------------------------------------------------------------------------
(* Vocabulary *)
InvalidNames == {"in valid"}
InvalidKeys  == {"k-x"}
NonUtf8Vals  == {"nonutf8"}
NonFinite    == {"nan", "pinf", "ninf"}
\* the exported Prometheus name: hyphens replaced by underscores
ExportName(n) == IF n = "a-b" THEN "a_b" ELSE n
DevSet == {d \in {"DEV_CollectDropsRestOfMetric", "DEV_FamilyHelpFromSource", "DEV_WriteNeedsEqualKeys"} :
             \/ d = "DEV_CollectDropsRestOfMetric" /\ DEV_CollectDropsRestOfMetric
             \/ d = "DEV_FamilyHelpFromSource" /\ DEV_FamilyHelpFromSource
             \/ d = "DEV_WriteNeedsEqualKeys" /\ DEV_WriteNeedsEqualKeys}

Idx(s) == 1..Len(s)
Pairs(m, ls) == {<<m.keys[i], ls.labels[i]>> : i \in Idx(m.keys)}
RECURSIVE SumSeq(_)
SumSeq(s) == IF s = <<>> THEN 0 ELSE Head(s) + SumSeq(Tail(s))

(* Histogram datum of a label set: buckets.go Observe puts v into the first bucket with v <= max *)
NB(m) == Len(m.bounds) + 1
Bound(m, i) == IF i <= Len(m.bounds) THEN m.bounds[i] ELSE INF
BucketOf(m, v) == LET c == {i \in Idx(m.bounds) : v <= m.bounds[i]} IN
                  IF c = {} THEN NB(m) ELSE CHOOSE i \in c : \A j \in c : i <= j
Count(m, ls, i) == Cardinality({j \in Idx(ls.obs) : BucketOf(m, ls.obs[j]) = i})
Cum(m, ls, i)   == Cardinality({j \in Idx(ls.obs) : BucketOf(m, ls.obs[j]) <= i})
\* the abstract value reported for a label set: scalars carry their token, histograms their sum
Val(m, ls) == IF m.type = "Buckets" THEN [tok |-> "sum", uid |-> ls.val.uid, n |-> SumSeq(ls.obs)] ELSE ls.val

-----------------------------------------------------------------------------
(* C13, ideal layer: the statement of the property *)
PromType(kind) == CASE kind = "Counter" -> "counter" [] kind = "Gauge" -> "gauge" [] kind = "Timer" -> "gauge"
                    [] kind = "Histogram" -> "histogram" [] OTHER -> "untyped"
PromLabels(m, ls, c) == Pairs(m, ls) \cup (IF c.omitProg THEN {} ELSE {<<"prog", m.prog>>})
Representable(m, ls, c) ==
  /\ m.name \notin InvalidNames
  /\ \A i \in Idx(m.keys) : m.keys[i] \notin InvalidKeys
  /\ ~c.omitProg => \A i \in Idx(m.keys) : m.keys[i] # "prog"
  /\ \A i \in Idx(ls.labels) : ls.labels[i] \notin NonUtf8Vals
Sample(m, ls, c) ==
  [name |-> ExportName(m.name), labels |-> PromLabels(m, ls, c), type |-> PromType(m.kind),
   val |-> Val(m, ls), dtype |-> m.type,
   buckets |-> IF m.kind = "Histogram" THEN {<<Bound(m, i), Cum(m, ls, i)>> : i \in 1..NB(m)} ELSE {},
   count |-> IF m.kind = "Histogram" THEN Len(ls.obs) ELSE 0,
   ts |-> IF c.emitTs THEN (IF ls.ts = 0 THEN -1 ELSE ls.ts) ELSE 0]       \* 0: no timestamp; -1: the timestamp 0 (epoch)
PromIdeal(s, c) ==
  {Sample(s[i], s[i].lsets[j], c) :
     <<i, j>> \in {p \in Idx(s) \X (1..MaxLsets) :
                     /\ p[2] <= Len(s[p[1]].lsets) /\ s[p[1]].kind # "Text"
                     /\ Representable(s[p[1]], s[p[1]].lsets[p[2]], c)}}

(* C13, implementation-shaped: prometheus.go Collect - Range over metrics, `for ls := range lsc` *)
RECURSIVE CollectMetric(_, _, _, _)
CollectMetric(m, j, c, dev) ==
  IF j > Len(m.lsets) THEN {}
  ELSE IF ~Representable(m, m.lsets[j], c)                          \* NewConstMetric / NewConstHistogram err != nil
       THEN IF dev THEN {}                                           \* `return nil`: the rest of the metric is lost
            ELSE CollectMetric(m, j + 1, c, dev)                     \* leave it out, keep ranging
       ELSE {Sample(m, m.lsets[j], c)} \cup CollectMetric(m, j + 1, c, dev)
PromImpl(s, c, dev) == UNION {IF s[i].kind = "Text" THEN {} ELSE CollectMetric(s[i], 1, c, dev) : i \in Idx(s)}

(* The two ways the samples of Collect reach a scraper, D = the set of deviations switched on.                 *)
(*   "metrics": mtail.go registers the exporter while the store is empty (an unchecked collector), promhttp    *)
(*              gathers; the registry insists on ONE help text per family and answers 500 otherwise.           *)
(*   "write":   Exporter.Write (one-shot output) registers the exporter with the store filled, so Collect's     *)
(*              descriptors are checked first: one exported name must have one help text and one label-name set.*)
Emits(m, c, D) == m.kind # "Text" /\ CollectMetric(m, 1, c, "DEV_CollectDropsRestOfMetric" \in D) # {}
Clash(s, c, D, Differ(_, _)) ==
  \E i, j \in Idx(s) : /\ i # j /\ ExportName(s[i].name) = ExportName(s[j].name)
                        /\ Emits(s[i], c, D) /\ Emits(s[j], c, D) /\ Differ(s[i], s[j])
\* Collect keeps the help text of the first metric while the STORE name stays the same (`lastMetric != m.Name`)
HelpClash(s, c, D) == Clash(s, c, D, LAMBDA a, b : a.name # b.name)
KeyClash(s, c, D)  == Clash(s, c, D, LAMBDA a, b : {a.keys[i] : i \in Idx(a.keys)} # {b.keys[i] : i \in Idx(b.keys)})
Failed == [ok |-> FALSE, samples |-> {}]
PromPaths(s, c, D) ==
  LET all == [ok |-> TRUE, samples |-> PromImpl(s, c, "DEV_CollectDropsRestOfMetric" \in D)]
      helpBad == "DEV_FamilyHelpFromSource" \in D /\ HelpClash(s, c, D)
      keysBad == "DEV_WriteNeedsEqualKeys" \in D /\ KeyClash(s, c, D)
  IN [metrics |-> IF helpBad THEN Failed ELSE all,
      write   |-> IF helpBad \/ keysBad THEN Failed ELSE all]
\* the open deviations that matter for one scrape path of this store: taken alone it departs from the ideal, or
\* without it the expectation changes (two deviations may each be sufficient, or one may mask another)
Blame(s, c, path) ==
  {d \in Explain : \/ PromPaths(s, c, {d})[path] # [ok |-> TRUE, samples |-> PromIdeal(s, c)]
                   \/ PromPaths(s, c, Explain \ {d})[path] # PromPaths(s, c, Explain)[path]}
IdealPaths(s, c) == [metrics |-> [ok |-> TRUE, samples |-> PromIdeal(s, c)], write |-> [ok |-> TRUE, samples |-> PromIdeal(s, c)]]

-----------------------------------------------------------------------------
(* C22, ideal layer: one record per label set carrying ITS datum *)
AllLS(s) == {p \in Idx(s) \X (1..MaxLsets) : p[2] <= Len(s[p[1]].lsets)}
Scalar(kind) == kind \in {"Counter", "Gauge", "Timer"}
Rec(m, ls, role, le, n) ==
  [metric |-> m.name, prog |-> m.prog, labels |-> Pairs(m, ls), role |-> role, le |-> le, n |-> n,
   val |-> Val(m, ls), dtype |-> m.type, ts |-> ls.ts, kind |-> m.kind]

\* JSON: every metric, every label set, with names, keys, label values in key order, datum
JsonRec(m, ls) == [metric |-> m.name, prog |-> m.prog, kind |-> m.kind, type |-> m.type, keys |-> m.keys,
                   labelseq |-> ls.labels, val |-> Val(m, ls), ts |-> ls.ts,
                   counts |-> IF m.type = "Buckets" THEN {<<Bound(m, i), Count(m, ls, i)>> : i \in 1..NB(m)} ELSE {},
                   count |-> IF m.type = "Buckets" THEN Len(ls.obs) ELSE 0]
JsonIdeal(s) == [ok |-> TRUE, recs |-> {JsonRec(s[p[1]], s[p[1]].lsets[p[2]]) : p \in AllLS(s)},
                 metrics |-> {[metric |-> s[i].name, prog |-> s[i].prog, keys |-> s[i].keys, n |-> Len(s[i].lsets)] : i \in Idx(s)}]
\* varz: every metric; labels + prog (unless omitted) + instance
VarzIdeal(s, c) ==
  {[metric |-> s[p[1]].name,
    labels |-> Pairs(s[p[1]], s[p[1]].lsets[p[2]]) \cup (IF c.omitProg THEN {} ELSE {<<"prog", s[p[1]].prog>>})
               \cup {<<"instance", c.host>>},
    val |-> Val(s[p[1]], s[p[1]].lsets[p[2]]), dtype |-> s[p[1]].type] : p \in AllLS(s)}
\* graphite: counters, gauges, timers: a value line; histograms: a line per bucket, a count line, a value line
GraphiteLS(m, ls, src) ==
  IF Scalar(m.kind) THEN {Rec(m, ls, "value", 0, 0)}
  ELSE IF m.kind = "Histogram"
       THEN {Rec(m, ls, "bin", Bound(m, i), Count(m, src, i)) : i \in 1..NB(m)}
            \cup {Rec(m, ls, "count", 0, Len(src.obs)), Rec(m, ls, "value", 0, 0)}
       ELSE {}
GraphiteIdeal(s) == UNION {GraphiteLS(s[p[1]], s[p[1]].lsets[p[2]], s[p[1]].lsets[p[2]]) : p \in AllLS(s)}
\* statsd and collectd: counters, gauges, timers
ScalarIdeal(s) == {Rec(s[p[1]], s[p[1]].lsets[p[2]], "value", 0, 0) : p \in {q \in AllLS(s) : Scalar(s[q[1]].kind)}}

(* C22, implementation-shaped *)
\* graphite.go metricToGraphite: `d := m.LabelValues[0].Value` for the bucket and count lines
GraphiteImpl(s, dev) ==
  UNION {LET m == s[p[1]] IN GraphiteLS(m, m.lsets[p[2]], IF dev THEN m.lsets[1] ELSE m.lsets[p[2]]) : p \in AllLS(s)}
\* json.go HandleJSON: json.MarshalIndent(e.store) fails as a whole on the first unsupported float
HasNonFinite(s) == \E p \in AllLS(s) : s[p[1]].type = "Float" /\ s[p[1]].lsets[p[2]].val.tok \in NonFinite
JsonImpl(s, dev) == IF dev /\ HasNonFinite(s) THEN [ok |-> FALSE, recs |-> {}, metrics |-> {}] ELSE JsonIdeal(s)

-----------------------------------------------------------------------------
(* Generator *)
\* TLC configuration files cannot hold tuples: kind/type pairs and boundary lists are selected by name
KTTable == [CounterInt |-> <<"Counter", "Int">>, CounterFloat |-> <<"Counter", "Float">>,
            GaugeInt |-> <<"Gauge", "Int">>, GaugeFloat |-> <<"Gauge", "Float">>,
            TimerInt |-> <<"Timer", "Int">>, TimerFloat |-> <<"Timer", "Float">>,
            TextString |-> <<"Text", "String">>, HistogramBuckets |-> <<"Histogram", "Buckets">>]
KindTypes == {KTTable[n] : n \in KindTypeNames}
BTable == [b12 |-> <<1, 2>>, b0510 |-> <<0, 5, 10>>, b3 |-> <<3>>, none |-> <<>>]
BoundLists == {BTable[n] : n \in BoundNames}
Pick(S) == IF Random /\ S # {} THEN {RandomElement(S)} ELSE S
\* under -simulate three choices out of four avoid the atoms that make a label set unrepresentable,
\* so that most sampled stores have something to export (exhaustive runs take every element)
WPick(S, IsBad(_)) ==
  IF ~Random \/ S = {} THEN S
  ELSE LET good == {x \in S : ~IsBad(x)} IN
       IF good # {} /\ RandomElement(1..4) > 1 THEN {RandomElement(good)} ELSE {RandomElement(S)}
KeySeqsOf(n) == {ks \in [1..n -> KeyNames] : \A i, j \in 1..n : i # j => ks[i] # ks[j]}
BadName(n) == n \in InvalidNames
BadKeys(ks) == \E i \in DOMAIN ks : ks[i] \in InvalidKeys \cup {"prog"}
BadLabels(lv) == \E i \in DOMAIN lv : lv[i] \in NonUtf8Vals
TokensOf(type) == CASE type = "Int" -> IntToks [] type = "Float" -> FloatToks [] OTHER -> {"str"}
\* a histogram label set exists because something was observed: at least one observation
ObsSeqs == UNION {[1..n -> ObsVals] : n \in 1..MaxObs}

\* the premise of C13 / the rules of Store.Add: metrics that share an exported name have one kind and are told apart
\* by the program label; unless SharedNames they also share the store name and the key list
Admissible(n, p, kt, ks) ==
  \A i \in Idx(store) :
     ExportName(store[i].name) = ExportName(n) =>
        /\ store[i].kind = kt[1] /\ store[i].prog # p /\ ~cfg.omitProg
        /\ SharedNames \/ (store[i].name = n /\ store[i].keys = ks)

Init == /\ store = <<>> /\ uid = 0
        /\ cfg \in [omitProg : BOOLEAN, emitTs : BOOLEAN, host : Hosts, prefix : Prefixes]

AddMetric ==
  /\ Len(store) < MaxMetrics
  /\ \E n \in WPick(Names, BadName), p \in Pick(Progs), kt \in Pick(KindTypes), nk \in Pick(0..MaxKeys) :
     \E ks \in WPick(KeySeqsOf(nk), BadKeys) :
       /\ Admissible(n, p, kt, ks)
       /\ \E b \in Pick(IF kt[2] = "Buckets" THEN BoundLists ELSE {<<>>}) :
            store' = Append(store, [name |-> n, prog |-> p, kind |-> kt[1], type |-> kt[2], keys |-> ks,
                                    bounds |-> b, lsets |-> <<>>])
  /\ UNCHANGED <<cfg, uid>>

FreeLabels(m) == [Idx(m.keys) -> LabelVals] \ {m.lsets[j].labels : j \in Idx(m.lsets)}
AddLabelSet ==
  /\ \E i \in Pick({k \in Idx(store) : Len(store[k].lsets) < MaxLsets /\ FreeLabels(store[k]) # {}}) :
       LET m == store[i] IN
       /\ \E lv \in WPick(FreeLabels(m), BadLabels) :
          \* ts 0 = the datum was last written at the Unix epoch itself (an instant like any other: with timestamps
          \* enabled its sample carries the timestamp 0)
          \E tok \in Pick(TokensOf(m.type)), ob \in Pick(IF m.type = "Buckets" THEN ObsSeqs ELSE {<<>>}),
             t \in Pick(IF EpochTs /\ Mode = "prom" THEN {uid + 1, 0} ELSE {uid + 1}) :
            store' = [store EXCEPT ![i].lsets =
                        Append(@, [labels |-> lv, val |-> [tok |-> tok, uid |-> uid + 1, n |-> 0], obs |-> ob, ts |-> t])]
  /\ uid' = uid + 1
  /\ UNCHANGED cfg

Next == AddMetric \/ AddLabelSet
Spec == Init /\ [][Next]_vars

-----------------------------------------------------------------------------
(* Properties of the specification itself *)
Series(s, c) == {<<ExportName(s[p[1]].name), PromLabels(s[p[1]], s[p[1]].lsets[p[2]], c)>> :
                   p \in {q \in AllLS(s) : s[q[1]].kind # "Text"}}
\* the generator only builds stores that satisfy the premise: no two exported series share name and label set
PremiseOK == Cardinality(Series(store, cfg)) = Cardinality({q \in AllLS(store) : store[q[1]].kind # "Text"})
\* exactly one sample per representable label set
OneSampleEach == Cardinality(PromIdeal(store, cfg)) =
                   Cardinality({q \in AllLS(store) : store[q[1]].kind # "Text"
                                                      /\ Representable(store[q[1]], store[q[1]].lsets[q[2]], cfg)})
\* cumulative, non-decreasing buckets whose +Inf bucket equals the count; per-bucket counts add up
HistOK == \A p \in AllLS(store) :
            LET m == store[p[1]]  ls == m.lsets[p[2]] IN
            m.type = "Buckets" =>
              /\ \A i \in 1..(NB(m) - 1) : Cum(m, ls, i) <= Cum(m, ls, i + 1)
              /\ Cum(m, ls, NB(m)) = Len(ls.obs)
              /\ SumSeq([i \in 1..NB(m) |-> Count(m, ls, i)]) = Len(ls.obs)
\* implementation-shaped = ideal (all deviations off); a deviation switched on must break its line
RefinesProm     == PromPaths(store, cfg, DevSet) = IdealPaths(store, cfg)
RefinesGraphite == GraphiteImpl(store, DEV_GraphiteHistogramFirstLabelSet) = GraphiteIdeal(store)
RefinesJson     == JsonImpl(store, DEV_JsonFailsOnNonFinite) = JsonIdeal(store)

Emit == EmitCases =>
  PrintT(<<"CASE", ToJson(
     IF Mode = "prom"
     THEN [store |-> store, cfg |-> cfg,
           want |-> PromIdeal(store, cfg),
           want_dev |-> PromPaths(store, cfg, Explain),
           \* per scrape path: the open deviations whose removal changes what that path is expected to deliver
           blame |-> [metrics |-> Blame(store, cfg, "metrics"), write |-> Blame(store, cfg, "write")]]
     ELSE [store |-> store, cfg |-> cfg,
           want |-> [json |-> JsonIdeal(store), varz |-> VarzIdeal(store, cfg), graphite |-> GraphiteIdeal(store),
                     scalar |-> ScalarIdeal(store)],
           want_dev |-> [json |-> JsonImpl(store, "DEV_JsonFailsOnNonFinite" \in Explain), varz |-> VarzIdeal(store, cfg),
                         graphite |-> GraphiteImpl(store, "DEV_GraphiteHistogramFirstLabelSet" \in Explain),
                         scalar |-> ScalarIdeal(store)]])>>)
=============================================================================
