-------------------------------- MODULE Fold --------------------------------
(***************************************************************************)
(* internal/runtime/compiler/opt/opt.go : the constant folder, as an       *)
(* AST -> AST operator over the expression trees of MtailLang.             *)
(*                                                                         *)
(* Ideal layer (property C02): for every constant expression e,            *)
(*    Eval(Fold(e)) = Eval(e)   and   Fold rejects e only when some        *)
(*    division/modulus inside e has a divisor that is the literal zero     *)
(*    (after folding the divisor's own sub-expression).                    *)
(* Implementation-shaped layer: FoldOp is the four-way case analysis of    *)
(* opt.go VisitAfter (int.int, int.float, float.int, float.float) for      *)
(* + - * / % **, bottom-up.  Deviation:                                    *)
(*    DEV_FoldIntModFloatIsZero   `int % float` assigns the result to the  *)
(*        operand instead of the new literal: the folded literal is 0.0    *)
(*                                                                         *)
(* TLC enumerates the constant expressions of depth <= 2 over a literal    *)
(* set that contains zero, negative, int and float values, checks the      *)
(* lemma, and emits (expression, folded literal | rejected) so that the    *)
(* harness can compare with what the REAL opt.Optimise does to the parsed  *)
(* expression.                                                             *)
(***************************************************************************)
EXTENDS MtailLang, Json

CONSTANTS DEV_FoldIntModFloatIsZero, EmitCases,
          Family,   \* "const": fully constant expressions; "open": expressions that contain the non-constant leaf X (= $1)
          Deep      \* TRUE: every depth-2 expression; FALSE: the outer operand of depth-2 expressions from a 3-literal subset

IntLits   == {-2, -1, 0, 1, 2, 3, 7}
FloatLits == { <<1,2>>, <<3,2>>, <<2,1>>, <<4,1>>, <<-3,2>>, <<0,1>> }
Ops       == {"+", "-", "*", "/", "%", "**"}
ILit(i) == [n |-> "int", v |-> i]
FLit(q) == [n |-> "float", v |-> q]
Leaves == {ILit(i) : i \in IntLits} \cup {FLit(q) : q \in FloatLits}
BinE(op, l, r) == [n |-> "bin", op |-> op, l |-> l, r |-> r]
\* exponents are restricted to small integer literals (keeps rationals closed; 0 ** -n is +Inf: value outside the model)
ExpOK(op, r) == op # "**" \/ (r.n = "int" /\ r.v \in -2..3)
D1 == {BinE(op, l, r) : op \in Ops, l \in Leaves, r \in {x \in Leaves : TRUE}} 
Depth1 == {e \in D1 : ExpOK(e.op, e.r)}
Outer == IF Deep THEN Leaves ELSE {ILit(0), ILit(3), FLit(<<-3,2>>)}
Depth2 == {BinE(op, l, r) : op \in Ops, l \in Depth1, r \in Outer} \cup
          {BinE(op, l, r) : op \in Ops \ {"**"}, l \in Outer, r \in Depth1}
ConstExprs == Leaves \cup Depth1 \cup {e \in Depth2 : ExpOK(e.op, e.r)}

\* the open family: the folder must leave alone every operator that has a non-literal operand (and still fold the
\* constant sub-trees next to it); X stands for the capture $1, which the harness feeds with the line "4"
XLeaf == [n |-> "cap", p |-> 1, slot |-> 1, g |-> 1, byname |-> FALSE, name |-> ""]
XVal == 4     \* a power of two, like every divisor of this family: all quotients stay dyadic (exact in float64)
OLeaves == {ILit(0), ILit(1), ILit(2), ILit(4), FLit(<<1,2>>), FLit(<<2,1>>), XLeaf}
OOps == {"+", "-", "*", "/", "%"}
OD1 == {BinE(op, l, r) : op \in OOps, l \in OLeaves, r \in OLeaves}
OD2 == {BinE(op, l, r) : op \in OOps, l \in OD1, r \in OLeaves} \cup {BinE(op, l, r) : op \in OOps, l \in OLeaves, r \in OD1}
RECURSIVE HasX(_), SubstX(_)
HasX(x) == x.n = "cap" \/ (x.n = "bin" /\ (HasX(x.l) \/ HasX(x.r)))
SubstX(x) == IF x.n = "cap" THEN ILit(XVal) ELSE IF x.n = "bin" THEN BinE(x.op, SubstX(x.l), SubstX(x.r)) ELSE x
OpenExprs == {x \in OD1 \cup OD2 : HasX(x)}

\* the edge family: operands at the 64-bit boundaries.  TLC integers are 32 bit, so these literals are SENTINELS
\* (|v| > MaxInt: outside the model) that the harness renders as 2^63-1, -2^63, 2^53, 2^53+1, 2^62, 3037000500, 2^32.
\* The model does not evaluate them: it enumerates the shapes and says only whether a literal zero divides; what is
\* compared is the property itself - the optimised and the unoptimised compile of the same text agree on value,
\* type and runtime error.  A compound operand stands only where it cannot be a zero divisor or an exponent.
EdgeInts  == {2000000001, -2000000001, 2000000002, 2000000003, -2000000003, 2000000004, 2000000005, 2000000006}
EdgeLits  == {ILit(i) : i \in EdgeInts}
EdgeSmall == {ILit(i) : i \in {-1, 0, 1, 2, 3, 7}} \cup {FLit(<<1,2>>), FLit(<<2,1>>), FLit(<<0,1>>)}
ED1 == {x \in {BinE(op, l, r) : op \in Ops, l \in EdgeLits \cup EdgeSmall, r \in EdgeLits \cup EdgeSmall} :
          (x.l \in EdgeLits \/ x.r \in EdgeLits) /\ ExpOK(x.op, x.r)}
ED2 == {BinE(op, l, r) : op \in Ops \ {"**"}, l \in ED1, r \in {ILit(-1), ILit(0), ILit(1), ILit(2), FLit(<<2,1>>)}} \cup
       {BinE(op, l, r) : op \in {"+", "-", "*"}, l \in {ILit(-1), ILit(1), ILit(2), FLit(<<1,2>>)}, r \in ED1}
EdgeExprs == ED1 \cup (IF Deep THEN ED2 ELSE {x \in ED2 : x.l \in ED1 /\ x.l.l \in EdgeLits /\ x.l.r \in {ILit(-1), ILit(1), ILit(0)}})
IsZeroLit(x) == (x.n = "int" /\ x.v = 0) \/ (x.n = "float" /\ x.v[1] = 0)
RECURSIVE EdgeZeroDiv(_)
EdgeZeroDiv(x) == x.n = "bin" /\ (EdgeZeroDiv(x.l) \/ EdgeZeroDiv(x.r) \/ (x.op \in {"/", "%"} /\ IsZeroLit(x.r)))

IsLit(e) == e.n \in {"int", "float"}
LitVal(e) == IF e.n = "int" THEN IntV(e.v) ELSE RatV(e.v[1], e.v[2])
ValLit(v) == IF v.k = "i" THEN ILit(v.v) ELSE FLit(<<v.n, v.d>>)

\* opt.go on two literal operands: [lit, rej, ovf]
FoldOp(op, l, r) ==
  LET x == LitVal(l)  y == LitVal(r)
      zero == IF r.n = "int" THEN r.v = 0 ELSE r.v[1] = 0 IN
  IF op \in {"/", "%"} /\ zero THEN [rej |-> TRUE, ovf |-> FALSE, e |-> BinE(op, l, r)]
  ELSE LET v == IF l.n = "int" /\ r.n = "int" THEN ArithI(op, x.v, y.v)
                ELSE IF DEV_FoldIntModFloatIsZero /\ op = "%" /\ l.n = "int" /\ r.n = "float" THEN RatV(0, 1)
                ELSE ArithF(op, ToRat(x), ToRat(y))
       IN IF v.k \in {"ovf", "err", "fault"} THEN [rej |-> FALSE, ovf |-> TRUE, e |-> BinE(op, l, r)]
          ELSE [rej |-> FALSE, ovf |-> FALSE, e |-> ValLit(v)]

RECURSIVE Fold(_)
Fold(e) ==
  IF e.n # "bin" THEN [rej |-> FALSE, ovf |-> FALSE, e |-> e]
  ELSE LET l == Fold(e.l)  r == Fold(e.r) IN
       IF l.rej \/ r.rej THEN [rej |-> TRUE, ovf |-> FALSE, e |-> e]
       \* a literal-zero divisor is refused whatever constant the dividend folded to (even one outside the model)
       ELSE IF e.op \in {"/", "%"} /\ ~r.ovf /\ IsLit(r.e) /\ (IF r.e.n = "int" THEN r.e.v = 0 ELSE r.e.v[1] = 0)
               /\ (l.ovf \/ IsLit(l.e)) THEN [rej |-> TRUE, ovf |-> FALSE, e |-> e]
       ELSE IF l.ovf \/ r.ovf THEN [rej |-> FALSE, ovf |-> TRUE, e |-> e]
       ELSE IF e.op \in Ops /\ IsLit(l.e) /\ IsLit(r.e) THEN FoldOp(e.op, l.e, r.e)
       ELSE [rej |-> FALSE, ovf |-> FALSE, e |-> BinE(e.op, l.e, r.e)]

\* the reference value of a constant expression (no program state involved)
NoProg == [decls |-> <<>>, decos |-> <<>>, body |-> <<>>, pats |-> <<>>]
St0 == [m |-> <<>>, memo |-> <<>>, time |-> Null, caps |-> <<>>, line |-> <<>>, file |-> <<>>, li |-> 1,
        gm |-> FALSE, err |-> FALSE, stop |-> FALSE, ovf |-> FALSE]
EvalConst(e) == LET r == Eval(NoProg, e, St0) IN [v |-> r.v, err |-> r.st.err, ovf |-> r.st.ovf]

\* a divisor that is (folds to) the literal zero somewhere inside e
RECURSIVE HasZeroDivisor(_)
HasZeroDivisor(e) ==
  /\ e.n = "bin"
  /\ \/ HasZeroDivisor(e.l) \/ HasZeroDivisor(e.r)
     \/ /\ e.op \in {"/", "%"}
        /\ LET r == Fold(e.r) IN ~r.rej /\ ~r.ovf /\ IsLit(r.e) /\ (IF r.e.n = "int" THEN r.e.v = 0 ELSE r.e.v[1] = 0)

\* checker.go (runs on the unfolded tree when the optimiser is off): `Can't divide by zero` when the right
\* operand of an INTEGER / or % is the literal 0 itself (a float left side wraps the divisor in a conversion)
RECURSIVE TyOf(_), CheckerRejects(_)
TyOf(x) == IF x.n \in {"int", "cap"} THEN "int" ELSE IF x.n = "float" THEN "float"
           ELSE IF TyOf(x.l) = "int" /\ TyOf(x.r) = "int" THEN "int" ELSE "float"
CheckerRejects(x) ==
  /\ x.n = "bin"
  /\ \/ CheckerRejects(x.l) \/ CheckerRejects(x.r)
     \/ (x.op \in {"/", "%"} /\ x.r = ILit(0) /\ TyOf(x.l) = "int")

SameVal(a, b) == IF IsNum(a) /\ IsNum(b) THEN a.k = b.k /\ REq(ToRat(a), ToRat(b)) ELSE a = b

VARIABLE e
Init == e \in (IF Family = "open" THEN OpenExprs ELSE IF Family = "edge" THEN EdgeExprs ELSE ConstExprs)
Next == UNCHANGED e
Spec == Init /\ [][Next]_e

FoldPreservesValue ==
  LET f == [Fold(e) EXCEPT !.e = SubstX(@)]  a == EvalConst(SubstX(e)) IN
  (~f.rej /\ ~f.ovf /\ ~a.ovf) => LET b == EvalConst(f.e) IN
                                     /\ ~b.ovf /\ a.err = b.err                 \* same runtime-error behaviour
                                     /\ (~a.err => SameVal(a.v, b.v))
                                     /\ (~HasX(e) => ~a.err)                   \* a constant expression that folds never errs
RejectsOnlyZeroDivisor == /\ Fold(e).rej => HasZeroDivisor(e)
                          /\ ~HasX(e) => (HasZeroDivisor(e) => Fold(e).rej)
\* everything the folder accepts and that is fully constant becomes ONE literal
\* whatever the checker refuses on the unfolded tree the folder refuses too
CheckerRejectImpliesFoldReject == (CheckerRejects(e) /\ ~HasX(e)) => Fold(e).rej
FoldsToLiteral == LET f == Fold(e) IN (~f.rej /\ ~f.ovf /\ ~HasX(e)) => IsLit(f.e)
\* an operator with a non-constant operand is never folded away: X survives folding
KeepsNonConstant == LET f == Fold(e) IN (~f.rej /\ ~f.ovf /\ HasX(e)) => HasX(f.e)

Emit == EmitCases =>
        IF Family = "edge"
        THEN PrintT(<<"CASE", ToJson([e |-> e, f |-> [rej |-> EdgeZeroDiv(e), ovf |-> ~EdgeZeroDiv(e), e |-> e],
                                      v |-> [v |-> OvfV, err |-> FALSE, ovf |-> TRUE], ckrej |-> CheckerRejects(e), ckrejon |-> FALSE,
                                      open |-> FALSE, edge |-> TRUE])>>)
        ELSE PrintT(<<"CASE", ToJson([e |-> e, f |-> Fold(e), v |-> EvalConst(SubstX(e)), ckrej |-> CheckerRejects(e), ckrejon |-> CheckerRejects(Fold(e).e), open |-> HasX(e)])>>)
=============================================================================
