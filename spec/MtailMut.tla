------------------------------ MODULE MtailMut ------------------------------
(***************************************************************************)
(* Property C24: one defect-introducing mutation applied to a well-typed   *)
(* generated program gives a program the compiler must reject.             *)
(*                                                                         *)
(*   WellFormed(P)  - the static rules of the language as a predicate on   *)
(*                    the AST (declared-before-use, capture visibility by  *)
(*                    scope, decorator defined, next only inside a         *)
(*                    decorator, index arity, no redeclaration, every      *)
(*                    declaration used, regex valid and within the length  *)
(*                    limit, no integer / or % by the literal 0)           *)
(*   Mutate(P,k,s)  - defect class k in 1..12 introduced at a seeded       *)
(*                    position: either a top-level edit (declarations,     *)
(*                    decorator definitions, pattern table) or a small     *)
(*                    defective statement inserted as the first statement  *)
(*                    of the j-th block of the program in pre-order        *)
(*                    (top level, nested conditionals, else blocks,        *)
(*                    decorated blocks, decorator bodies)                  *)
(* TLC checks  WellFormed(base) /\ ~WellFormed(mutant)  for every case and *)
(* emits the mutant with its defect class; the harness requires the real   *)
(* compiler to reject it with a positioned error and the real loader not   *)
(* to load it.                                                             *)
(***************************************************************************)
EXTENDS MtailGen

NClasses == 13

-----------------------------------------------------------------------------
(* blocks in pre-order *)
RECURSIVE NBlocks(_), InsertStmt(_, _, _)
\* number of blocks inside the statement list ss, counting ss itself
NBlocks(ss) ==
  1 + (IF ss = <<>> THEN 0 ELSE
       LET st == Head(ss)
           inner == CASE st.n = "cond" -> NBlocks(st.t) + (IF st.he THEN NBlocks(st.e) ELSE 0)
                      [] st.n \in {"otherwise", "deco"} -> NBlocks(st.t)
                      [] OTHER -> 0
       IN inner + NBlocks(Tail(ss)) - 1)
\* insert stmt as the first statement of block number k (0 = ss itself)
InsertStmt(ss, k, stmt) ==
  IF k = 0 THEN <<stmt>> \o ss
  ELSE IF ss = <<>> THEN ss
  ELSE LET st == Head(ss)
           nt == IF st.n \in {"cond", "otherwise", "deco"} THEN NBlocks(st.t) ELSE 0
           ne == IF st.n = "cond" /\ st.he THEN NBlocks(st.e) ELSE 0
       IN IF k <= nt THEN <<[st EXCEPT !.t = InsertStmt(st.t, k - 1, stmt)]>> \o Tail(ss)
          ELSE IF k <= nt + ne THEN <<[st EXCEPT !.e = InsertStmt(st.e, k - nt - 1, stmt)]>> \o Tail(ss)
          ELSE <<st>> \o InsertStmt(Tail(ss), k - nt - ne, stmt)

-----------------------------------------------------------------------------
(* WellFormed *)
RECURSIVE CapsE(_), CapsEs(_), VisOK(_, _, _, _), DecoNames(_), HasNext(_), ArityE(_, _), ArityEs(_, _), AritySs(_, _), ZeroDivE(_), ZeroDivEs(_), ZeroDivSs(_)
CapsEs(es) == IF es = <<>> THEN {} ELSE CapsE(Head(es)) \cup CapsEs(Tail(es))
CapsE(e) ==      \* pattern ids (0 = none) referenced by capture references in e
  CASE e.n = "cap" -> {e.p}
    [] e.n = "var" -> CapsEs(e.idx)
    [] e.n = "bin" -> CapsE(e.l) \cup CapsE(e.r)
    [] e.n \in {"smatch", "pmatch"} -> CapsE(e.l)
    [] e.n \in {"assign", "addassign"} -> CapsEs(e.idx) \cup CapsE(e.r)
    [] e.n \in {"inc", "dec"} -> CapsEs(e.idx)
    [] e.n = "call" -> CapsEs(e.args)
    [] OTHER -> {}
PatOfCond(c) == IF c.n = "pat" THEN {c.p} ELSE IF c.n = "bin" /\ c.l.n = "pat" THEN {c.l.p}
                ELSE IF c.n = "bin" /\ c.r.n = "pmatch" THEN {c.r.p} ELSE {}
\* every capture reference names a pattern that is in scope (vis = set of pattern ids in scope)
VisOK(P, ss, vis, dvis) ==
  \/ ss = <<>>
  \/ LET st == Head(ss)
         ok == CASE st.n = "cond" -> /\ CapsE(st.c) \subseteq (vis \cup PatOfCond(st.c))
                                     /\ VisOK(P, st.t, vis \cup PatOfCond(st.c), dvis)
                                     /\ VisOK(P, st.e, vis \cup PatOfCond(st.c), dvis)
                [] st.n = "otherwise" -> VisOK(P, st.t, vis, dvis)
                [] st.n = "expr" -> CapsE(st.e) \subseteq vis
                [] st.n \in {"del", "delafter"} -> CapsEs(st.idx) \subseteq vis
                [] st.n = "deco" -> VisOK(P, st.t, vis \cup dvis, dvis)
                [] OTHER -> TRUE
     IN ok /\ VisOK(P, Tail(ss), vis, dvis)
\* patterns in scope at the `next` of a decorator body
RECURSIVE NextVis(_, _)
NextVis(ss, vis) ==
  IF ss = <<>> THEN {}
  ELSE LET st == Head(ss)
           here == CASE st.n = "next" -> vis \cup {0}        \* marker 0: found
                     [] st.n = "cond" -> NextVis(st.t, vis \cup PatOfCond(st.c)) \cup NextVis(st.e, vis \cup PatOfCond(st.c))
                     [] st.n = "otherwise" -> NextVis(st.t, vis)
                     [] OTHER -> {}
       IN here \cup NextVis(Tail(ss), vis)
DecoNames(ss) ==
  IF ss = <<>> THEN {}
  ELSE LET st == Head(ss) IN
       (CASE st.n = "deco" -> {st.name} \cup DecoNames(st.t)
          [] st.n = "cond" -> DecoNames(st.t) \cup DecoNames(st.e)
          [] st.n = "otherwise" -> DecoNames(st.t)
          [] OTHER -> {}) \cup DecoNames(Tail(ss))
HasNext(ss) ==
  ss # <<>> /\ LET st == Head(ss) IN
    \/ st.n = "next"
    \/ (st.n = "cond" /\ (HasNext(st.t) \/ HasNext(st.e)))
    \/ (st.n \in {"otherwise", "deco"} /\ HasNext(st.t))
    \/ HasNext(Tail(ss))
KeysOf(P, m) == IF \E i \in 1..Len(P.decls) : P.decls[i].name = m THEN Len(DeclOf(P, m).keys) ELSE -1
ArityEs(P, es) == es = <<>> \/ (ArityE(P, Head(es)) /\ ArityEs(P, Tail(es)))
ArityE(P, e) ==
  CASE e.n = "var" -> Len(e.idx) = KeysOf(P, e.m) /\ ArityEs(P, e.idx)
    [] e.n = "bin" -> ArityE(P, e.l) /\ ArityE(P, e.r)
    [] e.n \in {"smatch", "pmatch"} -> ArityE(P, e.l)
    [] e.n \in {"assign", "addassign"} -> Len(e.idx) = KeysOf(P, e.m) /\ ArityEs(P, e.idx) /\ ArityE(P, e.r)
    [] e.n \in {"inc", "dec"} -> Len(e.idx) = KeysOf(P, e.m) /\ ArityEs(P, e.idx)
    [] e.n = "call" -> ArityEs(P, e.args)
    [] OTHER -> TRUE
AritySs(P, ss) ==
  \/ ss = <<>>
  \/ LET st == Head(ss) IN
     /\ CASE st.n = "cond" -> ArityE(P, st.c) /\ AritySs(P, st.t) /\ AritySs(P, st.e)
          [] st.n \in {"otherwise", "deco"} -> AritySs(P, st.t)
          [] st.n = "expr" -> ArityE(P, st.e)
          [] st.n \in {"del", "delafter"} -> Len(st.idx) = KeysOf(P, st.m) /\ ArityEs(P, st.idx)
          [] OTHER -> TRUE
     /\ AritySs(P, Tail(ss))
IntTyped(e) == e.n = "int" \/ (e.n = "var" /\ e.m \in {"ci", "cd", "gi", "gk", "tm", "ti"}) \/ (e.n = "cap")
ZeroDivEs(es) == es # <<>> /\ (ZeroDivE(Head(es)) \/ ZeroDivEs(Tail(es)))
ZeroDivE(e) ==
  CASE e.n = "bin" -> (e.op \in {"/", "%"} /\ e.r.n = "int" /\ e.r.v = 0 /\ IntTyped(e.l)) \/ ZeroDivE(e.l) \/ ZeroDivE(e.r)
    [] e.n = "var" -> ZeroDivEs(e.idx)
    [] e.n \in {"assign", "addassign"} -> ZeroDivEs(e.idx) \/ ZeroDivE(e.r)
    [] e.n = "call" -> ZeroDivEs(e.args)
    [] OTHER -> FALSE
ZeroDivSs(ss) ==
  ss # <<>> /\ LET st == Head(ss) IN
    \/ (st.n = "cond" /\ (ZeroDivE(st.c) \/ ZeroDivSs(st.t) \/ ZeroDivSs(st.e)))
    \/ (st.n \in {"otherwise", "deco"} /\ ZeroDivSs(st.t))
    \/ (st.n = "expr" /\ ZeroDivE(st.e))
    \/ ZeroDivSs(Tail(ss))

AllSs(P) == P.pre \o P.body \o FlattenSeq([i \in 1..Len(P.decos) |-> P.decos[i].body])
RECURSIVE NestedDecls(_)
NestedDecls(ss) ==
  IF ss = <<>> THEN {}
  ELSE LET st == Head(ss) IN
       (CASE st.n = "decl" -> {st.d.name}
          [] st.n = "cond" -> NestedDecls(st.t) \cup NestedDecls(st.e)
          [] st.n \in {"otherwise", "deco"} -> NestedDecls(st.t)
          [] OTHER -> {}) \cup NestedDecls(Tail(ss))
DeclNames(P) == {P.decls[i].name : i \in 1..Len(P.decls)}
WellFormed(P) ==
  LET used == UsedSs(AllSs(P))
      defs == {P.decos[i].name : i \in 1..Len(P.decos)}
      dvis == IF P.decos = <<>> THEN {} ELSE NextVis(P.decos[1].body, {}) \ {0}
  IN /\ used \subseteq DeclNames(P)                                             \* 1 declared before use
     /\ VisOK(P, P.body, {}, dvis)                                              \* 2 captures visible
     /\ \A i \in 1..Len(P.decos) : VisOK(P, P.decos[i].body, {}, {})
     /\ DecoNames(P.body) \subseteq defs                                        \* 3 decorator defined
     /\ \A i \in 1..Len(P.decos) : P.decos[i].name \in DecoNames(P.body) /\ HasNext(P.decos[i].body)
     /\ ~HasNext(P.body)                                                        \* 4 next only in a decorator
     /\ AritySs(P, AllSs(P))                                                    \* 5 index arity
     /\ \A i, j \in 1..Len(P.decls) : i # j => P.decls[i].name # P.decls[j].name \* 6 no redeclaration
     /\ defs \cap DeclNames(P) = {}                                              \*   ... by another kind of object either:
     /\ ("constdup" \in DOMAIN P => P.constdup \notin DeclNames(P))               \*   a decorator, a pattern constant
     /\ DeclNames(P) \subseteq used                                             \* 7 every declaration used
     /\ NestedDecls(AllSs(P)) \subseteq used                                    \*   ... wherever it is declared
     /\ \A i \in 1..Len(P.pats) : ~P.pats[i].bad /\ ~P.pats[i].long             \* 8 9 regex valid, within the limit
     /\ ~ZeroDivSs(AllSs(P))                                                    \* 10 no int / or % by literal 0

-----------------------------------------------------------------------------
(* Mutation *)
WithFlags(P) == [P EXCEPT !.pats = [i \in 1..Len(P.pats) |-> [anch |-> P.pats[i].anch, w |-> P.pats[i].w, caps |-> P.pats[i].caps,
                                                             bad |-> FALSE, long |-> FALSE]]]
IncOf(m, idx) == [n |-> "expr", e |-> [n |-> "inc", m |-> m, idx |-> idx]]
SLit(str) == [n |-> "str", v |-> str]
\* make sure the metrics the inserted statement mentions are declared (and typed), so that the defect is the only one
Ensure(P, names) ==
  LET missing == SelectSeq(Pool, LAMBDA d : d.name \in names /\ d.name \notin DeclNames(P))
      nd == [i \in 1..Len(missing) |-> [name |-> missing[i].name, kind |-> missing[i].kind, keys |-> missing[i].keys,
                                        ty |-> missing[i].ty, hidden |-> FALSE]]
  IN [P EXCEPT !.decls = @ \o nd, !.pre = @ \o [i \in 1..Len(missing) |-> TypingStmt(missing[i])]]
\* used somewhere else as well (so that Ensure'd metrics are not "unused" when the defective statement fails first)
UseStmt(names) == [n |-> "cond", he |-> FALSE, e |-> <<>>, c |-> Bin("==", [n |-> "int", v |-> 1], [n |-> "int", v |-> 2]),
                   t |-> << IncOf("gi", <<>>) >>]

InBody(P, k, stmt) == [P EXCEPT !.body = InsertStmt(@, k % NBlocks(@), stmt)]
InDeco(P, k, stmt) == IF P.decos = <<>> THEN InBody(P, k, stmt)
                      ELSE [P EXCEPT !.decos[1].body = InsertStmt(@, k % NBlocks(@), stmt)]
Anywhere(P, k, stmt) == IF k % 3 = 0 THEN InDeco(P, k \div 3, stmt) ELSE InBody(P, k \div 3, stmt)

Mutate(P0, class, s) ==
  LET P == WithFlags(P0)
      k == s % 1000
      s1 == Rnd(s) IN
  CASE class = 1 ->   \* an undeclared metric is used
         [prog |-> Anywhere(P, k, IncOf("zz", <<>>)), class |-> "undeclared metric", what |-> "zz++ inserted"]
    [] class = 2 ->   \* a capture group that no visible pattern defines
         [prog |-> Anywhere(Ensure(P, {"gi"}), k, [n |-> "expr", e |-> [n |-> "assign", m |-> "gi", idx |-> <<>>,
                        r |-> [n |-> "cap", p |-> 0, slot |-> 0, g |-> 9, byname |-> Coin(s1, 1, 2), name |-> "nosuch"]]]),
          class |-> "capture group not defined", what |-> "gi = $9 / $nosuch inserted"]
    [] class = 3 ->   \* numbered capture used where no pattern is in scope: first statement of the program
         [prog |-> [Ensure(P, {"gi"}) EXCEPT !.body = << [n |-> "expr", e |-> [n |-> "assign", m |-> "gi", idx |-> <<>>,
                        r |-> [n |-> "cap", p |-> 0, slot |-> 0, g |-> 1, byname |-> FALSE, name |-> ""]]] >> \o @],
          class |-> "capture group not defined", what |-> "gi = $1 at top level"]
    [] class = 4 ->   \* an undefined decorator
         [prog |-> InBody(Ensure(P, {"gi"}), k, [n |-> "deco", name |-> "nodec", t |-> << IncOf("gi", <<>>) >>]),
          class |-> "undefined decorator", what |-> "@nodec block inserted"]
    [] class = 5 ->   \* next outside a decorator
         [prog |-> InBody(P, k, [n |-> "next"]), class |-> "next outside decorator", what |-> "next inserted in the program body"]
    [] class = 6 ->   \* too many index keys
         [prog |-> Anywhere(Ensure(P, {"cd"}), k, IncOf("cd", << SLit(<<"a">>), SLit(<<"b">>) >>)),
          class |-> "wrong number of index keys", what |-> "cd[a][b]++ on a one-key metric"]
    [] class = 7 ->   \* too few index keys
         [prog |-> Anywhere(Ensure(P, {"gk"}), k, IncOf("gk", << SLit(<<"a">>) >>)),
          class |-> "wrong number of index keys", what |-> "gk[a]++ on a two-key metric"]
    [] class = 8 ->   \* a redeclared name: by a metric of the same or another kind, or by ANOTHER KIND OF OBJECT
                      \* (a decorator / a pattern constant of that name, both used so that nothing else is wrong)
         LET d == P.decls[(k % Len(P.decls)) + 1]  v == Ch(s1, 4) IN
         IF v <= 2 THEN
           [prog |-> [P EXCEPT !.decls = @ \o << [d EXCEPT !.kind = IF v = 1 THEN d.kind ELSE "gauge"] >>],
            class |-> "redeclared name", what |-> "second declaration of an existing name"]
         \* the metric of that name is declared and nothing else (were it used, its uses would be errors of their
         \* own once the later definition has taken the name): the redeclaration is what must be reported
         ELSE LET dup == [name |-> "dupx", kind |-> "counter", keys |-> <<>>, ty |-> "int", hidden |-> FALSE] IN
         IF v = 3 THEN
           [prog |-> [P EXCEPT !.decls = @ \o <<dup>>,
                               !.decos = @ \o << [name |-> "dupx", body |-> << [n |-> "next"] >>] >>,
                               !.body = @ \o << [n |-> "deco", name |-> "dupx", t |-> << [n |-> "stop"] >>] >>],
            class |-> "redeclared name", what |-> "a decorator named like a declared metric (defined and used)"]
         ELSE
           [prog |-> [decls |-> P.decls \o <<dup>>, pre |-> P.pre, decos |-> P.decos, body |-> P.body, pats |-> P.pats, constdup |-> "dupx"],
            class |-> "redeclared name", what |-> "a pattern constant named like a declared metric (defined and used)"]
    [] class = 9 ->   \* an unused declaration
         [prog |-> [P EXCEPT !.decls = @ \o << [name |-> "unused1", kind |-> "counter", keys |-> IF Coin(s1, 1, 2) THEN <<>> ELSE <<"k">>,
                                              ty |-> "int", hidden |-> Coin(Rnd(s1), 1, 2)] >>],
          class |-> "unused declaration", what |-> "declaration never referenced"]
    [] class = 10 ->  \* an invalid regular expression
         [prog |-> [P EXCEPT !.pats[(k % Len(P.pats)) + 1].bad = TRUE, !.body = @ \o << [n |-> "cond", he |-> FALSE, e |-> <<>>,
                        c |-> [n |-> "pat", p |-> (k % Len(P.pats)) + 1], t |-> << [n |-> "stop"] >>] >>],
          class |-> "invalid regular expression", what |-> "unbalanced parenthesis in a pattern"]
    [] class = 11 ->  \* a regular expression over the length limit
         [prog |-> [P EXCEPT !.pats[(k % Len(P.pats)) + 1].long = TRUE, !.body = @ \o << [n |-> "cond", he |-> FALSE, e |-> <<>>,
                        c |-> [n |-> "pat", p |-> (k % Len(P.pats)) + 1], t |-> << [n |-> "stop"] >>] >>],
          class |-> "regular expression over the length limit", what |-> "pattern padded beyond the limit"]
    [] class = 12 ->  \* an unused declaration INSIDE a block (conditional, else, decorated block or decorator body)
         [prog |-> Anywhere(P, k, [n |-> "decl", d |-> [name |-> "unused2", kind |-> IF Coin(s1, 1, 2) THEN "counter" ELSE "gauge",
                                                        keys |-> IF Coin(Rnd(s1), 1, 2) THEN <<>> ELSE <<"k">>, ty |-> "int", hidden |-> FALSE]]),
          class |-> "unused declaration", what |-> "declaration inside a block, never referenced"]
    [] OTHER ->       \* integer division / modulus by the literal 0
         [prog |-> Anywhere(Ensure(P, {"gi"}), k, [n |-> "expr", e |-> [n |-> "assign", m |-> "gi", idx |-> <<>>,
                        r |-> Bin(IF Coin(s1, 1, 2) THEN "/" ELSE "%", [n |-> "var", m |-> "gi", idx |-> <<>>], [n |-> "int", v |-> 0])]]),
          class |-> "integer division by literal 0", what |-> "gi = gi / 0 inserted"]

-----------------------------------------------------------------------------
VARIABLES mseed, mclass, base, mut
mvars == <<mseed, mclass, base, mut>>
MInit == /\ mseed \in (IF SeedSet # {} THEN SeedSet ELSE SeedLo..SeedHi)
         /\ mclass = (mseed % NClasses) + 1
         /\ base = WithFlags(GenCase(mseed).prog)
         /\ mut = Mutate(GenCase(mseed).prog, (mseed % NClasses) + 1, Rnd(Rnd(mseed) + 13))
         /\ seed = 0 /\ prog = <<>> /\ lines = <<>> /\ ln = 0 /\ mem = <<>> /\ hist = <<>>      \* (variables of MtailGen, unused here)
MNext == UNCHANGED <<mvars, vars>>
MSpec == MInit /\ [][MNext]_<<mvars, vars>>

BaseWellFormed == WellFormed(base)
MutantIllFormed == ~WellFormed(mut.prog)
MEmit == PrintT(<<"CASE", ToJson([seed |-> mseed, class |-> mut.class, what |-> mut.what, prog |-> mut.prog])>>)
=============================================================================
