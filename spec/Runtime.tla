------------------------------- MODULE Runtime -------------------------------
(***************************************************************************)
(* C14 - program reload preserves state and never duplicates series        *)
(* C26 - program directory scanning loads exactly the eligible files       *)
(* C06 - programs are isolated from each other                             *)
(*                                                                         *)
(* internal/runtime/runtime.go  LoadAllPrograms, LoadProgram,              *)
(*                              CompileAndRun, UnloadProgram, fan-out loop *)
(* internal/metrics/store.go    Add, Gc                                    *)
(* internal/metrics/metric.go   LabelValues / GetDatum / ExpireDatum       *)
(* internal/exporter/prometheus.go  Collect (the export projection)        *)
(*                                                                         *)
(* GRAIN.  The loader is one sequential thread; its program counter `pc`   *)
(* walks through the code one critical section per action:                 *)
(*                                                                         *)
(*   LoadAllPrograms : la_mark   mark every handle for deletion            *)
(*                     la_next   next dirent; directories are skipped      *)
(*                               WITHOUT being unmarked                    *)
(*     LoadProgram   : lp_filter dot-file / extension filter (returns nil) *)
(*     CompileAndRun : cr_hash   HashUnchanged short-circuit vs handle     *)
(*                     cr_compile Compile ok / error (ProgLoadErrors++)    *)
(*                     cr_add    ONE Store.Add per non-hidden metric, any  *)
(*                               of which may be refused                   *)
(*                     cr_registered  ProgLoads++                          *)
(*                     cr_swap   handleMu.Lock; close(old.lines);          *)
(*                               handles[name] = new; go v.Run             *)
(*                     lp_ret    LoadProgram returned: unmark the name     *)
(*                     la_unload UnloadProgram for every name still marked *)
(*   UnloadProgram, the fan-out of one line to every handle (the effect of *)
(*   a program version on its metrics is abstract: per declaration         *)
(*   "increment c[label]" / "set gauge to the version stamp", optionally   *)
(*   followed by `del .. after 1h`), Store.Gc.                             *)
(*                                                                         *)
(* The heap is explicit because the code's defects are aliasing defects:   *)
(* `objs` are *metrics.Metric objects (a VM keeps pointers to the objects  *)
(* it was compiled with, the store keeps pointers in Metrics[name]),       *)
(* `dat` are datum.Datum objects (Store.Add copies LabelValues into the    *)
(* new object *sharing* the datum, but LabelValue.Expiry lives in the      *)
(* LabelValue, not in the datum).                                          *)
(*                                                                         *)
(* Program versions are abstract declaration lists (`Ver`).  Three         *)
(* families, selected by the constant Family:                              *)
(*   C14  one program, the seven-version family of the property            *)
(*        (v0 base = identical when rewritten, v1 comment-only edit,       *)
(*        v2 declarations moved to other lines, v3 kind changed, v4 type   *)
(*        changed, v5 keys changed, v6 syntax error) + lines + Gc          *)
(*   C26  a directory with program files, a dot-file, a non-.mtail file    *)
(*        and a subdirectory; contents v1, v2 (version stamped), bad       *)
(*   C06  1-3 programs, each bound to one of five sources sharing the      *)
(*        metric names n and m (same kind & type, same kind other type,    *)
(*        other kind, does not compile, raises a runtime error)            *)
(*                                                                         *)
(* IDEAL layer (the properties' meaning, no implementation detail):        *)
(*   IdenticalReloadIsNoop, KeptDeclarationKeepsData (values AND pending   *)
(*   expiry), FailedLoadChangesNothing (+ RunningVmIsExported: the running *)
(*   version still updates what is exported), NoDuplicateSeries (over the  *)
(*   export projection), RefusalOnlyForeignKind;                           *)
(*   C26: HandlesAreIdeal (handles = Ideal(directory history)) and         *)
(*        NoLineToUnloaded;                                                *)
(*   C06: SoloOK ( View(store, p) = solo[p] : the per-program projection   *)
(*        of the shared store equals a plain per-program map that evolves  *)
(*        by p's own loads and the lines alone).                           *)
(*   CountersExact (prog_loads/unloads/load_errors = events; C25 shares    *)
(*   these counters).                                                      *)
(*                                                                         *)
(* DEVIATIONS (the code's departures; all FALSE = corrected design):       *)
(*   DEV_DupeKeyIncludesSource  Store.Add looks for the metric to replace  *)
(*        by (program, type, SOURCE POSITION): a declaration that moved to *)
(*        another line is appended next to its old self                    *)
(*   DEV_DupeKeyIncludesType    ... and by value TYPE: a declaration whose *)
(*        inferred type changed is appended next to its old self           *)
(*   DEV_AddDropsExpiry         the copy loop builds LabelValue{Labels,    *)
(*        Value} without Expiry: a pending `del after` mark is reset       *)
(*   DEV_PartialRegistration    CompileAndRun returns at the first refused *)
(*        Add and leaves the earlier Adds of the same load applied         *)
(*   DEV_KindCheckAgainstFirst  the kind check compares with Metrics[name] *)
(*        [0] whatever its program: a program is refused because of its    *)
(*        OWN previous declaration                                         *)
(*   DEV_RegisterErrorNotCounted  a load refused by Store.Add is not       *)
(*        counted in prog_load_errors_total (C25)                          *)
(***************************************************************************)
EXTENDS Integers, Sequences, FiniteSets, Json, TLC

CONSTANTS Family,       \* "C14" | "C26" | "C06"
          Names,        \* directory entry names, as a sequence in os.ReadDir (byte) order
          MaxOps,       \* bound on environment actions of a history
          MaxLines,     \* bound on line actions of a history
          FirstBase,    \* C14: the first action writes the base version
          OmitSource,   \* runtime option OmitMetricSource: every Metric.Source is ""
          EmitCases,    \* print every maximal history as a CASE line
          ScriptNext,   \* <<>> or, for replaying given scripts, [history key -> sequence of the action keys that may follow]
          DEV_DupeKeyIncludesSource, DEV_DupeKeyIncludesType, DEV_AddDropsExpiry,
          DEV_PartialRegistration, DEV_KindCheckAgainstFirst, DEV_RegisterErrorNotCounted

NameSet == {Names[i] : i \in 1..Len(Names)}

(***************************************************************************)
(* Static attributes of names (LoadProgram's filter, os.DirEntry.IsDir)    *)
(***************************************************************************)
IsDot(n)    == n = ".d.mtail"                 \* strings.HasPrefix(name, ".")
HasExt(n)   == n # "e.txt"                    \* filepath.Ext(name) == ".mtail"
Eligible(n) == ~IsDot(n) /\ HasExt(n)
DirName(n)  == n = "s.mtail"                  \* the name used for the subdirectory

(***************************************************************************)
(* Program versions: abstract declaration lists                            *)
(***************************************************************************)
D(name, kind, type, keys, line, op, exp) ==
  [name |-> name, kind |-> kind, type |-> type, keys |-> keys, line |-> line,
   hidden |-> FALSE, op |-> op, exp |-> exp]
Hid(name, line) ==
  [name |-> name, kind |-> "Counter", type |-> "Int", keys |-> <<>>, line |-> line,
   hidden |-> TRUE, op |-> "inc", exp |-> FALSE]
V(decls, stamp) == [ok |-> TRUE, decls |-> decls, stamp |-> stamp, rterr |-> FALSE]
Broken == [ok |-> FALSE, decls |-> <<>>, stamp |-> 0, rterr |-> FALSE]

\* C14: counter c by k (inc, del after 1h); gauge g (set); counter t (inc); hidden counter h
C14c(type, keys, line) == D("c", "Counter", type, keys, line, "inc", TRUE)
C14g(line)             == D("g", "Gauge", "Int", <<>>, line, "set", FALSE)
C14t(kind, line)       == D("t", kind, "Int", <<>>, line, IF kind = "Counter" THEN "inc" ELSE "set", FALSE)
Ver14(cid) ==
  CASE cid = "v0" -> V(<<C14c("Int", <<"k">>, 1), C14g(2), C14t("Counter", 3), Hid("h", 4)>>, 1)
    [] cid = "v1" -> V(<<C14c("Int", <<"k">>, 1), C14g(2), C14t("Counter", 3), Hid("h", 4)>>, 1)   \* trailing comment
    [] cid = "v2" -> V(<<C14c("Int", <<"k">>, 1), C14g(3), C14t("Counter", 4), Hid("h", 5)>>, 1)   \* comment line inserted after c
    [] cid = "v3" -> V(<<C14c("Int", <<"k">>, 1), C14g(2), C14t("Gauge", 3), Hid("h", 4)>>, 1)     \* kind of t changed
    [] cid = "v4" -> V(<<C14c("Float", <<"k">>, 1), C14g(2), C14t("Counter", 3), Hid("h", 4)>>, 1) \* type of c changed
    [] cid = "v5" -> V(<<C14c("Int", <<"j">>, 1), C14g(2), C14t("Counter", 3), Hid("h", 4)>>, 1)   \* keys of c changed
    [] cid = "v6" -> Broken
Cids14 == {"v0", "v1", "v2", "v3", "v4", "v5", "v6"}

\* C26: gauge ver = <stamp>; counter n++
Ver26(cid) ==
  CASE cid = "v1" -> V(<<D("ver", "Gauge", "Int", <<>>, 1, "set", FALSE), D("n", "Counter", "Int", <<>>, 2, "inc", FALSE)>>, 1)
    [] cid = "v2" -> V(<<D("ver", "Gauge", "Int", <<>>, 1, "set", FALSE), D("n", "Counter", "Int", <<>>, 2, "inc", FALSE)>>, 2)
    [] cid = "bad" -> Broken
    [] cid = "unread" -> Broken        \* a directory entry that cannot be opened (a dangling symlink): never compiled
Cids26 == {"v1", "v2", "bad"}

\* C06: five sources sharing the names n and m; "+" = the same source with a trailing comment
Src06(kind, type, op, rterr) ==
  [ok |-> TRUE, stamp |-> 7, rterr |-> rterr,
   decls |-> <<D("n", "Counter", "Int", <<>>, 1, "inc", FALSE), D("m", kind, type, <<"k">>, 2, op, FALSE)>>
               \o (IF rterr THEN <<Hid("z", 3)>> ELSE <<>>)]      \* the rterr source divides into a hidden gauge
Ver06(cid) ==
  CASE cid \in {"cint", "cint+"}   -> Src06("Counter", "Int", "inc", FALSE)
    [] cid \in {"cflt", "cflt+"}   -> Src06("Counter", "Float", "inc", FALSE)
    [] cid \in {"gaug", "gaug+"}   -> Src06("Gauge", "Int", "set", FALSE)
    [] cid \in {"bad", "bad+"}     -> Broken
    [] cid \in {"rterr", "rterr+"} -> Src06("Counter", "Int", "inc", TRUE)
Sources06 == <<"bad", "cflt", "cint", "gaug", "rterr">>
Touch(cid) == CASE cid = "cint" -> "cint+" [] cid = "cint+" -> "cint" [] cid = "cflt" -> "cflt+" [] cid = "cflt+" -> "cflt"
                [] cid = "gaug" -> "gaug+" [] cid = "gaug+" -> "gaug" [] cid = "bad" -> "bad+" [] cid = "bad+" -> "bad"
                [] cid = "rterr" -> "rterr+" [] cid = "rterr+" -> "rterr"

Ver(cid) == CASE Family = "C14" -> Ver14(cid) [] Family = "C26" -> Ver26(cid) [] Family = "C06" -> Ver06(cid)

MNameOrder == <<"c", "g", "m", "n", "t", "ver">>          \* every exported metric name, sorted
MNames     == {MNameOrder[i] : i \in 1..Len(MNameOrder)}

\* abstract lines: "A" = label a carrying a timestamp older than any expiry; "0" makes the rterr source fail
LineSet     == CASE Family = "C14" -> {"a", "b", "A"} [] Family = "C26" -> {"a"} [] Family = "C06" -> {"a", "b", "0"}
LineLabel(l) == IF l = "A" THEN "a" ELSE l
LineOld(l)   == l = "A"
LineErr(l)   == l = "0"

-----------------------------------------------------------------------------
VARIABLES
  dir,       \* [name -> "absent" | "dir" | content id]          the program directory
  assign,    \* C06: [name -> source] fixed at Init; other families: the empty function
  handles,   \* [name -> [cid, vm, objs]]   Runtime.handles (cid "none" = no handle); objs = v.Metrics
  store,     \* [metric name -> Seq(object id)]                  Store.Metrics
  objs,      \* [object id -> Metric]                            *metrics.Metric heap
  dat,       \* [datum id -> [val, old]]                         datum heap (old: stamped > 1h ago)
  nvm,       \* VMs started so far (serial of the newest)
  ctr,       \* [loads, unloads, lerr, rterr : [name -> Nat]]    the prog_* expvar maps
  pc, la, ld,\* loader thread: program counter, LoadAllPrograms scratch, LoadProgram/CompileAndRun scratch
  cur, ev,   \* environment action in progress, hook events it produced so far
  h,         \* history of completed environment actions with the observation after each
  nlines,
  \* ---- ideal layer / ghosts
  snap,      \* snapshot at the start of CompileAndRun
  tally,     \* [loads, unloads, lerr : [name -> Nat]] events that happened
  idealRun,  \* C26: [name -> content id | "none"]  Ideal(directory history)
  recv, idealRecv, \* lines received by a VM of the program / lines the ideal says it receives
  solo,      \* C06: [name -> [metric name -> SoloMetric]] the program run alone
  fired      \* deviations that changed the behaviour of this history

vars == <<dir, assign, handles, store, objs, dat, nvm, ctr, pc, la, ld, cur, ev, h, nlines,
          snap, tally, idealRun, recv, idealRecv, solo, fired>>

NoH    == [cid |-> "none", vm |-> 0, objs |-> <<>>]
Loaded == {n \in NameSet : handles[n].cid # "none"}
Zero   == [n \in NameSet |-> 0]
NoAct  == [op |-> "none", name |-> "", to |-> "", cid |-> "", line |-> ""]
NoLa   == [marked |-> {}, todo |-> <<>>, single |-> FALSE]
NoLd   == [name |-> "", cid |-> "", i |-> 0, new |-> <<>>, store0 |-> <<>>, out |-> "", fname |-> "", fkind |-> ""]
NoSnap == [had |-> FALSE, h |-> NoH, view |-> <<>>, ctr |-> <<>>]
NoSolo == [k |-> "none", t |-> "", keys |-> <<>>, lvs |-> <<>>]

-----------------------------------------------------------------------------
(***************************************************************************)
(* Small sequence helpers                                                  *)
(***************************************************************************)
Range(s) == {s[i] : i \in 1..Len(s)}
RemoveAt(s, i) == SubSeq(s, 1, i - 1) \o SubSeq(s, i + 1, Len(s))
RECURSIVE Flat(_)
Flat(ss) == IF ss = <<>> THEN <<>> ELSE Head(ss) \o Flat(Tail(ss))
RECURSIVE Uniq(_, _)
Uniq(s, acc) == IF s = <<>> THEN acc
                ELSE Uniq(Tail(s), IF Head(s) \in Range(acc) THEN acc ELSE Append(acc, Head(s)))
IndexOf(s, x) == IF \E i \in 1..Len(s) : s[i] = x THEN CHOOSE i \in 1..Len(s) : s[i] = x /\ \A j \in 1..(i - 1) : s[j] # x ELSE 0
MaxOf(S) == IF S = {} THEN 0 ELSE CHOOSE x \in S : \A y \in S : y <= x

-----------------------------------------------------------------------------
(***************************************************************************)
(* store.go : Add.  F = which of the code's departures are switched on.    *)
(***************************************************************************)
Flags == [src |-> DEV_DupeKeyIncludesSource, typ |-> DEV_DupeKeyIncludesType,
          exp |-> DEV_AddDropsExpiry, first |-> DEV_KindCheckAgainstFirst]

\* `if len(s.Metrics[m.Name]) > 0 { t := s.Metrics[m.Name][0].Kind; if m.Kind != t { return err }`
KindClash(F, st, ob, m) ==
  LET lst == st[m.name] IN
  IF F.first THEN lst # <<>> /\ ob[lst[1]].kind # m.kind
  ELSE \E i \in 1..Len(lst) : ob[lst[i]].prog # m.prog /\ ob[lst[i]].kind # m.kind
ForeignKindClash(st, ob, prog, name, kind) ==
  \E i \in 1..Len(st[name]) : ob[st[name][i]].prog # prog /\ ob[st[name][i]].kind # kind

\* `if v.Program != m.Program {continue}; if v.Type != m.Type {continue}; if v.Source != m.Source {continue}`
IsDupe(F, v, m) == /\ v.prog = m.prog
                   /\ (F.typ => v.type = m.type)
                   /\ (F.src => v.line = m.line)
\* `len(v.Keys) != len(m.Keys) || !reflect.DeepEqual(v.Keys, m.Keys)` -> discard the old data.
\* (With the type and the kind out of the dupe key the corrected design must also discard when they changed.)
Compatible(v, m) == v.keys = m.keys /\ v.type = m.type /\ v.kind = m.kind

\* for each oldLabel: d := v.GetDatum(labels); m.RemoveDatum(labels); m.AppendLabelValue(&LabelValue{Labels, Value: d})
RECURSIVE CopyLvs(_, _, _, _)
CopyLvs(F, old, new, j) ==
  IF j > Len(old) THEN new
  ELSE LET olv == old[j]
           without == SelectSeq(new, LAMBDA x : x.l # olv.l)
       IN CopyLvs(F, old, Append(without, [l |-> olv.l, d |-> olv.d, e |-> IF F.exp THEN 0 ELSE olv.e]), j + 1)

\* the `for i, v := range s.Metrics[m.Name]` loop with its `break`
RECURSIVE AddLoop(_, _, _, _, _, _, _)
AddLoop(F, lst, ob, m, i, dupe, lvs) ==
  IF i > Len(lst) THEN [dupe |-> dupe, lvs |-> lvs]
  ELSE LET v == ob[lst[i]] IN
       IF ~IsDupe(F, v, m) THEN AddLoop(F, lst, ob, m, i + 1, dupe, lvs)
       ELSE IF ~Compatible(v, m) THEN [dupe |-> i, lvs |-> lvs]
       ELSE AddLoop(F, lst, ob, m, i + 1, i, CopyLvs(F, v.lvs, lvs, 1))

\* result of s.Add(objs[mid]) : err, new Metrics map, new heap
StoreAdd(F, st, ob, mid) ==
  LET m == ob[mid] IN
  IF KindClash(F, st, ob, m) THEN [err |-> TRUE, st |-> st, ob |-> ob]
  ELSE LET r   == AddLoop(F, st[m.name], ob, m, 1, 0, m.lvs)
           app == Append(st[m.name], mid)                                    \* append, then cut the dupe out
           lst == IF r.dupe = 0 THEN app ELSE RemoveAt(app, r.dupe)
       IN [err |-> FALSE, st |-> [st EXCEPT ![m.name] = lst], ob |-> [ob EXCEPT ![mid].lvs = r.lvs]]

\* which departures made a difference in this Add
AddFired(st, ob, mid) ==
  LET real == StoreAdd(Flags, st, ob, mid)
      Off(f) == [Flags EXCEPT ![f] = FALSE]
      diff(f) == Flags[f] /\ StoreAdd(Off(f), st, ob, mid) # real
  IN (IF diff("src") THEN {"DEV_DupeKeyIncludesSource"} ELSE {}) \cup
     (IF diff("typ") THEN {"DEV_DupeKeyIncludesType"} ELSE {}) \cup
     (IF diff("exp") THEN {"DEV_AddDropsExpiry"} ELSE {}) \cup
     (IF diff("first") THEN {"DEV_KindCheckAgainstFirst"} ELSE {})

-----------------------------------------------------------------------------
(***************************************************************************)
(* Projections                                                             *)
(***************************************************************************)
StoreIds(st) == UNION {Range(st[m]) : m \in MNames}

LvObs(ob, dt, o, j) == [l |-> ob[o].lvs[j].l, v |-> dt[ob[o].lvs[j].d].val, e |-> ob[o].lvs[j].e, o |-> dt[ob[o].lvs[j].d].old]
MetObs(ob, dt, o) ==
  [n |-> ob[o].name, p |-> ob[o].prog, k |-> ob[o].kind, t |-> ob[o].type, s |-> ob[o].line,
   keys |-> ob[o].keys, lvs |-> [j \in 1..Len(ob[o].lvs) |-> LvObs(ob, dt, o, j)]]
\* the whole store as it is exported: per name, in slice order
StoreView(st, ob, dt) == [m \in MNames |-> [i \in 1..Len(st[m]) |-> MetObs(ob, dt, st[m][i])]]
StoreObs(st, ob, dt)  == Flat([k \in 1..Len(MNameOrder) |-> StoreView(st, ob, dt)[MNameOrder[k]]])

\* prometheus.go Collect: one series per label value, labelled prog + keys
LabelMap(o, lv) == [k \in {"prog"} \cup Range(o.keys) |->
                      IF k = "prog" THEN o.prog ELSE lv.l[IndexOf(o.keys, k)]]
SeriesOfObj(ob, dt, oid) ==
  [j \in 1..Len(ob[oid].lvs) |-> [n |-> ob[oid].name, l |-> LabelMap(ob[oid], ob[oid].lvs[j]), v |-> dt[ob[oid].lvs[j].d].val]]
Series(st, ob, dt) ==
  Flat([k \in 1..Len(MNameOrder) |->
          Flat([i \in 1..Len(st[MNameOrder[k]]) |-> SeriesOfObj(ob, dt, st[MNameOrder[k]][i])])])
\* Gather fails as a whole on "collected before with the same name and label values"
HasDup(ser) == \E i, j \in 1..Len(ser) : i < j /\ ser[i].n = ser[j].n /\ ser[i].l = ser[j].l

RunObs == LET ns == SelectSeq(Names, LAMBDA n : handles[n].cid # "none")
          IN [i \in 1..Len(ns) |-> [p |-> ns[i], cid |-> handles[ns[i]].cid, vm |-> handles[ns[i]].vm]]

Obs == LET ser == Series(store, objs, dat) IN
       [store |-> StoreObs(store, objs, dat),
        loads |-> ctr.loads, unloads |-> ctr.unloads, lerr |-> ctr.lerr, rterr |-> ctr.rterr,
        run |-> RunObs,
        scrape_ok |-> ~HasDup(ser),
        series |-> IF HasDup(ser) THEN <<>> ELSE ser,
        ev |-> ev]

-----------------------------------------------------------------------------
(***************************************************************************)
(* One line through one VM (vm.go ProcessLogLine, abstract program effect) *)
(***************************************************************************)
\* S = [ob, dt]; the declaration's statement on the metric object the VM was compiled with
ApplyDecl(S, oid, d, stamp, l) ==
  IF d.op = "none" THEN S
  ELSE
    LET lbl  == IF d.keys = <<>> THEN <<>> ELSE <<LineLabel(l)>>
        lvs  == S.ob[oid].lvs
        idx  == IF \E j \in 1..Len(lvs) : lvs[j].l = lbl THEN CHOOSE j \in 1..Len(lvs) : lvs[j].l = lbl ELSE 0
        newd == MaxOf(DOMAIN S.dt) + 1                              \* GetDatum creates the datum
        did  == IF idx = 0 THEN newd ELSE lvs[idx].d
        lvs1 == IF idx = 0 THEN Append(lvs, [l |-> lbl, d |-> newd, e |-> 0]) ELSE lvs
        at   == IF idx = 0 THEN Len(lvs1) ELSE idx
        lvs2 == IF d.exp THEN [lvs1 EXCEPT ![at].e = 1] ELSE lvs1   \* del m[..] after 1h : ExpireDatum
        old  == IF idx = 0 THEN 0 ELSE S.dt[did].val
        val  == IF d.op = "inc" THEN old + 1 ELSE stamp
        dt1  == [x \in DOMAIN S.dt \cup {did} |-> IF x = did THEN [val |-> val, old |-> LineOld(l)] ELSE S.dt[x]]
    IN [ob |-> [S.ob EXCEPT ![oid].lvs = lvs2], dt |-> dt1]

RECURSIVE ApplyDecls(_, _, _, _, _, _)
ApplyDecls(S, os, ds, stamp, l, i) ==
  IF i > Len(ds) THEN S ELSE ApplyDecls(ApplyDecl(S, os[i], ds[i], stamp, l), os, ds, stamp, l, i + 1)

LineFails(n, l) == Ver(handles[n].cid).rterr /\ LineErr(l)        \* the program raises a runtime error first
RECURSIVE FanOut(_, _, _)
FanOut(S, ns, l) ==
  IF ns = <<>> THEN S
  ELSE LET n == Head(ns) v == Ver(handles[n].cid) IN
       FanOut(IF LineFails(n, l) THEN S ELSE ApplyDecls(S, handles[n].objs, v.decls, v.stamp, l, 1), Tail(ns), l)

\* ideal: the same statement on a plain map
SoloApply(sm, d, stamp, l) ==
  IF d.hidden \/ d.op = "none" THEN sm
  ELSE LET lbl == IF d.keys = <<>> THEN <<>> ELSE <<LineLabel(l)>>
           lvs == sm[d.name].lvs
           idx == IF \E j \in 1..Len(lvs) : lvs[j].l = lbl THEN CHOOSE j \in 1..Len(lvs) : lvs[j].l = lbl ELSE 0
           old == IF idx = 0 THEN 0 ELSE lvs[idx].v
           val == IF d.op = "inc" THEN old + 1 ELSE stamp
       IN [sm EXCEPT ![d.name].lvs = IF idx = 0 THEN Append(lvs, [l |-> lbl, v |-> val]) ELSE [lvs EXCEPT ![idx].v = val]]
RECURSIVE SoloApplyAll(_, _, _, _, _)
SoloApplyAll(sm, ds, stamp, l, i) ==
  IF i > Len(ds) THEN sm ELSE SoloApplyAll(SoloApply(sm, ds[i], stamp, l), ds, stamp, l, i + 1)
\* ideal: a successful load keeps the data of every declaration that is still compatible, starts the others afresh
SoloInit(d) == IF d.keys = <<>> /\ d.kind = "Counter" THEN <<[l |-> <<>>, v |-> 0]>> ELSE <<>>
SoloLoad(sm, ds) ==
  [m \in MNames |->
     IF \E i \in 1..Len(ds) : ds[i].name = m /\ ~ds[i].hidden
     THEN LET d == ds[CHOOSE i \in 1..Len(ds) : ds[i].name = m /\ ~ds[i].hidden] IN
          IF sm[m].k = d.kind /\ sm[m].t = d.type /\ sm[m].keys = d.keys THEN sm[m]
          ELSE [k |-> d.kind, t |-> d.type, keys |-> d.keys, lvs |-> SoloInit(d)]
     ELSE sm[m]]

-----------------------------------------------------------------------------
Init ==
  /\ dir = [n \in NameSet |-> "absent"]
  /\ assign \in (IF Family = "C06"
                 THEN {f \in [NameSet -> Range(Sources06)] :     \* programs are interchangeable: sorted assignments only
                         \A i, j \in 1..Len(Names) : i < j => IndexOf(Sources06, f[Names[i]]) <= IndexOf(Sources06, f[Names[j]])}
                 ELSE {<<>>})
  /\ handles = [n \in NameSet |-> NoH]
  /\ store = [m \in MNames |-> <<>>]
  /\ objs = <<>> /\ dat = <<>> /\ nvm = 0
  /\ ctr = [loads |-> Zero, unloads |-> Zero, lerr |-> Zero, rterr |-> Zero]
  /\ pc = "idle" /\ la = NoLa /\ ld = NoLd /\ cur = NoAct /\ ev = <<>> /\ h = <<>> /\ nlines = 0
  /\ snap = NoSnap
  /\ tally = [loads |-> Zero, unloads |-> Zero, lerr |-> Zero]
  /\ idealRun = [n \in NameSet |-> "none"]
  /\ recv = Zero /\ idealRecv = Zero
  /\ solo = [n \in NameSet |-> [m \in MNames |-> NoSolo]]
  /\ fired = {}

-----------------------------------------------------------------------------
(***************************************************************************)
(* Environment actions (what the harness does to the real runtime).  The   *)
(* guards depend on the directory and the line budget only, never on what  *)
(* the loader did, so every deviation setting enumerates the same          *)
(* histories.  (A direct UnloadProgram of a name without a handle is an    *)
(* API misuse - nil dereference - and not part of the properties; programs *)
(* are unloaded the way mtail does it: remove the file, reload.)           *)
(***************************************************************************)
IsFile(d, n) == d[n] \notin {"absent", "dir"}
Act(op, name, to, cid, line) == [op |-> op, name |-> name, to |-> to, cid |-> cid, line |-> line]

\* C26: Ideal(directory history) - running = eligible files that compiled since they were last
\* added, each at its most recently compiled contents
IdealAfter(ir, dOld, dNew) ==
  [n \in NameSet |->
     IF ~IsFile(dNew, n) \/ ~Eligible(n) THEN "none"
     ELSE IF Ver(dNew[n]).ok THEN dNew[n]
     ELSE IF IsFile(dOld, n) THEN ir[n] ELSE "none"]

EnvActions ==
  CASE Family = "C14" ->
         LET p == Names[1] IN
         IF FirstBase /\ h = <<>> THEN {Act("write", p, "", "v0", "")}
         ELSE {Act("write", p, "", c, "") : c \in Cids14}
              \cup (IF IsFile(dir, p) THEN {Act("rm", p, "", "", "")} ELSE {})
              \cup (IF nlines < MaxLines THEN {Act("line", "", "", "", l) : l \in LineSet} ELSE {})
              \cup {Act("gc", "", "", "", "")}
    [] Family = "C26" ->
         {Act("write", n, "", c, "") : n \in {x \in NameSet : ~DirName(x) /\ Eligible(x)}, c \in Cids26}
         \cup {Act("write", n, "", "v1", "") : n \in {x \in NameSet : ~DirName(x) /\ ~Eligible(x) /\ dir[x] = "absent"}}
         \* a NEW entry with a program name that cannot be read (os.OpenFile fails): counted as a load error at
         \* every scan, never running, and the scan goes on to the entries after it
         \cup {Act("write", n, "", "unread", "") : n \in {x \in NameSet : ~DirName(x) /\ Eligible(x) /\ dir[x] = "absent"}}
         \cup {Act("rm", n, "", "", "") : n \in {x \in NameSet : dir[x] # "absent"}}
         \cup {Act("mkdir", n, "", "", "") : n \in {x \in NameSet : DirName(x) /\ dir[x] = "absent"}}
         \cup {Act("mv", q[1], q[2], "", "") :                                    \* one side is a program name
                  q \in {r \in NameSet \X NameSet : /\ IsFile(dir, r[1]) /\ ~DirName(r[2]) /\ dir[r[2]] = "absent"
                                                    /\ (Eligible(r[1]) \/ Eligible(r[2]))}}
    [] Family = "C06" ->
         \* write the file, LoadProgram(path) / remove the file, UnloadProgram(name) if it has a handle
         {Act("load", n, "", IF IsFile(dir, n) THEN Touch(dir[n]) ELSE assign[n], "") : n \in NameSet}
         \cup {Act("unload", n, "", "", "") : n \in {x \in NameSet : IsFile(dir, x)}}
         \cup (IF nlines < MaxLines THEN {Act("line", "", "", "", l) : l \in LineSet} ELSE {})

\* one line: LineCount++, RLock, send to every handle, every VM runs it to the end
DoLine(l) ==
  LET ns == SelectSeq(Names, LAMBDA n : handles[n].cid # "none")
      S  == FanOut([ob |-> objs, dt |-> dat], ns, l)
      failing == SelectSeq(ns, LAMBDA n : LineFails(n, l))
  IN /\ objs' = S.ob /\ dat' = S.dt
     /\ ctr' = [ctr EXCEPT !.rterr = [n \in NameSet |-> IF n \in Range(failing) THEN @[n] + 1 ELSE @[n]]]
     /\ ev' = ev \o [i \in 1..Len(failing) |-> <<"rterr", failing[i]>>]
     /\ recv' = [n \in NameSet |-> IF n \in Range(ns) THEN recv[n] + 1 ELSE recv[n]]
     /\ idealRecv' = [n \in NameSet |-> IF (IF Family = "C26" THEN idealRun[n] # "none" ELSE n \in Range(ns))
                                        THEN idealRecv[n] + 1 ELSE idealRecv[n]]
     /\ solo' = [n \in NameSet |->
                   IF n \in Range(ns) /\ ~LineFails(n, l)
                   THEN SoloApplyAll(solo[n], Ver(handles[n].cid).decls, Ver(handles[n].cid).stamp, l, 1)
                   ELSE solo[n]]

\* store.go Gc over the objects of the store
DoGc ==
  LET keep(o) == SelectSeq(objs[o].lvs, LAMBDA x : ~(x.e > 0 /\ dat[x.d].old)) IN
  objs' = [o \in DOMAIN objs |-> IF o \in StoreIds(store) THEN [objs[o] EXCEPT !.lvs = keep(o)] ELSE objs[o]]

\* runtime.go UnloadProgram: close(lines); delete(handles, name); ProgUnloads++
UnloadUpd(n) ==
  /\ handles' = [handles EXCEPT ![n] = NoH]
  /\ ctr' = [ctr EXCEPT !.unloads[n] = @ + 1]
  /\ tally' = [tally EXCEPT !.unloads[n] = @ + 1]
  /\ ev' = Append(ev, <<"unload", n>>)

\* scripts are given as a trie keyed by strings (one hashed record lookup per step)
ActKey(a) == a.op \o ":" \o a.name \o ":" \o a.to \o ":" \o a.cid \o ":" \o a.line
RECURSIVE HKeyFrom(_)
HKeyFrom(k) == IF k = 0 THEN "^" ELSE HKeyFrom(k - 1) \o "|" \o ActKey(h[k].a)
HKey == HKeyFrom(Len(h))
Scripted == ScriptNext # <<>>
Allowed(a) == /\ Len(h) < MaxOps
              /\ a \in EnvActions
              /\ (Scripted => \E k \in 1..Len(ScriptNext[HKey]) : ScriptNext[HKey][k] = ActKey(a))

Env(a) ==
  /\ pc = "idle" /\ Allowed(a)
  /\ cur' = a
  /\ CASE a.op \in {"write", "rm", "mv", "mkdir"} ->
            LET d1 == CASE a.op = "write" -> [dir EXCEPT ![a.name] = a.cid]
                        [] a.op = "rm"    -> [dir EXCEPT ![a.name] = "absent"]
                        [] a.op = "mkdir" -> [dir EXCEPT ![a.name] = "dir"]
                        [] a.op = "mv"    -> [dir EXCEPT ![a.name] = "absent", ![a.to] = dir[a.name]]
            IN /\ dir' = d1
               /\ idealRun' = IdealAfter(idealRun, dir, d1)
               /\ pc' = "la_mark"                                         \* followed by LoadAllPrograms
               /\ UNCHANGED <<handles, objs, dat, ctr, ev, recv, idealRecv, solo, tally, nlines, la, ld>>
       [] a.op = "load" ->                                                 \* write the file, r.LoadProgram(path)
            /\ dir' = [dir EXCEPT ![a.name] = a.cid]
            /\ ld' = [NoLd EXCEPT !.name = a.name, !.cid = a.cid]
            /\ la' = [NoLa EXCEPT !.single = TRUE]
            /\ pc' = "lp_filter"
            /\ UNCHANGED <<idealRun, handles, objs, dat, ctr, ev, recv, idealRecv, solo, tally, nlines>>
       [] a.op = "unload" ->                                               \* remove the file, r.UnloadProgram(name)
            /\ dir' = [dir EXCEPT ![a.name] = "absent"]
            /\ IF handles[a.name].cid # "none" THEN UnloadUpd(a.name) ELSE UNCHANGED <<handles, ctr, tally, ev>>
            /\ pc' = "done"
            /\ UNCHANGED <<idealRun, objs, dat, recv, idealRecv, solo, nlines, la, ld>>
       [] a.op = "line" ->
            /\ DoLine(a.line) /\ pc' = "done" /\ nlines' = nlines + 1
            /\ UNCHANGED <<dir, idealRun, handles, tally, la, ld>>
       [] a.op = "gc" ->
            /\ DoGc /\ pc' = "done"
            /\ UNCHANGED <<dir, idealRun, handles, dat, ctr, ev, recv, idealRecv, solo, tally, nlines, la, ld>>
  /\ UNCHANGED <<assign, store, nvm, h, snap, fired>>

-----------------------------------------------------------------------------
(***************************************************************************)
(* LoadAllPrograms                                                         *)
(***************************************************************************)
LaMark ==                      \* markDeleted := all handle names; dirents := os.ReadDir (sorted)
  /\ pc = "la_mark"
  /\ la' = [marked |-> Loaded, todo |-> SelectSeq(Names, LAMBDA n : dir[n] # "absent"), single |-> FALSE]
  /\ pc' = "la_next"
  /\ UNCHANGED <<dir, assign, handles, store, objs, dat, nvm, ctr, ld, cur, ev, h, nlines, snap, tally, idealRun, recv, idealRecv, solo, fired>>

LaNext ==
  /\ pc = "la_next"
  /\ IF la.todo = <<>> THEN pc' = "la_unload" /\ UNCHANGED <<la, ld>>
     ELSE LET n == Head(la.todo) IN
          IF dir[n] = "dir"
          THEN /\ la' = [la EXCEPT !.todo = Tail(@)]                     \* `if dirent.IsDir() { continue }`
               /\ UNCHANGED <<pc, ld>>
          ELSE /\ ld' = [NoLd EXCEPT !.name = n, !.cid = dir[n]]          \* r.LoadProgram(path)
               /\ pc' = "lp_filter" /\ UNCHANGED la
  /\ UNCHANGED <<dir, assign, handles, store, objs, dat, nvm, ctr, cur, ev, h, nlines, snap, tally, idealRun, recv, idealRecv, solo, fired>>

LpFilter ==                    \* hidden file / extension: return nil without reading
  /\ pc = "lp_filter"
  /\ IF Eligible(ld.name) /\ ld.cid = "unread"
     THEN \* `f, err := os.OpenFile(..); if err != nil { ProgLoadErrors.Add(name, 1); return err }` - LoadAllPrograms
          \* logs the error and carries on with the next entry (errorsAbort is off)
          /\ ctr' = [ctr EXCEPT !.lerr[ld.name] = @ + 1]
          /\ tally' = [tally EXCEPT !.lerr[ld.name] = @ + 1]
          /\ pc' = "lp_ret" /\ ld' = [ld EXCEPT !.out = "open_error"] /\ UNCHANGED snap
     ELSE IF Eligible(ld.name)
     THEN /\ pc' = "cr_hash" /\ UNCHANGED <<ld, ctr, tally>>
          /\ snap' = [had |-> handles[ld.name].cid # "none", h |-> handles[ld.name],
                      view |-> StoreView(store, objs, dat), ctr |-> ctr]
     ELSE /\ pc' = "lp_ret" /\ ld' = [ld EXCEPT !.out = "skipped"] /\ UNCHANGED <<snap, ctr, tally>>
  /\ UNCHANGED <<dir, assign, handles, store, objs, dat, nvm, la, cur, ev, h, nlines, idealRun, recv, idealRecv, solo, fired>>

CrHash ==                      \* `if ok && bytes.Equal(vh.contentHash, contentHash) { return nil }`
  /\ pc = "cr_hash"
  /\ IF handles[ld.name].cid = ld.cid
     THEN /\ ev' = Append(ev, <<"unchanged", ld.name>>)
          /\ ld' = [ld EXCEPT !.out = "unchanged"] /\ pc' = "lp_ret"
     ELSE /\ pc' = "cr_compile" /\ UNCHANGED <<ev, ld>>
  /\ UNCHANGED <<dir, assign, handles, store, objs, dat, nvm, ctr, la, cur, h, nlines, snap, tally, idealRun, recv, idealRecv, solo, fired>>

SrcLine(d) == IF OmitSource THEN 0 ELSE d.line     \* `if r.omitMetricSource { m.Source = "" }`
\* a freshly compiled metric object; codegen allocates the datum of a scalar counter (0 at the epoch)
NewObj(n, d, did) ==
  [name |-> d.name, prog |-> n, kind |-> d.kind, type |-> d.type, line |-> SrcLine(d), keys |-> d.keys,
   hidden |-> d.hidden, lvs |-> IF d.keys = <<>> /\ d.kind = "Counter" THEN <<[l |-> <<>>, d |-> did, e |-> 0]>> ELSE <<>>]

CrCompile ==
  /\ pc = "cr_compile"
  /\ LET v == Ver(ld.cid) IN
     IF ~v.ok
     THEN /\ ctr' = [ctr EXCEPT !.lerr[ld.name] = @ + 1]
          /\ tally' = [tally EXCEPT !.lerr[ld.name] = @ + 1]
          /\ ev' = Append(ev, <<"compile_error", ld.name>>)
          /\ ld' = [ld EXCEPT !.out = "compile_error"] /\ pc' = "lp_ret"
          /\ UNCHANGED <<objs, dat>>
     ELSE LET o0 == MaxOf(DOMAIN objs) d0 == MaxOf(DOMAIN dat) k == Len(v.decls)
              scalar(i) == v.decls[i].keys = <<>> /\ v.decls[i].kind = "Counter"
          IN /\ objs' = [o \in DOMAIN objs \cup (o0 + 1)..(o0 + k) |->
                           IF o \in DOMAIN objs THEN objs[o] ELSE NewObj(ld.name, v.decls[o - o0], d0 + (o - o0))]
             /\ dat' = [x \in DOMAIN dat \cup {d0 + i : i \in {j \in 1..k : scalar(j)}} |->
                           IF x \in DOMAIN dat THEN dat[x] ELSE [val |-> 0, old |-> TRUE]]
             /\ ld' = [ld EXCEPT !.new = [i \in 1..k |-> o0 + i], !.i = 1, !.store0 = store]
             /\ pc' = "cr_add"
             /\ UNCHANGED <<ctr, tally, ev>>
  /\ UNCHANGED <<dir, assign, handles, store, nvm, la, cur, h, nlines, snap, idealRun, recv, idealRecv, solo, fired>>

CrAdd ==                       \* `for _, m := range v.Metrics { if !m.Hidden { err := r.ms.Add(m); if err != nil { return err } } }`
  /\ pc = "cr_add"
  /\ LET v == Ver(ld.cid) IN
     IF ld.i > Len(v.decls)
     THEN pc' = "cr_registered" /\ UNCHANGED <<ld, store, objs, ctr, tally, ev, fired>>
     ELSE IF v.decls[ld.i].hidden
     THEN ld' = [ld EXCEPT !.i = @ + 1] /\ UNCHANGED <<pc, store, objs, ctr, tally, ev, fired>>
     ELSE LET mid == ld.new[ld.i]
              r   == StoreAdd(Flags, store, objs, mid)
              f1  == AddFired(store, objs, mid)
          IN IF r.err
             THEN /\ ev' = Append(ev, <<"add", ld.name, objs[mid].name, "err">>)
                  /\ store' = IF DEV_PartialRegistration THEN store ELSE ld.store0
                  /\ ctr' = IF DEV_RegisterErrorNotCounted THEN ctr ELSE [ctr EXCEPT !.lerr[ld.name] = @ + 1]
                  /\ tally' = [tally EXCEPT !.lerr[ld.name] = @ + 1]
                  /\ fired' = fired \cup f1
                                \cup (IF DEV_PartialRegistration /\ store # ld.store0 THEN {"DEV_PartialRegistration"} ELSE {})
                                \cup (IF DEV_RegisterErrorNotCounted THEN {"DEV_RegisterErrorNotCounted"} ELSE {})
                  /\ ld' = [ld EXCEPT !.out = "register_error", !.fname = objs[mid].name, !.fkind = objs[mid].kind]
                  /\ pc' = "lp_ret" /\ UNCHANGED objs
             ELSE /\ ev' = Append(ev, <<"add", ld.name, objs[mid].name, "ok">>)
                  /\ store' = r.st /\ objs' = r.ob
                  /\ fired' = fired \cup f1
                  /\ ld' = [ld EXCEPT !.i = @ + 1]
                  /\ UNCHANGED <<pc, ctr, tally>>
  /\ UNCHANGED <<dir, assign, handles, dat, nvm, la, cur, h, nlines, snap, idealRun, recv, idealRecv, solo>>

CrRegistered ==                \* ProgLoads.Add(name, 1)
  /\ pc = "cr_registered"
  /\ ctr' = [ctr EXCEPT !.loads[ld.name] = @ + 1]
  /\ tally' = [tally EXCEPT !.loads[ld.name] = @ + 1]
  /\ ev' = Append(ev, <<"registered", ld.name>>)
  /\ pc' = "cr_swap"
  /\ UNCHANGED <<dir, assign, handles, store, objs, dat, nvm, la, ld, cur, h, nlines, snap, idealRun, recv, idealRecv, solo, fired>>

CrSwap ==                      \* Lock; close(old.lines); handles[name] = {hash, v, lines}; go v.Run; Unlock
  /\ pc = "cr_swap"
  /\ ev' = ev \o (IF handles[ld.name].cid # "none" THEN <<<<"closed_old", ld.name>>>> ELSE <<>>) \o <<<<"swapped", ld.name>>>>
  /\ nvm' = nvm + 1
  /\ handles' = [handles EXCEPT ![ld.name] = [cid |-> ld.cid, vm |-> nvm + 1, objs |-> ld.new]]
  /\ solo' = [solo EXCEPT ![ld.name] = SoloLoad(@, Ver(ld.cid).decls)]
  /\ ld' = [ld EXCEPT !.out = "swapped"] /\ pc' = "lp_ret"
  /\ UNCHANGED <<dir, assign, store, objs, dat, ctr, la, cur, h, nlines, snap, tally, idealRun, recv, idealRecv, fired>>

LpRet ==                       \* back in LoadAllPrograms: `delete(markDeleted, filepath.Base(dirent.Name()))`
  /\ pc = "lp_ret"
  /\ IF la.single THEN la' = NoLa /\ pc' = "done"                         \* LoadProgram was called directly
     ELSE la' = [la EXCEPT !.marked = @ \ {ld.name}, !.todo = Tail(@)] /\ pc' = "la_next"
  /\ ld' = NoLd /\ snap' = NoSnap
  /\ UNCHANGED <<dir, assign, handles, store, objs, dat, nvm, ctr, cur, ev, h, nlines, tally, idealRun, recv, idealRecv, solo, fired>>

LaUnload ==                    \* `for name := range markDeleted { r.UnloadProgram(name) }`
  /\ pc = "la_unload"
  /\ IF la.marked = {}
     THEN /\ pc' = IF Family = "C26" THEN "probe" ELSE "done"
          /\ la' = NoLa
          /\ UNCHANGED <<handles, ctr, tally, ev>>
     ELSE LET n == Names[CHOOSE i \in 1..Len(Names) : Names[i] \in la.marked /\ \A j \in 1..(i - 1) : Names[j] \notin la.marked]
          IN /\ UnloadUpd(n)
             /\ la' = [la EXCEPT !.marked = @ \ {n}]
             /\ UNCHANGED pc
  /\ UNCHANGED <<dir, assign, store, objs, dat, nvm, ld, cur, h, nlines, snap, idealRun, recv, idealRecv, solo, fired>>

Probe ==                       \* C26: one line after every reload shows which version runs
  /\ pc = "probe"
  /\ DoLine("a") /\ pc' = "done"
  /\ UNCHANGED <<dir, assign, handles, store, nvm, la, ld, cur, h, nlines, snap, tally, idealRun, fired>>

-----------------------------------------------------------------------------
(***************************************************************************)
(* Completion of an environment action: record the observation, drop the   *)
(* unreachable part of the heap and renumber the rest canonically.         *)
(***************************************************************************)
ReachObjs == Uniq(Flat([k \in 1..Len(MNameOrder) |-> store[MNameOrder[k]]])
                  \o Flat([i \in 1..Len(Names) |-> handles[Names[i]].objs]), <<>>)
ReachDats(os) == Uniq(Flat([i \in 1..Len(os) |-> [j \in 1..Len(objs[os[i]].lvs) |-> objs[os[i]].lvs[j].d]]), <<>>)

Complete ==
  /\ pc = "done"
  /\ h' = Append(h, [a |-> cur, obs |-> Obs])
  /\ LET os == ReachObjs
         ds == ReachDats(os)
         ro(o) == IndexOf(os, o)
         rd(d) == IndexOf(ds, d)
     IN /\ objs' = [i \in 1..Len(os) |-> [objs[os[i]] EXCEPT !.lvs = [j \in 1..Len(@) |-> [@[j] EXCEPT !.d = rd(@)]]]]
        /\ dat' = [i \in 1..Len(ds) |-> dat[ds[i]]]
        /\ store' = [m \in MNames |-> [i \in 1..Len(store[m]) |-> ro(store[m][i])]]
        /\ handles' = [n \in NameSet |-> [handles[n] EXCEPT !.objs = [i \in 1..Len(@) |-> ro(@[i])]]]
  /\ pc' = "idle" /\ cur' = NoAct /\ ev' = <<>>
  /\ UNCHANGED <<dir, assign, nvm, ctr, la, ld, nlines, snap, tally, idealRun, recv, idealRecv, solo, fired>>

Next == \/ \E a \in EnvActions : Env(a)
        \/ LaMark \/ LaNext \/ LpFilter \/ CrHash \/ CrCompile \/ CrAdd \/ CrRegistered \/ CrSwap \/ LpRet \/ LaUnload
        \/ Probe \/ Complete
Spec == Init /\ [][Next]_vars

-----------------------------------------------------------------------------
(***************************************************************************)
(* Properties                                                              *)
(***************************************************************************)
TypeOK ==
  /\ pc \in {"idle", "la_mark", "la_next", "lp_filter", "cr_hash", "cr_compile", "cr_add", "cr_registered",
             "cr_swap", "lp_ret", "la_unload", "probe", "done"}
  /\ \A m \in MNames : \A i \in 1..Len(store[m]) : store[m][i] \in DOMAIN objs /\ objs[store[m][i]].name = m
  /\ \A n \in NameSet : \A i \in 1..Len(handles[n].objs) : handles[n].objs[i] \in DOMAIN objs
  /\ \A o \in DOMAIN objs : \A j \in 1..Len(objs[o].lvs) : objs[o].lvs[j].d \in DOMAIN dat
  /\ \A m \in MNames : \A i, j \in 1..Len(store[m]) : objs[store[m][i]].kind = objs[store[m][j]].kind  \* one kind per name

AtRet(outs) == pc = "lp_ret" /\ ld.out \in outs
View      == StoreView(store, objs, dat)

\* C14 (1) reloading identical source changes nothing
IdenticalReloadIsNoop ==
  (pc = "lp_ret" /\ ld.out # "skipped" /\ snap.had /\ snap.h.cid = ld.cid) =>
     /\ ld.out = "unchanged"
     /\ View = snap.view /\ handles[ld.name] = snap.h /\ ctr = snap.ctr

\* C14 (2) a reload that keeps a declaration (same kind, name, value type and keys at the same place)
\*         keeps that metric's accumulated values and pending expiry
DataOf(view, p, d) == SelectSeq(view[d.name], LAMBDA x : x.p = p /\ x.t = d.type /\ x.s = SrcLine(d) /\ x.k = d.kind /\ x.keys = d.keys)
Data(ms) == [i \in 1..Len(ms) |-> ms[i].lvs]
KeptDeclarationKeepsData ==
  (AtRet({"swapped"}) /\ snap.had) =>
     \A i \in 1..Len(Ver(ld.cid).decls), j \in 1..Len(Ver(snap.h.cid).decls) :
        LET d == Ver(ld.cid).decls[i] d0 == Ver(snap.h.cid).decls[j] IN
        (~d.hidden /\ ~d0.hidden /\ d.name = d0.name /\ d.kind = d0.kind /\ d.type = d0.type /\ d.keys = d0.keys /\ d.line = d0.line)
          => Data(DataOf(View, ld.name, d)) = Data(DataOf(snap.view, ld.name, d0))

\* C14 (3) a load that fails to compile or to register leaves the export exactly as it was,
\*         with any previous version still running ...
FailedLoadChangesNothing ==
  AtRet({"compile_error", "register_error"}) => (View = snap.view /\ handles[ld.name] = snap.h)
\*         ... and its metrics still exported and updated: what a running VM writes to is what the store exports
RunningVmIsExported ==
  pc = "idle" => \A n \in Loaded : \A i \in 1..Len(handles[n].objs) :
                    ~objs[handles[n].objs[i]].hidden => handles[n].objs[i] \in StoreIds(store)

\* C14 (4) the export never contains two series with the same name and label set
NoDuplicateSeries == ~HasDup(Series(store, objs, dat))

\* C06: Add refuses only on a kind clash with a DIFFERENT program's same-named metric
RefusalOnlyForeignKind ==
  AtRet({"register_error"}) => ForeignKindClash(store, objs, ld.name, ld.fname, ld.fkind)

\* C25 (shared counters): every load, load error and unload is counted
CountersExact == (pc \in {"idle", "lp_ret"}) =>
                   (ctr.loads = tally.loads /\ ctr.unloads = tally.unloads /\ ctr.lerr = tally.lerr)

\* C26: the running programs are exactly Ideal(directory history), at the ideal contents
HandlesAreIdeal == pc \in {"idle", "probe"} => [n \in NameSet |-> handles[n].cid] = idealRun
NoLineToUnloaded == recv = idealRecv

\* C06: the per-program projection of the shared store is the program run alone
ViewOf(p) ==
  [m \in MNames |->
     LET mine == SelectSeq(store[m], LAMBDA o : objs[o].prog = p) IN
     IF mine = <<>> THEN NoSolo
     ELSE IF Len(mine) > 1 THEN [NoSolo EXCEPT !.k = "duplicate"]
     ELSE LET o == objs[mine[1]] IN
          [k |-> o.kind, t |-> o.type, keys |-> o.keys,
           lvs |-> [j \in 1..Len(o.lvs) |-> [l |-> o.lvs[j].l, v |-> dat[o.lvs[j].d].val]]]]
SoloOK == pc = "idle" => \A p \in Loaded : ViewOf(p) = solo[p]

-----------------------------------------------------------------------------
Terminal == pc = "idle" /\ (IF Scripted THEN ScriptNext[HKey] = <<>> ELSE Len(h) = MaxOps)
Emit == (EmitCases /\ Terminal) =>
          PrintT(<<"CASE", ToJson([fam |-> Family, assign |-> assign, h |-> h, fired |-> fired])>>)
\* fingerprint without the history (property configurations)
StateView == <<dir, assign, handles, store, objs, dat, ctr, pc, la, ld, cur, ev, Len(h), nlines,
               snap, tally, idealRun, recv, idealRecv, solo>>
=============================================================================
