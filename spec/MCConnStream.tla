---------------------------- MODULE MCConnStream ----------------------------
(* Model-checking instances of ConnStream.tla: record and tuple constants   *)
(* cannot be written in a .cfg, so the configs substitute these definitions *)
(* (Configs <- CfgSock2, ChunkShapes <- Shapes3, ...).                      *)
EXTENDS ConnStream
Shapes3     == {<<1>>, <<1, 0>>, <<1, 0, 1>>}   \* unterminated piece, whole line, line + start of the next
Shapes2     == {<<1>>, <<1, 0>>}
ShapesDgram == {<<1>>, <<1, 0>>, <<>>}          \* <<>> = zero-length datagram (the one-shot "close")
C(k, o, l, n) == [kind |-> k, oneShot |-> o, lossy |-> l, nw |-> n]
CfgFifo(n)  == {C("fifo", FALSE, FALSE, n)}
CfgSock(n)  == {C("sock", FALSE, FALSE, n), C("sock", TRUE, FALSE, n)}
CfgDgram(n) == {C("dgram", FALSE, FALSE, n), C("dgram", TRUE, FALSE, n), C("dgram", FALSE, TRUE, n)}
CfgFifo1  == CfgFifo(1)
CfgFifo2  == CfgFifo(2)
CfgFifo3  == CfgFifo(3)
CfgSock1  == CfgSock(1)
CfgSock2  == CfgSock(2)
CfgSock2N == {C("sock", FALSE, FALSE, 2)}
CfgSock2O == {C("sock", TRUE, FALSE, 2)}
CfgSock3N == {C("sock", FALSE, FALSE, 3)}
CfgDgram1 == CfgDgram(1)
CfgDgram2 == CfgDgram(2)
CfgAll1   == CfgFifo(1) \cup CfgSock(1) \cup CfgDgram(1)
=============================================================================
