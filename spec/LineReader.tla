---------------------------- MODULE LineReader ----------------------------
(***************************************************************************)
(* internal/tailer/logstream/reader.go : LineReader.                       *)
(*                                                                         *)
(* Implementation-shaped layer: buf / cap / off exactly as ReadAndSend,    *)
(* send and Finish manipulate them.  The nondeterminism IS the chunking:   *)
(* each Read delivers any 1..room bytes of arbitrary content (the stream   *)
(* grows as it is read, so one module serves exhaustive enumeration of     *)
(* all streams x chunkings and -simulate of long random streams).          *)
(* Ideal layer: Split(stream) = the statement of property C15.             *)
(*                                                                         *)
(* Byte classes: "n" = \n, "r" = \r, "x" = ordinary byte,                  *)
(* "e","f" = first/second byte of a two-byte UTF-8 rune.                   *)
(***************************************************************************)
EXTENDS Integers, Sequences, SequencesExt, FiniteSets, Json, TLC

CONSTANTS Size,            \* read buffer size handed to NewLineReader
          MaxLen,          \* bound on the stream length
          DEV_FinishKeepsBuffer, \* reader.go Finish does not reset buf/off (matters for C16)
          MaxZeroReads,    \* bound on reads that return no bytes (stuttering reads)
          MaxErrReads,     \* bound on reads that return their bytes TOGETHER with an error (io.Reader allows n > 0, err != nil)
          EmitCases        \* print every finished behaviour as a CASE line

Bytes == {"n", "r", "x", "e", "f"}

VARIABLES stream,  \* all bytes handed out by the source so far
          buf,     \* lr.buf[0:len]
          cap,     \* cap(lr.buf)
          off,     \* lr.off
          out,     \* lines sent on the channel so far
          chunks,  \* history: size of each Read (0 = a read that returned no bytes; negative = that many bytes
                   \* returned together with a non-nil error, which must be framed like any other bytes)
          done     \* Finish was called
vars == <<stream, buf, cap, off, out, chunks, done>>

-----------------------------------------------------------------------------
(* Ideal *)
RECURSIVE SplitFrom(_, _, _)
SplitFrom(s, cur, acc) ==
  IF s = <<>> THEN [lines |-> acc, rest |-> cur]
  ELSE IF Head(s) = "n"
       THEN LET line == IF cur # <<>> /\ cur[Len(cur)] = "r" THEN SubSeq(cur, 1, Len(cur) - 1) ELSE cur
            IN SplitFrom(Tail(s), <<>>, Append(acc, line))
       ELSE SplitFrom(Tail(s), Append(cur, Head(s)), acc)

\* the statement: split at \n, strip one trailing \r, unterminated non-empty remainder last
Split(s) == LET r == SplitFrom(s, <<>>, <<>>) IN
            IF r.rest = <<>> THEN r.lines ELSE Append(r.lines, r.rest)
SplitNoFinish(s) == SplitFrom(s, <<>>, <<>>).lines
Pending(s) == SplitFrom(s, <<>>, <<>>).rest

-----------------------------------------------------------------------------
(* Implementation-shaped: the `for ok { ok = lr.send(ctx) }` loop *)
RECURSIVE Drain(_, _, _)
Drain(b, o, acc) ==
  LET idxs == {i \in (o + 1)..Len(b) : b[i] = "n"} IN
  IF idxs = {} THEN [off |-> o, out |-> acc]
  ELSE LET i  == CHOOSE i \in idxs : \A j \in idxs : i <= j
           e0 == i - 1   \* Go `end` (0-based exclusive) = 1-based index of last byte of the line
           \* `if end > 0 && lr.buf[end-1] == '\r'` : note the test is on the buffer, not on the line
           e1 == IF e0 > 0 /\ b[e0] = "r" THEN e0 - 1 ELSE e0
       IN Drain(b, i, Append(acc, SubSeq(b, o + 1, e1)))

Init == /\ stream = <<>> /\ buf = <<>> /\ cap = Size /\ off = 0
        /\ out = <<>> /\ chunks = <<>> /\ done = FALSE

\* one ReadAndSend in which f.Read returned the k bytes bs (werr: together with an error)
ReadE(bs, werr) ==
  /\ ~done
  /\ (werr => Cardinality({i \in 1..Len(chunks) : chunks[i] < 0}) < MaxErrReads)
  /\ Len(stream) + Len(bs) <= MaxLen
  /\ LET cap1 == IF cap - Len(buf) < Size THEN Len(buf) + Size ELSE cap   \* grow so Size bytes fit
         room == cap1 - Len(buf)
     IN /\ Len(bs) \in 1..room
        /\ LET b1 == buf \o bs
               r  == Drain(b1, off, out)
           IN /\ buf' = SubSeq(b1, r.off + 1, Len(b1))   \* lr.buf = lr.buf[lr.off:len]
              /\ out' = r.out
              /\ cap' = cap1 - r.off
        /\ off' = 0
  /\ stream' = stream \o bs
  /\ chunks' = Append(chunks, IF werr THEN -Len(bs) ELSE Len(bs))
  /\ UNCHANGED done
Read(bs) == ReadE(bs, FALSE)

\* f.Read returned (0, nil) or (0, err): only the capacity adjustment happens
ReadZero ==
  /\ ~done /\ Cardinality({i \in 1..Len(chunks) : chunks[i] = 0}) < MaxZeroReads
  /\ cap' = IF cap - Len(buf) < Size THEN Len(buf) + Size ELSE cap
  /\ chunks' = Append(chunks, 0)
  /\ UNCHANGED <<stream, buf, off, out, done>>

Finish ==
  /\ ~done
  /\ out' = IF Len(buf) > off THEN Append(out, SubSeq(buf, off + 1, Len(buf))) ELSE out
  /\ IF DEV_FinishKeepsBuffer THEN UNCHANGED <<buf, off>> ELSE buf' = <<>> /\ off' = 0
  /\ done' = TRUE
  /\ UNCHANGED <<stream, cap, chunks>>

ByteSeqs(k) == [1..k -> Bytes]
Next == \/ \E k \in 1..Size : \E bs \in ByteSeqs(k) : \E werr \in BOOLEAN : ReadE(bs, werr)
        \/ ReadZero
        \/ Finish
Spec == Init /\ [][Next]_vars

-----------------------------------------------------------------------------
(* Properties (C15) *)
TypeOK    == /\ off \in 0..Len(buf) /\ cap >= Len(buf) /\ (~done => cap - Len(buf) <= Size)
             /\ Len(stream) <= MaxLen
PrefixOK  == ~done => /\ out = SplitNoFinish(stream)
                      /\ SubSeq(buf, off + 1, Len(buf)) = Pending(stream)
FramingOK == done => out = Split(stream)
\* lines only ever get appended
AppendOnly == [][IsPrefix(out, out')]_vars

Emit == (EmitCases /\ done) =>
          PrintT(<<"CASE", ToJson([stream |-> stream, size |-> Size, chunks |-> chunks, out |-> out])>>)
View == <<stream, buf, cap, off, out, done>>
=============================================================================
