----------------------------- MODULE TraceReload -----------------------------
(***************************************************************************)
(* Direction B for C20: validates recorded verifhook traces of the real    *)
(* runtime against Reload.tla.                                             *)
(*                                                                         *)
(* TraceFile : ndjson, one hook event per line, normalised by the check    *)
(*   (pure renaming: program names -> 1..n, *vm.VM addresses -> one        *)
(*   integer per rt.load.registered event, absent fields -> 0 / ""):       *)
(*     [ev, prog, vm, file, line]                                          *)
(* SegFile   : ndjson [first, last, complete] - many independent runs are  *)
(*   validated by one TLC start: Init picks the segment.                   *)
(*                                                                         *)
(* Every action of Reload.tla lists in `exp` the events the real code      *)
(* emits as its consequence.  A trace is accepted iff there is a behaviour *)
(* of Reload.tla whose actions emit exactly the trace: the next trace      *)
(* event is either emitted by a new action (which may leave further events *)
(* of the same action `owed` - they are emitted by other goroutines and    *)
(* may appear later), or is one of the owed events.  A goroutine that owes *)
(* an event cannot take part in another action (it emits its event first). *)
(* Actions that emit nothing (a goroutine blocks, an unlock) are silent.   *)
(* Events carry real identities: the version of a VM is bound at           *)
(* rt.load.registered, the text of a line at rt.line.recv, and every later *)
(* event must carry the same identity (exactly one version per line, per   *)
(* VM order = arrival order, no send to a closed VM are then invariants    *)
(* of Reload.tla evaluated on the real execution).                         *)
(*                                                                         *)
(* All invariants of Reload.tla are guards of TraceNext (a state violating *)
(* one has no successor), so a rejected segment never stops the validation *)
(* of the others; the check re-runs a rejected segment alone with the      *)
(* invariants as INVARIANTs for the diagnosis.                             *)
(***************************************************************************)
EXTENDS Reload

CONSTANTS TraceFile, SegFile,
          Strict,         \* TRUE: the ideal layer (NoOverlap, WritesInArrivalOrder) is enforced too
          Guarded         \* TRUE: invariants are guards of TraceNext; FALSE: list Good as INVARIANT

Trace == TLCEval(ndJsonDeserialize(TraceFile))
Segs  == TLCEval(ndJsonDeserialize(SegFile))

VARIABLES seg,    \* the segment being validated
          i,      \* index of the next event to consume
          owed,   \* model events of actions already taken, not yet seen in the trace
          vmid,   \* [<<prog, version>> -> vm identity in the trace]
          txt     \* [arrival index -> <<file, text>>]
tvars == <<seg, i, owed, vmid, txt>>

Hook == [recv |-> "rt.line.recv", sent |-> "rt.line.sent", start |-> "vm.line.start",
         end |-> "vm.line.end", exit |-> "vm.exit", reg |-> "rt.load.registered",
         closed |-> "rt.load.closed_old", swapped |-> "rt.load.swapped", unload |-> "rt.unload"]

ActorOf(e) == IF e.e \in {"recv", "sent"} THEN <<"fan", 0, 0>>
              ELSE IF e.e \in {"start", "end", "exit"} THEN <<"vm", e.p, e.v>>
              ELSE <<"rl", 0, 0>>
Released(r) == IF r.a \in {"FanRecv", "FanGo", "FanRelease", "FanEof"} THEN <<"fan", 0, 0>>
               ELSE IF r.a \in {"VmRun", "VmNext"} THEN <<"vm", r.p, r.v>>
               ELSE <<"rl", 0, 0>>
Actors(r) == {Released(r)} \cup {ActorOf(r.exp[k]) : k \in 1..Len(r.exp)}
Allowed(r) == \A o \in owed : ActorOf(o) \notin Actors(r)

\* the trace record t is the model event e (identities already bound)
Same(t, e) ==
  /\ t.ev = Hook[e.e]
  /\ (e.p # 0 => t.prog = e.p)
  /\ (e.v # 0 => <<e.p, e.v>> \in DOMAIN vmid /\ t.vm = vmid[<<e.p, e.v>>])
  /\ (e.l # 0 => e.l \in DOMAIN txt /\ <<t.file, t.line>> = txt[e.l])

Good == /\ TypeOK /\ LockOK /\ NoSendToClosed /\ OldVersionsClosed /\ PerVmInOrder
        /\ ExactlyOneVersion /\ NeverNeither /\ OnlyLoaded
        /\ (Strict => NoOverlap /\ WritesInArrivalOrder /\ LastWriteIsLastLine /\ NoWriteLost)

TInit == /\ Init
         /\ seg \in 1..Len(Segs)
         /\ i = Segs[seg].first
         /\ owed = {} /\ vmid = << >> /\ txt = << >>

InSeg == i <= Segs[seg].last

\* an owed event appears
TOwed == /\ InSeg
         /\ \E o \in owed : Same(Trace[i], o) /\ owed' = owed \ {o}
         /\ i' = i + 1
         /\ UNCHANGED <<vars, seg, vmid, txt>>

\* a new action emits the next event (and possibly owes others)
TEmit == /\ InSeg
         /\ Step
         /\ LET r == h'[1]  t == Trace[i] IN
            /\ Allowed(r)
            /\ \E k \in 1..Len(r.exp) :
                 LET e == r.exp[k] IN
                 /\ IF e.e = "reg"
                    THEN /\ t.ev = Hook.reg /\ t.prog = e.p
                         /\ \A d \in DOMAIN vmid : vmid[d] # t.vm       \* a fresh VM
                         /\ vmid' = [d \in DOMAIN vmid \cup {<<e.p, e.v>>} |->
                                       IF d = <<e.p, e.v>> THEN t.vm ELSE vmid[d]]
                         /\ UNCHANGED txt
                    ELSE IF e.e = "recv"
                    THEN /\ t.ev = Hook.recv
                         /\ (t.nprogs >= 0 => t.nprogs = Cardinality(fan'.todo))   \* len(r.handles) under RLock
                         /\ txt' = [d \in DOMAIN txt \cup {e.l} |->
                                      IF d = e.l THEN <<t.file, t.line>> ELSE txt[d]]
                         /\ UNCHANGED vmid
                    ELSE /\ Same(t, e) /\ UNCHANGED <<vmid, txt>>
                 /\ owed' = owed \cup {r.exp[j] : j \in (1..Len(r.exp)) \ {k}}
         /\ i' = i + 1
         /\ UNCHANGED seg

\* an action that emits nothing
TSilent == /\ Step
           /\ h'[1].exp = NoEvs
           /\ Allowed(h'[1])
           /\ UNCHANGED tvars

\* the harness' end marker of a complete run (input closed, runtime waited for):
\* nothing is owed, the fan-out has shut down, every VM has left its Run loop
TEnd == /\ InSeg /\ Trace[i].ev = "h.end"
        /\ owed = {} /\ fan.pc = "eof" /\ rl.pc \in {"none", "done"}
        /\ \A p \in Progs, v \in Vers : vm[p][v].st \in {"none", "exited"}
        /\ i' = i + 1
        /\ UNCHANGED <<vars, seg, owed, vmid, txt>>

\* a new Runtime in the same process (the repository's tests): everything of the previous one
\* has terminated
TNewRuntime ==
  /\ InSeg /\ Trace[i].ev \in {Hook.reg, Hook.recv}
  /\ owed = {} /\ rl.pc \in {"none", "done"} /\ fan.pc \in {"idle", "eof"}
  /\ \A p \in Progs, v \in Vers : vm[p][v].st \in {"none", "exited"}
  /\ (nrecv > 0 \/ \E p \in Progs : nver[p] > 0)
  /\ nrecv' = 0 /\ fan' = FanIdle
  /\ handle' = [p \in Progs |-> 0] /\ nver' = [p \in Progs |-> 0]
  /\ vm' = [p \in Progs |-> [v \in Vers |-> NoVm]]
  /\ rl' = [pc |-> "none", p |-> 0, ver |-> 0]
  /\ nloads' = 0 /\ writes' = [p \in Progs |-> <<>>] /\ procd' = {} /\ due' = {} /\ h' = <<>>
  /\ store' = [p \in Progs |-> 0] /\ dat' = [p \in Progs |-> [v \in Vers |-> 0]]
  /\ val' = [p \in Progs |-> [v \in Vers |-> <<0, 0>>]]
  /\ vmid' = << >> /\ txt' = << >>
  /\ UNCHANGED <<seg, i, owed>>

\* a Runtime built with CompileOnly returns after rt.load.registered
TCompileOnly == /\ rl.pc = "atreg" /\ Loaded = {} /\ nrecv = 0
                /\ rl' = [rl EXCEPT !.pc = "done"]
                /\ UNCHANGED <<nrecv, fan, handle, nver, vm, nloads, writes, store, dat, val, procd, due, h, tvars>>

TraceNext == (TOwed \/ TEmit \/ TSilent \/ TEnd \/ TNewRuntime \/ TCompileOnly) /\ (Guarded => Good')
TraceSpec == TInit /\ [][TraceNext]_<<vars, tvars>>

\* acceptance: a segment is accepted iff a state that has consumed all of it is reachable;
\* the check collects the printed segment numbers
Reached == (i = Segs[seg].last + 1) => PrintT(<<"CASE", ToJson([accept |-> seg])>>)
\* diagnosis of a single rejected segment: how far does any behaviour get
Progress == PrintT(<<"CASE", ToJson([at |-> i])>>)
TView == <<View, tvars>>
=============================================================================
