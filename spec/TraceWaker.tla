----------------------------- MODULE TraceWaker -----------------------------
(***************************************************************************)
(* Direction B for spec/Waker.tla: event logs of the REAL testWaker driven *)
(* by wakee goroutines and a test goroutine (harness internal/verif/wakerx) *)
(* are behaviours of Waker.tla.                                            *)
(*                                                                         *)
(* Logged (one atomic sequence number each; announcements before the call, *)
(* observations after it):                                                 *)
(*    calling w       wakee w is about to call Wake()                      *)
(*    call w g        Wake() returned to wakee w the channel of generation *)
(*                    g (generations numbered by first appearance); the    *)
(*                    call itself took effect somewhere in between - its   *)
(*                    helper may already have met the test                 *)
(*    woken w         wakee w received from its channel                    *)
(*    exit w          wakee w left instead of calling Wake() again         *)
(*    begin k m lv    the test is about to call awaken(k, m); lv = the     *)
(*                    wakees it has told to leave after this wake-up       *)
(*    end             awaken returned                                      *)
(*    reset           next log                                             *)
(* Silent: the three channel rendezvous of every helper, the broadcast,    *)
(* and a wakee going round its loop.                                       *)
(***************************************************************************)
EXTENDS Waker, Json

CONSTANT TraceFile
Trace == ndJsonDeserialize(TraceFile)
VARIABLES i, pend        \* pend: wakees whose announced Wake() has not taken effect yet
tvars == <<vars, i, pend>>

Ev == Trace[i + 1]
Is(e) == i < Len(Trace) /\ Ev.ev = e
Consume == i' = i + 1

TInit == Init /\ i = 0 /\ pend = {}
TCalling == Is("calling") /\ wpc[Ev.w] = "call" /\ Ev.w \notin pend /\ pend' = pend \cup {Ev.w} /\ UNCHANGED vars /\ Consume
\* Wake() has returned: the wakee holds the channel of that generation
TCall  == Is("call") /\ Ev.w \notin pend /\ wpc[Ev.w] \in {"parked", "work"} /\ hold[Ev.w] = Ev.g /\ UNCHANGED <<vars, pend>> /\ Consume
TWoken == Is("woken") /\ Woken(Ev.w) /\ UNCHANGED pend /\ Consume
TExit  == Is("exit") /\ wpc[Ev.w] = "work" /\ leaving[Ev.w] /\ Again(Ev.w) /\ UNCHANGED pend /\ Consume
TBegin == Is("begin") /\ Awaken(Ev.k, Ev.m, {Ev.lv[j] : j \in DOMAIN Ev.lv}) /\ UNCHANGED pend /\ Consume
\* awaken has returned: the test is idle again
TEnd   == Is("end") /\ tpc = "idle" /\ cycles > 0 /\ UNCHANGED <<vars, pend>> /\ Consume
TReset == /\ Is("reset") /\ Consume /\ pend' = {}
          /\ wpc' = [w \in Wakees |-> "call"] /\ hold' = [w \in Wakees |-> 0] /\ leaving' = [w \in Wakees |-> FALSE]
          /\ helpers' = <<>> /\ gen' = 1 /\ closed' = {}
          /\ tpc' = "init" /\ n' = Cardinality(Wakees) /\ wake' = 0 /\ wait' = 0 /\ cycles' = 0
TSilent == /\ UNCHANGED i
           /\ \/ (\E k \in 1..Len(helpers) : DoneRendezvous(k) \/ WaitingRendezvous(k) \/ ReadyRendezvous(k)) /\ UNCHANGED pend
              \/ Broadcast /\ UNCHANGED pend
              \/ \E w \in Wakees : ~leaving[w] /\ Again(w) /\ UNCHANGED pend
              \/ \E w \in pend : Call(w) /\ pend' = pend \ {w}             \* the announced Wake() takes effect
TNext == TCalling \/ TCall \/ TWoken \/ TExit \/ TBegin \/ TEnd \/ TReset \/ TSilent
TSpec == TInit /\ [][TNext]_tvars

\* every invariant of Waker.tla on every state of every real execution
TSafety == TypeOK /\ NoLostWakeup /\ Settled /\ BroadcastReachesAll

ASSUME TLCSet(1, 0)
HighWater == TLCSet(1, IF TLCGet(1) < i THEN i ELSE TLCGet(1))
Post == PrintT(<<"CASE", ToJson([hw |-> TLCGet(1), len |-> Len(Trace)])>>)
=============================================================================
