------------------------------- MODULE Reload -------------------------------
(***************************************************************************)
(* C20 - lines reach each program in order, exactly once, across reloads.  *)
(*                                                                         *)
(* internal/runtime/runtime.go : the fan-out goroutine started by New      *)
(*     for line := range lines { LineCount.Add(1); handleMu.RLock()        *)
(*         for prog := range handles { handles[prog].lines <- line }       *)
(*         handleMu.RUnlock() }                                            *)
(*     handleMu.Lock(); for prog: close(handles[prog].lines); delete       *)
(* CompileAndRun (compile; Store.Add; ProgLoads; handleMu.Lock;            *)
(*     close(old.lines); lines := make(chan); handles[name] = new;         *)
(*     go v.Run(lines); Unlock), UnloadProgram (Lock; close; delete;       *)
(*     Unlock) and internal/runtime/vm/vm.go : Run                         *)
(*     for line := range lines { ProcessLogLine(line) }                    *)
(*                                                                         *)
(* GRAIN.  One action per segment of code between two verifhook points,    *)
(* because that is what a blocking gate (verifhook.SetGate) can schedule:  *)
(* every goroutine is either *parked at a point* or *blocked in a          *)
(* blocking operation* (channel send/receive, RWMutex).  An action         *)
(* releases one parked goroutine (or is an environment operation: offer a  *)
(* line, start a load); blocking operations complete *eagerly*, inside the *)
(* action that enables them (a rendezvous happens as soon as both sides    *)
(* are at the channel, a pending Lock is granted by the RUnlock, pending   *)
(* readers are granted by the Unlock - Go's RWMutex hands over exactly     *)
(* like that, and a pending writer excludes new readers).                  *)
(*                                                                         *)
(*   fan-out:  idle --FanRecv--> atrecv (rt.line.recv, holds RLock)        *)
(*                 | (writer holds the lock)  wantr                        *)
(*             atrecv/atsent --FanGo--> atsent (rt.line.sent) | sending    *)
(*             atrecv/atsent --FanRelease (no program left)--> idle        *)
(*             idle --FanEof (input closed): close every handle--> eof     *)
(*   VM:       ready --(rendezvous)--> atstart (vm.line.start)             *)
(*             atstart --VmRun: the datum write--> atend (vm.line.end)     *)
(*             atend --VmNext--> ready | atstart (rendezvous) | exited     *)
(*   loader:   none --RlStart: compile, Store.Add--> atreg                 *)
(*                                               (rt.load.registered)      *)
(*             atreg --RlLock--> atclosed (rt.load.closed_old, holds Lock) *)
(*                 | (no old handle) atswapped                             *)
(*                 | (fan-out holds RLock)  wantw                          *)
(*             atclosed --RlSwapGo--> atswapped (rt.load.swapped)          *)
(*                 | (corrected design, old VM still in a line)  awaiting  *)
(*             atswapped --RlFinish: Unlock--> done                        *)
(*             none/done --Unload--> atunload (rt.unload) --UnlFinish-->   *)
(*                 | wantu | (corrected design, VM still in a line) awaitingu*)
(*                                                                         *)
(* Each action records in `h` the events the real code must emit as its    *)
(* consequence (`exp`) and the value the gauge must show afterwards (`g`); *)
(* the Go harness (internal/verif/c20) executes `h` against a real         *)
(* runtime.Runtime and compares both after every action (direction A).     *)
(* TraceReload.tla validates recorded event traces against the same        *)
(* actions (direction B).                                                  *)
(*                                                                         *)
(* IDEAL layer: ExactlyOneVersion / NeverNeither / OnlyLoaded /            *)
(* WritesInArrivalOrder / LastWriteIsLastLine state property C20 with no   *)
(* reference to locks or channels.                                         *)
(*                                                                         *)
(* DEVIATIONS                                                              *)
(* DEV_OldVmNotAwaited : CompileAndRun closes the old VM's channel and     *)
(*   installs + starts the new VM without waiting for the old VM to finish *)
(*   the line it is executing.                                             *)
(* DEV_UnloadedVmNotAwaited : UnloadProgram likewise closes the channel    *)
(*   and returns, so that a later load of the same program can start while *)
(*   the unloaded VM is still inside a line.                               *)
(* DEV_RegisteredBeforeOldVmStops : CompileAndRun registers the new        *)
(*   version's metrics (Store.Add replaces the old metric and copies the   *)
(*   label values it has SO FAR) before the lock, while the old VM still   *)
(*   processes lines.  A datum the old VM creates afterwards (a scalar     *)
(*   gauge's datum is created by its first write) belongs to a metric that *)
(*   is no longer in the store: the effect of those lines is lost.         *)
(*   Corrected design: the new metrics take over the data when the old VM  *)
(*   has stopped (at the swap).                                            *)
(***************************************************************************)
EXTENDS Integers, Sequences, FiniteSets, Json, TLC

CONSTANTS NLines,               \* lines offered to the runtime: 1..NLines, in this order
          Progs,                \* set of program ids (positive integers)
          InitLoaded,           \* programs already loaded (version 1) at the start
          Loadable,             \* programs that may be (re)loaded
          MaxVer,               \* versions per program
          MaxLoads,             \* bound on the total number of loads started
          Unloadable,           \* programs that may be unloaded
          DEV_OldVmNotAwaited,  \* the code as it is: CompileAndRun swaps without waiting for the old VM
          DEV_UnloadedVmNotAwaited, \* the code as it is: UnloadProgram returns without waiting for the VM
          DEV_RegisteredBeforeOldVmStops, \* the code as it is: Store.Add of the new version's metrics
                                \* (which takes over the data the old version has so far) runs before the
                                \* old VM has stopped
          EofAnyTime,           \* TRUE (traces): the input may be closed after any line
          KeepHistory,          \* FALSE (traces): h keeps only the last action
          EmitCases             \* "none" | "terminal": print every finished behaviour as a CASE
                                \* | "prefix": print the path to every state (with View2: one
                                \*   path per transition of the state graph)

Vers == 1..MaxVer

VARIABLES nrecv,    \* lines taken from the input channel so far (= lines_total)
          fan,      \* [pc, line, todo, cur]
          handle,   \* r.handles : [Progs -> 0..MaxVer], 0 = no entry
          nver,     \* [Progs -> 0..MaxVer] versions created so far
          vm,       \* [Progs -> [Vers -> [st, cur, closed]]]
          rl,       \* the loader (LoadProgram is serialised by programErrorMu): [pc, p, ver]
          nloads,   \* loads started
          writes,   \* [Progs -> Seq(<<line, ver>>)] : writes applied to the program's gauge datum
          store,    \* [Progs -> 0..MaxVer] : the version whose metric is in the metrics.Store (exported)
          dat,      \* [Progs -> [Vers -> 0..MaxVer]] : the datum (named by the version that created it)
                    \*   held by each version's metric, 0 = none yet
          val,      \* [Progs -> [Vers -> <<line, ver>>]] : last write to each datum
          procd,    \* set of <<prog, line, ver>> : which version received which line
          due,      \* set of <<prog, line>> : programs loaded when the line was fanned out
          h         \* history of actions (emission)
vars == <<nrecv, fan, handle, nver, vm, rl, nloads, writes, store, dat, val, procd, due, h>>

-----------------------------------------------------------------------------
(* lock state is a function of the control state *)
RHeld == fan.pc \in {"atrecv", "sending", "atsent"}            \* handleMu.RLock held by the fan-out
WHeld == rl.pc \in {"atclosed", "awaiting", "atswapped", "awaitingu", "atunload"}   \* handleMu.Lock held by the loader
Loaded == {p \in Progs : handle[p] # 0}
Busy(p, v) == vm[p][v].st \in {"atstart", "atend"}

Ev(e, p, l, v) == [e |-> e, p |-> p, l |-> l, v |-> v]
NoEvs == SubSeq(<<Ev("x", 0, 0, 0)>>, 1, 0)
LastOf(w, p) == IF w[p] = <<>> THEN <<0, 0>> ELSE w[p][Len(w[p])]
\* what an export of the store shows for program p's gauge
ExportedOf(st, d, vl, p) == IF st[p] = 0 \/ d[p][st[p]] = 0 THEN <<0, 0>> ELSE vl[p][d[p][st[p]]]
Exported(p) == ExportedOf(store, dat, val, p)
\* compact description of the control state an action starts from (for transition coverage)
From == [fan |-> fan.pc, rl |-> rl.pc, nrecv |-> nrecv, hd |-> handle,
         vm |-> [q \in Progs |-> [u \in Vers |-> vm[q][u].st]]]
RecG(a, p, v, exp, g) ==
  LET r == [a |-> a, p |-> p, v |-> v, exp |-> exp, from |-> From, g |-> g]
  IN IF KeepHistory THEN Append(h, r) ELSE <<r>>
Rec(a, p, v, exp) == RecG(a, p, v, exp, [q \in Progs |-> Exported(q)])
\* Store.Add of version nv's metric: it replaces the exported one and takes over its datum, if any
RegStore(p, nv) == [store EXCEPT ![p] = nv]
RegDat(p, nv) == [dat EXCEPT ![p][nv] = IF store[p] # 0 THEN dat[p][store[p]] ELSE 0]
Register(p, nv) == store' = RegStore(p, nv) /\ dat' = RegDat(p, nv)
NoReg == UNCHANGED <<store, dat>>
\* corrected design: the new metrics take over the old version's data at the swap
SwapReg(p, nv) == IF DEV_RegisteredBeforeOldVmStops THEN NoReg ELSE Register(p, nv)
NoVm == [st |-> "none", cur |-> 0, closed |-> FALSE]
NewVm == [st |-> "ready", cur |-> 0, closed |-> FALSE]
FanIdle == [pc |-> "idle", line |-> 0, todo |-> {}, cur |-> 0]

Init == /\ nrecv = 0
        /\ fan = FanIdle
        /\ handle = [p \in Progs |-> IF p \in InitLoaded THEN 1 ELSE 0]
        /\ nver = [p \in Progs |-> IF p \in InitLoaded THEN 1 ELSE 0]
        /\ vm = [p \in Progs |-> [v \in Vers |-> IF v = 1 /\ p \in InitLoaded THEN NewVm ELSE NoVm]]
        /\ rl = [pc |-> "none", p |-> 0, ver |-> 0]
        /\ nloads = 0
        /\ writes = [p \in Progs |-> <<>>]
        /\ store = [p \in Progs |-> IF p \in InitLoaded THEN 1 ELSE 0]
        /\ dat = [p \in Progs |-> [v \in Vers |-> 0]]
        /\ val = [p \in Progs |-> [v \in Vers |-> <<0, 0>>]]
        /\ procd = {}
        /\ due = {}
        /\ h = <<>>

-----------------------------------------------------------------------------
(* Fan-out goroutine *)

\* `line := <-lines; LineCount.Add(1); handleMu.RLock()` - blocks while the loader holds the lock
FanRecv ==
  /\ fan.pc = "idle" /\ nrecv < NLines
  /\ nrecv' = nrecv + 1
  /\ IF WHeld
     THEN /\ fan' = [pc |-> "wantr", line |-> nrecv + 1, todo |-> {}, cur |-> 0]
          /\ h' = Rec("FanRecv", 0, 0, NoEvs)
          /\ UNCHANGED due
     ELSE /\ fan' = [pc |-> "atrecv", line |-> nrecv + 1, todo |-> Loaded, cur |-> 0]
          /\ due' = due \cup {<<p, nrecv + 1>> : p \in Loaded}
          /\ h' = Rec("FanRecv", 0, 0, <<Ev("recv", 0, nrecv + 1, 0)>>)
  /\ UNCHANGED <<handle, nver, vm, rl, nloads, writes, store, dat, val, procd>>

\* unbuffered `handles[p].lines <- line` meets the VM's `range lines`
Meet(p, v, l) ==
  /\ vm' = [vm EXCEPT ![p][v] = [@ EXCEPT !.st = "atstart", !.cur = l]]
  /\ procd' = procd \cup {<<p, l, v>>}
  /\ fan' = [fan EXCEPT !.pc = "atsent", !.todo = @ \ {p}, !.cur = p]
MeetEvs(p, v, l) == <<Ev("sent", p, l, v), Ev("start", p, l, v)>>

\* next iteration of `for prog := range r.handles` (Go picks the order)
FanGo(p) ==
  /\ fan.pc \in {"atrecv", "atsent"} /\ p \in fan.todo
  /\ LET v == handle[p] IN
     IF vm[p][v].st = "ready"
     THEN /\ Meet(p, v, fan.line)
          /\ h' = Rec("FanGo", p, v, MeetEvs(p, v, fan.line))
     ELSE /\ fan' = [fan EXCEPT !.pc = "sending", !.cur = p]     \* blocks in the send, RLock held
          /\ h' = Rec("FanGo", p, v, NoEvs)
          /\ UNCHANGED <<vm, procd>>
  /\ UNCHANGED <<nrecv, handle, nver, rl, nloads, writes, store, dat, val, due>>

\* `close(handle.lines)`: an idle VM leaves its range loop at once, a busy one after its line
CloseOf(f, p) == LET o == handle[p] IN
  IF o = 0 THEN f
  ELSE [f EXCEPT ![p][o] = [@ EXCEPT !.closed = TRUE, !.st = IF @ = "ready" THEN "exited" ELSE @]]
ExitEvs(p) == LET o == handle[p] IN
  IF o # 0 /\ vm[p][o].st = "ready" THEN <<Ev("exit", p, 0, o)>> ELSE NoEvs

\* the loader passes handleMu.Lock() in CompileAndRun:
\*   if handle, ok := r.handles[name]; ok { close(handle.lines) }   -> rt.load.closed_old
\*   otherwise straight on to the swap                                -> rt.load.swapped
Acquire ==
  LET p == rl.p IN
  IF handle[p] # 0
  THEN /\ vm' = CloseOf(vm, p)
       /\ rl' = [rl EXCEPT !.pc = "atclosed"]
       /\ UNCHANGED handle /\ NoReg
  ELSE /\ vm' = [vm EXCEPT ![p][rl.ver] = NewVm]
       /\ handle' = [handle EXCEPT ![p] = rl.ver]
       /\ rl' = [rl EXCEPT !.pc = "atswapped"]
       /\ SwapReg(p, rl.ver)
AcquireEvs ==
  LET p == rl.p IN
  IF handle[p] # 0 THEN <<Ev("closed", p, 0, handle[p])>> \o ExitEvs(p)
  ELSE <<Ev("swapped", p, 0, rl.ver)>>
\* the loader passes handleMu.Lock() in UnloadProgram: close(handles[name].lines);
\* [corrected design: wait until the VM has left its Run loop;] delete; ProgUnloads.Add  -> rt.unload
AcquireU ==
  LET p == rl.p  o == handle[rl.p] IN
  IF DEV_UnloadedVmNotAwaited \/ ~Busy(p, o)
  THEN /\ vm' = CloseOf(vm, p)
       /\ handle' = [handle EXCEPT ![p] = 0]
       /\ rl' = [rl EXCEPT !.pc = "atunload"]
       /\ NoReg
  ELSE /\ vm' = CloseOf(vm, p)
       /\ rl' = [rl EXCEPT !.pc = "awaitingu"]
       /\ UNCHANGED handle /\ NoReg
AcquireUEvs ==
  LET p == rl.p  o == handle[rl.p] IN
  IF DEV_UnloadedVmNotAwaited \/ ~Busy(p, o) THEN ExitEvs(p) \o <<Ev("unload", p, 0, 0)>> ELSE NoEvs

\* loop over handles finished: handleMu.RUnlock(); a pending Lock() is granted
FanRelease ==
  /\ fan.pc \in {"atrecv", "atsent"} /\ fan.todo = {}
  /\ fan' = FanIdle
  /\ IF rl.pc = "wantw"
     THEN Acquire /\ h' = Rec("FanRelease", 0, 0, AcquireEvs)
     ELSE IF rl.pc = "wantu"
     THEN AcquireU /\ h' = Rec("FanRelease", 0, 0, AcquireUEvs)
     ELSE UNCHANGED <<vm, rl, handle>> /\ NoReg /\ h' = Rec("FanRelease", 0, 0, NoEvs)
  /\ UNCHANGED <<nrecv, nver, nloads, writes, val, procd, due>>

\* `range lines` ends: "END OF LINE"; Lock; close and delete every handle; Unlock
EofEvs == LET ps == {p \in Progs : ExitEvs(p) # NoEvs}
              RECURSIVE Cat(_)
              Cat(S) == IF S = {} THEN NoEvs
                        ELSE LET p == CHOOSE q \in S : TRUE IN ExitEvs(p) \o Cat(S \ {p})
          IN Cat(ps)
FanEof ==
  /\ fan.pc = "idle" /\ (EofAnyTime \/ nrecv = NLines)
  /\ rl.pc \in {"none", "done"}
  /\ fan' = [FanIdle EXCEPT !.pc = "eof"]
  /\ vm' = [p \in Progs |-> CloseOf(vm, p)[p]]
  /\ handle' = [p \in Progs |-> 0]
  /\ h' = Rec("FanEof", 0, 0, EofEvs)
  /\ UNCHANGED <<nrecv, nver, rl, nloads, writes, store, dat, val, procd, due>>

-----------------------------------------------------------------------------
(* VM goroutine: vm.Run / ProcessLogLine *)

\* ProcessLogLine executes the program: its visible effect is the write of the gauge datum of
\* this version's metric - created now if the metric has none (metric.GetDatum), otherwise the
\* one Store.Add handed over from the previous version
VmRun(p, v) ==
  /\ vm[p][v].st = "atstart"
  /\ LET id == IF dat[p][v] = 0 THEN v ELSE dat[p][v] IN
     /\ dat' = [dat EXCEPT ![p][v] = id]
     /\ val' = [val EXCEPT ![p][id] = <<vm[p][v].cur, v>>]
  /\ writes' = [writes EXCEPT ![p] = Append(@, <<vm[p][v].cur, v>>)]
  /\ vm' = [vm EXCEPT ![p][v] = [@ EXCEPT !.st = "atend"]]
  /\ h' = RecG("VmRun", p, v, <<Ev("end", p, vm[p][v].cur, v)>>,
               [q \in Progs |-> ExportedOf(store, dat', val', q)])
  /\ UNCHANGED <<nrecv, fan, handle, nver, rl, nloads, store, procd, due>>

\* back to `for line := range lines`
VmNext(p, v) ==
  /\ vm[p][v].st = "atend"
  /\ IF fan.pc = "sending" /\ fan.cur = p /\ handle[p] = v
     THEN \* the fan-out is blocked sending to this VM
          /\ Meet(p, v, fan.line)
          /\ h' = Rec("VmNext", p, v, MeetEvs(p, v, fan.line))
          /\ UNCHANGED <<handle, rl>> /\ NoReg
     ELSE IF vm[p][v].closed
     THEN \* channel closed: the VM exits; a loader awaiting it (corrected design) proceeds:
          \* `lines := make(chan); r.handles[name] = &vmHandle{..}; go v.Run(lines)`
          IF rl.pc = "awaiting" /\ rl.p = p
          THEN /\ vm' = [vm EXCEPT ![p][v] = [@ EXCEPT !.st = "exited", !.cur = 0],
                                   ![p][rl.ver] = NewVm]
               /\ handle' = [handle EXCEPT ![p] = rl.ver]
               /\ rl' = [rl EXCEPT !.pc = "atswapped"]
               /\ h' = Rec("VmNext", p, v, <<Ev("exit", p, 0, v), Ev("swapped", p, 0, rl.ver)>>)
               /\ SwapReg(p, rl.ver)
               /\ UNCHANGED <<fan, procd>>
          ELSE IF rl.pc = "awaitingu" /\ rl.p = p
          THEN /\ vm' = [vm EXCEPT ![p][v] = [@ EXCEPT !.st = "exited", !.cur = 0]]
               /\ handle' = [handle EXCEPT ![p] = 0]
               /\ rl' = [rl EXCEPT !.pc = "atunload"]
               /\ h' = Rec("VmNext", p, v, <<Ev("exit", p, 0, v), Ev("unload", p, 0, 0)>>)
               /\ UNCHANGED <<fan, procd>> /\ NoReg
          ELSE /\ vm' = [vm EXCEPT ![p][v] = [@ EXCEPT !.st = "exited", !.cur = 0]]
               /\ h' = Rec("VmNext", p, v, <<Ev("exit", p, 0, v)>>)
               /\ UNCHANGED <<fan, procd, handle, rl>> /\ NoReg
     ELSE /\ vm' = [vm EXCEPT ![p][v] = [@ EXCEPT !.st = "ready", !.cur = 0]]
          /\ h' = Rec("VmNext", p, v, NoEvs)
          /\ UNCHANGED <<fan, procd, handle, rl>> /\ NoReg
  /\ UNCHANGED <<nrecv, nver, nloads, writes, val, due>>

-----------------------------------------------------------------------------
(* Loader: LoadProgram -> CompileAndRun of a new or changed program; UnloadProgram *)

\* hash differs; Compile; vm.New; Store.Add of every metric (DEV_RegisteredBeforeOldVmStops: the
\* store now exports the new version's metric, holding the datum the old one has so far); ProgLoads.Add
RlStart(p) ==
  /\ rl.pc \in {"none", "done"} /\ p \in Loadable /\ fan.pc # "eof"
  /\ nver[p] < MaxVer /\ nloads < MaxLoads
  /\ rl' = [pc |-> "atreg", p |-> p, ver |-> nver[p] + 1]
  /\ nver' = [nver EXCEPT ![p] = @ + 1]
  /\ nloads' = nloads + 1
  /\ h' = Rec("RlStart", p, nver[p] + 1, <<Ev("reg", p, 0, nver[p] + 1)>>)
  /\ IF DEV_RegisteredBeforeOldVmStops THEN Register(p, nver[p] + 1) ELSE NoReg
  /\ UNCHANGED <<nrecv, fan, handle, vm, writes, val, procd, due>>

\* r.handleMu.Lock(): waits for the fan-out's RUnlock
RlLock ==
  /\ rl.pc = "atreg" /\ fan.pc # "eof"
  /\ IF RHeld
     THEN /\ rl' = [rl EXCEPT !.pc = "wantw"]
          /\ h' = Rec("RlLock", rl.p, rl.ver, NoEvs)
          /\ UNCHANGED <<vm, handle>> /\ NoReg
     ELSE /\ Acquire
          /\ h' = Rec("RlLock", rl.p, rl.ver, AcquireEvs)
  /\ UNCHANGED <<nrecv, fan, nver, nloads, writes, val, procd, due>>

\* after close(handle.lines).  Corrected design: wait until the old VM has left its Run loop.
\* The code (DEV_OldVmNotAwaited): install and start the new VM at once.
RlSwapGo ==
  /\ rl.pc = "atclosed"
  /\ LET p == rl.p  o == handle[rl.p] IN
     IF DEV_OldVmNotAwaited \/ vm[p][o].st = "exited"
     THEN /\ vm' = [vm EXCEPT ![p][rl.ver] = NewVm]
          /\ handle' = [handle EXCEPT ![p] = rl.ver]
          /\ rl' = [rl EXCEPT !.pc = "atswapped"]
          /\ h' = Rec("RlSwapGo", p, rl.ver, <<Ev("swapped", p, 0, rl.ver)>>)
          /\ SwapReg(p, rl.ver)
     ELSE /\ rl' = [rl EXCEPT !.pc = "awaiting"]
          /\ h' = Rec("RlSwapGo", p, rl.ver, NoEvs)
          /\ UNCHANGED <<vm, handle>> /\ NoReg
  /\ UNCHANGED <<nrecv, fan, nver, nloads, writes, val, procd, due>>

\* deferred handleMu.Unlock(); a fan-out blocked in RLock() is granted the lock
GrantReader ==
  IF fan.pc = "wantr"
  THEN /\ fan' = [fan EXCEPT !.pc = "atrecv", !.todo = Loaded]
       /\ due' = due \cup {<<q, fan.line>> : q \in Loaded}
  ELSE UNCHANGED <<fan, due>>
GrantEvs == IF fan.pc = "wantr" THEN <<Ev("recv", 0, fan.line, 0)>> ELSE NoEvs

RlFinish ==
  /\ rl.pc = "atswapped"
  /\ rl' = [rl EXCEPT !.pc = "done"]
  /\ GrantReader
  /\ h' = Rec("RlFinish", rl.p, rl.ver, GrantEvs)
  /\ UNCHANGED <<nrecv, handle, nver, vm, nloads, writes, store, dat, val, procd>>

\* UnloadProgram: Lock; close(handles[name].lines); delete(handles, name); ProgUnloads.Add; Unlock
Unload(p) ==
  /\ rl.pc \in {"none", "done"} /\ p \in Unloadable /\ handle[p] # 0
  /\ IF RHeld
     THEN /\ rl' = [pc |-> "wantu", p |-> p, ver |-> 0]
          /\ h' = Rec("Unload", p, 0, NoEvs)
          /\ UNCHANGED <<vm, handle>>
     ELSE LET u == [pc |-> "wantu", p |-> p, ver |-> 0]
              o == handle[p]
              now == DEV_UnloadedVmNotAwaited \/ ~Busy(p, o) IN
          /\ vm' = CloseOf(vm, p)
          /\ handle' = IF now THEN [handle EXCEPT ![p] = 0] ELSE handle
          /\ rl' = [u EXCEPT !.pc = IF now THEN "atunload" ELSE "awaitingu"]
          /\ h' = Rec("Unload", p, 0, IF now THEN ExitEvs(p) \o <<Ev("unload", p, 0, 0)>> ELSE NoEvs)
  /\ UNCHANGED <<nrecv, fan, nver, nloads, writes, store, dat, val, procd, due>>

UnlFinish ==
  /\ rl.pc = "atunload"
  /\ rl' = [rl EXCEPT !.pc = "done"]
  /\ GrantReader
  /\ h' = Rec("UnlFinish", rl.p, 0, GrantEvs)
  /\ UNCHANGED <<nrecv, handle, nver, vm, nloads, writes, store, dat, val, procd>>

-----------------------------------------------------------------------------
(* IDEAL layer: property C20 *)

VersionsOf(p, l) == {v \in Vers : <<p, l, v>> \in procd}
\* never both
ExactlyOneVersion == \A p \in Progs, l \in 1..nrecv : Cardinality(VersionsOf(p, l)) <= 1
\* never neither: once the fan-out has finished with a line, every program that was loaded
\* when the line was fanned out has received it
Done(l) == l < nrecv \/ (l = nrecv /\ fan.pc \in {"idle", "eof"})
NeverNeither == \A t \in due : Done(t[2]) => VersionsOf(t[1], t[2]) # {}
\* and no other program sees the line
OnlyLoaded == \A t \in procd : <<t[1], t[2]>> \in due
\* effects are applied in arrival order, per program (the gauge is the program's datum)
WritesInArrivalOrder ==
  \A p \in Progs : \A a, b \in 1..Len(writes[p]) : a < b => writes[p][a][1] < writes[p][b][1]
\* "the last-written value of a gauge is that of the last line that wrote it"
Quiescent == /\ fan.pc \in {"idle", "eof"}
             /\ \A p \in Progs, v \in Vers : ~Busy(p, v)
LastWriteIsLastLine ==
  Quiescent => \A p \in Progs :
     LET ls == {t[2] : t \in {u \in due : u[1] = p}} IN
     ls # {} => Exported(p)[1] = CHOOSE m \in ls : \A k \in ls : k <= m
\* no effect is lost: what the store exports is the last write that was applied
Lost == \E p \in Progs : writes[p] # <<>> /\ Exported(p) # LastOf(writes, p)
NoWriteLost == Quiescent => ~Lost
\* two versions of one program never execute at the same time
NoOverlap == \A p \in Progs : Cardinality({v \in Vers : Busy(p, v)}) <= 1

(* implementation invariants *)
TypeOK == /\ nrecv \in 0..NLines
          /\ fan.pc \in {"idle", "wantr", "atrecv", "sending", "atsent", "eof"}
          /\ rl.pc \in {"none", "atreg", "wantw", "atclosed", "awaiting", "atswapped", "done",
                        "wantu", "awaitingu", "atunload"}
          /\ \A p \in Progs : handle[p] \in 0..MaxVer /\ handle[p] <= nver[p]
LockOK == /\ ~(RHeld /\ WHeld)
          /\ (rl.pc \in {"wantw", "wantu"} => RHeld)       \* a writer only waits for a reader
          /\ (fan.pc = "wantr" => WHeld)
\* no send on a closed channel: whatever the fan-out can reach under RLock is open
NoSendToClosed == RHeld => \A p \in Loaded : ~vm[p][handle[p]].closed
\* every version that is not the current one has been told to stop
OldVersionsClosed == \A p \in Progs, v \in Vers :
  (vm[p][v].st \notin {"none", "exited"} /\ v # handle[p]) => vm[p][v].closed
PerVmInOrder == \A p \in Progs, v \in Vers : Busy(p, v) =>
  \A t \in procd : (t[1] = p /\ t[3] = v) => t[2] <= vm[p][v].cur

(* emission, direction A *)
Terminal == /\ Quiescent /\ nrecv = NLines /\ fan.pc = "eof"
            /\ rl.pc \in {"none", "done"}
            /\ \A p \in Progs, v \in Vers : vm[p][v].st \in {"none", "ready", "exited"}
Emit == ((EmitCases = "terminal" /\ Terminal) \/ (EmitCases = "prefix" /\ h # <<>>)) =>
          PrintT(<<"CASE", ToJson([steps |-> h,
                                   terminal |-> Terminal,
                                   procd |-> procd,
                                   writes |-> writes,
                                   dev |-> <<DEV_OldVmNotAwaited, DEV_UnloadedVmNotAwaited,
                                             DEV_RegisteredBeforeOldVmStops>>,
                                   lost |-> Lost,
                                   inorder |-> WritesInArrivalOrder,
                                   lastok |-> LastWriteIsLastLine])>>)

-----------------------------------------------------------------------------
Step == \/ FanRecv \/ FanRelease \/ FanEof
        \/ \E p \in Progs : FanGo(p) \/ RlStart(p) \/ Unload(p)
        \/ \E p \in Progs, v \in Vers : VmRun(p, v) \/ VmNext(p, v)
        \/ RlLock \/ RlSwapGo \/ RlFinish \/ UnlFinish
Next == \/ Step
        \/ (Terminal /\ UNCHANGED vars)        \* so that TLC's deadlock check means "stuck before the end"
Spec == Init /\ [][Next]_vars

View == <<nrecv, fan, handle, nver, vm, rl, nloads, writes, store, dat, val, procd, due>>
\* one representative path per (source control state, action, target state)
View2 == <<View, IF h = <<>> THEN 0 ELSE h[Len(h)]>>
=============================================================================
