----------------------------- MODULE MtailLang -----------------------------
(***************************************************************************)
(* Reference semantics of the mtail language (docs/Language.md), written   *)
(* as operators over an abstract syntax tree.  This is the IDEAL layer for *)
(* C01 C02 C05 C07: the effect of one input line is a function            *)
(*      ExecLine(program, metrics-before, line)                            *)
(* and nothing else (no caches, no flags surviving a line).                *)
(*                                                                         *)
(* Where the implementation is known to depart from the reference the      *)
(* departure is a named switch:                                            *)
(*   DEV_OtherwiseFlagIsGlobal  one VM-wide `matched` register instead of  *)
(*                              a per-block flag (codegen.go CondStmt)     *)
(*   DEV_MemoKeyedByValueOnly   strptime memo keyed by the value only      *)
(*   DEV_MemoCachesFailure      a failed strptime parse is memoised        *)
(* (the two memo switches need cross-line state and live in the `memo`     *)
(* component of the state, which the ideal semantics never reads.)         *)
(*                                                                         *)
(* AST (records, JSON-friendly; every node has a field n):                 *)
(*  program  [decls, decos, body, pats]                                    *)
(*  decl     [name, kind, keys, ty, hidden]         ty: "int"|"float"|"string" *)
(*  pattern  [anch, w, caps]   caps: seq of [k, name], k: "d"|"f"|"s"      *)
(*           concrete regex: (?:^| )w (caps...)(?: |$), see Match          *)
(*  stmt     cond [c, t, e, he] | otherwise [t] | expr [e] | del [m, idx]  *)
(*           | delafter [m, idx, h] | deco [name, t] | next | stop         *)
(*  expr     int [v] | float [v = <<num,den>>] | str [v] | cap [p, g]      *)
(*           | var [m, idx] | bin [op, l, r] | pat [p] | smatch [l, s, a, neg] | pmatch [l, p] *)
(*           | assign/addassign [m, idx, r] | inc/dec [m, idx]             *)
(*           | call [f, args]                                              *)
(* Strings are sequences of one-character strings; a line is a sequence of *)
(* tokens (each a string value), concretely joined by single spaces.       *)
(***************************************************************************)
EXTENDS Integers, Sequences, SequencesExt, FiniteSets, TLC

CONSTANTS DEV_OtherwiseFlagIsGlobal, DEV_MemoKeyedByValueOnly, DEV_MemoCachesFailure,
          YearOpt        \* the syslog-current-year option (a parsed year 0 is replaced by the current year)

Null == [k |-> "null"]
MaxInt == 1000000000          \* beyond this a case is flagged `ovf` and dropped (TLC ints are 32 bit)

-----------------------------------------------------------------------------
(* Values *)
IntV(i)   == [k |-> "i", v |-> i]
RatV(n,d) == [k |-> "f", n |-> n, d |-> d]
StrV(s)   == [k |-> "s", v |-> s]
BoolV(b)  == [k |-> "b", v |-> b]
TimeV(id) == [k |-> "t", id |-> id]      \* an instant obtained by strptime: Parse table entry id
NowV(i)   == [k |-> "now", i |-> i]      \* wall-clock time while line number i was processed
OvfV      == [k |-> "ovf"]

Abs(x) == IF x < 0 THEN -x ELSE x
RECURSIVE Gcd(_, _)
Gcd(a, b) == IF b = 0 THEN a ELSE Gcd(b, a % b)
\* truncating division / remainder (Go semantics); TLA+ \div floors
TDiv(a, b) == LET q == Abs(a) \div Abs(b) IN IF (a < 0) # (b < 0) THEN -q ELSE q
TMod(a, b) == a - b * TDiv(a, b)
Big(x) == Abs(x) > MaxInt
MulOvf(a, b) == a # 0 /\ b # 0 /\ Abs(a) > MaxInt \div Abs(b)

\* exact division of a possibly negative n by positive g
NormQ(n, d) == LET g == Gcd(Abs(n), Abs(d)) IN
               IF Big(n) \/ Big(d) THEN OvfV
               ELSE RatV((IF d < 0 THEN -1 ELSE 1) * TDiv(n, g), TDiv(Abs(d), g))
ToRat(v) == IF v.k = "i" THEN RatV(v.v, 1) ELSE v
IsNum(v) == v.k \in {"i", "f"}

RAdd(a, b) == IF MulOvf(a.n, b.d) \/ MulOvf(b.n, a.d) \/ MulOvf(a.d, b.d) THEN OvfV
              ELSE NormQ(a.n * b.d + b.n * a.d, a.d * b.d)
RNeg(a)    == RatV(-a.n, a.d)
RSub(a, b) == RAdd(a, RNeg(b))
RMul(a, b) == IF MulOvf(a.n, b.n) \/ MulOvf(a.d, b.d) THEN OvfV ELSE NormQ(a.n * b.n, a.d * b.d)
RDiv(a, b) == IF MulOvf(a.n, b.d) \/ MulOvf(a.d, b.n) THEN OvfV ELSE NormQ(a.n * b.d, a.d * b.n)   \* b.n # 0
RLt(a, b)  == a.n * b.d < b.n * a.d
REq(a, b)  == a.n = b.n /\ a.d = b.d
RTrunc(a)  == TDiv(a.n, a.d)
\* math.Mod: a - b*trunc(a/b)
RMod(a, b) == LET q == RDiv(a, b) IN IF q.k = "ovf" THEN OvfV ELSE RSub(a, RMul(b, RatV(RTrunc(q), 1)))
RECURSIVE RPow(_, _)
RPow(a, e) == IF e = 0 THEN RatV(1, 1) ELSE LET r == RPow(a, e - 1) IN IF r.k = "ovf" THEN OvfV ELSE RMul(r, a)
RECURSIVE IPow(_, _)
IPow(a, e) == IF e = 0 THEN 1 ELSE LET r == IPow(a, e - 1) IN IF r = MaxInt + 1 \/ MulOvf(r, a) THEN MaxInt + 1 ELSE r * a
RECURSIVE Pow2(_)
Pow2(e) == IF e = 0 THEN 1 ELSE 2 * Pow2(e - 1)

-----------------------------------------------------------------------------
(* Characters and strings *)
Digits == <<"0","1","2","3","4","5","6","7","8","9">>
DigitVal(c) == CHOOSE i \in 0..9 : Digits[i + 1] = c
IsDigit(c) == \E i \in 1..10 : Digits[i] = c
HexLetters == <<"a","b","c","d","e","f">>
\* digit value in a base up to 16, or -1
BaseVal(c) == IF IsDigit(c) THEN DigitVal(c)
              ELSE IF \E i \in 1..6 : HexLetters[i] = c THEN 9 + CHOOSE i \in 1..6 : HexLetters[i] = c
              ELSE -1
Upper == <<"A","B","C","D","E","F","G","H","I","J","K","L","M","N","O","P","Q","R","S","T","U","V","W","X","Y","Z">>
Lower == <<"a","b","c","d","e","f","g","h","i","j","k","l","m","n","o","p","q","r","s","t","u","v","w","x","y","z">>
ToLowerC(c) == IF \E i \in 1..26 : Upper[i] = c THEN Lower[CHOOSE i \in 1..26 : Upper[i] = c] ELSE c
\* total order on the characters used (ASCII order): punctuation < digits < upper < lower
CharOrder == <<"-", ".", "/">> \o Digits \o <<":">> \o Upper \o <<"_">> \o Lower
Ord(c) == IF \E i \in 1..Len(CharOrder) : CharOrder[i] = c THEN CHOOSE i \in 1..Len(CharOrder) : CharOrder[i] = c ELSE 0
RECURSIVE StrLt(_, _)
StrLt(a, b) == IF b = <<>> THEN FALSE ELSE IF a = <<>> THEN TRUE
               ELSE IF Ord(Head(a)) # Ord(Head(b)) THEN Ord(Head(a)) < Ord(Head(b)) ELSE StrLt(Tail(a), Tail(b))

RECURSIVE IntToStr(_)
IntToStr(i) == IF i < 0 THEN <<"-">> \o IntToStr(-i)
               ELSE IF i < 10 THEN <<Digits[i + 1]>> ELSE IntToStr(i \div 10) \o <<Digits[(i % 10) + 1]>>

\* strconv.ParseInt(s, base, 64) for base in 2..16, no underscores: [ok, v] ; overflow beyond MaxInt -> ovf
RECURSIVE ParseDigits(_, _, _)
ParseDigits(s, base, acc) ==
  IF s = <<>> THEN acc
  ELSE LET dv == BaseVal(Head(s)) IN
       IF dv < 0 \/ dv >= base \/ acc < 0 THEN -1
       ELSE IF acc > MaxInt \div base THEN -2 ELSE ParseDigits(Tail(s), base, acc * base + dv)
ParseIntB(s, base) ==
  LET neg  == s # <<>> /\ Head(s) = "-"
      body == IF s # <<>> /\ Head(s) \in {"-", "+"} THEN Tail(s) ELSE s
      r    == IF body = <<>> THEN -1 ELSE ParseDigits(body, base, 0)
  IN IF r = -1 THEN [ok |-> FALSE, ovf |-> FALSE, v |-> 0]
     ELSE IF r = -2 THEN [ok |-> TRUE, ovf |-> TRUE, v |-> 0]
     ELSE [ok |-> TRUE, ovf |-> FALSE, v |-> IF neg THEN -r ELSE r]

\* strconv.ParseFloat for the forms  [+-]digits[.digits]  and  [+-].digits  (token vocabulary avoids exponents, inf, nan, hex)
IndexOfDot(s) == IF \E i \in 1..Len(s) : s[i] = "." THEN CHOOSE i \in 1..Len(s) : s[i] = "." /\ \A j \in 1..(i-1) : s[j] # "." ELSE 0
RECURSIVE Pow10(_)
Pow10(e) == IF e = 0 THEN 1 ELSE 10 * Pow10(e - 1)
ParseFloatS(s) ==
  LET neg  == s # <<>> /\ Head(s) = "-"
      body == IF s # <<>> /\ Head(s) \in {"-", "+"} THEN Tail(s) ELSE s
      dot  == IndexOfDot(body)
      ip   == IF dot = 0 THEN body ELSE SubSeq(body, 1, dot - 1)
      fp   == IF dot = 0 THEN <<>> ELSE SubSeq(body, dot + 1, Len(body))
      okc  == (ip \o fp) # <<>> /\ \A i \in 1..Len(ip \o fp) : IsDigit((ip \o fp)[i])
      big  == Len(ip \o fp) > 8
      num  == IF okc /\ ~big THEN ParseDigits(ip \o fp, 10, 0) ELSE 0
  IN IF ~okc THEN [ok |-> FALSE, ovf |-> FALSE, v |-> Null]
     ELSE IF big THEN [ok |-> TRUE, ovf |-> TRUE, v |-> Null]
     ELSE [ok |-> TRUE, ovf |-> FALSE, v |-> NormQ(IF neg THEN -num ELSE num, Pow10(Len(fp)))]

\* does the string contain only characters (no float-format atom)?
PureStr(s) == \A i \in 1..Len(s) : Len(s[i]) = 1

RECURSIVE StrReplaceAll(_, _, _)
StrReplaceAll(s, old, new) ==        \* strings.ReplaceAll with non-empty old
  IF Len(s) < Len(old) THEN s
  ELSE IF SubSeq(s, 1, Len(old)) = old THEN new \o StrReplaceAll(SubSeq(s, Len(old) + 1, Len(s)), old, new)
  ELSE <<Head(s)>> \o StrReplaceAll(Tail(s), old, new)
StrContains(s, sub) == \E i \in 1..(Len(s) - Len(sub) + 1) : SubSeq(s, i, i + Len(sub) - 1) = sub

\* value -> string as the VM's I2s / F2s conversions do.  Every float of the model is a dyadic rational
\* (typed grammar: float literals and tokens are dyadic, float division only by powers of two), so its
\* shortest round-trip decimal form (%g) is its exact finite decimal expansion.
RECURSIVE IsPow2(_), FracDigits(_, _)
IsPow2(d) == d = 1 \/ (d % 2 = 0 /\ IsPow2(d \div 2))
FracDigits(r, d) == IF r = 0 THEN <<>> ELSE <<Digits[((r * 10) \div d) + 1]>> \o FracDigits((r * 10) % d, d)
\* plain (non-exponent) %g form, no overflow in FracDigits; a float ZERO is excluded because IEEE has a negative
\* zero (-1.5 * 0 prints as "-0") that exact rationals cannot tell apart: such a case is dropped at that line
FloatStrOK(v) == IsPow2(v.d) /\ v.d <= 8192 /\ Abs(v.n) <= 100000000 /\ v.n # 0
FloatToStr(v) == LET a == Abs(v.n)  ip == a \div v.d  r == a % v.d IN
                 (IF v.n < 0 THEN <<"-">> ELSE <<>>) \o IntToStr(ip) \o (IF r = 0 THEN <<>> ELSE <<".">> \o FracDigits(r, v.d))
ToStr(v) == CASE v.k = "s" -> v.v
              [] v.k = "i" -> IntToStr(v.v)
              [] v.k = "f" -> IF FloatStrOK(v) THEN FloatToStr(v) ELSE << "~bad" >>
              [] OTHER -> << "~bad" >>
StrBad(s) == \E i \in 1..Len(s) : s[i] = "~bad"

-----------------------------------------------------------------------------
(* Pattern matching on token sequences.                                    *)
(* pattern p = [anch, w, caps]; concrete regex                             *)
(*   anch:  ^w (c1) (c2)(?: |$)      unanchored: (?:^| )w (c1) (c2)(?: |$)  *)
(* w = <<>> means no literal word; class d = \d+, f = \d+\.\d+, s = \S+     *)
IsIntTok(t)   == t # <<>> /\ \A i \in 1..Len(t) : IsDigit(t[i])
IsFloatTok(t) == LET dot == IndexOfDot(t) IN
                 /\ dot > 1 /\ dot < Len(t)
                 /\ \A i \in 1..Len(t) : i = dot \/ IsDigit(t[i])
ClassOK(k, t) == CASE k = "d" -> IsIntTok(t) [] k = "f" -> IsFloatTok(t) [] OTHER -> t # <<>>

MatchAt(p, line, i) ==      \* does the pattern match with its first element at token i ?
  LET nw == IF p.w = <<>> THEN 0 ELSE 1
      need == nw + Len(p.caps)
  IN /\ i + need - 1 <= Len(line)
     /\ (nw = 1 => line[i] = p.w)
     /\ \A j \in 1..Len(p.caps) : ClassOK(p.caps[j].k, line[i + nw + j - 1])
\* a pattern with neither word nor captures is /$/ : matches every line
Match(p, line) ==
  IF p.w = <<>> /\ p.caps = <<>> THEN [ok |-> TRUE, caps |-> <<>>]
  ELSE LET starts == IF p.anch THEN {1} ELSE 1..Len(line)
           hits == {i \in starts : MatchAt(p, line, i)}
       IN IF hits = {} THEN [ok |-> FALSE, caps |-> <<>>]
          ELSE LET i == CHOOSE i \in hits : \A j \in hits : i <= j
                   nw == IF p.w = <<>> THEN 0 ELSE 1
               IN [ok |-> TRUE, caps |-> [j \in 1..Len(p.caps) |-> line[i + nw + j - 1]]]

-----------------------------------------------------------------------------
(* The strptime table.  Layout ids and value tokens are fixed here; the     *)
(* harness checks every entry against time.ParseInLocation before use.     *)
(* Entry = instant id (a string the harness maps to a concrete instant) or *)
(* "" when the value does not parse under the layout.                      *)
Layouts == <<"2006-01-02T15:04:05Z07:00", "01/02/2006", "02/01/2006", "01/02">>
ParseTab(layout, val) ==
  CASE layout = 2 /\ val = <<"0","3","/","0","4","/","1","9","7","0">> -> "mdY-0304"
    [] layout = 3 /\ val = <<"0","3","/","0","4","/","1","9","7","0">> -> "dmY-0304"
    [] layout = 2 /\ val = <<"1","2","/","2","5","/","1","9","7","0">> -> "mdY-1225"
    [] layout = 3 /\ val = <<"2","5","/","1","2","/","1","9","7","0">> -> "dmY-2512"
    [] layout = 1 /\ val = <<"1","9","7","0","-","0","1","-","0","2","T","0","3",":","0","4",":","0","5","Z">> -> "rfc-a"
    [] layout = 4 /\ val = <<"0","3","/","0","4">> -> "y0-0304"          \* no year in the layout: year 0
    [] layout = 4 /\ val = <<"1","2","/","3","0">> -> "y0-1230"
    [] OTHER -> ""
\* instants of year 0 are only representable (as datum nanoseconds) once the current year is substituted
Yearless == {"y0-0304", "y0-1230"}

-----------------------------------------------------------------------------
(* State threaded through the evaluation of one line                       *)
(*  m     : metric name -> sequence of [l, v, t, e]  (insertion order)     *)
(*  time  : the timestamp register: Null (unset) | IntV | TimeV            *)
(*  caps  : pattern index -> [ok, c]  matched? and captured tokens           *)
(*  fl    : per-block "some conditional matched" flags are passed around   *)
(*          explicitly; `gm` is the VM-wide register of the deviation      *)
(*  err, stop, ovf : line-level outcome flags                              *)
(*  memo  : strptime memo (only read under the DEV_Memo switches)          *)
Stamp(st) == IF st.time = Null THEN NowV(st.li) ELSE st.time

DeclOf(P, name) == CHOOSE d \in {P.decls[i] : i \in 1..Len(P.decls)} : d.name = name
ZeroOf(ty) == CASE ty = "int" -> IntV(0) [] ty = "float" -> RatV(0, 1) [] OTHER -> StrV(<<>>)

FindLV(seq, labels) == IF \E i \in 1..Len(seq) : seq[i].l = labels
                       THEN CHOOSE i \in 1..Len(seq) : seq[i].l = labels ELSE 0

\* GetDatum: find or create (zero value, stamped now - a new datum is stamped with the zero time => now)
Touch(P, st, name, labels) ==
  IF FindLV(st.m[name], labels) # 0 THEN st
  ELSE [st EXCEPT !.m[name] = Append(@, [l |-> labels, v |-> ZeroOf(DeclOf(P, name).ty), t |-> NowV(st.li), e |-> 0])]
GetV(st, name, labels) == st.m[name][FindLV(st.m[name], labels)].v
SetV(st, name, labels, v) ==
  LET i == FindLV(st.m[name], labels) IN
  [st EXCEPT !.m[name][i].v = v, !.m[name][i].t = Stamp(st)]

\* capture storage is per match site (every regular expression occurrence has its own slot in the VM); a pattern
\* condition uses its pattern number as slot (the same text on the same line always matches the same way), a
\* `=~` site has a slot of its own because it may be skipped by a short-circuit
CapsAt(st, slot) == IF slot \in DOMAIN st.caps THEN st.caps[slot] ELSE [ok |-> FALSE, c |-> <<>>]
Fail(st)  == [st EXCEPT !.err = TRUE]
R(v, st)  == [v |-> v, st |-> st]
Dead(st)  == st.err \/ st.stop \/ st.ovf

\* conversion of a value to the declared type of a metric on assignment (Iset/Fset/Sset pop functions)
CoerceTo(ty, v) ==
  CASE ty = "int"    -> IF v.k = "i" THEN [ok |-> TRUE, v |-> v]
                        ELSE IF v.k = "s" /\ PureStr(v.v)
                             THEN LET p == ParseIntB(v.v, 10) IN [ok |-> p.ok /\ ~p.ovf, v |-> IF p.ovf THEN OvfV ELSE IntV(p.v)]
                        ELSE IF v.k \in {"t", "now"} THEN [ok |-> TRUE, v |-> v]
                        ELSE [ok |-> FALSE, v |-> [k |-> "fault"]]
    [] ty = "float"  -> IF v.k = "f" THEN [ok |-> TRUE, v |-> v]
                        ELSE IF v.k = "i" THEN [ok |-> TRUE, v |-> RatV(v.v, 1)]
                        ELSE IF v.k = "s" /\ PureStr(v.v)
                             THEN LET p == ParseFloatS(v.v) IN [ok |-> p.ok /\ ~p.ovf, v |-> IF p.ovf THEN OvfV ELSE p.v]
                        ELSE [ok |-> FALSE, v |-> [k |-> "fault"]]
    [] OTHER         -> [ok |-> TRUE, v |-> IF StrBad(ToStr(v)) THEN OvfV ELSE StrV(ToStr(v))]

-----------------------------------------------------------------------------
(* Expressions.  Eval returns [v, st]; st.err set => v meaningless.        *)
RECURSIVE Eval(_, _, _), EvalSeq(_, _, _, _), Labels(_, _, _)

ArithI(op, a, b) ==    \* both ints; returns value, "err" record for checked errors
  CASE op = "+"  -> IF Big(a + b) THEN OvfV ELSE IntV(a + b)
    [] op = "-"  -> IF Big(a - b) THEN OvfV ELSE IntV(a - b)
    [] op = "*"  -> IF MulOvf(a, b) THEN OvfV ELSE IntV(a * b)
    [] op = "/"  -> IF b = 0 THEN [k |-> "err"] ELSE IntV(TDiv(a, b))
    [] op = "%"  -> IF b = 0 THEN [k |-> "err"] ELSE IntV(TMod(a, b))
    [] op = "**" -> IF b > 12 THEN OvfV
                    ELSE IF b < 0 THEN       \* int64(math.Pow(a, b)): the reciprocal truncated toward zero
                         (IF a = 0 THEN OvfV ELSE IF a = 1 THEN IntV(1) ELSE IF a = -1 THEN IntV(IF b % 2 = 0 THEN 1 ELSE -1) ELSE IntV(0))
                    ELSE LET r == IPow(a, b) IN IF Big(r) THEN OvfV ELSE IntV(r)
    [] op = "<<" -> IF b < 0 THEN [k |-> "err"] ELSE IF b > 20 \/ Big(a) THEN OvfV
                    ELSE IF MulOvf(a, Pow2(b)) THEN OvfV ELSE IntV(a * Pow2(b))
    [] op = ">>" -> IF b < 0 THEN [k |-> "err"] ELSE IF b > 20 THEN OvfV
                    ELSE IntV(IF a >= 0 THEN a \div Pow2(b) ELSE -((-a + Pow2(b) - 1) \div Pow2(b)))   \* arithmetic shift = floor
    [] OTHER     -> [k |-> "fault"]

\* bitwise operators on small non-negative ints, bit by bit
RECURSIVE BitOp(_, _, _)
BitOp(op, a, b) == IF a = 0 /\ b = 0 THEN 0
                   ELSE LET x == a % 2  y == b % 2
                            z == CASE op = "&" -> IF x = 1 /\ y = 1 THEN 1 ELSE 0
                                   [] op = "|" -> IF x = 1 \/ y = 1 THEN 1 ELSE 0
                                   [] OTHER    -> IF x # y THEN 1 ELSE 0
                        IN z + 2 * BitOp(op, a \div 2, b \div 2)

ArithF(op, a, b) ==
  CASE op = "+"  -> RAdd(a, b)
    [] op = "-"  -> RSub(a, b)
    [] op = "*"  -> RMul(a, b)
    [] op = "/"  -> IF b.n = 0 THEN OvfV ELSE RDiv(a, b)      \* float division by zero gives Inf/NaN: outside the model
    [] op = "%"  -> IF b.n = 0 THEN OvfV ELSE RMod(a, b)
    [] op = "**" -> IF b.d # 1 \/ b.n < -4 \/ b.n > 8 THEN OvfV
                    ELSE IF b.n >= 0 THEN RPow(a, b.n)
                    ELSE IF a.n = 0 THEN OvfV                                  \* 0 ** -n = +Inf
                    ELSE LET r == RPow(a, -b.n) IN IF r.k = "ovf" THEN OvfV ELSE RDiv(RatV(1, 1), r)
    [] OTHER     -> [k |-> "fault"]

CmpOK(op, lt, eq) == CASE op = "<" -> lt [] op = "<=" -> lt \/ eq [] op = ">" -> ~lt /\ ~eq
                       [] op = ">=" -> ~lt [] op = "==" -> eq [] OTHER -> ~eq

Eval(P, e, st) ==
  IF Dead(st) THEN R(Null, st) ELSE
  CASE e.n = "int"   -> R(IntV(e.v), st)
    [] e.n = "float" -> R(RatV(e.v[1], e.v[2]), st)
    [] e.n = "str"   -> R(StrV(e.v), st)
    [] e.n = "cap"   ->
         LET c == CapsAt(st, e.slot) IN          \* slot = the match SITE the reference is bound to
         IF ~c.ok \/ Len(c.c) < e.g THEN R(Null, Fail(st))           \* capture of a pattern that did not match
         ELSE LET tok == c.c[e.g]  k == P.pats[e.p].caps[e.g].k IN
              IF k = "d" THEN LET p == ParseIntB(tok, 10) IN
                              IF p.ovf THEN R(Null, [st EXCEPT !.ovf = TRUE]) ELSE R(IntV(p.v), st)
              ELSE IF k = "f" THEN LET p == ParseFloatS(tok) IN
                              IF p.ovf THEN R(Null, [st EXCEPT !.ovf = TRUE]) ELSE R(p.v, st)
              ELSE R(StrV(tok), st)
    [] e.n = "var"   ->
         LET ls == Labels(P, e.idx, st) IN
         IF Dead(ls.st) THEN R(Null, ls.st)
         ELSE LET s1 == Touch(P, ls.st, e.m, ls.v) IN R(GetV(s1, e.m, ls.v), s1)
    [] e.n = "pat"   ->
         LET r == Match(P.pats[e.p], st.line) IN
         R(BoolV(r.ok), [st EXCEPT !.caps = (e.p :> [ok |-> r.ok, c |-> r.caps]) @@ @])
    [] e.n = "pmatch" ->     \* l =~ /pattern p/ : the pattern is applied to the string as a one-token line; its captures are
                             \* recorded for the block (and NOT recorded when a short-circuit skips this expression)
         LET a == Eval(P, e.l, st) IN
         IF Dead(a.st) THEN a
         ELSE LET str == ToStr(a.v)
                  r == Match(P.pats[e.p], IF str = <<>> THEN <<>> ELSE <<str>>)
              IN IF StrBad(str) THEN R(Null, [a.st EXCEPT !.ovf = TRUE])
                 ELSE R(BoolV(r.ok), [a.st EXCEPT !.caps = (e.slot :> [ok |-> r.ok, c |-> r.caps]) @@ @])
    [] e.n = "smatch" ->     \* l =~ /s/  or  l !~ /s/ ; the regex is a quoted literal, optionally anchored at ^
         LET a == Eval(P, e.l, st) IN
         IF Dead(a.st) THEN a
         ELSE LET str == ToStr(a.v)
                  hit == IF e.a THEN Len(str) >= Len(e.s) /\ SubSeq(str, 1, Len(e.s)) = e.s ELSE StrContains(str, e.s)
              IN R(BoolV(IF e.neg THEN ~hit ELSE hit), a.st)
    [] e.n = "bin"   ->
         IF e.op = "&&" THEN
              LET a == Eval(P, e.l, st) IN
              IF Dead(a.st) THEN a ELSE IF ~a.v.v THEN R(BoolV(FALSE), a.st)
              ELSE LET b == Eval(P, e.r, a.st) IN IF Dead(b.st) THEN b ELSE R(BoolV(b.v.v), b.st)
         ELSE IF e.op = "||" THEN
              LET a == Eval(P, e.l, st) IN
              IF Dead(a.st) THEN a ELSE IF a.v.v THEN R(BoolV(TRUE), a.st)
              ELSE LET b == Eval(P, e.r, a.st) IN IF Dead(b.st) THEN b ELSE R(BoolV(b.v.v), b.st)
         ELSE
           LET a == Eval(P, e.l, st) IN IF Dead(a.st) THEN a ELSE
           LET b == Eval(P, e.r, a.st) IN IF Dead(b.st) THEN b ELSE
           LET x == a.v  y == b.v  s2 == b.st IN
           IF e.op \in {"<", "<=", ">", ">=", "==", "!="} THEN
                IF x.k = "s" /\ y.k = "s" THEN R(BoolV(CmpOK(e.op, StrLt(x.v, y.v), x.v = y.v)), s2)
                ELSE IF IsNum(x) /\ IsNum(y) THEN R(BoolV(CmpOK(e.op, RLt(ToRat(x), ToRat(y)), REq(ToRat(x), ToRat(y)))), s2)
                ELSE R(Null, [s2 EXCEPT !.ovf = TRUE])               \* outside the typed grammar
           ELSE IF e.op = "cat" THEN
                IF StrBad(ToStr(x) \o ToStr(y)) THEN R(Null, [s2 EXCEPT !.ovf = TRUE]) ELSE R(StrV(ToStr(x) \o ToStr(y)), s2)
           ELSE IF e.op \in {"&", "|", "^"} THEN
                IF x.k = "i" /\ y.k = "i" /\ x.v >= 0 /\ y.v >= 0 THEN R(IntV(BitOp(e.op, x.v, y.v)), s2)
                ELSE R(Null, [s2 EXCEPT !.ovf = TRUE])
           ELSE IF x.k = "i" /\ y.k = "i" THEN
                LET r == ArithI(e.op, x.v, y.v) IN
                IF r.k = "err" THEN R(Null, Fail(s2)) ELSE IF r.k = "ovf" THEN R(Null, [s2 EXCEPT !.ovf = TRUE]) ELSE R(r, s2)
           ELSE IF IsNum(x) /\ IsNum(y) /\ e.op \notin {"<<", ">>"} THEN
                LET r == ArithF(e.op, ToRat(x), ToRat(y)) IN
                IF r.k = "ovf" THEN R(Null, [s2 EXCEPT !.ovf = TRUE]) ELSE R(r, s2)
           ELSE R(Null, [s2 EXCEPT !.ovf = TRUE])
    [] e.n \in {"assign", "addassign", "inc", "dec"} ->
         LET ls == Labels(P, e.idx, st) IN
         IF Dead(ls.st) THEN R(Null, ls.st)
         \* ++ on a histogram is accepted by the compiler and faults in the VM (datum is not an Int): for the
         \* semantics of a LINE that is a runtime error like any other - the rest of the line is skipped
         ELSE IF DeclOf(P, e.m).kind = "histogram" THEN R(Null, Fail(ls.st)) ELSE
         LET s1 == Touch(P, ls.st, e.m, ls.v)       \* the datum exists before the right-hand side runs
             ty == DeclOf(P, e.m).ty IN
         \* ++ / -- are expressions: their value is the new value of the datum
         IF e.n = "inc" THEN LET nv == IF Big(GetV(s1, e.m, ls.v).v + 1) THEN OvfV ELSE IntV(GetV(s1, e.m, ls.v).v + 1) IN
                             IF nv.k = "ovf" THEN R(Null, [s1 EXCEPT !.ovf = TRUE]) ELSE R(nv, SetV(s1, e.m, ls.v, nv))
         ELSE IF e.n = "dec" THEN LET nv == IntV(GetV(s1, e.m, ls.v).v - 1) IN R(nv, SetV(s1, e.m, ls.v, nv))
         ELSE LET r == Eval(P, e.r, s1) IN
              IF Dead(r.st) THEN R(Null, r.st) ELSE
              LET s2 == Touch(P, r.st, e.m, ls.v)     \* (the right-hand side may have deleted it: not generated)
                  c == CoerceTo(ty, r.v) IN
              IF ~c.ok THEN R(Null, Fail(s2))
              ELSE IF c.v.k = "ovf" THEN R(Null, [s2 EXCEPT !.ovf = TRUE])
              ELSE IF e.n = "assign" THEN R(Null, SetV(s2, e.m, ls.v, c.v))
              ELSE LET old == GetV(s2, e.m, ls.v)
                       nv == CASE ty = "int"   -> ArithI("+", old.v, c.v.v)
                               [] ty = "float" -> RAdd(old, c.v)
                               [] OTHER        -> StrV(old.v \o c.v.v)
                   IN IF nv.k = "ovf" THEN R(Null, [s2 EXCEPT !.ovf = TRUE]) ELSE R(Null, SetV(s2, e.m, ls.v, nv))
    [] e.n = "call" ->
         IF e.f = "timestamp" THEN R(IF st.time = Null THEN NowV(st.li) ELSE st.time, st)
         ELSE IF e.f = "getfilename" THEN R(StrV(st.file), st)
         ELSE LET as == EvalSeq(P, e.args, st, <<>>) IN
              IF Dead(as.st) THEN R(Null, as.st) ELSE
              LET a == as.v  s1 == as.st IN
              CASE e.f = "len"     -> R(IntV(Len(ToStr(a[1]))), s1)
                [] e.f = "tolower" -> R(StrV([i \in 1..Len(ToStr(a[1])) |-> ToLowerC(ToStr(a[1])[i])]), s1)
                [] e.f = "subst"   -> R(StrV(StrReplaceAll(ToStr(a[3]), ToStr(a[1]), ToStr(a[2]))), s1)
                [] e.f = "string"  -> IF StrBad(ToStr(a[1])) THEN R(Null, [s1 EXCEPT !.ovf = TRUE]) ELSE R(StrV(ToStr(a[1])), s1)
                [] e.f = "int"     -> LET c == CoerceTo("int", a[1]) IN
                                      IF ~c.ok THEN R(Null, Fail(s1)) ELSE IF c.v.k = "ovf" THEN R(Null, [s1 EXCEPT !.ovf = TRUE]) ELSE R(c.v, s1)
                [] e.f = "float"   -> LET c == CoerceTo("float", a[1]) IN
                                      IF ~c.ok THEN R(Null, Fail(s1)) ELSE IF c.v.k = "ovf" THEN R(Null, [s1 EXCEPT !.ovf = TRUE]) ELSE R(c.v, s1)
                [] e.f = "strtol"  -> LET base == a[2].v IN
                                      IF base <= 0 THEN R(Null, Fail(s1))
                                      ELSE IF base = 1 \/ base > 16 THEN R(Null, [s1 EXCEPT !.ovf = TRUE])
                                      ELSE LET p == ParseIntB(ToStr(a[1]), base) IN
                                           IF ~p.ok THEN R(Null, Fail(s1)) ELSE IF p.ovf THEN R(Null, [s1 EXCEPT !.ovf = TRUE]) ELSE R(IntV(p.v), s1)
                [] e.f = "settime" -> R(Null, [s1 EXCEPT !.time = a[1]])
                [] e.f = "strptime" ->        \* strptime(value, layout): layout is a literal, args[2] = int index into Layouts
                     LET val == ToStr(a[1])  lay == e.args[2].v
                         key == IF DEV_MemoKeyedByValueOnly THEN <<0, val>> ELSE <<lay, val>>
                         hit == key \in DOMAIN s1.memo
                         res == IF hit THEN s1.memo[key] ELSE ParseTab(lay, val) IN
                     IF res = "" THEN
                          IF hit /\ DEV_MemoCachesFailure THEN R(Null, [s1 EXCEPT !.time = Null])     \* cached zero time, no error
                          ELSE R(Null, Fail([s1 EXCEPT !.time = Null,
                                                       !.memo = IF DEV_MemoCachesFailure THEN (key :> "") @@ @ ELSE @]))
                     ELSE IF res \in Yearless /\ ~YearOpt THEN R(Null, [s1 EXCEPT !.ovf = TRUE])
                     ELSE R(Null, [s1 EXCEPT !.time = TimeV(res), !.memo = (key :> res) @@ @])
                [] OTHER -> R(Null, [s1 EXCEPT !.ovf = TRUE])
    [] OTHER -> R(Null, [st EXCEPT !.ovf = TRUE])

EvalSeq(P, es, st, acc) ==
  IF es = <<>> \/ Dead(st) THEN R(acc, st)
  ELSE LET r == Eval(P, Head(es), st) IN EvalSeq(P, Tail(es), r.st, Append(acc, r.v))

\* index expressions -> label strings
Labels(P, idx, st) ==
  LET r == EvalSeq(P, idx, st, <<>>) IN
  IF Dead(r.st) THEN r
  ELSE LET ls == [i \in 1..Len(r.v) |-> ToStr(r.v[i])] IN
       IF \E i \in 1..Len(ls) : StrBad(ls[i]) THEN R(ls, [r.st EXCEPT !.ovf = TRUE]) ELSE R(ls, r.st)

-----------------------------------------------------------------------------
(* Statements.  Exec returns the state; `fl` (did some conditional of THIS *)
(* block match so far) is threaded per block in the ideal semantics; under *)
(* DEV_OtherwiseFlagIsGlobal the single register st.gm is used as the VM   *)
(* does: cleared on entering a taken block, set after it, never reset on   *)
(* entering an else block.  `deco` is the stack of decorated blocks.       *)
RECURSIVE Exec(_, _, _, _, _)
\* Exec(P, stmts, st, fl, deco) -> [st, fl]
X(st, fl) == [st |-> st, fl |-> fl]
DecoDef(P, name) == CHOOSE d \in {P.decos[i] : i \in 1..Len(P.decos)} : d.name = name

Exec(P, ss, st, fl, deco) ==
  IF ss = <<>> \/ Dead(st) THEN X(st, fl) ELSE
  LET s == Head(ss)  rest == Tail(ss) IN
  CASE s.n = "cond" ->
         LET c == Eval(P, s.c, st) IN
         IF Dead(c.st) THEN X(c.st, fl)
         ELSE IF c.v.v THEN
              LET b == Exec(P, s.t, [c.st EXCEPT !.gm = FALSE], FALSE, deco)
                  s1 == IF Dead(b.st) THEN b.st ELSE [b.st EXCEPT !.gm = TRUE]
              IN Exec(P, rest, s1, TRUE, deco)
         ELSE IF s.he THEN
              LET b == Exec(P, s.e, c.st, FALSE, deco) IN Exec(P, rest, b.st, fl, deco)
         ELSE Exec(P, rest, c.st, fl, deco)
    [] s.n = "otherwise" ->
         LET fire == IF DEV_OtherwiseFlagIsGlobal THEN ~st.gm ELSE ~fl IN
         IF fire THEN
              LET b == Exec(P, s.t, [st EXCEPT !.gm = FALSE], FALSE, deco)
                  s1 == IF Dead(b.st) THEN b.st ELSE [b.st EXCEPT !.gm = TRUE]
              IN Exec(P, rest, s1, TRUE, deco)
         ELSE Exec(P, rest, st, fl, deco)
    [] s.n = "expr" -> Exec(P, rest, Eval(P, s.e, st).st, fl, deco)
    [] s.n = "del" ->
         LET ls == Labels(P, s.idx, st) IN
         IF Dead(ls.st) THEN X(ls.st, fl)
         ELSE LET i == FindLV(ls.st.m[s.m], ls.v)
                  s1 == IF i = 0 THEN ls.st ELSE [ls.st EXCEPT !.m[s.m] = RemoveAt(@, i)]
              IN Exec(P, rest, s1, fl, deco)
    [] s.n = "delafter" ->
         LET ls == Labels(P, s.idx, st) IN
         IF Dead(ls.st) THEN X(ls.st, fl)
         ELSE LET i == FindLV(ls.st.m[s.m], ls.v) IN
              IF i = 0 THEN X(Fail(ls.st), fl)                    \* missing datum for a delayed delete
              ELSE Exec(P, rest, [ls.st EXCEPT !.m[s.m][i].e = s.h], fl, deco)
    [] s.n = "deco" ->
         LET b == Exec(P, DecoDef(P, s.name).body, st, FALSE, <<s.t>> \o deco) IN Exec(P, rest, b.st, fl, deco)
    [] s.n = "next" ->
         LET b == Exec(P, Head(deco), st, FALSE, Tail(deco)) IN Exec(P, rest, b.st, fl, deco)
    [] s.n = "stop" -> X([st EXCEPT !.stop = TRUE], fl)
    [] OTHER -> X([st EXCEPT !.ovf = TRUE], fl)

-----------------------------------------------------------------------------
(* One line.  mem = [m, memo]: the metrics (the ONLY thing the reference    *)
(* lets a line depend on) and the memo of the implementation-shaped layer. *)
InitMetrics(P) ==
  [name \in {P.decls[i].name : i \in 1..Len(P.decls)} |->
     LET d == DeclOf(P, name) IN
     IF d.kind = "counter" /\ d.keys = <<>>
     THEN << [l |-> <<>>, v |-> ZeroOf(d.ty), t |-> IntV(0), e |-> 0] >>      \* scalar counters start at 0 at the epoch
     ELSE <<>>]
InitMem(P) == [m |-> InitMetrics(P), memo |-> <<>>]

ExecLine(P, mem, line, file, li) ==
  LET st0 == [m |-> mem.m, memo |-> mem.memo, time |-> Null,
              caps |-> [i \in 1..Len(P.pats) |-> [ok |-> FALSE, c |-> <<>>]], line |-> line, file |-> file, li |-> li,
              gm |-> FALSE, err |-> FALSE, stop |-> FALSE, ovf |-> FALSE]
      r == Exec(P, P.body, st0, FALSE, <<>>).st
  IN [m |-> r.m, memo |-> r.memo, err |-> r.err, ovf |-> r.ovf]
=============================================================================
