---------------------------- MODULE TraceSystem ----------------------------
(***************************************************************************)
(* Direction B for C19: validates the hook events of REAL one-shot runs    *)
(* of mtail (harness internal/verif/c19: mtail.New(.., OneShot) + Run on   *)
(* generated programs and log files, -race, GOMAXPROCS 1/2/16, seeded      *)
(* sleeps at the hook points) against System.tla.                          *)
(*                                                                         *)
(* The file holds many traces; each starts with a "reset" record (number   *)
(* of programs, the files with the text of every line, and - a prophecy -  *)
(* the order in which the fan-out goroutine received the lines) and ends   *)
(* with "end".  Every reset record is an initial state.                    *)
(*                                                                         *)
(* Hook events carry one sequence number taken under the hook lock.  Some  *)
(* hooks sit BEFORE the step they announce - they ARE the step:            *)
(*   lr.line / lr.finish (before the stream's send)  StreamOffer/Finish    *)
(*   vm.line.end (deferred, before the VM's next receive)  VmEnd           *)
(*   tail.remove (forwarder leaves the map)          FwdRemove             *)
(*   tail.close (before close(lines))                TBClose               *)
(*   vm.exit (after the VM's range loop ended)       VmSeesClose           *)
(* the others are logged AFTER a rendezvous completed and only assert that *)
(* the model has made that step:                                           *)
(*   tail.fwd, rt.line.recv (FanRecv), rt.line.sent, vm.line.start         *)
(*   (FanSend), run.returned (RunReturn).                                  *)
(* All other steps are silent.  Because every silent step is a hand-over   *)
(* or a wait-group step that nothing can undo, and the one real choice     *)
(* (which forwarder the fan-out goroutine serves next) is fixed by the     *)
(* prophecy, the silent steps are confluent: the trace specification runs  *)
(* them eagerly in a fixed priority order (maximal progress), so the model *)
(* is never behind the real system and an observation is rejected exactly  *)
(* when even maximal progress cannot explain it.  Validation is therefore  *)
(* deterministic: one successor per state.                                 *)
(***************************************************************************)
EXTENDS System, Json

CONSTANT TraceFile
Trace == ndJsonDeserialize(TraceFile)

VARIABLES l,       \* index of the next event
          tr,      \* index of the reset record of this trace
          oFwd,    \* file -> tail.fwd events seen
          oRecv,   \* rt.line.recv events seen
          oSent,   \* program -> rt.line.sent events seen
          oStart   \* program -> vm.line.start events seen
tvars == <<vars, l, tr, oFwd, oRecv, oSent, oStart>>

N == Len(Trace)
Starts == {i \in 1..N : Trace[i].ev = "reset"}
R == Trace[tr]
FilesOf(r) == [f \in 1..Len(r.files) |-> [n |-> Len(r.files[f].lines), tail |-> r.files[f].tail]]
Text(f, i) == R.files[f].lines[i]
G == R.order                       \* prophecy: <<file, index>> in the order the fan-out goroutine received them

TInit == \E i \in Starts :
           /\ InitWith(Trace[i].nprogs, FilesOf(Trace[i]))
           /\ l = i + 1 /\ tr = i
           /\ oFwd = [f \in 1..Len(Trace[i].files) |-> 0] /\ oRecv = 0
           /\ oSent = [p \in 1..Trace[i].nprogs |-> 0] /\ oStart = [p \in 1..Trace[i].nprogs |-> 0]
           /\ TLCSet(Trace[i].id, i + 1)

Ev     == Trace[l]
NextEv == IF l <= N THEN Trace[l].ev ELSE "eof"
Is(e)  == NextEv = e
Consume == /\ l' = l + 1 /\ tr' = tr
           /\ TLCSet(R.id, IF TLCGet(R.id) < l + 1 THEN l + 1 ELSE TLCGet(R.id))
Keep   == l' = l /\ tr' = tr /\ UNCHANGED <<oFwd, oRecv, oSent, oStart>>
NoObs  == UNCHANGED <<oFwd, oRecv, oSent, oStart>>

-----------------------------------------------------------------------------
(* silent steps, eager, in a fixed priority order *)
CanFwdRecv(f)   == st[f].pc = "offer" /\ fw[f].pc = "recv"
CanFanRecv(f)   == /\ fw[f].pc = "send" /\ fan.pc = "recv" /\ ~lclosed
                   /\ Len(sentall) < Len(G) /\ G[Len(sentall) + 1] = fw[f].line
CanFanSend(p)   == fan.pc = "send" /\ p \in fan.todo /\ vm[p].pc = "recv" /\ ~hclosed[p]
CanStreamEof(f) == st[f].pc = "read" /\ st[f].i = Terminated(f)
CanSeeClose(f)  == fw[f].pc = "recv" /\ sclosed[f]
CanTAWait       == tA = "wait" /\ twg = 0
CanTBCtx        == tB = "ctx" /\ tctx
CanTBWait       == tB = "wait" /\ twg = 0
CanFanEnd       == lclosed /\ fan.pc = "recv" /\ \A f \in F : fw[f].pc # "send"
CanSigExit      == sig = "wait" /\ fan.pc = "done"
CanRtWait       == rsh = "wait" /\ rwg = 0
CanRunReturn    == ~returned /\ mwg = 0
First(S, c) == c \in S /\ \A d \in S : d >= c
SF1 == {f \in F : CanFwdRecv(f)}
SF2 == {f \in F : CanFanRecv(f)}
SP3 == {p \in Progs : CanFanSend(p)}
SF4 == {f \in F : CanStreamEof(f)}
SF5 == {f \in F : st[f].pc = "close"}
SF6 == {f \in F : st[f].pc = "exit"}
SF7 == {f \in F : CanSeeClose(f)}
SP8 == {p \in Progs : vm[p].pc = "exit"}
AnySilent == \/ SF1 # {} \/ SF2 # {} \/ SP3 # {} \/ SF4 # {} \/ SF5 # {} \/ SF6 # {} \/ SF7 # {} \/ SP8 # {}
             \/ CanTAWait \/ CanTBCtx \/ CanTBWait \/ CanFanEnd \/ CanSigExit \/ CanRtWait \/ CanRunReturn
SilentStep ==
  IF SF1 # {} THEN \E f \in F : First(SF1, f) /\ FwdRecv(f)
  ELSE IF SF2 # {} THEN \E f \in F : First(SF2, f) /\ FanRecv(f)
  ELSE IF SP3 # {} THEN \E p \in Progs : First(SP3, p) /\ FanSend(p)
  ELSE IF SF4 # {} THEN \E f \in F : First(SF4, f) /\ StreamEof(f)
  ELSE IF SF5 # {} THEN \E f \in F : First(SF5, f) /\ StreamClose(f)
  ELSE IF SF6 # {} THEN \E f \in F : First(SF6, f) /\ StreamExit(f)
  ELSE IF SF7 # {} THEN \E f \in F : First(SF7, f) /\ FwdSeesClose(f)
  ELSE IF SP8 # {} THEN \E p \in Progs : First(SP8, p) /\ VmExit(p)
  ELSE IF CanTAWait THEN TAWait
  ELSE IF CanTBCtx THEN TBCtx
  ELSE IF CanTBWait THEN TBWait
  ELSE IF CanFanEnd THEN FanEnd
  ELSE IF CanSigExit THEN SigExit
  ELSE IF CanRtWait THEN RtWait
  ELSE RunReturn

-----------------------------------------------------------------------------
(* events that ARE a step of the system *)
TLrLine   == /\ Is("lr.line") /\ StreamOffer(Ev.f)
             /\ Ev.line = Text(Ev.f, st[Ev.f].i + 1) /\ NoObs /\ Consume
TLrFinish == /\ Is("lr.finish") /\ StreamFinish(Ev.f)
             /\ Ev.line = Text(Ev.f, st[Ev.f].i + 1) /\ NoObs /\ Consume
TVmEnd    == /\ Is("vm.line.end") /\ VmEnd(Ev.p)
             /\ vm[Ev.p].line[1] = Ev.f /\ Ev.line = Text(Ev.f, vm[Ev.p].line[2])
             /\ oStart[Ev.p] = Len(processed[Ev.p])          \* its vm.line.start was logged before
             /\ NoObs /\ Consume
TRemove   == Is("tail.remove") /\ FwdRemove(Ev.f) /\ NoObs /\ Consume
TClose    == Is("tail.close") /\ TBClose /\ NoObs /\ Consume
TVmExit   == /\ Is("vm.exit") /\ VmSeesClose(Ev.p)
             /\ oStart[Ev.p] = Len(processed[Ev.p]) /\ NoObs /\ Consume

(* events that assert a step has been made *)
Count(s, f) == Len(Restrict(s, f))
TFwd  == /\ Is("tail.fwd")
         /\ oFwd[Ev.f] < Count(sentall, Ev.f) /\ Ev.line = Text(Ev.f, oFwd[Ev.f] + 1)
         /\ oFwd' = [oFwd EXCEPT ![Ev.f] = @ + 1]
         /\ UNCHANGED <<vars, oRecv, oSent, oStart>> /\ Consume
TRecv == /\ Is("rt.line.recv")
         /\ oRecv < Len(sentall) /\ sentall[oRecv + 1][1] = Ev.f /\ Ev.line = Text(Ev.f, sentall[oRecv + 1][2])
         /\ Ev.nprogs = np
         /\ oRecv' = oRecv + 1
         /\ UNCHANGED <<vars, oFwd, oSent, oStart>> /\ Consume
TSent == /\ Is("rt.line.sent")
         /\ oSent[Ev.p] < Len(processed[Ev.p])
         /\ LET x == processed[Ev.p][oSent[Ev.p] + 1] IN x[1] = Ev.f /\ Ev.line = Text(Ev.f, x[2])
         /\ oSent' = [oSent EXCEPT ![Ev.p] = @ + 1]
         /\ UNCHANGED <<vars, oFwd, oRecv, oStart>> /\ Consume
TStart == /\ Is("vm.line.start")
          /\ oStart[Ev.p] < Len(processed[Ev.p])
          /\ LET x == processed[Ev.p][oStart[Ev.p] + 1] IN x[1] = Ev.f /\ Ev.line = Text(Ev.f, x[2])
          /\ oStart' = [oStart EXCEPT ![Ev.p] = @ + 1]
          /\ UNCHANGED <<vars, oFwd, oRecv, oSent>> /\ Consume
\* Run returned (harness, after m.Run()): everything has been processed and observed
TReturned == /\ Is("run.returned") /\ returned
             /\ \A p \in Progs : oStart[p] = Len(processed[p]) /\ oSent[p] = Len(processed[p])
             /\ oRecv = Len(sentall) /\ \A f \in F : oFwd[f] = files[f].n
             /\ UNCHANGED vars /\ NoObs /\ Consume
TEnd == /\ Is("end") /\ UNCHANGED vars /\ NoObs /\ Consume
        /\ PrintT(<<"CASE", ToJson([accept |-> R.id])>>)

EventStep == TLrLine \/ TLrFinish \/ TVmEnd \/ TRemove \/ TClose \/ TVmExit
             \/ TFwd \/ TRecv \/ TSent \/ TStart \/ TReturned \/ TEnd
TNext == IF AnySilent THEN SilentStep /\ Keep ELSE EventStep
TSpec == TInit /\ [][TNext]_tvars

\* POSTCONDITION: report the high-water mark of every trace
Post == \A i \in Starts : PrintT(<<"CASE", ToJson([tr |-> Trace[i].id, hw |-> TLCGet(Trace[i].id)])>>)
=============================================================================
