-------------------------------- MODULE Lexer --------------------------------
(***************************************************************************)
(* internal/runtime/compiler/parser/lexer.go as a state machine over       *)
(* character CLASSES (property C03: the compiler front end terminates on   *)
(* any input).  One action = one invocation of lexProg together with the   *)
(* state function it hands over to (lexComment, lexNumeric/lexDuration,    *)
(* lexQuotedString, lexCapref, lexDecorator, lexIdentifier, lexRegex).     *)
(* The parser's feedback `InRegex` is an input: after each DIV token the   *)
(* driver may switch the lexer into regex mode (sequence rx).              *)
(*                                                                         *)
(* Properties: Progress (every invocation consumes input or ends the       *)
(* lexing - no livelock), and the emitted token kinds, which the harness   *)
(* compares with the REAL lexer on the concretised string.                 *)
(*                                                                         *)
(* Classes (concrete representative):  NL \n, SP ' ', DG 7, AL k, EE e,    *)
(* SU s (duration suffix), DOT ., MI -, PL +, QU ", BS \, SL /, HA #,      *)
(* DO $, AT @, EQ =, TI ~, BA !, LT <, AM &, ST *, PU {, US _, OT ?,       *)
(* IV (the byte 0xff, invalid UTF-8), EA (U+2424, the lexer's EOF alias).  *)
(***************************************************************************)
EXTENDS Integers, Sequences, FiniteSets, Json, TLC

CONSTANTS MaxLen, Classes, EmitCases

VARIABLES inp,    \* classes not yet read by the lexer
          toks,   \* token kinds emitted so far
          rx,     \* for each future DIV token: does the parser enter regex mode after it?
          inrx,   \* Lexer.InRegex
          done, src, rx0
vars == <<inp, toks, rx, inrx, done, src, rx0>>

At(s, i) == IF i <= Len(s) THEN s[i] ELSE "END"        \* END: the reader is exhausted (next() = eof)
IsEof(c) == c \in {"END", "EA"}
Alnum(c) == c \in {"DG", "AL", "EE", "SU"}
RECURSIVE Span(_, _, _)
\* number of leading characters of s (from position i) whose class is in S
Span(s, i, S) == IF At(s, i) \in S THEN 1 + Span(s, i + 1, S) ELSE 0
\* backup() does not unread when the lookahead was eof: an EOF-alias lookahead is swallowed
After(s, n) == IF At(s, n + 1) = "EA" THEN n + 1 ELSE n
Rest(s, n) == SubSeq(s, n + 1, Len(s))

\* lexNumeric entered with the first character at position i (a leading '-' already accepted); returns [n, k]
\* n = characters consumed up to and including position .., k = token kind
Numeric(s, i) ==
  LET d1 == Span(s, i, {"DG"})
      j1 == i + d1
      c1 == At(s, j1)
  IN IF c1 \notin {"DOT", "EE", "SU"} THEN [n |-> After(s, j1 - 1), k |-> "INTLITERAL"]
     ELSE LET j2 == IF c1 = "DOT" THEN j1 + 1 + Span(s, j1 + 1, {"DG"}) ELSE j1
              c2 == At(s, j2)
              j3 == IF c2 = "EE"
                    THEN LET sg == IF At(s, j2 + 1) \in {"PL", "MI"} THEN 1 ELSE 0
                         IN j2 + 1 + sg + Span(s, j2 + 1 + sg, {"DG"})
                    ELSE j2
              \* NOTE: in the exponent branch the sign is accepted only when next() returned it; an EOF alias
              \* there is swallowed by the following next()
              c3 == At(s, j3)
          IN IF c3 = "SU"
             THEN LET j4 == j3 + 1 + Span(s, j3 + 1, {"DG", "DOT", "MI", "PL", "SU"})
                  IN [n |-> After(s, j4 - 1), k |-> "DURATIONLITERAL"]
             ELSE [n |-> After(s, j3 - 1), k |-> "FLOATLITERAL"]

\* quoted string / regex body starting at position i: returns [n, k]
RECURSIVE Quoted(_, _, _)
Quoted(s, i, term) ==        \* term = "QU" (string, terminator consumed) or "SL" (regex, terminator left)
  LET c == At(s, i) IN
  IF c = term THEN [n |-> IF term = "QU" THEN i ELSE i - 1, k |-> IF term = "QU" THEN "STRING" ELSE "REGEX"]
  ELSE IF c = "END" THEN [n |-> Len(s), k |-> "INVALID"]
  ELSE IF c \in {"NL", "EA"} THEN [n |-> i, k |-> "INVALID"]                   \* read by next(), never backed up: swallowed
  ELSE IF c = "BS" THEN
       LET e == At(s, i + 1) IN
       IF e = "END" THEN [n |-> Len(s), k |-> "INVALID"]
       ELSE IF e \in {"NL", "EA"} THEN [n |-> i + 1, k |-> "INVALID"]
       ELSE Quoted(s, i + 2, term)
  ELSE Quoted(s, i + 1, term)

TwoChar(s, table, single) ==      \* operators of one or two characters
  LET c == At(s, 2) IN
  IF \E p \in table : p[1] = c THEN [n |-> 2, k |-> (CHOOSE p \in table : p[1] = c)[2]]
  ELSE [n |-> After(s, 1), k |-> single]

\* one lexProg invocation on a non-empty remaining input (or at the end): [n consumed, k kind or "" for no token, stop]
ProgStep(s) ==
  LET c == At(s, 1) IN
  CASE IsEof(c)   -> [n |-> IF c = "EA" THEN 1 ELSE 0, k |-> "EOF", stop |-> TRUE]
    [] c = "NL"   -> [n |-> 1, k |-> "NL", stop |-> FALSE]
    [] c = "HA"   -> LET m == Span(s, 2, Classes \ {"NL", "EA"})      \* lexComment: to the newline (swallowed) or eof
                     IN [n |-> IF At(s, m + 2) \in {"NL", "EA"} THEN m + 2 ELSE m + 1, k |-> "", stop |-> FALSE]
    [] c = "SP"   -> [n |-> 1, k |-> "", stop |-> FALSE]
    [] c = "PU"   -> [n |-> 1, k |-> "LCURLY", stop |-> FALSE]
    [] c = "MI"   -> IF At(s, 2) = "MI" THEN [n |-> 2, k |-> "DEC", stop |-> FALSE]
                     ELSE IF At(s, 2) = "DG" THEN LET r == Numeric(s, 2) IN [n |-> r.n, k |-> r.k, stop |-> FALSE]
                     ELSE [n |-> After(s, 1), k |-> "MINUS", stop |-> FALSE]
    [] c = "PL"   -> LET r == TwoChar(s, {<<"PL", "INC">>, <<"EQ", "ADD_ASSIGN">>}, "PLUS") IN [n |-> r.n, k |-> r.k, stop |-> FALSE]
    [] c = "ST"   -> LET r == TwoChar(s, {<<"ST", "POW">>}, "MUL") IN [n |-> r.n, k |-> r.k, stop |-> FALSE]
    [] c = "EQ"   -> LET r == TwoChar(s, {<<"EQ", "EQ">>, <<"TI", "MATCH">>}, "ASSIGN") IN [n |-> r.n, k |-> r.k, stop |-> FALSE]
    [] c = "LT"   -> LET r == TwoChar(s, {<<"EQ", "LE">>, <<"LT", "SHL">>}, "LT") IN [n |-> r.n, k |-> r.k, stop |-> FALSE]
    [] c = "BA"   -> LET r == TwoChar(s, {<<"EQ", "NE">>, <<"TI", "NOT_MATCH">>}, "INVALID") IN [n |-> r.n, k |-> r.k, stop |-> FALSE]
    [] c = "SL"   -> [n |-> 1, k |-> "DIV", stop |-> FALSE]
    [] c = "AM"   -> LET r == TwoChar(s, {<<"AM", "AND">>}, "BITAND") IN [n |-> r.n, k |-> r.k, stop |-> FALSE]
    [] c = "TI"   -> [n |-> 1, k |-> "NOT", stop |-> FALSE]
    [] c = "QU"   -> LET r == Quoted(s, 2, "QU") IN [n |-> r.n, k |-> r.k, stop |-> FALSE]
    [] c = "DO"   -> LET m == Span(s, 2, {"DG", "AL", "EE", "SU", "US"})
                         named == \E i \in 2..(m + 1) : s[i] # "DG"
                     IN [n |-> After(s, m + 1), k |-> IF named THEN "CAPREF_NAMED" ELSE "CAPREF", stop |-> FALSE]
    [] c = "AT"   -> LET m == Span(s, 2, {"DG", "AL", "EE", "SU", "US"}) IN [n |-> After(s, m + 1), k |-> "DECO", stop |-> FALSE]
    [] c \in {"DG", "DOT"} -> LET r == Numeric(s, 1) IN [n |-> r.n, k |-> r.k, stop |-> FALSE]
    [] c \in {"AL", "EE", "SU"} -> LET m == Span(s, 2, {"DG", "AL", "EE", "SU", "US"}) IN [n |-> After(s, m + 1), k |-> "ID", stop |-> FALSE]
    [] OTHER      -> [n |-> 1, k |-> "INVALID", stop |-> FALSE]       \* BS US OT IV: Unexpected input

Init == /\ src \in UNION {[1..n -> Classes] : n \in 0..MaxLen}
        /\ rx0 \in {<<>>, <<TRUE>>, <<TRUE, TRUE>>, <<FALSE, TRUE>>}
        /\ (rx0 # <<>> => \E i \in 1..Len(src) : src[i] = "SL")       \* regex mode only matters after a DIV
        /\ inp = src /\ rx = rx0 /\ toks = <<>> /\ inrx = FALSE /\ done = FALSE

Step ==
  /\ ~done
  /\ IF inrx
     THEN LET r == Quoted(inp, 1, "SL") IN                          \* lexProg hands over to lexRegex at once
          /\ inp' = Rest(inp, r.n) /\ toks' = Append(toks, r.k) /\ inrx' = FALSE /\ UNCHANGED <<rx, done>>
     ELSE LET r == ProgStep(inp) IN
          /\ inp' = Rest(inp, r.n)
          /\ toks' = IF r.k = "" THEN toks ELSE Append(toks, r.k)
          /\ done' = r.stop
          /\ IF r.k = "DIV" /\ rx # <<>> THEN inrx' = Head(rx) /\ rx' = Tail(rx) ELSE UNCHANGED <<inrx, rx>>
  /\ UNCHANGED <<src, rx0>>
Next == Step
Spec == Init /\ [][Next]_vars

\* every invocation reads at least one character, or it is the one that ends the lexing
Progress == [][Len(inp') < Len(inp) \/ done' \/ (inrx /\ ~inrx')]_vars
\* in regex mode at the end of input the lexer still makes progress: INVALID, then EOF
TypeOK == Len(inp) <= MaxLen /\ Len(toks) <= 2 * MaxLen + 3
Bounded == Len(toks) <= 2 * Len(src) + 3
Emit == (EmitCases /\ done) => PrintT(<<"CASE", ToJson([src |-> src, rx |-> rx0, toks |-> toks])>>)
=============================================================================
