------------------------------- MODULE System -------------------------------
(***************************************************************************)
(* One-shot mtail (property C19): the composition                          *)
(*   file streams (logstream/filestream.go, one-shot EOF path)             *)
(*   -> per-stream forwarder goroutines (tailer/tail.go TailPath)          *)
(*   -> the shared lines channel, closed by the tailer (tail.go New)       *)
(*   -> the runtime's fan-out goroutine (runtime/runtime.go New)           *)
(*   -> one VM goroutine per program (vm/vm.go Run)                        *)
(* and the wait-group shutdown cascade down to Server.Run returning        *)
(* (mtail/mtail.go Run).  All channels are unbuffered: a send and its      *)
(* receive are ONE action (rendezvous).  One action per critical section.  *)
(*                                                                         *)
(* A file is its number of lines and whether the last one is unterminated  *)
(* (then LineReader.Finish delivers it at EOF).  Lines are <<file, index>>.*)
(*                                                                         *)
(* Model mutations (never findings; they show the properties bite):        *)
(*  MUT_CloseBeforeDrain  tailer closes `lines` on cancel without waiting  *)
(*                        for its streams/forwarders (t.wg.Wait skipped)   *)
(*  MUT_NoFinish          a stream exits at EOF without LineReader.Finish  *)
(*  MUT_VmDropped         the runtime closes a VM's channel while it still *)
(*                        holds the line it was about to hand over         *)
(*  MUT_WaitCycle         Run's wait-group also waits for itself (cycle)   *)
(***************************************************************************)
EXTENDS Integers, Sequences, FiniteSets, TLC

CONSTANTS ProgCounts,  \* numbers of successfully loaded programs explored by Init
          FileSets,    \* set of file configurations explored by Init: sequences of [n, tail]
          MUT_CloseBeforeDrain, MUT_NoFinish, MUT_VmDropped, MUT_WaitCycle

VARIABLES
  np,        \* number of programs (VMs)
  files,     \* sequence of [n |-> number of lines, tail |-> last line unterminated]
  st,        \* file stream goroutine: [pc \in read/offer/finish/close/exit/done, i]  (i = lines handed over)
  sclosed,   \* stream's own lines channel closed
  fw,        \* forwarder goroutine: [pc \in recv/send/remove/done, line]
  twg,       \* Tailer.wg counter (streams + forwarders)
  tctx,      \* tailer context cancelled
  tA,        \* tail.go New goroutine 1: wg.Wait(); cancel()        "wait" | "done"
  tB,        \* tail.go New goroutine 2: <-ctx.Done(); wg.Wait(); close(lines)   "ctx"|"wait"|"close"|"done"
  lclosed,   \* the shared lines channel is closed
  fan,       \* runtime fan-out goroutine: [pc \in recv/send/closing/done, line, todo]
  hclosed,   \* program -> its VM's channel closed
  vm,        \* program -> [pc \in recv/proc/exit/done, line]
  sig,       \* runtime's SIGHUP goroutine "wait" | "done"
  rwg,       \* Runtime.wg counter (fan-out, signal goroutine, VMs)
  rsh,       \* runtime shutdown goroutine (r.wg.Wait(); wg.Done())   "wait" | "done"
  mwg,       \* Server.wg counter
  returned,  \* Server.Run returned
  processed, \* history: program -> sequence of lines whose processing started
  sentall,   \* history: lines received by the fan-out goroutine, in order
  panic      \* a send on a closed channel happened

vars == <<np, files, st, sclosed, fw, twg, tctx, tA, tB, lclosed, fan, hclosed, vm, sig, rwg, rsh, mwg,
          returned, processed, sentall, panic>>

F == 1..Len(files)
Progs == 1..np
Terminated(f) == IF files[f].tail /\ files[f].n > 0 THEN files[f].n - 1 ELSE files[f].n
NoLine == <<0, 0>>

InitWith(n, fs) ==
  /\ np = n
  /\ files = fs
  /\ st = [f \in 1..Len(fs) |-> [pc |-> "read", i |-> 0]]
  /\ sclosed = [f \in 1..Len(fs) |-> FALSE]
  /\ fw = [f \in 1..Len(fs) |-> [pc |-> "recv", line |-> NoLine]]
  /\ twg = 2 * Len(fs)
  /\ tctx = FALSE /\ tA = "wait" /\ tB = "ctx" /\ lclosed = FALSE
  /\ fan = [pc |-> "recv", line |-> NoLine, todo |-> {}]
  /\ hclosed = [p \in 1..n |-> FALSE]
  /\ vm = [p \in 1..n |-> [pc |-> "recv", line |-> NoLine]]
  /\ sig = "wait"
  /\ rwg = 2 + n
  /\ rsh = "wait"
  /\ mwg = IF MUT_WaitCycle THEN 4 ELSE 3      \* runtime shutdown goroutine + the tailer's two
  /\ returned = FALSE
  /\ processed = [p \in 1..n |-> <<>>]
  /\ sentall = <<>>
  /\ panic = FALSE

Init == \E n \in ProgCounts, fs \in FileSets : InitWith(n, fs)

-----------------------------------------------------------------------------
(* filestream.go stream(), one-shot *)

\* ReadAndSend found the next complete line: about to `lr.lines <- line`   (hook lr.line)
StreamOffer(f) ==
  /\ st[f].pc = "read" /\ st[f].i < Terminated(f)
  /\ st' = [st EXCEPT ![f].pc = "offer"]
  /\ UNCHANGED <<np, files, sclosed, fw, twg, tctx, tA, tB, lclosed, fan, hclosed, vm, sig, rwg, rsh, mwg,
                 returned, processed, sentall, panic>>

\* Read returned (0, io.EOF) with everything sent: `if oneShot { lr.Finish(ctx) ...`
StreamEof(f) ==
  /\ st[f].pc = "read" /\ st[f].i = Terminated(f)
  /\ st' = [st EXCEPT ![f].pc = IF st[f].i < files[f].n /\ ~MUT_NoFinish THEN "finish" ELSE "close"]
  /\ UNCHANGED <<np, files, sclosed, fw, twg, tctx, tA, tB, lclosed, fan, hclosed, vm, sig, rwg, rsh, mwg,
                 returned, processed, sentall, panic>>

\* Finish: about to send the unterminated remainder   (hook lr.finish)
StreamFinish(f) ==
  /\ st[f].pc = "finish"
  /\ st' = [st EXCEPT ![f].pc = "offer"]
  /\ UNCHANGED <<np, files, sclosed, fw, twg, tctx, tA, tB, lclosed, fan, hclosed, vm, sig, rwg, rsh, mwg,
                 returned, processed, sentall, panic>>

\* rendezvous  stream `lr.lines <- line`  /  forwarder `for line := range l.Lines()`
FwdRecv(f) ==
  /\ st[f].pc = "offer" /\ fw[f].pc = "recv"
  /\ LET i == st[f].i + 1 IN
       /\ fw' = [fw EXCEPT ![f] = [pc |-> "send", line |-> <<f, i>>]]
       /\ st' = [st EXCEPT ![f] = [pc |-> IF i = files[f].n THEN "close" ELSE "read", i |-> i]]
  /\ UNCHANGED <<np, files, sclosed, twg, tctx, tA, tB, lclosed, fan, hclosed, vm, sig, rwg, rsh, mwg,
                 returned, processed, sentall, panic>>

\* close(fs.lines); return
StreamClose(f) ==
  /\ st[f].pc = "close"
  /\ sclosed' = [sclosed EXCEPT ![f] = TRUE]
  /\ st' = [st EXCEPT ![f].pc = "exit"]
  /\ UNCHANGED <<np, files, fw, twg, tctx, tA, tB, lclosed, fan, hclosed, vm, sig, rwg, rsh, mwg,
                 returned, processed, sentall, panic>>

\* deferred: fd.Close(); wg.Done()
StreamExit(f) ==
  /\ st[f].pc = "exit"
  /\ st' = [st EXCEPT ![f].pc = "done"] /\ twg' = twg - 1
  /\ UNCHANGED <<np, files, sclosed, fw, tctx, tA, tB, lclosed, fan, hclosed, vm, sig, rwg, rsh, mwg,
                 returned, processed, sentall, panic>>

(* tail.go TailPath: forwarder *)

\* rendezvous  forwarder `t.lines <- line`  /  fan-out `for line := range lines`; RLock   (hooks tail.fwd, rt.line.recv)
FanRecv(f) ==
  /\ fw[f].pc = "send" /\ fan.pc = "recv" /\ ~lclosed
  /\ fan' = [pc |-> IF np = 0 THEN "recv" ELSE "send", line |-> fw[f].line, todo |-> Progs]
  /\ fw' = [fw EXCEPT ![f] = [pc |-> "recv", line |-> NoLine]]
  /\ sentall' = Append(sentall, fw[f].line)
  /\ UNCHANGED <<np, files, st, sclosed, twg, tctx, tA, tB, lclosed, hclosed, vm, sig, rwg, rsh, mwg,
                 returned, processed, panic>>

\* `t.lines <- line` on the closed channel (only reachable under MUT_CloseBeforeDrain)
FwdSendClosed(f) ==
  /\ fw[f].pc = "send" /\ lclosed
  /\ panic' = TRUE
  /\ fw' = [fw EXCEPT ![f] = [pc |-> "done", line |-> NoLine]]
  /\ UNCHANGED <<np, files, st, sclosed, twg, tctx, tA, tB, lclosed, fan, hclosed, vm, sig, rwg, rsh, mwg,
                 returned, processed, sentall>>

\* the stream's channel is closed: leave the range loop
FwdSeesClose(f) ==
  /\ fw[f].pc = "recv" /\ sclosed[f]
  /\ fw' = [fw EXCEPT ![f].pc = "remove"]
  /\ UNCHANGED <<np, files, st, sclosed, twg, tctx, tA, tB, lclosed, fan, hclosed, vm, sig, rwg, rsh, mwg,
                 returned, processed, sentall, panic>>

\* delete(t.logstreams, pathname) under logstreamsMu (hook tail.remove); deferred t.wg.Done()
FwdRemove(f) ==
  /\ fw[f].pc = "remove"
  /\ fw' = [fw EXCEPT ![f].pc = "done"] /\ twg' = twg - 1
  /\ UNCHANGED <<np, files, st, sclosed, tctx, tA, tB, lclosed, fan, hclosed, vm, sig, rwg, rsh, mwg,
                 returned, processed, sentall, panic>>

(* tail.go New: the two shutdown goroutines *)
\* t.wg.Wait(); t.cancel(); wg.Done()
TAWait ==
  /\ tA = "wait" /\ twg = 0
  /\ tA' = "done" /\ tctx' = TRUE /\ mwg' = mwg - 1
  /\ UNCHANGED <<np, files, st, sclosed, fw, twg, tB, lclosed, fan, hclosed, vm, sig, rwg, rsh,
                 returned, processed, sentall, panic>>
\* <-t.ctx.Done()
TBCtx ==
  /\ tB = "ctx" /\ (tctx \/ MUT_CloseBeforeDrain)
  /\ tB' = "wait"
  /\ UNCHANGED <<np, files, st, sclosed, fw, twg, tctx, tA, lclosed, fan, hclosed, vm, sig, rwg, rsh, mwg,
                 returned, processed, sentall, panic>>
\* t.wg.Wait()
TBWait ==
  /\ tB = "wait" /\ (twg = 0 \/ MUT_CloseBeforeDrain)
  /\ tB' = "close"
  /\ UNCHANGED <<np, files, st, sclosed, fw, twg, tctx, tA, lclosed, fan, hclosed, vm, sig, rwg, rsh, mwg,
                 returned, processed, sentall, panic>>
\* close(t.lines)  (hook tail.close just before); wg.Done()
TBClose ==
  /\ tB = "close"
  /\ lclosed' = TRUE /\ tB' = "done" /\ mwg' = mwg - 1
  /\ UNCHANGED <<np, files, st, sclosed, fw, twg, tctx, tA, fan, hclosed, vm, sig, rwg, rsh,
                 returned, processed, sentall, panic>>

(* runtime.go New: fan-out goroutine *)
\* rendezvous  `r.handles[prog].lines <- line`  /  VM `for line := range lines`   (hooks rt.line.sent, vm.line.start)
FanSend(p) ==
  /\ fan.pc = "send" /\ p \in fan.todo /\ vm[p].pc = "recv" /\ ~hclosed[p]
  /\ vm' = [vm EXCEPT ![p] = [pc |-> "proc", line |-> fan.line]]
  /\ processed' = [processed EXCEPT ![p] = Append(@, fan.line)]
  /\ LET rest == fan.todo \ {p} IN
       fan' = IF rest = {} THEN [pc |-> "recv", line |-> NoLine, todo |-> {}] ELSE [fan EXCEPT !.todo = rest]
  /\ UNCHANGED <<np, files, st, sclosed, fw, twg, tctx, tA, tB, lclosed, hclosed, sig, rwg, rsh, mwg,
                 returned, sentall, panic>>

\* lines closed and drained: close(signalQuit); Lock; close every handle's channel; delete; Unlock; r.wg.Done()
FanEnd ==
  /\ lclosed /\ \A f \in F : fw[f].pc # "send"
  /\ fan.pc = "recv" \/ (MUT_VmDropped /\ fan.pc = "send")
  /\ fan' = [pc |-> "done", line |-> NoLine, todo |-> {}]
  /\ hclosed' = [p \in Progs |-> TRUE]
  /\ rwg' = rwg - 1
  /\ UNCHANGED <<np, files, st, sclosed, fw, twg, tctx, tA, tB, lclosed, vm, sig, rsh, mwg,
                 returned, processed, sentall, panic>>

\* the SIGHUP goroutine sees signalQuit closed
SigExit ==
  /\ sig = "wait" /\ fan.pc = "done"
  /\ sig' = "done" /\ rwg' = rwg - 1
  /\ UNCHANGED <<np, files, st, sclosed, fw, twg, tctx, tA, tB, lclosed, fan, hclosed, vm, rsh, mwg,
                 returned, processed, sentall, panic>>

(* vm.go Run *)
\* ProcessLogLine returns (hook vm.line.end, deferred)
VmEnd(p) ==
  /\ vm[p].pc = "proc"
  /\ vm' = [vm EXCEPT ![p] = [pc |-> "recv", line |-> NoLine]]
  /\ UNCHANGED <<np, files, st, sclosed, fw, twg, tctx, tA, tB, lclosed, fan, hclosed, sig, rwg, rsh, mwg,
                 returned, processed, sentall, panic>>
\* the channel is closed: leave the loop (hook vm.exit)
VmSeesClose(p) ==
  /\ vm[p].pc = "recv" /\ hclosed[p]
  /\ vm' = [vm EXCEPT ![p].pc = "exit"]
  /\ UNCHANGED <<np, files, st, sclosed, fw, twg, tctx, tA, tB, lclosed, fan, hclosed, sig, rwg, rsh, mwg,
                 returned, processed, sentall, panic>>
\* deferred wg.Done()
VmExit(p) ==
  /\ vm[p].pc = "exit"
  /\ vm' = [vm EXCEPT ![p].pc = "done"] /\ rwg' = rwg - 1
  /\ UNCHANGED <<np, files, st, sclosed, fw, twg, tctx, tA, tB, lclosed, fan, hclosed, sig, rsh, mwg,
                 returned, processed, sentall, panic>>

(* runtime shutdown goroutine and Server.Run *)
RtWait ==
  /\ rsh = "wait" /\ rwg = 0
  /\ rsh' = "done" /\ mwg' = mwg - 1
  /\ UNCHANGED <<np, files, st, sclosed, fw, twg, tctx, tA, tB, lclosed, fan, hclosed, vm, sig, rwg,
                 returned, processed, sentall, panic>>
\* m.wg.Wait(); m.cancel(); return nil
RunReturn ==
  /\ ~returned /\ mwg = 0
  /\ returned' = TRUE
  /\ UNCHANGED <<np, files, st, sclosed, fw, twg, tctx, tA, tB, lclosed, fan, hclosed, vm, sig, rwg, rsh, mwg,
                 processed, sentall, panic>>

Finished == returned /\ UNCHANGED vars     \* the run is over: stutter (so that deadlock means a real one)

Next == \/ \E f \in F : \/ StreamOffer(f) \/ StreamEof(f) \/ StreamFinish(f) \/ FwdRecv(f) \/ StreamClose(f) \/ StreamExit(f)
                        \/ FanRecv(f) \/ FwdSendClosed(f) \/ FwdSeesClose(f) \/ FwdRemove(f)
        \/ TAWait \/ TBCtx \/ TBWait \/ TBClose \/ FanEnd \/ SigExit \/ RtWait \/ RunReturn
        \/ \E p \in Progs : FanSend(p) \/ VmEnd(p) \/ VmSeesClose(p) \/ VmExit(p)
        \/ Finished
Spec == Init /\ [][Next]_vars /\ WF_vars(Next)

-----------------------------------------------------------------------------
(* Ideal layer: the statement of C19 *)
Restrict(s, f) == SelectSeq(s, LAMBDA l : l[1] = f)
LinesOf(f) == [i \in 1..files[f].n |-> <<f, i>>]
IsPrefixOf(a, b) == Len(a) <= Len(b) /\ SubSeq(b, 1, Len(a)) = a
\* the lines of each file reach each program in file order, each at most once
InFileOrder == \A p \in Progs : \A f \in F : IsPrefixOf(Restrict(processed[p], f), LinesOf(f))
\* when the run returns every program has processed every line of every file exactly once
ExactlyOnceAtEnd == returned => \A p \in Progs : \A f \in F : Restrict(processed[p], f) = LinesOf(f)
\* ... and nothing is still in flight or running
AllDownAtEnd == returned => /\ \A f \in F : st[f].pc = "done" /\ fw[f].pc = "done"
                            /\ \A p \in Progs : vm[p].pc = "done"
                            /\ fan.pc = "done" /\ tA = "done" /\ tB = "done"
NoPanic == ~panic
TypeOK == twg >= 0 /\ rwg >= 0 /\ mwg >= 0
Safety == TypeOK /\ InFileOrder /\ ExactlyOnceAtEnd /\ AllDownAtEnd /\ NoPanic
\* shutdown completes: no deadlock (CHECK_DEADLOCK TRUE) and, under weak fairness, Run returns
Terminates == <>returned
=============================================================================
