------------------------- MODULE TraceConcurrency -------------------------
(***************************************************************************)
(* Direction B for the atomicity half of C11: validates event logs of real *)
(* concurrent runs (harness internal/verif/c11 -mode=atomic) against the   *)
(* statement "no counter increment is lost, and every export reflects a    *)
(* value that existed at some point".                                      *)
(*                                                                         *)
(* Logged events (one atomic sequence number each, taken BEFORE a call     *)
(* begins and AFTER it returned):                                          *)
(*    inc.start a / inc.done a    a VM processes one line `total[a]++`     *)
(*    exp.start a / exp.value a v / exp.end a    an exporter ran and        *)
(*                                carried the value v for that label       *)
(*    bulk a n                    VM a completed n such lines (no export   *)
(*                                overlapped; logged after the fact)       *)
(*    final v                     the value after everybody stopped        *)
(*    reset                       next trace                               *)
(* Not logged, hence silent actions here: the instant the atomic add takes *)
(* effect (between inc.start and inc.done) and the instant the exporter    *)
(* loads the value (between exp.start and exp.value).  The log is accepted *)
(* iff some placement of these instants explains it: the counter is a      *)
(* single atomic cell, every increment adds exactly one, every load        *)
(* returns the cell's current value.                                       *)
(***************************************************************************)
EXTENDS Integers, Sequences, FiniteSets, Json, TLC

CONSTANT TraceFile
Trace == ndJsonDeserialize(TraceFile)

VARIABLES i,        \* number of events consumed
          cell,     \* the datum's value
          pending,  \* pending[a] = TRUE: a's increment has started and not yet taken effect
          inflight, \* inflight[a] = TRUE: between inc.start and inc.done
          loaded    \* loaded[a]: "idle" | "open" (export running, value not yet loaded) | <<v>> loaded value
vars == <<i, cell, pending, inflight, loaded>>

Names == {Trace[k].a : k \in DOMAIN Trace}

Init == /\ i = 0 /\ cell = 0
        /\ pending = [a \in Names |-> FALSE] /\ inflight = [a \in Names |-> FALSE]
        /\ loaded = [a \in Names |-> <<"idle">>]

Ev == Trace[i + 1]
Is(e) == i < Len(Trace) /\ Ev.ev = e
Consume == i' = i + 1

IncStart == /\ Is("inc.start") /\ ~inflight[Ev.a]
            /\ pending' = [pending EXCEPT ![Ev.a] = TRUE] /\ inflight' = [inflight EXCEPT ![Ev.a] = TRUE]
            /\ Consume /\ UNCHANGED <<cell, loaded>>
\* silent: the atomic add takes effect
Apply(a) == /\ pending[a]
            /\ cell' = cell + 1 /\ pending' = [pending EXCEPT ![a] = FALSE]
            /\ UNCHANGED <<i, inflight, loaded>>
\* the call returned: its add has taken effect
IncDone == /\ Is("inc.done") /\ inflight[Ev.a] /\ ~pending[Ev.a]
           /\ inflight' = [inflight EXCEPT ![Ev.a] = FALSE]
           /\ Consume /\ UNCHANGED <<cell, pending, loaded>>

ExpStart == /\ Is("exp.start") /\ loaded[Ev.a] = <<"idle">>
            /\ loaded' = [loaded EXCEPT ![Ev.a] = <<"open">>]
            /\ Consume /\ UNCHANGED <<cell, pending, inflight>>
\* silent: the exporter loads the cell
Load(a) == /\ loaded[a] = <<"open">>
           /\ loaded' = [loaded EXCEPT ![a] = <<"val", cell>>]
           /\ UNCHANGED <<i, cell, pending, inflight>>
\* the value the export carried is the one it loaded
ExpValue == /\ Is("exp.value") /\ loaded[Ev.a] = <<"val", Ev.v>>
            /\ Consume /\ UNCHANGED <<cell, pending, inflight, loaded>>
ExpEnd == /\ Is("exp.end") /\ loaded[Ev.a] # <<"idle">>
          /\ loaded' = [loaded EXCEPT ![Ev.a] = <<"idle">>]
          /\ Consume /\ UNCHANGED <<cell, pending, inflight>>

\* n increments that started and completed
Bulk == /\ Is("bulk") /\ ~inflight[Ev.a]
        /\ cell' = cell + Ev.v
        /\ Consume /\ UNCHANGED <<pending, inflight, loaded>>

\* after everybody stopped: no increment was lost
Final == /\ Is("final") /\ \A a \in Names : ~inflight[a] /\ ~pending[a]
         /\ Ev.v = cell
         /\ Consume /\ UNCHANGED <<cell, pending, inflight, loaded>>

Reset == /\ Is("reset")
         /\ cell' = 0 /\ pending' = [a \in Names |-> FALSE] /\ inflight' = [a \in Names |-> FALSE]
         /\ loaded' = [a \in Names |-> <<"idle">>]
         /\ Consume

Next == IncStart \/ IncDone \/ Bulk \/ ExpStart \/ ExpValue \/ ExpEnd \/ Final \/ Reset
        \/ (\E a \in Names : Apply(a)) \/ (\E a \in Names : Load(a))
Spec == Init /\ [][Next]_vars

\* acceptance (run with -workers 1): the high-water mark of the consumed index equals the length
\* of the log iff some placement of the silent instants explains every event
ASSUME TLCSet(1, 0)
HighWater == TLCSet(1, IF TLCGet(1) < i THEN i ELSE TLCGet(1))
Post == PrintT(<<"CASE", ToJson([hw |-> TLCGet(1), len |-> Len(Trace)])>>)
=============================================================================
