------------------------------ MODULE Buckets ------------------------------
(***************************************************************************)
(* Histograms (C21):                                                       *)
(*   internal/runtime/compiler/codegen/codegen.go  VarDecl, Kind Histogram:*)
(*        declared boundaries -> m.Buckets []datum.Range                   *)
(*   internal/metrics/datum/datum.go  MakeBuckets: one BucketCount per     *)
(*        Range, +Inf appended unless present                              *)
(*   internal/metrics/datum/buckets.go  Observe: first bucket with         *)
(*        v <= Max gets the increment; Count++; Sum += v                   *)
(*   datum.GetBucketsCumByMax: the cumulative export                       *)
(*                                                                         *)
(* Implementation-shaped layer: variables ranges / buckets / count / sum,  *)
(* actions Compile (range construction + MakeBuckets) and Observe(v).      *)
(* Ideal layer: the statement of C21 - the exported upper bounds are the   *)
(* declared boundaries plus +Inf; an observation belongs to the first      *)
(* declared boundary that is >= the value, to +Inf if there is none or the *)
(* value is NaN.                                                           *)
(*                                                                         *)
(* Numbers: finite values are integers in HALF units (the model value n    *)
(* stands for n/2), so that "just below / at / just above a boundary" are  *)
(* all representable; the IEEE specials are the reserved integers NegInf,  *)
(* PosInf, NaN (TLC cannot compare integers with strings).                 *)
(***************************************************************************)
EXTENDS Integers, Sequences, FiniteSets, Json, TLC

CONSTANTS BoundSet,     \* candidate boundaries (integers, HALF units: -3 is the boundary -1.5)
          MinDecl, MaxDecl,   \* length of a declaration
          MaxObs,       \* observations per histogram
          DEV_FirstBoundDroppedWhenNotPositive,  \* codegen: no bucket for buckets[0] unless buckets[0] > 0
          DEV_NaNInNoBucket,                     \* Observe: NaN <= Max is false for every bucket, +Inf included
          WithReload,   \* the program is reloaded once with another boundary list (see Reload)
          EmitCases

VARIABLES decl,      \* the declared boundaries, strictly increasing (half units)
          pc,        \* "declared" -> "ready"
          ranges,    \* m.Buckets: sequence of [min, max] (half units / specials)
          buckets,   \* d.Buckets: sequence of [max, n]
          count,     \* d.Count
          sum,       \* d.Sum
          obs,       \* the values observed so far, in order
          hist,      \* bucket counts, Count and Sum after each observation (for replay)
          decl2,     \* the boundary list of the reloaded source, <<>> before the reload
          at         \* number of observations made before the reload
vars == <<decl, pc, ranges, buckets, count, sum, obs, hist, decl2, at>>

-----------------------------------------------------------------------------
(* IEEE-754 as far as Observe needs it *)
NegInf == -1000
PosInf == 1000
NaN    == 9999
IsFin(x) == x \notin {NegInf, PosInf, NaN}
\* x <= y : false whenever NaN is involved; the infinities are ordered like large integers
Leq(x, y) == x # NaN /\ y # NaN /\ x <= y
\* x + y
Add(x, y) == IF x = NaN \/ y = NaN THEN NaN
             ELSE IF IsFin(x) /\ IsFin(y) THEN x + y
             ELSE IF IsFin(x) THEN y
             ELSE IF IsFin(y) THEN x
             ELSE IF x = y THEN x
             ELSE NaN                          \* +Inf + -Inf
RECURSIVE SumOf(_)
SumOf(s) == IF s = <<>> THEN 0 ELSE Add(SumOf(SubSeq(s, 1, Len(s) - 1)), s[Len(s)])

Half(b) == b         \* boundaries are declared in half units too (so that -1.5 and 0.5 can be boundaries)

-----------------------------------------------------------------------------
(* declarations *)
Decls == {d \in UNION {[1..n -> BoundSet] : n \in MinDecl..MaxDecl} : \A k \in 1..(Len(d) - 1) : d[k] < d[k + 1]}

\* values worth observing for a declaration: just below, at and just above every boundary,
\* far below, and the specials
ValuesFor(d) == UNION {{Half(d[k]) - 1, Half(d[k]), Half(d[k]) + 1} : k \in DOMAIN d}
                  \cup {Half(d[1]) - 6} \cup {NegInf, PosInf, NaN}

Init == /\ decl \in Decls
        /\ pc = "declared"
        /\ ranges = <<>> /\ buckets = <<>> /\ count = 0 /\ sum = 0 /\ obs = <<>> /\ hist = <<>>
        /\ decl2 = <<>> /\ at = 0

-----------------------------------------------------------------------------
(* codegen.go, VarDecl for a histogram:
     if n.Buckets[0] > 0 { m.Buckets = append(m.Buckets, Range{0, n.Buckets[0]}) }
     min := n.Buckets[0]
     for _, max := range n.Buckets[1:] { m.Buckets = append(m.Buckets, Range{min, max}); min = max }
     m.Buckets = append(m.Buckets, Range{min, +Inf})
   The corrected design always makes a bucket whose upper bound is the first boundary. *)
Rng(lo, hi) == [min |-> lo, max |-> hi]
FirstRange(d) ==
  IF d[1] > 0 THEN <<Rng(0, Half(d[1]))>>
  ELSE IF DEV_FirstBoundDroppedWhenNotPositive THEN <<>>
  ELSE <<Rng(NegInf, Half(d[1]))>>
CodegenRanges(d) ==
  FirstRange(d) \o [k \in 1..(Len(d) - 1) |-> Rng(Half(d[k]), Half(d[k + 1]))] \o <<Rng(Half(d[Len(d)]), PosInf)>>

\* datum.MakeBuckets: AddBucket for each range; `if !seenInf { AddBucket(Range{highest, +Inf}) }`
MakeBuckets(rs) ==
  LET bs == [k \in DOMAIN rs |-> [max |-> rs[k].max, n |-> 0]]
  IN IF \E k \in DOMAIN rs : rs[k].max = PosInf THEN bs ELSE Append(bs, [max |-> PosInf, n |-> 0])

\* the compiler makes the metric, the first GetDatum makes the datum
Compile == /\ pc = "declared"
           /\ ranges' = CodegenRanges(decl)
           /\ buckets' = MakeBuckets(CodegenRanges(decl))
           /\ pc' = "ready"
           /\ UNCHANGED <<decl, count, sum, obs, hist, decl2, at>>

\* buckets.go Observe: for i, b := range d.Buckets { if v <= b.Range.Max { d.Buckets[i].Count++; break } }
\* position of the bucket that takes v, 0 if none does
RECURSIVE Scan(_, _, _)
Scan(bs, v, k) == IF k > Len(bs) THEN 0 ELSE IF Leq(v, bs[k].max) THEN k ELSE Scan(bs, v, k + 1)
InfPos(bs) == CHOOSE k \in DOMAIN bs : bs[k].max = PosInf
Target(bs, v) ==
  IF v = NaN /\ ~DEV_NaNInNoBucket THEN InfPos(bs)    \* corrected: NaN is counted in the +Inf bucket
  ELSE Scan(bs, v, 1)

Observe(v) ==
  /\ pc = "ready" /\ Len(obs) < MaxObs
  /\ LET k == Target(buckets, v) IN
       buckets' = IF k = 0 THEN buckets ELSE [buckets EXCEPT ![k].n = @ + 1]
  /\ count' = count + 1          \* d.Count++
  /\ sum' = Add(sum, v)          \* d.Sum += v
  /\ obs' = Append(obs, v)
  /\ hist' = Append(hist, [n |-> [k \in DOMAIN buckets' |-> buckets'[k].n], count |-> count', sum |-> sum'])
  /\ UNCHANGED <<decl, pc, ranges, decl2, at>>

\* The program is reloaded with an edited boundary list: the freshly compiled metric has the new ranges, and
\* Store.Add hands it the label values of the metric it replaces - the DATUM, made with the old list, lives on
\* (reload preserves state, C14).  `decl` stays the list the datum was made with: that is the declaration the
\* statement's bounds refer to; what must survive the reload untouched is everything counted so far.
Reload(d2) ==
  /\ WithReload /\ pc = "ready" /\ decl2 = <<>> /\ d2 # decl /\ Len(d2) = Len(decl)
  /\ Len(obs) >= 1 /\ Len(obs) < MaxObs      \* the datum exists (the first observation made it); more is to come
  /\ decl2' = d2 /\ at' = Len(obs)
  /\ ranges' = CodegenRanges(d2)
  /\ UNCHANGED <<decl, pc, buckets, count, sum, obs, hist>>

Next == \/ Compile
        \/ \E v \in ValuesFor(decl) \cup (IF decl2 = <<>> THEN {} ELSE ValuesFor(decl2)) : Observe(v)
        \/ \E d2 \in Decls : Reload(d2)
Spec == Init /\ [][Next]_vars

-----------------------------------------------------------------------------
(* Ideal: the statement of C21 *)
IdealBounds(d) == {Half(d[k]) : k \in DOMAIN d} \cup {PosInf}
\* the bound of the bucket an observation belongs to
IdealBucket(d, v) ==
  IF v = NaN THEN PosInf
  ELSE LET ks == {k \in DOMAIN d : Leq(v, Half(d[k]))} IN
       IF ks = {} THEN PosInf ELSE Half(d[CHOOSE k \in ks : \A j \in ks : k <= j])
IdealCounts(d, os) == [b \in IdealBounds(d) |-> Cardinality({k \in DOMAIN os : IdealBucket(d, os[k]) = b})]

\* the datum seen as a function bound -> count
CountAt(bs) == [b \in {bs[k].max : k \in DOMAIN bs} |->
                  LET k == CHOOSE j \in DOMAIN bs : bs[j].max = b IN bs[k].n]
RECURSIVE Total(_)
Total(bs) == IF bs = <<>> THEN 0 ELSE bs[Len(bs)].n + Total(SubSeq(bs, 1, Len(bs) - 1))

\* datum.GetBucketsCumByMax: bounds sorted ascending, running total
Below(bs, b) == {k \in DOMAIN bs : Leq(bs[k].max, b)}
RECURSIVE SumN(_, _)
SumN(bs, ks) == IF ks = {} THEN 0 ELSE LET k == CHOOSE j \in ks : TRUE IN bs[k].n + SumN(bs, ks \ {k})
CumByMax(bs) == [b \in {bs[k].max : k \in DOMAIN bs} |-> SumN(bs, Below(bs, b))]

-----------------------------------------------------------------------------
(* properties *)
TypeOK == /\ pc \in {"declared", "ready"}
          /\ count = Len(obs)
          /\ \A k \in DOMAIN buckets : buckets[k].n \in 0..MaxObs

\* "The exported upper bounds are exactly the declared boundaries plus +Inf", each once
BoundsExported == pc = "ready" =>
                    /\ {buckets[k].max : k \in DOMAIN buckets} = IdealBounds(decl)
                    /\ \A j, k \in DOMAIN buckets : j # k => buckets[j].max # buckets[k].max

\* "each observation increments exactly one bucket - the first whose upper bound is at least the
\* value, with values above every bound and NaN going to the +Inf bucket": the counts are the
\* ideal counts (given BoundsExported the two functions have the same domain)
RightBucket == pc = "ready" => CountAt(buckets) = IdealCounts(decl, obs)

\* step form: an observation changes exactly one bucket, by one
OneBucketPerObservation ==
  [][(pc = "ready" /\ obs' # obs) =>
        \E k \in DOMAIN buckets : /\ buckets'[k].n = buckets[k].n + 1
                                  /\ \A j \in DOMAIN buckets \ {k} : buckets'[j] = buckets[j]]_vars

\* "the bucket counts sum to the observation count"
CountsSum == Total(buckets) = count

\* "the sum equals the sum of observed values"
SumOK == sum = SumOf(obs)

\* the cumulative export agrees with the ideal at every declared bound
CumOK == pc = "ready" =>
           \A b \in DOMAIN CumByMax(buckets) \cap IdealBounds(decl) :
              CumByMax(buckets)[b] = Cardinality({k \in DOMAIN obs : Leq(obs[k], b) \/ (b = PosInf /\ obs[k] = NaN)})

-----------------------------------------------------------------------------
(* emission (direction A): every maximal behaviour *)
Emit == (EmitCases /\ Len(obs) = MaxObs /\ (WithReload => decl2 # <<>>)) =>
          PrintT(<<"CASE", ToJson([decl |-> decl, obs |-> obs, reload |-> [at |-> at, decl2 |-> decl2],
                                   maxes |-> [k \in DOMAIN buckets |-> buckets[k].max],
                                   mins |-> [k \in DOMAIN ranges |-> ranges[k].min],
                                   steps |-> hist,
                                   cum |-> [k \in DOMAIN buckets |-> CumByMax(buckets)[buckets[k].max]]])>>)
=============================================================================
