------------------------------ MODULE MCSystem ------------------------------
(* Model-checking instances of System.tla (record/sequence constants cannot be written in a .cfg). *)
EXTENDS System
FileKinds(maxn) == {[n |-> k, tail |-> t] : k \in 0..maxn, t \in BOOLEAN} \ {[n |-> 0, tail |-> TRUE]}
Seqs(S, lo, hi) == UNION {[1..k -> S] : k \in lo..hi}
\* one empty file, one with an unterminated last line, one plain: the configuration named in the property
Named      == {<<[n |-> 0, tail |-> FALSE], [n |-> 2, tail |-> TRUE], [n |-> 2, tail |-> FALSE]>>}
NoFiles    == {<< >>}
Files1to2  == Seqs(FileKinds(2), 0, 2)
Files1to3  == Seqs(FileKinds(2), 0, 3)
Files3of1  == Seqs(FileKinds(1), 3, 3)
TwoTail    == {<<[n |-> 2, tail |-> TRUE], [n |-> 1, tail |-> FALSE]>>}
=============================================================================
