---------------------------- MODULE ExportLocks ----------------------------
(***************************************************************************)
(* internal/exporter : every exporter's use of the per-metric RWMutex and  *)
(* of the label-set emitter goroutine (metrics/metric.go EmitLabelSets),   *)
(* with the exporters' error and cancellation branches.   Property C12.    *)
(*                                                                         *)
(* Implementation-shaped layer (one action per critical step)              *)
(*   Store.Range callback of                                               *)
(*     "prom"      prometheus.go Collect                                   *)
(*     "varz"      varz.go       HandleVarz                                *)
(*     "graphite"  graphite.go   HandleGraphite                            *)
(*     "push"      export.go     writeSocketMetrics (graphite / statsd /   *)
(*                 collectd formatter: same control flow, the formatter is *)
(*                 a pure function called between receive and write)       *)
(*     "json"      json.go       HandleJSON (takes no metric lock at all)  *)
(*   rd/wr         sync.RWMutex of each metric: reader count, writer held; *)
(*                 a *waiting* writer blocks new readers (Go semantics)    *)
(*   em            the emitter goroutine of the channel the exporter is    *)
(*                 ranging over: unbuffered channel => send/receive is one *)
(*                 joint step, after which the emitter is already blocked  *)
(*                 on the next send or has closed the channel              *)
(*   leaked        emitters blocked for ever on a channel nobody reads     *)
(*   vm            a VM thread that needs m.Lock() (Metric.GetDatum)       *)
(*                                                                         *)
(* Fault choices (made in Init, they are the enumeration of C12):          *)
(*   bad    prom: label set <<m,i>> has a non-UTF-8 value ("utf8"), or     *)
(*          metric m has an invalid name ("name") / a key called "prog"    *)
(*          ("dupkey"): then every label set of m is unrepresentable       *)
(*   wfail  the k-th write and all later ones fail (push: io error;        *)
(*          varz/graphite: fmt.Fprint error, ignored by the handler;       *)
(*          json: the single body write)                                   *)
(*   cancel the request context is cancelled after the k-th write          *)
(*          (k = 0: before the handler starts) - varz/graphite             *)
(*   marshal json.Marshal fails (a NaN/Inf float datum) - json             *)
(* A first attempt runs with the fault; a second attempt of the same       *)
(* exporter follows ("subsequent ... exports complete") on a healthy       *)
(* connection / request - bad and marshal are properties of the store and  *)
(* are met again, wfail and cancel are not.                                *)
(*                                                                         *)
(* Ideal layer: ExpectedOut = what a correct export delivers under the     *)
(* fault, written as a function of the store shape only.                   *)
(*                                                                         *)
(* Store.Range iterates a Go map, so the real visiting order is arbitrary. *)
(* The model visits 1..NM in order and is symmetric in the metric index:   *)
(* every store shape is enumerated, hence a real run that visits its       *)
(* metrics in order s is the behaviour of the shape permuted by s          *)
(* (checks/c12.py looks that scenario up).                                 *)
(***************************************************************************)
EXTENDS Integers, Sequences, FiniteSets, Json, TLC

CONSTANTS NM,            \* metrics in the store (visited in order 1..NM)
          NL,            \* max label sets per metric
          Kinds,         \* exporters explored, subset of {"prom","varz","graphite","push","json"}
          WithVM,        \* include the VM thread (off when only emitting cases)
          EmitCases,     \* print the post-state of the faulty attempt as a CASE line
          DEV_CollectReturnsHoldingRLock,  \* prometheus.go Collect: `return nil` inside `for ls := range lsc`
          DEV_PushReturnsHoldingRLock      \* export.go writeSocketMetrics: `return errors.Errorf(..)` inside `for l := range lc`

M == 1..NM

VARIABLES kind, nls, text, fault,   \* the scenario, fixed in Init
          rd, wr,                   \* RWMutex of each metric
          em, leaked,               \* emitter goroutines
          ex,                       \* the exporter: pc, cur(rent metric), att(empt), ls, nw (writes so far), err
          out,                      \* label sets delivered by the faulty attempt, in order
          vm
scen == <<kind, nls, text, fault>>
vars == <<kind, nls, text, fault, rd, wr, em, leaked, ex, out, vm>>

-----------------------------------------------------------------------------
(* Scenario space *)
NoFault == [type |-> "none", why |-> "", m |-> 0, i |-> 0, k |-> 0]
RECURSIVE SumOver(_, _)
SumOver(f, S) == IF S = {} THEN 0 ELSE LET x == CHOOSE x \in S : TRUE IN f[x] + SumOver(f, S \ {x})
SkipsTextK(kd) == kd \in {"prom", "push"}
\* number of writes a complete, healthy export of kind kd performs
Writes(kd, nl, tx) == SumOver(nl, {m \in M : ~(SkipsTextK(kd) /\ tx[m])})

FaultsOf(kd, nl, tx) ==
  {NoFault} \cup
  CASE kd = "prom" ->
         {f \in [type : {"bad"}, why : {"utf8"}, m : M, i : 1..NL, k : {0}] : f.i <= nl[f.m]}
         \cup {[type |-> "bad", why |-> w, m |-> m, i |-> 0, k |-> 0] : w \in {"name", "dupkey"}, m \in M}
    [] kd = "push" ->
         {[type |-> "wfail", why |-> "", m |-> 0, i |-> 0, k |-> k] : k \in 1..Writes(kd, nl, tx)}
    [] kd \in {"varz", "graphite"} ->
         {[type |-> "wfail", why |-> "", m |-> 0, i |-> 0, k |-> k] : k \in 1..Writes(kd, nl, tx)}
         \cup {[type |-> "cancel", why |-> "", m |-> 0, i |-> 0, k |-> k] : k \in 0..Writes(kd, nl, tx)}
    [] kd = "json" ->
         {[type |-> "marshal", why |-> "", m |-> 0, i |-> 0, k |-> 0],
          [type |-> "wfail", why |-> "", m |-> 0, i |-> 0, k |-> 1]}
    [] OTHER -> {}

-----------------------------------------------------------------------------
(* Ideal layer *)
SkipsText == SkipsTextK(kind)
ChecksCtx == kind \in {"varz", "graphite"}
BadSet == IF fault.type # "bad" THEN {}
          ELSE IF fault.why = "utf8" THEN {<<fault.m, fault.i>>}
          ELSE {<<fault.m, i>> : i \in 1..nls[fault.m]}

\* all label sets an exporter of this kind visits, in visiting order
RECURSIVE Visit(_, _)
Visit(m, i) == IF m > NM THEN <<>>
               ELSE IF (SkipsText /\ text[m]) \/ i > nls[m] THEN Visit(m + 1, 1)
               ELSE <<<<m, i>>>> \o Visit(m, i + 1)
AllSeq == Visit(1, 1)
Prefix(s, n) == SubSeq(s, 1, IF n < Len(s) THEN n ELSE Len(s))
NotBad(p) == p \notin BadSet

ExpectedOut ==
  CASE kind = "json" -> IF fault.type = "none" THEN <<<<0, 0>>>> ELSE <<>>
    [] kind = "prom" -> SelectSeq(AllSeq, NotBad)          \* unrepresentable label sets left out, nothing else lost
    [] fault.type = "wfail" -> Prefix(AllSeq, fault.k - 1)  \* everything before the broken write
    [] fault.type = "cancel" ->                             \* the cancellation is honoured at the next metric boundary
         IF fault.k = 0 THEN <<>>
         ELSE IF fault.k > Len(AllSeq) THEN AllSeq
         ELSE LET mk == AllSeq[fault.k][1] IN SelectSeq(AllSeq, LAMBDA p : p[1] <= mk)
    [] OTHER -> AllSeq
\* error the faulty attempt reports to its caller
ExpectedErr ==
  CASE fault.type = "none" -> "none"
    [] kind = "prom" -> "none"
    [] kind = "json" -> IF fault.type = "marshal" THEN "marshal" ELSE "write"
    [] kind = "push" -> "write"
    [] fault.type = "cancel" ->
         \* noticed only if a metric boundary follows the k-th write
         IF fault.k = 0 THEN (IF NM >= 1 THEN "ctx" ELSE "none")
         ELSE IF fault.k > Len(AllSeq) THEN "none"
         ELSE IF AllSeq[fault.k][1] < NM THEN "ctx" ELSE "none"
    [] OTHER -> "none"       \* varz/graphite ignore write errors

-----------------------------------------------------------------------------
(* Implementation-shaped layer *)
EmNone == [m |-> 0, state |-> "none", i |-> 0]
Spawn(m) == IF nls[m] = 0 THEN [m |-> m, state |-> "closed", i |-> 0]
            ELSE [m |-> m, state |-> "sending", i |-> 1]
Advanced == IF em.i = nls[em.m] THEN [m |-> em.m, state |-> "closed", i |-> 0]
            ELSE [m |-> em.m, state |-> "sending", i |-> em.i + 1]

Init == /\ kind \in Kinds
        /\ nls \in [M -> 0..NL]
        /\ text \in [M -> BOOLEAN]
        /\ fault \in FaultsOf(kind, nls, text)
        /\ rd = [m \in M |-> 0] /\ wr = [m \in M |-> FALSE]
        /\ em = EmNone /\ leaked = [m \in M |-> 0]
        /\ ex = [pc |-> "top", cur |-> 1, att |-> 1, ls |-> 0, nw |-> 0, err |-> "none"]
        /\ out = <<>>
        /\ vm = [state |-> "idle", m |-> 0]

Faulty      == ex.att = 1
Cancelled   == Faulty /\ fault.type = "cancel" /\ ex.nw >= fault.k
WriteFails(n) == Faulty /\ fault.type = "wfail" /\ n >= fault.k
WriterWaiting(m) == WithVM /\ vm.state = "waiting" /\ vm.m = m
Cur == ex.cur

\* Store.Range: next metric, or the end of the iteration; varz/graphite first poll r.Context().Done()
ExTop ==
  /\ ex.pc = "top" /\ kind # "json"
  /\ ex' = IF ex.cur > NM THEN [ex EXCEPT !.pc = "epilogue"]
           ELSE IF ChecksCtx /\ Cancelled THEN [ex EXCEPT !.pc = "epilogue", !.err = "ctx"]
           ELSE [ex EXCEPT !.pc = "rlock"]
  /\ UNCHANGED <<scen, rd, wr, em, leaked, out, vm>>

\* m.RLock(): blocks while a writer holds or waits for the lock
ExRLock ==
  /\ ex.pc = "rlock"
  /\ ~wr[Cur] /\ ~WriterWaiting(Cur)
  /\ rd' = [rd EXCEPT ![Cur] = @ + 1]
  /\ ex' = [ex EXCEPT !.pc = "locked"]
  /\ UNCHANGED <<scen, wr, em, leaked, out, vm>>

\* `if m.Kind == metrics.Text { m.RUnlock(); return nil }` (prom, push), else `go m.EmitLabelSets(lc)`
ExLocked ==
  /\ ex.pc = "locked"
  /\ IF SkipsText /\ text[Cur]
     THEN /\ rd' = [rd EXCEPT ![Cur] = @ - 1]
          /\ ex' = [ex EXCEPT !.pc = "top", !.cur = @ + 1]
          /\ UNCHANGED em
     ELSE /\ em' = Spawn(Cur)
          /\ ex' = [ex EXCEPT !.pc = "recv"]
          /\ UNCHANGED rd
  /\ UNCHANGED <<scen, wr, leaked, out, vm>>

\* `for l := range lc`: rendezvous with the emitter's `c <- ls`
ExRecv ==
  /\ ex.pc = "recv" /\ em.state = "sending"
  /\ ex' = [ex EXCEPT !.pc = "proc", !.ls = em.i]
  /\ em' = Advanced
  /\ UNCHANGED <<scen, rd, wr, leaked, out, vm>>

\* channel closed: the loop ends, `m.RUnlock(); return nil`
ExRangeEnd ==
  /\ ex.pc = "recv" /\ em.state = "closed"
  /\ rd' = [rd EXCEPT ![Cur] = @ - 1]
  /\ em' = EmNone
  /\ ex' = [ex EXCEPT !.pc = "top", !.cur = @ + 1, !.ls = 0]
  /\ UNCHANGED <<scen, wr, leaked, out, vm>>

\* the exporter stops ranging over the channel while it still holds the read lock:
\* the emitter (if it has label sets left) stays blocked on its send for ever
Abandon(nextpc, err) ==
  /\ leaked' = IF em.state = "sending" THEN [leaked EXCEPT ![Cur] = @ + 1] ELSE leaked
  /\ em' = EmNone
  /\ ex' = [ex EXCEPT !.pc = nextpc, !.cur = IF nextpc = "top" THEN @ + 1 ELSE @, !.ls = 0, !.err = err]
  /\ UNCHANGED <<rd, out>>

\* prometheus.go: NewConstMetric / NewConstHistogram, then `c <- pM`
ExProcProm ==
  /\ ex.pc = "proc" /\ kind = "prom"
  /\ IF <<Cur, ex.ls>> \in BadSet                                \* a property of the store: both attempts meet it
     THEN IF DEV_CollectReturnsHoldingRLock
          THEN Abandon("top", "none")                           \* `glog.Warning(err); return nil`
          ELSE /\ ex' = [ex EXCEPT !.pc = "recv"]                \* leave the label set out, keep ranging
               /\ UNCHANGED <<rd, em, leaked, out>>
     ELSE /\ out' = IF Faulty THEN Append(out, <<Cur, ex.ls>>) ELSE out
          /\ ex' = [ex EXCEPT !.pc = "recv", !.nw = @ + 1]
          /\ UNCHANGED <<rd, em, leaked>>
  /\ UNCHANGED <<scen, wr, vm>>

\* export.go writeSocketMetrics: `line := f(..); _, err := fmt.Fprint(c, line)`
ExProcPush ==
  /\ ex.pc = "proc" /\ kind = "push"
  /\ IF WriteFails(ex.nw + 1)
     THEN IF DEV_PushReturnsHoldingRLock
          THEN Abandon("epilogue", "write")                      \* `return errors.Errorf("write error..")`
          ELSE /\ ex' = [ex EXCEPT !.pc = "drain", !.err = "write", !.nw = @ + 1]
               /\ UNCHANGED <<rd, em, leaked, out>>
     ELSE /\ out' = IF Faulty THEN Append(out, <<Cur, ex.ls>>) ELSE out
          /\ ex' = [ex EXCEPT !.pc = "recv", !.nw = @ + 1]
          /\ UNCHANGED <<rd, em, leaked>>
  /\ UNCHANGED <<scen, wr, vm>>

\* corrected push error path: keep receiving (without writing) until the emitter closes, unlock, return the error
ExDrain ==
  /\ ex.pc = "drain"
  /\ IF em.state = "sending"
     THEN em' = Advanced /\ UNCHANGED <<rd, ex>>
     ELSE /\ rd' = [rd EXCEPT ![Cur] = @ - 1]
          /\ em' = EmNone
          /\ ex' = [ex EXCEPT !.pc = "epilogue", !.ls = 0]
  /\ UNCHANGED <<scen, wr, leaked, out, vm>>

\* varz.go / graphite.go: `fmt.Fprint(w, line)`, error ignored
ExProcHTTP ==
  /\ ex.pc = "proc" /\ ChecksCtx
  /\ out' = IF Faulty /\ ~WriteFails(ex.nw + 1) THEN Append(out, <<Cur, ex.ls>>) ELSE out
  /\ ex' = [ex EXCEPT !.pc = "recv", !.nw = @ + 1]
  /\ UNCHANGED <<scen, rd, wr, em, leaked, vm>>

\* json.go: json.MarshalIndent(e.store) (store lock only), then one w.Write
ExJson ==
  /\ ex.pc = "top" /\ kind = "json"
  /\ IF fault.type = "marshal"                                   \* the NaN datum stays in the store: both attempts
     THEN ex' = [ex EXCEPT !.pc = "epilogue", !.err = "marshal"] /\ UNCHANGED out
     ELSE IF WriteFails(1) THEN ex' = [ex EXCEPT !.pc = "epilogue", !.err = "write", !.nw = 1] /\ UNCHANGED out
     ELSE /\ ex' = [ex EXCEPT !.pc = "epilogue", !.nw = 1]
          /\ out' = IF Faulty THEN Append(out, <<0, 0>>) ELSE out
  /\ UNCHANGED <<scen, rd, wr, em, leaked, vm>>

\* Range returned: http.Error(..) / return err / Collect returns
ExEpilogue ==
  /\ ex.pc = "epilogue"
  /\ ex' = [ex EXCEPT !.pc = "returned"]
  /\ UNCHANGED <<scen, rd, wr, em, leaked, out, vm>>

\* the next, healthy export attempt of the same exporter
ExAgain ==
  /\ ex.pc = "returned"
  /\ ex' = IF ex.att = 1 THEN [pc |-> "top", cur |-> 1, att |-> 2, ls |-> 0, nw |-> 0, err |-> "none"]
           ELSE [ex EXCEPT !.pc = "done"]
  /\ UNCHANGED <<scen, rd, wr, em, leaked, out, vm>>

ExStep == ExTop \/ ExRLock \/ ExLocked \/ ExRecv \/ ExRangeEnd \/ ExProcProm \/ ExProcPush \/ ExDrain
          \/ ExProcHTTP \/ ExJson \/ ExEpilogue \/ ExAgain

\* a VM thread: Metric.GetDatum => m.Lock() ... m.Unlock(), again and again
VmWant == /\ WithVM /\ vm.state = "idle"
          /\ \E m \in M : vm' = [state |-> "waiting", m |-> m]
          /\ UNCHANGED <<scen, rd, wr, em, leaked, ex, out>>
VmLock == /\ vm.state = "waiting" /\ rd[vm.m] = 0 /\ ~wr[vm.m]
          /\ wr' = [wr EXCEPT ![vm.m] = TRUE] /\ vm' = [vm EXCEPT !.state = "in"]
          /\ UNCHANGED <<scen, rd, em, leaked, ex, out>>
VmDone == /\ vm.state = "in"
          /\ wr' = [wr EXCEPT ![vm.m] = FALSE] /\ vm' = [state |-> "idle", m |-> 0]
          /\ UNCHANGED <<scen, rd, em, leaked, ex, out>>

Finished == ex.pc = "done" /\ vm.state = "idle" /\ UNCHANGED vars

Next == ExStep \/ VmWant \/ VmLock \/ VmDone \/ Finished
\* Go's RWMutex hands the lock to blocked readers when a writer unlocks, so a
\* reader cannot be overtaken for ever by a stream of writers: strong fairness for RLock.
Spec == /\ Init /\ [][Next]_vars
        /\ WF_vars(ExStep) /\ SF_vars(ExRLock) /\ WF_vars(VmLock) /\ WF_vars(VmDone)

-----------------------------------------------------------------------------
(* Properties (C12) *)
Inside == {"locked", "recv", "proc", "drain"}
TypeOK == /\ \A m \in M : rd[m] \in 0..2 /\ leaked[m] \in 0..2
          /\ ex.cur \in 1..(NM + 1) /\ ex.att \in {1, 2} /\ ex.ls \in 0..NL
          /\ em.state \in {"none", "sending", "closed"}
\* the statement of C12: after any export attempt every metric is unlocked, no helper goroutine left blocked
Clean == ex.pc \in {"returned", "done"} =>
           (\A m \in M : rd[m] = 0 /\ leaked[m] = 0) /\ em.state = "none"
\* stronger: a read lock is held exactly on the metric being ranged over, and nowhere else
HeldOnlyInside == \A m \in M : rd[m] = (IF ex.pc \in Inside /\ ex.cur = m THEN 1 ELSE 0)
\* the emitter reads m.LabelValues only under the exporter's read lock
EmitterUnderLock == em.state # "none" => (em.m = ex.cur /\ rd[em.m] > 0 /\ ex.pc \in Inside)
RWExclusion == \A m \in M : ~(wr[m] /\ rd[m] > 0)
NoLeak == \A m \in M : leaked[m] = 0
\* nothing but the unrepresentable / unwritable part is lost (link to C13, C22)
Complete == (ex.pc = "returned" /\ ex.att = 1) => (out = ExpectedOut /\ ex.err = ExpectedErr)
\* subsequent line processing and exports complete
VMProgress == (vm.state = "waiting") ~> (vm.state = "in")
ExportsComplete == <>(ex.pc = "done")

Emit == (EmitCases /\ ex.pc = "returned" /\ ex.att = 1) =>
          PrintT(<<"CASE", ToJson([kind |-> kind, nls |-> nls, text |-> text, fault |-> fault,
                                    locked |-> {m \in M : rd[m] > 0}, leaked |-> SumOver(leaked, M),
                                    out |-> out, err |-> ex.err])>>)
=============================================================================
