---------------------------- MODULE Concurrency ----------------------------
(***************************************************************************)
(* C11: the goroutines that touch one metric concurrently, as interleaved  *)
(* atomic steps annotated with the locks they hold (a lockset model).      *)
(*                                                                         *)
(*   vm      vm.go execute: Dload -> Metric.GetDatum (m.Lock), Inc ->      *)
(*           atomic add on the datum; Del -> Metric.RemoveDatum (m.Lock);  *)
(*           Expire -> Metric.ExpireDatum (m.Lock)                         *)
(*   vm2     a second VM of the same program (old and new VM overlap       *)
(*           during a reload and share the datum Store.Add copied)         *)
(*   gc      store.go Gc: Range under searchMu.RLock; reads m.LabelValues  *)
(*           / lv.Expiry, RemoveOldestDatum scans m.LabelValues;           *)
(*           RemoveDatum takes m.Lock                                      *)
(*   reload  store.go Add: insertMu + searchMu.RLock, iterates             *)
(*           v.LabelValues of the old metric copying Labels and Expiry,    *)
(*           v.GetDatum (v.Lock), then searchMu.Lock to swap the map entry *)
(*   prom / varz / graphite / push (writeSocketMetrics of the collectd,    *)
(*           graphite and statsd push) exporter: Range, m.RLock, EmitLabelSets *)
(*           (a child goroutine, ordered inside the RLock by the channel), *)
(*           atomic loads of the datum                                     *)
(*   json    exporter HandleJSON -> Store.MarshalJSON: searchMu.RLock,     *)
(*           json.Marshal walks Metric.LabelValues / LabelValue.Expiry     *)
(*                                                                         *)
(* Shared locations of one metric m:  LV  = m.LabelValues + labelValuesMap *)
(* (guarded by m's RWMutex), EXP = LabelValue.Expiry (same guard), MAP =   *)
(* Store.Metrics (guarded by searchMu), the datum value (atomic).          *)
(*                                                                         *)
(* A data race is a state in which two different actors are both about to  *)
(* access the same location, at least one of them writing: with the locks  *)
(* modelled explicitly two properly guarded accesses can never be enabled  *)
(* together.  The places where the code reads without the guard are the    *)
(* deviations; switched off, the read is bracketed by m.RLock.             *)
(***************************************************************************)
EXTENDS Integers, Sequences, FiniteSets, Json, TLC

CONSTANTS Actors,                 \* the actor names above
          Groups,                 \* sets of actors run together (one group per behaviour)
          NInc,                   \* increments each VM performs
          DEV_GcReadsLabelValuesUnlocked,      \* Store.Gc / RemoveOldestDatum read m.LabelValues, lv.Expiry without m's lock
          DEV_AddIteratesLabelValuesUnlocked,  \* Store.Add ranges over v.LabelValues without v's lock
          DEV_JSONMarshalsMetricUnlocked,      \* Store.MarshalJSON marshals Metrics without their locks
          DEV_IncNotAtomic,       \* what-if (not a finding): the increment as load; store
          EmitCases

VARIABLES active,    \* the group of actors of this behaviour
          pc,        \* pc[a]: index of a's next instruction
          wr,        \* wr[l]: the actor holding lock l exclusively, or "none"
          rd,        \* rd[l]: the actors holding RW lock l shared
          counter,   \* the datum's value
          tmp,       \* tmp[a]: value loaded by a non-atomic increment
          incs,      \* number of increments performed so far
          seenVals,  \* values exports have read, each with the bounds incs had when the export began / ended
          expLo      \* expLo[a]: incs when exporter a started
vars == <<active, pc, wr, rd, counter, tmp, incs, seenVals, expLo>>

Locks == {"search", "insert", "m"}

\* instructions
Acq(l, mode)        == [op |-> "acq", l |-> l, mode |-> mode, loc |-> "", rw |-> "", site |-> ""]
Rel(l, mode)        == [op |-> "rel", l |-> l, mode |-> mode, loc |-> "", rw |-> "", site |-> ""]
Acc(loc, rw, site)  == [op |-> "acc", l |-> "", mode |-> "", loc |-> loc, rw |-> rw, site |-> site]
Op(o)               == [op |-> o, l |-> "", mode |-> "", loc |-> "", rw |-> "", site |-> ""]

\* a read of the metric's slice/index/expiry that the corrected design brackets with m.RLock
Guarded(unlocked, accs) == IF unlocked THEN accs ELSE <<Acq("m", "R")>> \o accs \o <<Rel("m", "R")>>

IncOnce == <<Acq("m", "W"), Acc("LV", "R", "Metric.GetDatum"), Rel("m", "W")>> \o
           (IF DEV_IncNotAtomic THEN <<Op("incload"), Op("incstore")>> ELSE <<Op("inc")>>)
RECURSIVE Times(_, _)
Times(s, n) == IF n = 0 THEN <<>> ELSE s \o Times(s, n - 1)

Program(a) ==
  CASE a = "vm" ->
         <<Acq("m", "W"), Acc("LV", "R", "Metric.GetDatum"), Acc("LV", "W", "Metric.AppendLabelValue"), Rel("m", "W"),   \* first line creates the datum
           (IF DEV_IncNotAtomic THEN Op("incload") ELSE Op("inc"))>> \o (IF DEV_IncNotAtomic THEN <<Op("incstore")>> ELSE <<>>) \o
         Times(IncOnce, NInc - 1) \o
         <<Acq("m", "W"), Acc("LV", "R", "Metric.ExpireDatum"), Acc("EXP", "W", "Metric.ExpireDatum"), Rel("m", "W"),      \* del ... after
           Acq("m", "W"), Acc("LV", "W", "Metric.RemoveDatum"), Rel("m", "W")>>                                            \* del (another label)
    [] a = "vm2" -> Times(IncOnce, NInc)
    [] a = "gc" ->
         <<Acq("search", "R"), Acc("MAP", "R", "Store.Range")>> \o
         Guarded(DEV_GcReadsLabelValuesUnlocked, <<Acc("LV", "R", "Store.Gc"), Acc("LV", "R", "Metric.RemoveOldestDatum")>>) \o
         <<Acq("m", "W"), Acc("LV", "W", "Metric.RemoveDatum"), Rel("m", "W")>> \o
         Guarded(DEV_GcReadsLabelValuesUnlocked, <<Acc("LV", "R", "Store.Gc"), Acc("EXP", "R", "Store.Gc")>>) \o
         <<Acq("m", "W"), Acc("LV", "W", "Metric.RemoveDatum"), Rel("m", "W"), Rel("search", "R")>>
    [] a = "reload" ->
         <<Acq("insert", "W"), Acq("search", "R"), Acc("MAP", "R", "Store.Add")>> \o
         Guarded(DEV_AddIteratesLabelValuesUnlocked, <<Acc("LV", "R", "Store.Add"), Acc("EXP", "R", "Store.Add")>>) \o   \* range v.LabelValues; copies oldLabel.Expiry
         \* v.GetDatum(oldLabel.Labels...): finds the datum, or re-creates a label value deleted since the range read it
         <<Acq("m", "W"), Acc("LV", "R", "Metric.GetDatum"), Acc("LV", "W", "Metric.AppendLabelValue"), Rel("m", "W"),
           Rel("search", "R"), Acq("search", "W"), Acc("MAP", "W", "Store.Add"), Rel("search", "W"), Rel("insert", "W")>>
    [] a \in {"prom", "varz", "graphite", "push"} ->
         <<Acq("search", "R"), Acc("MAP", "R", "Store.Range"), Acq("m", "R"), Acc("LV", "R", "Metric.EmitLabelSets"),
           Op("load"), Rel("m", "R"), Rel("search", "R")>>
    [] a = "json" ->
         <<Acq("search", "R"), Acc("MAP", "R", "Store.MarshalJSON")>> \o
         Guarded(DEV_JSONMarshalsMetricUnlocked, <<Acc("LV", "R", "json.Marshal"), Acc("EXP", "R", "json.Marshal")>>) \o
         <<Op("load"), Rel("search", "R")>>

Done(a) == pc[a] > Len(Program(a))
Instr(a) == Program(a)[pc[a]]
Exporters == {"prom", "varz", "graphite", "push", "json"}

Init == /\ active \in Groups
        /\ pc = [a \in Actors |-> IF a \in active THEN 1 ELSE Len(Program(a)) + 1]
        /\ wr = [l \in Locks |-> "none"] /\ rd = [l \in Locks |-> {}]
        /\ counter = 0 /\ tmp = [a \in Actors |-> 0] /\ incs = 0
        /\ seenVals = {} /\ expLo = [a \in Actors |-> 0]

-----------------------------------------------------------------------------
\* two actors about to touch one location, one of them writing
Conflict(a, b) == /\ a # b /\ ~Done(a) /\ ~Done(b)
                  /\ Instr(a).op = "acc" /\ Instr(b).op = "acc"
                  /\ Instr(a).loc = Instr(b).loc
                  /\ (Instr(a).rw = "W" \/ Instr(b).rw = "W")
RacesNow == {[a |-> a, sa |-> Instr(a).site, b |-> b, sb |-> Instr(b).site, loc |-> Instr(a).loc] :
               <<a, b>> \in {p \in Actors \X Actors : Conflict(p[1], p[2]) /\ Instr(p[1]).rw = "W"}}

Advance(a) == pc' = [pc EXCEPT ![a] = @ + 1]

Step(a) ==
  /\ ~Done(a)
  /\ LET i == Instr(a) IN
     /\ CASE i.op = "acq" /\ i.mode = "W" ->      \* sync.RWMutex.Lock / sync.Mutex.Lock
               /\ wr[i.l] = "none" /\ rd[i.l] = {}
               /\ wr' = [wr EXCEPT ![i.l] = a] /\ UNCHANGED <<rd, counter, tmp, incs, seenVals>>
          [] i.op = "acq" /\ i.mode = "R" ->      \* RLock
               /\ wr[i.l] = "none"
               /\ rd' = [rd EXCEPT ![i.l] = @ \cup {a}] /\ UNCHANGED <<wr, counter, tmp, incs, seenVals>>
          [] i.op = "rel" /\ i.mode = "W" ->
               /\ wr' = [wr EXCEPT ![i.l] = "none"] /\ UNCHANGED <<rd, counter, tmp, incs, seenVals>>
          [] i.op = "rel" /\ i.mode = "R" ->
               /\ rd' = [rd EXCEPT ![i.l] = @ \ {a}] /\ UNCHANGED <<wr, counter, tmp, incs, seenVals>>
          [] i.op = "acc" -> UNCHANGED <<wr, rd, counter, tmp, incs, seenVals>>
          [] i.op = "inc" ->                      \* atomic.AddInt64
               /\ counter' = counter + 1 /\ incs' = incs + 1 /\ UNCHANGED <<wr, rd, tmp, seenVals>>
          [] i.op = "incload" ->
               /\ tmp' = [tmp EXCEPT ![a] = counter] /\ UNCHANGED <<wr, rd, counter, incs, seenVals>>
          [] i.op = "incstore" ->
               /\ counter' = tmp[a] + 1 /\ incs' = incs + 1 /\ UNCHANGED <<wr, rd, tmp, seenVals>>
          [] i.op = "load" ->                     \* atomic.LoadInt64 by an exporter
               /\ seenVals' = seenVals \cup {[v |-> counter, lo |-> expLo[a], hi |-> incs]}
               /\ UNCHANGED <<wr, rd, counter, tmp, incs>>
     /\ expLo' = IF pc[a] = 1 /\ a \in Exporters THEN [expLo EXCEPT ![a] = incs] ELSE expLo
  /\ Advance(a)
  /\ UNCHANGED active

AllDone == \A a \in Actors : Done(a)
Next == (\E a \in Actors : Step(a)) \/ (AllDone /\ UNCHANGED vars)   \* with deadlock checking on: no lock cycle
Spec == Init /\ [][Next]_vars

-----------------------------------------------------------------------------
(* properties *)
LockOK == \A l \in Locks : wr[l] = "none" \/ rd[l] = {}

\* no data race on shared metric state
NoRace == RacesNow = {}

\* no counter increment is lost
NoLostIncrement == (\A a \in Actors : ~Done(a) => Instr(a).op # "incstore") => counter = incs

\* every export reflects a value that existed: between the number of increments performed
\* when the export began and when it read
ExportedValueExisted == \A s \in seenVals : s.lo <= s.v /\ s.v <= s.hi

\* EmitCases: every state in which a race is enabled prints the racing access pairs (the check
\* collects the union: the model's prediction of which actor pairs / sites race)
Emit == (EmitCases /\ RacesNow # {}) => PrintT(<<"CASE", ToJson([races |-> RacesNow])>>)
=============================================================================
