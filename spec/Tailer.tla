------------------------------- MODULE Tailer -------------------------------
(***************************************************************************)
(* C18 - every matching log path is tailed, once.                          *)
(*                                                                         *)
(* Code anchors (internal/tailer/tail.go)                                  *)
(*   AddPattern        filepath.Abs(pattern); globPatterns; pollLogPattern *)
(*   pollLogPattern    one goroutine per AddPattern call, woken together   *)
(*   doPatternGlob     filepath.Glob -> Ignore -> filepath.Abs -> TailPath *)
(*   Ignore            stat fails / directory / ignore regex on base name  *)
(*   TailPath          de-duplication on t.logstreams under logstreamsMu,  *)
(*                     logstream.New, log_count++, forwarder goroutine     *)
(*   forwarder         at channel close: delete(t.logstreams), log_count-- *)
(* and internal/tailer/logstream/filestream.go for what a stream does when *)
(* it is woken (read, stat, not-exist => end, other inode => from start).  *)
(*                                                                         *)
(* A directory `logs` with five names: three log files, one file with an   *)
(* ignorable name, one directory whose name matches a glob.  The           *)
(* environment creates, deletes, renames and appends at any time; a POLL   *)
(* round wakes every pattern poller (they run in any order), a WAKE round  *)
(* wakes every stream goroutine (any order) and lets the forwarders of     *)
(* ended streams finish.                                                   *)
(*                                                                         *)
(* Deviation of the code (TRUE reproduces mtail at the pinned commit):     *)
(*   DEV_RemovalLagsClose  a stream that ended (closed its channel) stays  *)
(*       in t.logstreams until its forwarder goroutine gets to run the     *)
(*       delete - which it can only do after the consumer of the tailer's  *)
(*       output channel took the stream's last line.  A pattern poll in    *)
(*       that window finds "already got a logstream" for a path that has   *)
(*       been re-created and leaves it untailed.                           *)
(*   DEV_PollWhileStreamStale  pattern pollers and stream goroutines are   *)
(*       woken by independent tickers: a poll round can run while a stream *)
(*       has not yet noticed that its file was renamed.  The file then has *)
(*       a second stream under its new name while the old stream still     *)
(*       holds it open, and a line appended meanwhile is delivered twice.  *)
(*       Corrected design: a poll round starts only when every live stream *)
(*       has seen the current state of its path.                           *)
(*   DEV_StuckOnDirectory  when the path of a stream has become a          *)
(*       directory, the !os.SameFile branch opens it as the next           *)
(*       generation; every read then fails with EISDIR, which is neither   *)
(*       EOF nor ESTALE, so the goroutine parks without ever reaching the  *)
(*       stat again: the entry stays in t.logstreams for good, under a     *)
(*       directory's name, and a regular file created there later is never *)
(*       tailed.  Corrected design: a path that is no longer a regular     *)
(*       file ends the stream like a removed one.                          *)
(***************************************************************************)
EXTENDS Integers, Sequences, FiniteSets, Json, TLC

CONSTANTS MaxSteps,              \* bound on the history length (environment operations + rounds)
          MaxLines,              \* bound on the number of appended lines
          PatSets,               \* set of pattern sets (each a set of pattern instance ids) to choose from
          InitFS,                \* set of initial directory contents (sets of names)
          DEV_RemovalLagsClose,
          DEV_PollWhileStreamStale,
          DEV_StuckOnDirectory,
          SwapNames,             \* file names that may also be created as a directory (a log replaced by a directory)
          EagerRemove,           \* schedule restriction used for replay: forwarders finish inside the wake round
          EmitCases,             \* print a CASE line for every transition that completes a history step
          MinSteps               \* only histories at least this long are printed (= MaxSteps for -simulate)

Files == {"a.log", "b.log", "a.log.gz", "notes.txt"}    \* names that are regular files when they exist
Dirs  == {"d.log"}                                       \* a name that is a directory when it exists
\* a name that is a unix socket FILE when it exists: it matches the globs and is not ignored, but logstream.New
\* refuses it (unsupported file type) - TailPath returns an error, doPatternGlob logs it and goes on to the next
\* match.  It sorts between a.log and b.log: what a poll does with it must not matter to the matches after it.
Socks == {"a0.log"}
Names == Files \cup Dirs \cup Socks

\* pattern instances: glob + how the user spelled it (the spelling only matters to the harness,
\* AddPattern makes every spelling absolute and clean before anything else happens)
Pats == {"G1abs", "G1rel", "G2rel", "E3dot"}
GlobOf(p) == CASE p \in {"G1abs", "G1rel"} -> "*.log"     \* <root>/logs/*.log, absolute / relative to the cwd
               [] p = "G2rel"              -> "a*"        \* logs/a*, relative
               [] p = "E3dot"              -> "a.log"     \* <root>/logs/./a.log
\* filepath.Glob
Matches(g, n) == CASE g = "*.log" -> n \in {"a.log", "a0.log", "b.log", "d.log"}
                   [] g = "a*"    -> n \in {"a.log", "a.log.gz", "a0.log"}
                   [] g = "a.log" -> n = "a.log"
\* the ignore regexp, matched against the base name: ^a.*\.gz$
IgnMatch(n) == n = "a.log.gz"

ASSUME /\ \A ps \in PatSets : ps \subseteq Pats /\ ps # {}
       /\ \A fs \in InitFS : fs \subseteq Names
       /\ SwapNames \subseteq Files

NoStream == [live |-> FALSE, fd |-> 0, fi |-> 0, off |-> 0, ended |-> FALSE, stuck |-> FALSE]

VARIABLES
  \* ---- configuration ----
  pats, ign,
  \* ---- filesystem ----
  ino,        \* name -> inode, 0 = absent
  isdir,      \* name -> the name is a directory (meaningful while it exists)
  content,    \* inode -> sequence of line ids (every append is one complete line)
  nextIno, nextLine,
  \* ---- Tailer ----
  tailed,     \* DOMAIN t.logstreams
  st,         \* name -> stream state: live (goroutine exists), fd / fi inodes, offset, ended (channel
              \*         closed, forwarder has not yet deleted the map entry)
  logCount,   \* expvar log_count
  \* ---- rounds ----
  pc,         \* "idle" | "poll" | "wake"
  todoP,      \* pattern pollers that have not run yet in this poll round
  todoS,      \* stream goroutines that have not run yet in this wake round
  \* ---- observables / ghosts ----
  delivered,  \* sequence of <<name, line id>> received from the tailer
  owed,       \* line ids appended to an inode while a live stream had it open
  fresh,      \* a whole poll round ran after the last change of the filesystem or of the map
  quiet,      \* a whole wake round ran after the last change of the filesystem
  \* ---- history (not in VIEW) ----
  start,      \* the names that existed when the Tailer was created
  hist, obs, mark

vars == <<pats, ign, ino, isdir, content, nextIno, nextLine, tailed, st, logCount, pc, todoP, todoS,
          delivered, owed, fresh, quiet, start, hist, obs, mark>>
cfgVars == <<pats, ign, start>>
fsVars  == <<ino, isdir, content, nextIno, nextLine>>

Exists(n) == ino[n] # 0
\* tail.go Ignore(): true for what must not be tailed
Ignored(n) == \/ ~Exists(n)                 \* os.Stat fails
              \/ isdir[n]                  \* fi.Mode().IsDir()
              \/ ign /\ IgnMatch(n)         \* ignoreRegexPattern.MatchString(fi.Name())
\* ideal: the regular files that must have a stream
Eligible == {n \in Files : Exists(n) /\ ~isdir[n] /\ (\E p \in pats : Matches(GlobOf(p), n)) /\ ~(ign /\ IgnMatch(n))}
Live     == {n \in Names : st[n].live}

-----------------------------------------------------------------------------
Init ==
  /\ pats \in PatSets /\ ign \in BOOLEAN
  /\ \E fs \in InitFS :
       /\ start = fs
       /\ LET ord == CHOOSE f \in [fs -> 1..Cardinality(fs)] : \A x, y \in fs : x # y => f[x] # f[y] IN
          /\ ino = [n \in Names |-> IF n \in fs THEN ord[n] ELSE 0]
          /\ isdir = [n \in Names |-> n \in Dirs]
          /\ content = [i \in 1..Cardinality(fs) |-> <<>>]
          /\ nextIno = Cardinality(fs) + 1
  /\ nextLine = 1
  /\ tailed = {} /\ st = [n \in Names |-> NoStream] /\ logCount = 0
  \* tailer.New: AddPattern globs every pattern once, synchronously, in the order given
  /\ pc = "poll" /\ todoP = pats /\ todoS = {}
  /\ delivered = <<>> /\ owed = {} /\ fresh = FALSE /\ quiet = TRUE
  /\ hist = <<[op |-> "start", a |-> "", b |-> ""]>> /\ obs = <<>> /\ mark = 0

-----------------------------------------------------------------------------
(* Environment *)

Record(step) == /\ hist' = Append(hist, step)
                /\ Len(hist) <= MaxSteps

EnvCommon(step) == /\ pc = "idle" /\ Record(step)
                   /\ fresh' = FALSE /\ quiet' = FALSE
                   /\ obs' = Append(obs, [kind |-> "env"])
                   /\ UNCHANGED <<cfgVars, tailed, st, logCount, pc, todoP, todoS, delivered, mark>>

\* create a regular file under a file name, mkdir under the directory name
Create(n) == /\ ~Exists(n)
             /\ ino' = [ino EXCEPT ![n] = nextIno]
             /\ isdir' = [isdir EXCEPT ![n] = n \in Dirs]
             /\ content' = Append(content, <<>>)
             /\ nextIno' = nextIno + 1
             /\ EnvCommon([op |-> "create", a |-> n, b |-> ""])
             /\ UNCHANGED <<nextLine, owed>>

\* mkdir under a name that is normally a log file
CreateDir(n) == /\ n \in SwapNames /\ ~Exists(n)
                /\ ino' = [ino EXCEPT ![n] = nextIno]
                /\ isdir' = [isdir EXCEPT ![n] = TRUE]
                /\ content' = Append(content, <<>>)
                /\ nextIno' = nextIno + 1
                /\ EnvCommon([op |-> "mkdir", a |-> n, b |-> ""])
                /\ UNCHANGED <<nextLine, owed>>

Delete(n) == /\ Exists(n)
             /\ ino' = [ino EXCEPT ![n] = 0]
             /\ EnvCommon([op |-> "delete", a |-> n, b |-> ""])
             /\ UNCHANGED <<isdir, content, nextIno, nextLine, owed>>

\* rename(a, b) between file names; b must not exist and must not be the key of a stream (assumption: a
\* log is never moved onto a path that is being tailed - the stream of b would read it from the start
\* as a rotation, and lines already delivered under the name a would come again under the name b)
Rename(a, b) == /\ a \in Files /\ b \in Files /\ a # b /\ Exists(a) /\ ~isdir[a] /\ ~Exists(b) /\ b \notin tailed
                /\ ino' = [ino EXCEPT ![a] = 0, ![b] = ino[a]]
                /\ isdir' = [isdir EXCEPT ![b] = FALSE]
                /\ EnvCommon([op |-> "rename", a |-> a, b |-> b])
                /\ UNCHANGED <<content, nextIno, nextLine, owed>>

AppendLine(n) == /\ n \in Files /\ Exists(n) /\ ~isdir[n] /\ nextLine <= MaxLines
                 /\ content' = [content EXCEPT ![ino[n]] = Append(@, nextLine)]
                 /\ nextLine' = nextLine + 1
                 /\ owed' = IF \E s \in Live : st[s].fd = ino[n] THEN owed \cup {nextLine} ELSE owed
                 /\ EnvCommon([op |-> "append", a |-> n, b |-> ""])
                 /\ UNCHANGED <<ino, isdir, nextIno>>

Env == \/ \E n \in Names : Create(n) \/ Delete(n) \/ CreateDir(n)
       \/ \E a, b \in Files : Rename(a, b)
       \/ \E n \in Files : AppendLine(n)

-----------------------------------------------------------------------------
(* Poll round: every pattern poller runs doPatternGlob once *)

Snapshot(kind, tl, lc, lv) ==
  [kind |-> kind, keys |-> tl, logs |-> lc, parked |-> Cardinality(lv),
   lines |-> SubSeq(delivered, mark + 1, Len(delivered))]

StreamsCurrent == \A n \in Live : ino[n] = st[n].fi

BeginPoll == /\ pc = "idle" /\ Record([op |-> "poll", a |-> "", b |-> ""])
             /\ DEV_PollWhileStreamStale \/ StreamsCurrent
             /\ pc' = "poll" /\ todoP' = pats
             /\ mark' = Len(delivered)
             /\ UNCHANGED <<cfgVars, fsVars, tailed, st, logCount, todoS, delivered, owed, fresh, quiet, obs>>

\* TailPath for every non-ignored match; logstream.New opens the file and seeks to its end
PollPattern(p) ==
  /\ pc = "poll" /\ p \in todoP
  /\ LET new == {n \in Names \ Socks : Matches(GlobOf(p), n) /\ ~Ignored(n) /\ n \notin tailed}    \* (TailPath on a socket file fails)
         tl  == tailed \cup new
         st1 == [n \in Names |-> IF n \in new
                                 THEN [live |-> TRUE, fd |-> ino[n], fi |-> ino[n], off |-> Len(content[ino[n]]),
                                       ended |-> FALSE, stuck |-> FALSE]
                                 ELSE st[n]]
         lc  == logCount + Cardinality(new)
         lv  == {n \in Names : st1[n].live}
     IN /\ tailed' = tl /\ st' = st1 /\ logCount' = lc
        /\ todoP' = todoP \ {p}
        /\ IF todoP' = {}
           THEN /\ pc' = "idle" /\ fresh' = TRUE
                /\ obs' = Append(obs, Snapshot("poll", tl, lc, lv))
           ELSE /\ UNCHANGED <<pc, fresh, obs>>
  /\ UNCHANGED <<cfgVars, fsVars, todoS, delivered, owed, quiet, hist, mark>>

-----------------------------------------------------------------------------
(* Wake round: every stream goroutine runs its loop once; forwarders of ended streams finish *)

BeginWake == /\ pc = "idle" /\ Record([op |-> "wake", a |-> "", b |-> ""])
             /\ pc' = "wake" /\ todoS' = Live
             /\ mark' = Len(delivered)
             /\ UNCHANGED <<cfgVars, fsVars, tailed, st, logCount, todoP, delivered, owed, fresh, quiet, obs>>

Lines(n, i, from) == [k \in 1..(Len(content[i]) - from) |-> <<n, content[i][from + k]>>]

\* filestream.go loop body for the stream of path n: read to EOF, then stat the path
EndStream(n, got) ==
  /\ delivered' = delivered \o got
  /\ IF DEV_RemovalLagsClose
     THEN /\ st' = [st EXCEPT ![n] = [NoStream EXCEPT !.ended = TRUE]]
          /\ UNCHANGED <<tailed, logCount, fresh>>
     ELSE /\ st' = [st EXCEPT ![n] = NoStream]
          /\ tailed' = tailed \ {n} /\ logCount' = logCount - 1
          /\ fresh' = FALSE

StreamRun(n) ==
  /\ pc = "wake" /\ n \in todoS
  /\ LET s    == st[n]
         got  == Lines(n, s.fd, s.off)                         \* ReadAndSend until EOF
     IN IF s.stuck
        THEN \* read fails with EISDIR: log_errors_total++, park again (the stat is never reached)
             UNCHANGED <<delivered, st, tailed, logCount, fresh>>
        ELSE IF ino[n] = 0
        THEN \* os.IsNotExist: Finish, close(lines), return
             EndStream(n, got)
        ELSE IF ino[n] # s.fi /\ isdir[n]
        THEN \* the path names a directory now
             IF DEV_StuckOnDirectory
             THEN \* code: !os.SameFile -> fs.stream() opens the directory as the next generation
                  /\ delivered' = delivered \o got
                  /\ st' = [st EXCEPT ![n] = [s EXCEPT !.fd = ino[n], !.fi = ino[n], !.off = 0, !.stuck = TRUE]]
                  /\ UNCHANGED <<tailed, logCount, fresh>>
             ELSE EndStream(n, got)
        ELSE IF ino[n] # s.fi
        THEN \* !os.SameFile: a new generation reads the new file from the start
             /\ delivered' = delivered \o got \o Lines(n, ino[n], 0)
             /\ st' = [st EXCEPT ![n] = [s EXCEPT !.fd = ino[n], !.fi = ino[n], !.off = Len(content[ino[n]])]]
             /\ UNCHANGED <<tailed, logCount, fresh>>
        ELSE /\ delivered' = delivered \o got
             /\ st' = [st EXCEPT ![n] = [s EXCEPT !.off = Len(content[s.fd])]]
             /\ UNCHANGED <<tailed, logCount, fresh>>
  /\ todoS' = todoS \ {n}
  /\ UNCHANGED <<cfgVars, fsVars, pc, todoP, owed, quiet, hist, obs, mark>>

\* the forwarder goroutine of an ended stream: delete(t.logstreams, pathname); log_count--
\* (code: any time after the close, as soon as the consumer has taken the stream's last line)
Remove(n) ==
  /\ DEV_RemovalLagsClose /\ st[n].ended
  /\ pc \in {"idle", "wake"}
  /\ st' = [st EXCEPT ![n] = NoStream]
  /\ tailed' = tailed \ {n} /\ logCount' = logCount - 1
  /\ fresh' = FALSE
  /\ UNCHANGED <<cfgVars, fsVars, pc, todoP, todoS, delivered, owed, quiet, hist, obs, mark>>

EndWake ==
  /\ pc = "wake" /\ todoS = {}
  \* the harness-visible round ends when the forwarders of ended streams are through
  /\ EagerRemove => \A n \in Names : ~st[n].ended
  /\ pc' = "idle" /\ quiet' = TRUE
  /\ obs' = Append(obs, [kind |-> "wake", keys |-> tailed, logs |-> logCount, parked |-> Cardinality(Live),
                         lines |-> SubSeq(delivered, mark + 1, Len(delivered))])
  /\ UNCHANGED <<cfgVars, fsVars, tailed, st, logCount, todoP, todoS, delivered, owed, fresh, hist, mark>>

Next == Env \/ BeginPoll \/ (\E p \in Pats : PollPattern(p)) \/ BeginWake
        \/ (\E n \in Names : StreamRun(n) \/ Remove(n)) \/ EndWake
Spec == Init /\ [][Next]_vars

-----------------------------------------------------------------------------
(* Properties *)

TypeOK ==
  /\ pc \in {"idle", "poll", "wake"}
  /\ tailed \subseteq Names
  /\ \A n \in Names : st[n].live => n \in tailed
  /\ Len(hist) <= MaxSteps + 1

\* after a poll round that saw the current filesystem and the current map, every existing regular
\* file that matches a pattern and is not ignored has a (live) stream
Complete == (pc = "idle" /\ fresh) => \A n \in Eligible : n \in tailed /\ st[n].live /\ ~st[n].stuck
\* ... and once the streams have looked as well, that stream reads the file the path names now
Follows  == (pc = "idle" /\ fresh /\ quiet) => \A n \in Eligible : st[n].fd = ino[n]
\* once the streams have looked, no directory is being tailed
NoDirTailed == (pc = "idle" /\ quiet) => \A n \in tailed : ~(Exists(n) /\ isdir[n])
\* never a stream under a directory's name, an ignored name, or a name no pattern matches
NeverBad == \A n \in tailed : /\ n \in Files
                             /\ \E p \in pats : Matches(GlobOf(p), n)
                             /\ ~(ign /\ IgnMatch(n))
\* one map entry per stream, log_count counts them
CountOK  == logCount = Cardinality(tailed)
\* no line is delivered twice (however many patterns match the path, however often it is polled)
DelIds   == {delivered[i][2] : i \in 1..Len(delivered)}
NoDup    == Cardinality(DelIds) = Len(delivered)
\* every line appended to a file a stream had open is delivered once the streams have looked
AllOwed  == (pc = "idle" /\ quiet) => owed \subseteq DelIds
\* a stream without a goroutine is gone from the map by the time the round is over
NoZombie == (pc = "idle" /\ ~DEV_RemovalLagsClose) => \A n \in tailed : st[n].live

-----------------------------------------------------------------------------
(* Case emission: one CASE per transition that completes a history step (ACTION_CONSTRAINT) *)
StepDone == Len(obs') = Len(hist') /\ Len(obs') > Len(obs) /\ Len(hist') >= MinSteps
EmitStep == (EmitCases /\ StepDone) =>
              PrintT(<<"CASE", ToJson([pats |-> pats, ign |-> ign,
                                       start |-> start, quiet |-> quiet',
                                       hist |-> hist', obs |-> obs'])>>)

View == <<pats, ign, ino, isdir, content, nextIno, nextLine, tailed, st, logCount, pc, todoP, todoS,
          delivered, owed, fresh, quiet, start, Len(hist)>>
=============================================================================
