------------------------------ MODULE StoreGc ------------------------------
(***************************************************************************)
(* internal/metrics/store.go : Store.Gc (C10).                             *)
(*                                                                         *)
(* Implementation-shaped layer: Gc exactly as written -                    *)
(*     now := time.Now()                                                   *)
(*     s.Range(func(m) {                                                   *)
(*       if m.Limit > 0 && len(m.LabelValues) >= m.Limit {                 *)
(*         for i := len(m.LabelValues); i > m.Limit; i-- { m.RemoveOldestDatum() } } *)
(*       for i := 0; i < len(m.LabelValues); i++ {                         *)
(*         lv := m.LabelValues[i]                                          *)
(*         if lv.Expiry <= 0 { continue }                                  *)
(*         if now.Sub(lv.Value.TimeUTC()) > lv.Expiry { m.RemoveDatum(lv.Labels...); i-- } } }) *)
(* one action per loop iteration (each RemoveDatum is one critical section *)
(* under the metric's lock), the loop variable `i` and the position in     *)
(* Range as variables.  Metrics are the records of MetricOps.tla (slice +  *)
(* index), RemoveOldestDatum / RemoveDatum are its operators.  Range walks *)
(* a Go map: the order of the metrics is arbitrary.                        *)
(*                                                                         *)
(* Ideal layer: GcPost = the statement of C10 as a predicate on (store     *)
(* before, T, store after).                                                *)
(*                                                                         *)
(* The store before the pass is ANY store within the bounds (every such    *)
(* store is built by creates in slice order, one timestamped update and    *)
(* one expiry mark per datum).  Datum j of a metric carries the label      *)
(* tuple <<"a"^j>>.  Times are integers; Expiry is in the same unit.       *)
(***************************************************************************)
EXTENDS MetricOps, Json

CONSTANTS MaxMetrics,     \* 1..MaxMetrics metrics in the store
          MaxData,        \* 0..MaxData label values per metric
          Times,          \* set of datum timestamps
          ExpirySet,      \* set of expiry marks, 0 = not marked
          Limits,         \* set of metric limits, 0 = no limit
          GcTimes,        \* set of instants T at which the pass runs
          EmitCases

VARIABLES pre,      \* the store before the pass: sequence of [limit, data: sequence of <<time, expiry>>]
          store,    \* the store: sequence of [limit, M], M = [lvs, idx] as in MetricOps
          T,        \* `now` of this pass
          pc,       \* "idle" | "range" | "limit" | "sweep" | "done"
          todo,     \* metrics Range has not visited yet
          cur,      \* the metric the callback is running on (0 = none)
          i         \* the loop variable of the running loop
vars == <<pre, store, T, pc, todo, cur, i>>

Arity == 1
Label(j) == << [k \in 1..j |-> "a"] >>
LabelNo(t) == Len(t[1])

\* building a metric with the public API: GetDatum, a datum update stamped `time`, ExpireDatum
RECURSIVE Build(_, _, _)
Build(M, data, j) ==
  IF j > Len(data) THEN M
  ELSE LET g == GetDatum(M, Arity, Label(j), [val |-> 0, time |-> 0])
           F(d) == [val |-> 100 + j, time |-> data[j][1]]
           u == UpdateDatum(g.M, g.id, F)
           e == IF data[j][2] > 0 THEN ExpireDatum(u, Arity, data[j][2], Label(j)).M ELSE u
       IN Build(e, data, j + 1)

DataSeqs == UNION {[1..n -> Times \X ExpirySet] : n \in 0..MaxData}
MetricSpecs == [limit : Limits, data : DataSeqs]

Init == /\ pre \in UNION {[1..n -> MetricSpecs] : n \in 1..MaxMetrics}
        /\ store = [m \in DOMAIN pre |-> [limit |-> pre[m].limit, M |-> Build(EmptyMetric, pre[m].data, 1)]]
        /\ T \in GcTimes
        /\ pc = "idle" /\ todo = {} /\ cur = 0 /\ i = 0

-----------------------------------------------------------------------------
(* Store.Gc *)
SetM(m, newM) == [store EXCEPT ![m].M = newM]

\* now := time.Now(); s.Range(...)
GcBegin == /\ pc = "idle"
           /\ pc' = "range" /\ todo' = DOMAIN store
           /\ UNCHANGED <<pre, store, T, cur, i>>

\* Range calls the callback on the next metric (map order: any):
\*   if m.Limit > 0 && len(m.LabelValues) >= m.Limit { for i := len(m.LabelValues); ...
GcVisit(m) == /\ pc = "range" /\ m \in todo
              /\ todo' = todo \ {m} /\ cur' = m
              /\ IF store[m].limit > 0 /\ Len(store[m].M.lvs) >= store[m].limit
                 THEN pc' = "limit" /\ i' = Len(store[m].M.lvs)
                 ELSE pc' = "sweep" /\ i' = 0
              /\ UNCHANGED <<pre, store, T>>

\*   for ...; i > m.Limit; i-- { m.RemoveOldestDatum() }
GcLimitStep == /\ pc = "limit"
               /\ IF i > store[cur].limit
                  THEN /\ store' = SetM(cur, RemoveOldestDatum(store[cur].M, Arity).M)
                       /\ i' = i - 1 /\ pc' = pc
                  ELSE /\ pc' = "sweep" /\ i' = 0 /\ store' = store
               /\ UNCHANGED <<pre, T, todo, cur>>

\*   for i := 0; i < len(m.LabelValues); i++ { lv := m.LabelValues[i]; ... }
GcSweepStep == /\ pc = "sweep"
               /\ LET lvs == store[cur].M.lvs IN
                  IF i < Len(lvs)
                  THEN LET lv == lvs[i + 1] IN
                       IF lv.exp <= 0 THEN i' = i + 1 /\ store' = store /\ pc' = pc               \* continue
                       ELSE IF T - lv.time > lv.exp                                              \* now.Sub(t) > Expiry
                            THEN /\ store' = SetM(cur, RemoveDatum(store[cur].M, Arity, lv.labels).M)
                                 /\ i' = i /\ pc' = pc                                           \* i-- ; i++
                            ELSE i' = i + 1 /\ store' = store /\ pc' = pc
                  ELSE pc' = "range" /\ i' = 0 /\ store' = store                                 \* callback returns nil
               /\ cur' = IF pc' = "range" THEN 0 ELSE cur
               /\ UNCHANGED <<pre, T, todo>>

GcEnd == /\ pc = "range" /\ todo = {}
         /\ pc' = "done"
         /\ UNCHANGED <<pre, store, T, todo, cur, i>>

Next == GcBegin \/ (\E m \in DOMAIN store : GcVisit(m)) \/ GcLimitStep \/ GcSweepStep \/ GcEnd
Spec == Init /\ [][Next]_vars

-----------------------------------------------------------------------------
(* Ideal: the statement of C10 *)
\* a metric as the sequence of its data <<label number, time, expiry, value>>
Data(M) == [k \in DOMAIN M.lvs |-> <<LabelNo(M.lvs[k].labels), M.lvs[k].time, M.lvs[k].exp, M.lvs[k].val>>]
PreData(spec) == [j \in DOMAIN spec.data |-> <<j, spec.data[j][1], spec.data[j][2], 100 + j>>]

Expired(d, t) == d[3] > 0 /\ t - d[2] > d[3]

\* GcPostMetric(before, N, t, after): there is a set L of data "removed for the limit" such that
\*  - L is empty unless N > 0 and the metric held more than N data; then exactly the excess is in L
\*    (so at most N are kept) and every datum in L is no newer than every datum kept for the limit;
\*  - after = the data not in L, minus those marked with an expiry E and last updated more than E
\*    before t; in the same order, with the same timestamps, expiry marks and values.
GcPostMetric(before, N, t, after) ==
  \E L \in SUBSET DOMAIN before :
     /\ Cardinality(L) = IF N > 0 /\ Len(before) > N THEN Len(before) - N ELSE 0
     /\ \A l \in L : \A k \in DOMAIN before \ L : before[l][2] <= before[k][2]
     /\ LET kept == [j \in DOMAIN before |-> IF j \in L THEN <<0, 0, 0, 0>> ELSE before[j]]
            Live(d) == d[1] # 0 /\ ~Expired(d, t)
        IN after = SelectSeq(kept, Live)

GcPost == pc = "done" =>
            /\ DOMAIN store = DOMAIN pre                                   \* no metric appears or disappears
            /\ \A m \in DOMAIN store : /\ store[m].limit = pre[m].limit
                                       /\ GcPostMetric(PreData(pre[m]), pre[m].limit, T, Data(store[m].M))

\* slice and index of every metric agree at every step of the pass
IndexOK == \A m \in DOMAIN store : IndexAgrees(store[m].M)

\* the loop variable stays inside the slice; the limit loop never runs dry
TypeOK == /\ pc \in {"idle", "range", "limit", "sweep", "done"}
          /\ (pc \in {"limit", "sweep"}) => cur \in DOMAIN store /\ i >= 0
          /\ pc = "limit" => i = Len(store[cur].M.lvs)

\* Nothing else in the store changes: a step touches only the metric the callback runs on,
\* and only by removing elements
OnlyCurShrinks ==
  [][\A m \in DOMAIN store :
        /\ (m # cur => store'[m] = store[m])
        /\ \A k \in DOMAIN store'[m].M.lvs : \E j \in DOMAIN store[m].M.lvs : store'[m].M.lvs[k] = store[m].M.lvs[j]]_vars

-----------------------------------------------------------------------------
(* emission (direction A): every finished pass, with the store before and after *)
Emit == (EmitCases /\ pc = "done") =>
          PrintT(<<"CASE", ToJson([T |-> T, pre |-> pre, post |-> [m \in DOMAIN store |-> Data(store[m].M)]])>>)

\* judging a store the REAL Gc produced (when it differs from this module's deterministic
\* result): does it satisfy the statement?   rec = [T, pre, post] as emitted above
Judge(rec) == /\ Len(rec.post) = Len(rec.pre)
              /\ \A m \in DOMAIN rec.pre :
                   GcPostMetric(PreData(rec.pre[m]), rec.pre[m].limit, rec.T, rec.post[m])
\* a SECOND pass on a store that has been through one already (what a later pass finds must not depend on what an
\* earlier pass saw): rec = [T, limits, before, post] with the stores in Data form <<label, time, expiry, value>>
Judge2(rec) == /\ Len(rec.post) = Len(rec.before)
               /\ \A m \in DOMAIN rec.before : GcPostMetric(rec.before[m], rec.limits[m], rec.T, rec.post[m])
=============================================================================
