//go:build verif

package metrics

// Read-only accessors for the verification harness (C08, C09, C10): the key
// encoding and the index half of the Metric's dual representation.

// VerifLabelValueKey returns buildLabelValueKey(labels).
func VerifLabelValueKey(labels []string) string { return buildLabelValueKey(labels) }

// VerifIndexLen returns len(m.labelValuesMap).
func VerifIndexLen(m *Metric) int {
	m.RLock()
	defer m.RUnlock()
	return len(m.labelValuesMap)
}

// VerifIndexPositions returns, for every entry of m.labelValuesMap, the position
// in m.LabelValues of the *LabelValue it points at (-1 when it points outside
// the slice), keyed by the entry's key.
func VerifIndexPositions(m *Metric) map[string]int {
	m.RLock()
	defer m.RUnlock()
	r := make(map[string]int, len(m.labelValuesMap))
	for k, lv := range m.labelValuesMap {
		r[k] = -1
		for i, x := range m.LabelValues {
			if x == lv {
				r[k] = i
				break
			}
		}
	}
	return r
}
