//go:build verif

package mtail

import "github.com/google/mtail/internal/runtime"

// VerifRuntime exposes the server's program loader to the C25 harness (read-only accessor).
func (m *Server) VerifRuntime() *runtime.Runtime { return m.r }
