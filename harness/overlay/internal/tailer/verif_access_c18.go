//go:build verif

package tailer

import "sort"

// VerifLogstreamKeys returns the keys of t.logstreams (read-only accessor for
// the C16/C18 verification harnesses).
func (t *Tailer) VerifLogstreamKeys() []string {
	t.logstreamsMu.RLock()
	defer t.logstreamsMu.RUnlock()
	ks := make([]string, 0, len(t.logstreams))
	for k := range t.logstreams {
		ks = append(ks, k)
	}
	sort.Strings(ks)
	return ks
}

// VerifGlobPatterns returns the keys of t.globPatterns.
func (t *Tailer) VerifGlobPatterns() []string {
	t.globPatternsMu.RLock()
	defer t.globPatternsMu.RUnlock()
	ks := make([]string, 0, len(t.globPatterns))
	for k := range t.globPatterns {
		ks = append(ks, k)
	}
	sort.Strings(ks)
	return ks
}
