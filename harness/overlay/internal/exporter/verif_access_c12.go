//go:build verif

package exporter

import (
	"fmt"
	"io"
)

// VerifWriteSocketMetrics runs the unexported push path writeSocketMetrics
// (the body of PushMetrics after the dial) against the given connection with
// the formatter and counters of the named push target.  Call-through only.
func (e *Exporter) VerifWriteSocketMetrics(c io.Writer, format string) error {
	switch format {
	case "graphite":
		return e.writeSocketMetrics(c, metricToGraphite, graphiteExportTotal, graphiteExportSuccess)
	case "statsd":
		return e.writeSocketMetrics(c, metricToStatsd, statsdExportTotal, statsdExportSuccess)
	case "collectd":
		return e.writeSocketMetrics(c, metricToCollectd, collectdExportTotal, collectdExportSuccess)
	}
	return fmt.Errorf("verif: unknown push format %q", format)
}
