//go:build verif

package errors

import "github.com/google/mtail/internal/runtime/compiler/position"

// VerifPositions exposes the positions of the compile errors (read-only).
func VerifPositions(l ErrorList) []position.Position {
	out := make([]position.Position, len(l))
	for i, e := range l {
		out[i] = e.pos
	}
	return out
}
