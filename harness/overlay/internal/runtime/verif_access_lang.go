//go:build verif

package runtime

// VerifLangHandleNames lists the names of the programs that currently have a running VM.
func (r *Runtime) VerifLangHandleNames() []string {
	r.handleMu.RLock()
	defer r.handleMu.RUnlock()
	var out []string
	for n := range r.handles {
		out = append(out, n)
	}
	return out
}
