//go:build verif

package runtime

// VerifProgramError returns the error CompileAndRun returned for the last
// LoadProgram of the named program (nil if it succeeded), as recorded by
// LoadProgram in r.programErrors.  Read-only accessor for the C25 harness.
func (r *Runtime) VerifProgramError(name string) error {
	r.programErrorMu.RLock()
	defer r.programErrorMu.RUnlock()
	return r.programErrors[name]
}
