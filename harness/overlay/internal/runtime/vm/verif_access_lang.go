//go:build verif

package vm

// VerifTrace returns the program counters recorded since the last reset
// (the VM must have been created with trace=true).
func (v *VM) VerifTrace() []int { return append([]int(nil), v.trace...) }

// VerifResetTrace clears the recorded program counters.
func (v *VM) VerifResetTrace() { v.trace = v.trace[:0] }
