//go:build verif

package runtime

// VerifHandleLockBusy reports, without blocking, whether some goroutine holds
// or is waiting for the write side of handleMu (sync.RWMutex.TryRLock fails in
// exactly these cases).  Used by the C20 harness to know that a loader
// goroutine has reached handleMu.Lock() when no hook point can tell.
func (r *Runtime) VerifHandleLockBusy() bool {
	if r.handleMu.TryRLock() {
		r.handleMu.RUnlock()
		return false
	}
	return true
}
