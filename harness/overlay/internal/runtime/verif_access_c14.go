//go:build verif

package runtime

import (
	"github.com/google/mtail/internal/runtime/vm"
)

// VerifC14Handle is a read-only view of one entry of Runtime.handles.
type VerifC14Handle struct {
	Name string
	VM   *vm.VM
}

// VerifC14Handles returns the current program handles (name, VM identity) under handleMu.RLock.  Used by the C14/C26/C06 replay harness.
func (r *Runtime) VerifC14Handles() []VerifC14Handle {
	r.handleMu.RLock()
	defer r.handleMu.RUnlock()
	out := make([]VerifC14Handle, 0, len(r.handles))
	for name, h := range r.handles {
		out = append(out, VerifC14Handle{Name: name, VM: h.vm})
	}
	return out
}

// VerifC14Barrier returns once no reader holds handleMu: called after the
// rt.line.recv hook event of a line (emitted under the fan-out's RLock) it
// returns only after the fan-out loop has offered that line to every handle.
func (r *Runtime) VerifC14Barrier() {
	r.handleMu.Lock()
	//nolint:staticcheck // empty critical section is the point
	r.handleMu.Unlock()
}
