//go:build verif

// c12 constructs the fault scenarios enumerated by spec/ExportLocks.tla on a
// real metrics.Store and the real exporters (prometheus Collect, HandleVarz,
// HandleGraphite, writeSocketMetrics with each formatter, HandleJSON) and
// reports the post-state the specification talks about:
//
//	locked   metrics whose TryLock fails after the export attempt returned
//	leaked   goroutines left blocked in Metric.EmitLabelSets (stack dump, by frame)
//	out      the label sets the attempt delivered, in order
//	err      the error class the attempt reported
//	followup whether GetDatum on every metric and a healthy export complete
//
// The verdict is formed by checks/c12.py against the model's post-state.
package main

import (
	"bytes"
	"context"
	"encoding/json"
	"errors"
	"flag"
	"fmt"
	"math"
	"net/http"
	"net/http/httptest"
	"reflect"
	"regexp"
	"runtime"
	"strconv"
	"strings"
	"time"

	"github.com/google/mtail/internal/exporter"
	"github.com/google/mtail/internal/metrics"
	"github.com/google/mtail/internal/metrics/datum"
	"github.com/google/mtail/internal/verif/vh"
	"github.com/prometheus/client_golang/prometheus"
)

type fault struct {
	Type string `json:"type"`
	Why  string `json:"why"`
	M    int    `json:"m"`
	I    int    `json:"i"`
	K    int    `json:"k"`
}

type tcase struct {
	ID    int    `json:"id"`
	Kind  string `json:"kind"`
	Fmt   string `json:"fmt"`
	Nls   []int  `json:"nls"`
	Text  []bool `json:"text"`
	Fault fault  `json:"fault"`
}

var stamp = time.Unix(1343124840, 0)

// concrete rendering of the abstract store: metric r is "met<r>" of program
// "p<r>", key "k", label values "v<i>"; kinds rotate counter/gauge/histogram.
func build(c *tcase) (*metrics.Store, []*metrics.Metric, error) {
	s := metrics.NewStore()
	var ms []*metrics.Metric
	for r := 1; r <= len(c.Nls); r++ {
		name := "met" + strconv.Itoa(r)
		keys := []string{"k"}
		if c.Fault.Type == "bad" && c.Fault.M == r {
			switch c.Fault.Why {
			case "name":
				name = "met" + strconv.Itoa(r) + " x" // not a valid Prometheus metric name
			case "dupkey":
				keys = []string{"prog"}
			}
		}
		var m *metrics.Metric
		switch {
		case c.Text[r-1]:
			m = metrics.NewMetric(name, "p"+strconv.Itoa(r), metrics.Text, metrics.String, keys...)
		case r%3 == 1:
			m = metrics.NewMetric(name, "p"+strconv.Itoa(r), metrics.Counter, metrics.Int, keys...)
		case r%3 == 2:
			m = metrics.NewMetric(name, "p"+strconv.Itoa(r), metrics.Gauge, metrics.Float, keys...)
		default:
			m = metrics.NewMetric(name, "p"+strconv.Itoa(r), metrics.Histogram, metrics.Buckets, keys...)
			m.Buckets = []datum.Range{{Min: 0, Max: 1}, {Min: 1, Max: 100}}
		}
		m.Source = "verif.mtail:" + strconv.Itoa(r)
		for i := 1; i <= c.Nls[r-1]; i++ {
			lv := "v" + strconv.Itoa(i)
			if c.Fault.Type == "bad" && c.Fault.Why == "utf8" && c.Fault.M == r && c.Fault.I == i {
				lv += "\xff"
			}
			d, err := m.GetDatum(lv)
			if err != nil {
				return nil, nil, err
			}
			v := 10*r + i
			switch m.Type {
			case metrics.Int:
				datum.SetInt(d, int64(v), stamp)
			case metrics.Float:
				datum.SetFloat(d, float64(v)+0.5, stamp)
			case metrics.Buckets:
				datum.Observe(d, float64(v), stamp)
			case metrics.String:
				datum.SetString(d, "t"+strconv.Itoa(v), stamp)
			}
		}
		if err := s.Add(m); err != nil {
			return nil, nil, err
		}
		ms = append(ms, m)
	}
	if c.Kind == "json" && c.Fault.Type == "marshal" {
		m := metrics.NewMetric("nanmetric", "p0", metrics.Gauge, metrics.Float)
		d, _ := m.GetDatum()
		datum.SetFloat(d, math.NaN(), stamp)
		if err := s.Add(m); err != nil {
			return nil, nil, err
		}
		ms = append(ms, m)
	}
	return s, ms, nil
}

var errBroken = errors.New("verif: broken pipe")

// faultWriter is the failing net.Conn / http.ResponseWriter: the failFrom-th
// Write and all later ones fail; after the cancelAfter-th Write the request
// context is cancelled.
type faultWriter struct {
	n           int
	failFrom    int
	cancelAfter int
	cancel      context.CancelFunc
	ok          [][]byte
	hdr         http.Header
	code        int
}

func (w *faultWriter) Header() http.Header {
	if w.hdr == nil {
		w.hdr = http.Header{}
	}
	return w.hdr
}
func (w *faultWriter) WriteHeader(code int) {
	if w.code == 0 || code >= 500 {
		w.code = code
	}
}
func (w *faultWriter) Write(p []byte) (int, error) {
	w.n++
	if w.failFrom > 0 && w.n >= w.failFrom {
		return 0, errBroken
	}
	w.ok = append(w.ok, append([]byte(nil), p...))
	if w.cancelAfter > 0 && w.n == w.cancelAfter && w.cancel != nil {
		w.cancel()
	}
	return len(p), nil
}

var (
	reVarz     = regexp.MustCompile(`^met(\d+)[^{]*\{k=v(\d+)`)
	reGraphite = regexp.MustCompile(`(?m)^p(\d+)\.met\d+\.k\.v(\d+) `)
	reStatsd   = regexp.MustCompile(`^p(\d+)\.met\d+\.k\.v(\d+):`)
	reCollectd = regexp.MustCompile(`^PUTVAL "h/mtail-p(\d+)/[a-z]+-met\d+-k-v(\d+)" `)
)

func decode(re *regexp.Regexp, writes [][]byte) [][2]int {
	out := [][2]int{}
	for _, w := range writes {
		if mm := re.FindSubmatch(w); mm != nil {
			a, _ := strconv.Atoi(string(mm[1]))
			b, _ := strconv.Atoi(string(mm[2]))
			out = append(out, [2]int{a, b})
		}
	}
	return out
}

// transientStates are the goroutine states of a stack dump in which a goroutine
// is still making progress; every other state (chan send, select, semacquire,
// ...) is a blocking one.
var transientStates = []string{"running", "runnable", "syscall", "sleep", "IO wait", "GC ", "preempted", "copystack"}

// emitters returns the number of goroutines left blocked inside
// Metric.EmitLabelSets, once no goroutine with such a frame is in a transient
// state any more (an emitter that has handed over its last label set still has
// to close the channel and return).  Frame names only, never NumGoroutine.
func emitters() (blocked int, settled bool) {
	deadline := time.Now().Add(10 * time.Second)
	buf := make([]byte, 1<<20)
	for {
		n := runtime.Stack(buf, true)
		for n == len(buf) {
			buf = make([]byte, 2*len(buf))
			n = runtime.Stack(buf, true)
		}
		blocked = 0
		transient := 0
		for _, g := range bytes.Split(buf[:n], []byte("\n\n")) {
			if !bytes.Contains(g, []byte(".EmitLabelSets(")) {
				continue
			}
			head := g
			if i := bytes.IndexByte(g, '\n'); i >= 0 {
				head = g[:i]
			}
			state := ""
			if i := bytes.IndexByte(head, '['); i >= 0 {
				state = string(head[i+1:])
			}
			isTransient := false
			for _, t := range transientStates {
				if strings.HasPrefix(state, t) {
					isTransient = true
				}
			}
			if isTransient {
				transient++
			} else {
				blocked++
			}
		}
		if transient == 0 {
			return blocked, true
		}
		if time.Now().After(deadline) {
			return blocked, false
		}
		runtime.Gosched()
		time.Sleep(200 * time.Microsecond)
	}
}

// labelsOf renders a collected prometheus.Metric through its Write method.
// client_model is only an indirect requirement of the mtail module, so its
// types are reached by reflection instead of an import (an import would make
// `go build -mod=mod` rewrite go.mod).
func labelsOf(pm prometheus.Metric) map[string]string {
	wm := reflect.ValueOf(pm).MethodByName("Write")
	arg := reflect.New(wm.Type().In(0).Elem())
	if e := wm.Call([]reflect.Value{arg})[0]; !e.IsNil() {
		return nil
	}
	type pair interface {
		GetName() string
		GetValue() string
	}
	res := map[string]string{}
	lbls := arg.MethodByName("GetLabel").Call(nil)[0]
	for i := 0; i < lbls.Len(); i++ {
		p := lbls.Index(i).Interface().(pair)
		res[p.GetName()] = p.GetValue()
	}
	return res
}

func collectProm(e *exporter.Exporter) [][2]int {
	ch := make(chan prometheus.Metric)
	got := make(chan [][2]int)
	go func() {
		out := [][2]int{}
		for pm := range ch {
			l := labelsOf(pm)
			if l == nil {
				continue
			}
			a, _ := strconv.Atoi(strings.TrimPrefix(l["prog"], "p"))
			b, _ := strconv.Atoi(strings.TrimPrefix(l["k"], "v"))
			out = append(out, [2]int{a, b})
		}
		got <- out
	}()
	e.Collect(ch)
	close(ch)
	return <-got
}

// attempt performs one export of the given kind; a nil fault is a healthy one.
func attempt(e *exporter.Exporter, c *tcase, f *fault) (out [][2]int, errClass string) {
	errClass = "none"
	w := &faultWriter{}
	ctx, cancel := context.WithCancel(context.Background())
	defer cancel()
	if f != nil {
		switch f.Type {
		case "wfail":
			w.failFrom = f.K
		case "cancel":
			w.cancelAfter = f.K
			w.cancel = cancel
			if f.K == 0 {
				cancel()
			}
		}
	}
	switch c.Kind {
	case "prom":
		out = collectProm(e)
	case "push":
		err := e.VerifWriteSocketMetrics(w, c.Fmt)
		if err != nil {
			errClass = "write"
			if !strings.Contains(err.Error(), errBroken.Error()) {
				errClass = "other:" + err.Error()
			}
		}
		switch c.Fmt {
		case "graphite":
			out = decode(reGraphite, w.ok)
		case "statsd":
			out = decode(reStatsd, w.ok)
		case "collectd":
			out = decode(reCollectd, w.ok)
		}
	case "varz", "graphite":
		r := httptest.NewRequest("GET", "/"+c.Kind, nil).WithContext(ctx)
		if c.Kind == "varz" {
			e.HandleVarz(w, r)
			out = decode(reVarz, w.ok)
		} else {
			e.HandleGraphite(w, r)
			out = decode(reGraphite, w.ok)
		}
		if w.code >= 500 {
			errClass = "other"
			for _, b := range w.ok {
				if bytes.Contains(b, []byte(context.Canceled.Error())) {
					errClass = "ctx"
				}
			}
		}
	case "json":
		r := httptest.NewRequest("GET", "/json", nil)
		e.HandleJSON(w, r)
		out = [][2]int{}
		switch {
		case w.code >= 500 && w.failFrom > 0:
			errClass = "write"
		case w.code >= 500:
			errClass = "other"
			for _, b := range w.ok {
				if bytes.Contains(b, []byte("unsupported value")) {
					errClass = "marshal"
				}
			}
		default:
			var v []any
			if len(w.ok) == 1 && json.Unmarshal(w.ok[0], &v) == nil {
				out = append(out, [2]int{0, 0})
			}
		}
	default:
		vh.Fatal("unknown exporter kind %q", c.Kind)
	}
	return out, errClass
}

// after two stalled attempts in this process the wait is cut to one second (a stall that repeats is systematic)
var attemptStalls int

func attemptDeadline() time.Duration {
	if attemptStalls >= 2 {
		return time.Second
	}
	return 10 * time.Second
}

func runCase(c *tcase) map[string]any {
	s, ms, err := build(c)
	if err != nil {
		vh.Fatal("case %d: building the store: %v", c.ID, err)
	}
	ctx, cancel := context.WithCancel(context.Background())
	defer cancel()
	e, err := exporter.New(ctx, s, exporter.Hostname("h"))
	if err != nil {
		vh.Fatal("exporter.New: %v", err)
	}
	stalledAttempt := false
	defer func() {
		if !stalledAttempt { // Stop would wait for the stuck export
			e.Stop()
		}
	}()
	before, ok0 := emitters()
	// the export attempt itself must come back: one that blocks for ever (an exporter waiting for a lock it holds)
	// is the property's "stall", not a harness failure
	type attemptRes struct {
		out      [][2]int
		errClass string
	}
	ach := make(chan attemptRes, 1)
	go func() {
		o, ec := attempt(e, c, &c.Fault)
		ach <- attemptRes{o, ec}
	}()
	var out [][2]int
	var errClass string
	select {
	case r := <-ach:
		out, errClass = r.out, r.errClass
	case <-time.After(attemptDeadline()):
		attemptStalls++
		stalledAttempt = true
		out, errClass = [][2]int{}, "stalled: the export attempt did not return within 10 s"
	}
	after, ok1 := emitters()
	locked := []int{}
	for r, m := range ms {
		if m.TryLock() {
			m.Unlock()
		} else {
			locked = append(locked, r+1)
		}
	}
	res := map[string]any{"id": c.ID, "locked": locked, "leaked": after - before, "out": out, "err": errClass,
		"settled": ok0 && ok1, "followup": "skipped"}
	if len(locked) == 0 {
		// line-processing-like update of every metric and a healthy export of the same kind
		done := make(chan string, 1)
		go func() {
			for _, m := range ms {
				if len(m.Keys) == 0 {
					continue
				}
				d, err := m.GetDatum("later")
				if err != nil {
					done <- "GetDatum: " + err.Error()
					return
				}
				switch m.Type {
				case metrics.Int:
					datum.IncIntBy(d, 1, stamp)
				case metrics.Float:
					datum.SetFloat(d, 1, stamp)
				case metrics.Buckets:
					datum.Observe(d, 1, stamp)
				case metrics.String:
					datum.SetString(d, "x", stamp)
				}
				if err := m.RemoveDatum("later"); err != nil {
					done <- "RemoveDatum: " + err.Error()
					return
				}
			}
			out2, err2 := attempt(e, c, nil)
			done <- "ok:" + strconv.Itoa(len(out2)) + ":" + err2
		}()
		select {
		case r := <-done:
			res["followup"] = r
		case <-time.After(10 * time.Second):
			res["followup"] = "stalled"
		}
	}
	return res
}

func main() {
	// glog (used by the exporters) must not create files in the temp directory
	_ = flag.Set("logtostderr", "true")
	_ = flag.Set("stderrthreshold", "FATAL")
	n := 0
	err := vh.EachCase(func(_ int, raw []byte) error {
		var c tcase
		if err := json.Unmarshal(raw, &c); err != nil {
			return err
		}
		if len(c.Nls) != len(c.Text) {
			return fmt.Errorf("malformed case %d", c.ID)
		}
		n++
		vh.Out(runCase(&c))
		return nil
	})
	if err != nil {
		vh.Fatal("%v", err)
	}
	vh.Out(map[string]any{"summary": true, "cases": n})
	vh.Flush()
}
