//go:build verif

// lexx binds spec/Lexer.tla to the real lexer and checks the compile contract
// of property C03.  Two kinds of cases:
//
//	{"src": [classes...], "rx": [bool...], "toks": [...]}   the token kinds the
//	    REAL lexer emits for the concretised string are reported (the driver
//	    switches InRegex after each DIV as rx says), and the string is also
//	    handed to Compile;
//	{"seed":.., "prog": AST, "mut": {...}}   a generated program with one
//	    byte-level mutation applied is handed to Compile.
//
// For every Compile: outcome is exactly one of object / non-empty errors, no
// panic, same outcome and same bytecode dump on a second compile, and the time
// taken is reported.
package main

import (
	"encoding/json"
	"fmt"
	"runtime/debug"
	"sort"
	"strings"
	"time"

	"github.com/google/mtail/internal/runtime/compiler"
	"github.com/google/mtail/internal/runtime/compiler/parser"
	"github.com/google/mtail/internal/verif/mlang"
	"github.com/google/mtail/internal/verif/vh"
)

var concrete = map[string]string{
	"NL": "\n", "SP": " ", "DG": "7", "AL": "k", "EE": "e", "SU": "s", "DOT": ".", "MI": "-", "PL": "+", "QU": "\"",
	"BS": "\\", "SL": "/", "HA": "#", "DO": "$", "AT": "@", "EQ": "=", "TI": "~", "BA": "!", "LT": "<", "AM": "&",
	"ST": "*", "PU": "{", "US": "_", "OT": "?", "IV": "\xff", "EA": "␤",
}

type mutation struct {
	Kind string `json:"kind"` // truncate delete dup swap insert unbalance nest longregex
	At   int    `json:"at"`   // position, per mille of the source length
	Arg  string `json:"arg"`  // class to insert / count
	N    int    `json:"n"`
}

type tcase struct {
	Seed int64          `json:"seed"`
	Src  []string       `json:"src"`
	Rx   []bool         `json:"rx"`
	Prog *mlang.Program `json:"prog"`
	Mut  *mutation      `json:"mut"`
	Text string         `json:"text"` // replay of literal text
	Reps int            `json:"reps"` // number of further compiles compared with the first (default 1)
}

func realTokens(s string, rx []bool) (toks []string, livelock bool) {
	l := parser.NewLexer("lex.mtail", strings.NewReader(s))
	for i := 0; i < 4*len(s)+16; i++ {
		t := l.NextToken()
		if t.Kind == parser.EOF {
			return append(toks, "EOF"), false
		}
		toks = append(toks, t.Kind.String())
		if t.Kind == parser.DIV && len(rx) > 0 {
			l.InRegex = rx[0]
			rx = rx[1:]
		}
	}
	return toks, true
}

type outcome struct {
	Object bool    `json:"object"`
	Errors bool    `json:"errors"`
	Panic  string  `json:"panic,omitempty"`
	Dump   string  `json:"-"`
	Secs   float64 `json:"secs"`
	ErrTxt string  `json:"errtxt,omitempty"`
	ErrSet string  `json:"-"` // the error lines, sorted: their order comes from map iteration and is not part of the contract
}

func compileOnce(src string) (o outcome) {
	t0 := time.Now()
	defer func() {
		o.Secs = time.Since(t0).Seconds()
		if r := recover(); r != nil {
			o.Panic = fmt.Sprint(r)
		}
	}()
	c, _ := compiler.New(compiler.MaxRegexpLength(1024), compiler.MaxRecursionDepth(100))
	obj, err := c.Compile("c03.mtail", strings.NewReader(src))
	o.Object = obj != nil
	if err != nil {
		o.ErrTxt = err.Error()
		o.Errors = o.ErrTxt != "" && o.ErrTxt != "no errors"
		ls := strings.Split(o.ErrTxt, "\n")
		sort.Strings(ls)
		o.ErrSet = strings.Join(ls, "\n")
		if len(o.ErrTxt) > 300 {
			o.ErrTxt = o.ErrTxt[:300]
		}
	}
	if obj != nil {
		var b strings.Builder
		for _, i := range obj.Program {
			fmt.Fprintf(&b, "%s %v|", i.Opcode, i.Operand)
		}
		fmt.Fprintf(&b, "#%q#", obj.Strings)
		for _, r := range obj.Regexps {
			b.WriteString(r.String() + "|")
		}
		for _, m := range obj.Metrics {
			fmt.Fprintf(&b, "%s %v %v %v %v|", m.Name, m.Kind, m.Type, m.Keys, m.Hidden)
		}
		o.Dump = b.String()
	}
	return
}

func contract(src string, reps int) map[string]any {
	done := make(chan map[string]any, 1)
	go func() {
		a := compileOnce(src)
		b := compileOnce(src)
		// map iteration order is the usual source of a compile that differs from run to run: more repetitions
		// make a rare order visible; the first differing one is reported
		for i := 1; i < reps && a.Object == b.Object && a.Errors == b.Errors && a.Dump == b.Dump; i++ {
			b = compileOnce(src)
		}
		r := map[string]any{"first": a, "secs": a.Secs}
		var bad []string
		if a.Panic != "" {
			bad = append(bad, "panic: "+a.Panic)
		}
		if a.Object == a.Errors {
			bad = append(bad, fmt.Sprintf("object=%v and errors=%v (must be exactly one): %s", a.Object, a.Errors, a.ErrTxt))
		}
		// the property speaks of bytecode and data; the wording of error messages (which may print node addresses) is
		// not part of it
		if a.Object != b.Object || a.Errors != b.Errors || a.Dump != b.Dump {
			bad = append(bad, "a second compile of the same text gave a different result")
			r["second"] = b
			r["diff"] = map[string]any{"dump1": a.Dump, "dump2": b.Dump, "err1": a.ErrSet, "err2": b.ErrSet}
		}
		r["bad"] = bad
		done <- r
	}()
	select {
	case r := <-done:
		return r
	case <-time.After(20 * time.Second):
		return map[string]any{"bad": []string{"compilation did not finish within 20 s"}, "secs": 20.0, "timeout": true}
	}
}

func mutate(src string, m *mutation) string {
	if m == nil || len(src) == 0 {
		return src
	}
	pos := m.At * len(src) / 1000
	if pos > len(src) {
		pos = len(src)
	}
	toks := strings.Fields(src)
	ti := 0
	if len(toks) > 0 {
		ti = m.At * len(toks) / 1000
		if ti >= len(toks) {
			ti = len(toks) - 1
		}
	}
	switch m.Kind {
	case "truncate":
		return src[:pos]
	case "delete": // delete one whitespace-separated token
		if len(toks) == 0 {
			return src
		}
		i := strings.Index(src, toks[ti])
		return src[:i] + src[i+len(toks[ti]):]
	case "dup":
		if len(toks) == 0 {
			return src
		}
		i := strings.Index(src, toks[ti])
		return src[:i] + toks[ti] + " " + src[i:]
	case "swap":
		if len(toks) < 2 {
			return src
		}
		if ti == len(toks)-1 {
			ti--
		}
		a, b := toks[ti], toks[ti+1]
		i := strings.Index(src, a+" "+b)
		if i < 0 {
			return strings.Replace(src, a, b, 1)
		}
		return src[:i] + b + " " + a + src[i+len(a)+1+len(b):]
	case "insert":
		return src[:pos] + concrete[m.Arg] + src[pos:]
	case "unbalance":
		br := []string{"{", "}", "(", ")", "[", "]", "\"", "/"}[m.N%8]
		return src[:pos] + br + src[pos:]
	case "nest": // an expression nested n levels deep, beyond the recursion limit for large n; several tree shapes
		switch m.At % 4 {
		case 0:
			return src + "gauge nestg\n/x/ {\n  nestg = " + strings.Repeat("(", m.N) + "1" + strings.Repeat(" + 1)", m.N) + "\n}\n"
		case 1: // a chain of unary operators
			return src + "gauge nestg\n/(\\d+)/ {\n  nestg = " + strings.Repeat("~", m.N) + "$1\n}\n"
		case 2: // a left-deep chain of logical operators over comparisons
			return src + "counter nestc\n/(\\d+)/ && " + strings.Repeat("$1 > 0 && ", m.N) + "$1 > 0 {\n  nestc++\n}\n"
		default: // nested blocks
			return src + "counter nestb\n" + strings.Repeat("/x/ {\n", m.N) + "nestb++\n" + strings.Repeat("}\n", m.N)
		}
	case "longregex":
		return src + "/" + strings.Repeat("a?", m.N) + "/ {\n}\n"
	}
	return src
}

func main() {
	// a compile that needs more than 64 MiB of goroutine stack for these small sources is a runaway recursion:
	// fail fast (the default limit of 1 GB takes half a minute and a gigabyte to reach)
	debug.SetMaxStack(64 << 20)
	n := 0
	err := vh.EachCase(func(_ int, raw []byte) error {
		var c tcase
		if err := json.Unmarshal(raw, &c); err != nil {
			return err
		}
		n++
		out := map[string]any{"n": n, "seed": c.Seed}
		var text string
		switch {
		case c.Text != "":
			text = c.Text
		case c.Prog != nil:
			src, rerr := mlang.Render(c.Prog, mlang.RenderOpts{FullParens: c.Seed%2 == 0})
			if rerr != nil {
				vh.Fatal("render: %v", rerr)
			}
			text = mutate(src, c.Mut)
			out["mut"] = c.Mut
		default:
			var b strings.Builder
			for _, cl := range c.Src {
				v, ok := concrete[cl]
				if !ok {
					vh.Fatal("unknown class %q", cl)
				}
				b.WriteString(v)
			}
			text = b.String()
			toks, ll := realTokens(text, c.Rx)
			out["toks"] = toks
			out["livelock"] = ll
		}
		out["text"] = text
		out["contract"] = contract(text, c.Reps)
		vh.Out(out)
		return nil
	})
	if err != nil {
		vh.Fatal("%v", err)
	}
	vh.Out(map[string]any{"summary": true, "cases": n})
	vh.Flush()
}
