//go:build verif

// c18 replays TLC-generated histories of spec/Tailer.tla on a real directory
// against the real tailer.Tailer: a `logs` directory with five names, one to
// three glob patterns in absolute / relative / unclean spelling, optionally an
// ignore regexp.  Environment steps are filesystem operations; a "poll" step
// wakes every pattern poller and waits until each has finished doPatternGlob
// and every stream created by it is parked; a "wake" step wakes every stream
// goroutine and waits until the survivors are parked and the forwarders of the
// ended ones have removed their map entries (tail.remove hook).  After every
// round the keys of Tailer.logstreams, log_count, the number of parked stream
// goroutines and the lines delivered are compared with the model.
//
// Cases run one at a time in a process (log_count is process-wide); the
// checker shards the cases over several processes.
package main

import (
	"encoding/json"
	"flag"
	"fmt"
	"net"
	"os"
	"path/filepath"
	"sort"
	"strconv"
	"strings"

	"github.com/google/mtail/internal/verif/tailh"
	"github.com/google/mtail/internal/verif/vh"
)

type step struct {
	Op string `json:"op"`
	A  string `json:"a"`
	B  string `json:"b"`
}

type obsRec struct {
	Kind   string          `json:"kind"`
	Keys   []string        `json:"keys"`
	Logs   int64           `json:"logs"`
	Parked int             `json:"parked"`
	Lines  [][]interface{} `json:"lines"` // [name, id]
}

type tcase struct {
	Witness string   `json:"witness,omitempty"` // "lag": the removal-lag schedule (not a model history)
	Report  bool     `json:"report,omitempty"`  // also print every line the tailer delivered
	Pats    []string `json:"pats"`
	Ign     bool     `json:"ign"`
	Start   []string `json:"start"`
	Quiet   bool     `json:"quiet"` // a whole wake round ran after the last filesystem change
	Hist    []step   `json:"hist"`
	Obs     []obsRec `json:"obs"`
}

const ignoreRegex = `^a.*\.gz$`

var dirNames = map[string]bool{"d.log": true}

type got struct {
	Op     string              `json:"op"`
	Keys   []string            `json:"keys"`
	Logs   int64               `json:"logs"`
	Parked int                 `json:"parked"`
	Lines  map[string][]string `json:"lines,omitempty"`
}

type outcome struct {
	why   string
	step  int
	stall bool
	got   []got
	all   []tailh.Line
}

// names that Tailer.tla creates as unix socket files; the listeners stay open for the life of the process
var sockNames = map[string]bool{"a0.log": true}
var sockListeners []net.Listener

func mk(logs, n string) error {
	p := filepath.Join(logs, n)
	if dirNames[n] {
		return os.Mkdir(p, 0o755)
	}
	if sockNames[n] {
		l, err := net.Listen("unix", p)
		if err != nil {
			return err
		}
		if ul, ok := l.(*net.UnixListener); ok {
			ul.SetUnlinkOnClose(false) // the history deletes the name itself
		}
		sockListeners = append(sockListeners, l)
		return nil
	}
	f, err := os.OpenFile(p, os.O_CREATE|os.O_EXCL|os.O_WRONLY, 0o600)
	if err != nil {
		return err
	}
	return f.Close()
}

func appendTo(p, s string) error {
	f, err := os.OpenFile(p, os.O_APPEND|os.O_WRONLY, 0o600)
	if err != nil {
		return err
	}
	if _, err := f.WriteString(s); err != nil {
		f.Close()
		return err
	}
	return f.Close()
}

// concrete spelling of a pattern instance; base is the process' working directory
func spell(id, base, root string) string {
	rel, err := filepath.Rel(base, root)
	if err != nil {
		vh.Fatal("%v", err)
	}
	switch id {
	case "G1abs":
		return filepath.Join(root, "logs") + "/*.log"
	case "G1rel":
		return rel + "/logs/*.log"
	case "G2rel":
		return rel + "/logs/a*"
	case "E3dot":
		return root + "/logs/./a.log"
	}
	vh.Fatal("unknown pattern %q", id)
	return ""
}

func sorted(s []string) []string {
	c := append([]string{}, s...)
	sort.Strings(c)
	return c
}

func eq(a, b []string) bool {
	if len(a) != len(b) {
		return false
	}
	for i := range a {
		if a[i] != b[i] {
			return false
		}
	}
	return true
}

func byName(logs string, ls []tailh.Line) map[string][]string {
	m := map[string][]string{}
	for _, l := range ls {
		n, err := filepath.Rel(logs, l.File)
		if err != nil {
			n = l.File
		}
		m[n] = append(m[n], l.Text)
	}
	return m
}

func wantByName(ls [][]interface{}) map[string][]string {
	m := map[string][]string{}
	for _, l := range ls {
		if len(l) != 2 {
			vh.Fatal("bad line record %v", l)
		}
		n, _ := l[0].(string)
		id, _ := l[1].(float64)
		m[n] = append(m[n], "L"+strconv.Itoa(int(id)))
	}
	return m
}

func eqMap(a, b map[string][]string) bool {
	if len(a) != len(b) {
		return false
	}
	for k, v := range a {
		if !eq(v, b[k]) {
			return false
		}
	}
	return true
}

func runOnce(base string, c *tcase) (res outcome) {
	r, err := tailh.NewRoot(base)
	if err != nil {
		vh.Fatal("mkdir: %v", err)
	}
	defer r.Close()
	logs := filepath.Join(r.Root, "logs")
	if err := os.Mkdir(logs, 0o755); err != nil {
		vh.Fatal("%v", err)
	}
	for _, n := range c.Start {
		if err := mk(logs, n); err != nil {
			vh.Fatal("%v", err)
		}
	}
	fail := func(i int, format string, a ...any) outcome {
		res.why = fmt.Sprintf(format, a...)
		res.step = i
		res.stall = strings.HasPrefix(res.why, "stall:")
		return res
	}
	var pats []string
	for _, id := range sorted(c.Pats) {
		pats = append(pats, spell(id, base, r.Root))
	}
	ign := ""
	if c.Ign {
		ign = ignoreRegex
	}
	logs0 := tailh.LogCount()
	mark, removed, appended, wantWakes := 0, 0, 0, 0
	prevKeys := []string{}
	prevParked := 0
	for i, s := range c.Hist {
		w := c.Obs[i]
		switch s.Op {
		case "start":
			if err := r.Start(pats, ign); err != nil {
				return fail(i, "%v", err)
			}
			if err := r.StreamsParked(w.Parked); err != nil {
				return fail(i, "%v", err)
			}
			wantWakes += w.Parked
		case "create":
			err = mk(logs, s.A)
		case "mkdir":
			err = os.Mkdir(filepath.Join(logs, s.A), 0o755)
		case "delete":
			err = os.Remove(filepath.Join(logs, s.A))
		case "rename":
			err = os.Rename(filepath.Join(logs, s.A), filepath.Join(logs, s.B))
		case "append":
			appended++
			err = appendTo(filepath.Join(logs, s.A), "L"+strconv.Itoa(appended)+"\n")
		case "poll":
			if err := r.PollPatterns(); err != nil {
				return fail(i, "%v", err)
			}
			if err := r.StreamsParked(w.Parked); err != nil {
				return fail(i, "%v", err)
			}
			wantWakes += w.Parked - prevParked
		case "wake":
			if err := r.WakeStreams(w.Parked); err != nil {
				return fail(i, "%v", err)
			}
			for _, k := range prevKeys {
				gone := true
				for _, k2 := range w.Keys {
					if k2 == k {
						gone = false
					}
				}
				if gone {
					removed++
				}
			}
			if err := r.Removed(removed); err != nil {
				return fail(i, "%v", err)
			}
			wantWakes += w.Parked
		default:
			vh.Fatal("unknown step %q", s.Op)
		}
		if err != nil {
			vh.Fatal("history not executable at step %d (%v): %v", i, s, err)
		}
		if w.Kind == "env" {
			res.got = append(res.got, got{Op: s.Op})
			continue
		}
		all, err := r.Received()
		if err != nil {
			return fail(i, "%v", err)
		}
		res.all = all
		keys := r.Keys()
		for k := range keys {
			keys[k] = strings.TrimPrefix(keys[k], "logs/")
		}
		g := got{Op: s.Op, Keys: keys, Logs: tailh.LogCount() - logs0, Parked: r.Streams.Parked(), Lines: byName(logs, all[mark:])}
		mark = len(all)
		res.got = append(res.got, g)
		wk := sorted(w.Keys)
		if !eq(g.Keys, wk) {
			return fail(i, "after %q logstreams = %q, the specification expects %q", s.Op, g.Keys, wk)
		}
		if g.Logs != w.Logs {
			return fail(i, "after %q log_count = %d, the specification expects %d", s.Op, g.Logs, w.Logs)
		}
		if g.Parked != w.Parked {
			return fail(i, "after %q %d stream goroutines are parked, the model has %d", s.Op, g.Parked, w.Parked)
		}
		if _, _, rm := r.Ev.Counts(); rm != removed {
			return fail(i, "after %q %d streams have ended, the model has %d", s.Op, rm, removed)
		}
		if want := wantByName(w.Lines); !eqMap(g.Lines, want) {
			return fail(i, "after %q delivered %v, the specification expects %v", s.Op, g.Lines, want)
		}
		prevKeys, prevParked = wk, w.Parked
	}
	// tailing stops: every stream ends, every entry is removed, log_count returns to its base
	if err := r.Stop(); err != nil {
		return fail(len(c.Hist), "%v", err)
	}
	all, err := r.Received()
	if err != nil {
		return fail(len(c.Hist), "%v", err)
	}
	res.all = all
	if k := r.Keys(); len(k) != 0 {
		return fail(len(c.Hist), "logstreams = %q after shutdown", k)
	}
	if d := tailh.LogCount() - logs0; d != 0 {
		return fail(len(c.Hist), "log_count is off by %d after shutdown", d)
	}
	if c.Quiet {
		// the streams had seen everything: nothing is left to deliver and nobody parks again
		if len(all) != mark {
			return fail(len(c.Hist), "lines delivered at shutdown: %v", byName(logs, all[mark:]))
		}
		if tw := r.Streams.Total(); tw != wantWakes {
			return fail(len(c.Hist), "stream goroutines parked %d times in total, the model has %d", tw, wantWakes)
		}
	}
	seen := map[string]bool{}
	for _, l := range all {
		if seen[l.File+"\x00"+l.Text] {
			return fail(len(c.Hist), "line %q of %s was delivered twice", l.Text, l.File)
		}
		seen[l.File+"\x00"+l.Text] = true
	}
	if hl := byName(logs, r.Ev.LinesCopy()); !eqMap(hl, byName(logs, all)) {
		return fail(len(c.Hist), "lines produced by the readers %v differ from lines forwarded %v", hl, byName(logs, all))
	}
	return res
}

// lagWitness executes the schedule behind DEV_RemovalLagsClose on the real code: the consumer of the
// tailer's output is slow, so the forwarder of an ended stream cannot yet delete its map entry when the
// next pattern poll runs.
func lagWitness(base string) map[string]any {
	r, err := tailh.NewRoot(base)
	if err != nil {
		vh.Fatal("mkdir: %v", err)
	}
	defer r.Close()
	out := map[string]any{"witness": "lag"}
	stall := func(err error) map[string]any { out["stall"] = err.Error(); return out }
	logs := filepath.Join(r.Root, "logs")
	a := filepath.Join(logs, "a.log")
	if err := os.Mkdir(logs, 0o755); err != nil {
		vh.Fatal("%v", err)
	}
	if err := mk(logs, "a.log"); err != nil {
		vh.Fatal("%v", err)
	}
	r.Hold = make(chan struct{})
	if err := r.Start([]string{logs + "/*.log"}, ""); err != nil {
		return stall(err)
	}
	if err := r.StreamsParked(1); err != nil {
		return stall(err)
	}
	// an unterminated fragment, seen by the stream
	if err := appendTo(a, "x"); err != nil {
		vh.Fatal("%v", err)
	}
	if err := r.WakeStreams(1); err != nil {
		return stall(err)
	}
	// the file goes away; the stream finds out (stat: not exist), flushes the fragment (lr.finish)
	// and closes its channel; the forwarder is stuck handing the fragment to the slow consumer
	if err := os.Remove(a); err != nil {
		vh.Fatal("%v", err)
	}
	r.Streams.Broadcast()
	if err := r.WaitLines(1); err != nil {
		return stall(err)
	}
	// the file is back; a whole poll round runs
	if err := mk(logs, "a.log"); err != nil {
		vh.Fatal("%v", err)
	}
	_, adds0, _ := r.Ev.Counts()
	if err := r.PollPatterns(); err != nil {
		return stall(err)
	}
	_, adds1, rm1 := r.Ev.Counts()
	out["keys_after_poll"] = r.Keys()
	out["adds_in_poll"] = adds1 - adds0
	out["removed_before_release"] = rm1
	// the consumer catches up
	r.Release()
	if adds1 == adds0 {
		if err := r.Removed(1); err != nil {
			return stall(err)
		}
	}
	out["keys_after_release"] = r.Keys()
	out["parked_after_release"] = r.Streams.Parked()
	_, err = os.Stat(a)
	out["file_exists"] = err == nil
	// existing, matching, polled after its creation - and not tailed
	out["untailed_after_poll"] = adds1 == adds0 && len(r.Keys()) == 0 && err == nil
	// the next round heals it
	if err := r.PollPatterns(); err != nil {
		return stall(err)
	}
	out["keys_after_next_poll"] = r.Keys()
	return out
}

// dirWitness executes the schedule behind DEV_StuckOnDirectory on the real code: a tailed log is replaced
// by a directory of the same name, later by a regular file again.  Run it in a process of its own: on the
// unfixed code the stream goroutine never finishes, not even at cancellation.
func dirWitness(base string) map[string]any {
	r, err := tailh.NewRoot(base)
	if err != nil {
		vh.Fatal("mkdir: %v", err)
	}
	defer r.Abandon()
	out := map[string]any{"witness": "dirswap"}
	stall := func(err error) map[string]any { out["stall"] = err.Error(); return out }
	logs := filepath.Join(r.Root, "logs")
	a := filepath.Join(logs, "a.log")
	if err := os.Mkdir(logs, 0o755); err != nil {
		vh.Fatal("%v", err)
	}
	if err := mk(logs, "a.log"); err != nil {
		vh.Fatal("%v", err)
	}
	if err := r.Start([]string{logs + "/*.log"}, ""); err != nil {
		return stall(err)
	}
	if err := r.StreamsParked(1); err != nil {
		return stall(err)
	}
	// the log is replaced by a directory; the stream looks
	if err := os.Remove(a); err != nil {
		vh.Fatal("%v", err)
	}
	if err := os.Mkdir(a, 0o755); err != nil {
		vh.Fatal("%v", err)
	}
	r.Streams.Broadcast()
	if err := r.WaitParkedOrRemoved(1, 1); err != nil {
		return stall(err)
	}
	if err := r.PollPatterns(); err != nil {
		return stall(err)
	}
	out["keys_while_directory"] = r.Keys()
	out["log_errors_while_directory"] = tailh.MapCounter("log_errors_total", a)
	// the directory is replaced by a regular file again
	if err := os.Remove(a); err != nil {
		vh.Fatal("%v", err)
	}
	if err := mk(logs, "a.log"); err != nil {
		vh.Fatal("%v", err)
	}
	n := len(r.Keys())
	r.Streams.Broadcast()
	if err := r.StreamsParked(n); err != nil {
		return stall(err)
	}
	if err := r.PollPatterns(); err != nil {
		return stall(err)
	}
	n = len(r.Keys())
	if err := r.StreamsParked(n); err != nil {
		return stall(err)
	}
	// a line is appended to the regular file: one stream round, one poll round
	if err := appendTo(a, "L1\n"); err != nil {
		vh.Fatal("%v", err)
	}
	r.Streams.Broadcast()
	if err := r.StreamsParked(n); err != nil {
		return stall(err)
	}
	all, err := r.Received()
	if err != nil {
		return stall(err)
	}
	texts := []string{}
	for _, l := range all {
		texts = append(texts, l.Text)
	}
	out["keys_after_file_is_back"] = r.Keys()
	out["delivered"] = texts
	out["log_errors_total"] = tailh.MapCounter("log_errors_total", a)
	out["directory_tailed"] = len(out["keys_while_directory"].([]string)) > 0
	out["line_lost"] = len(texts) == 0
	return out
}

func main() {
	d, err := filepath.Abs("glog")
	if err != nil {
		vh.Fatal("%v", err)
	}
	if err := os.MkdirAll(d, 0o755); err != nil {
		vh.Fatal("%v", err)
	}
	flag.Set("log_dir", d)
	flag.Set("stderrthreshold", "FATAL")
	flag.Parse()
	base, err := os.MkdirTemp(os.Getenv("VERIF_TMP"), "verif-c18-")
	if err != nil {
		vh.Fatal("%v", err)
	}
	defer os.RemoveAll(base)
	if base, err = filepath.EvalSymlinks(base); err != nil {
		vh.Fatal("%v", err)
	}
	// relative patterns are relative to the working directory
	if err := os.Chdir(base); err != nil {
		vh.Fatal("%v", err)
	}
	n, bad, skipped := 0, 0, 0
	err = vh.EachCase(func(_ int, raw []byte) error {
		var c tcase
		if err := json.Unmarshal(raw, &c); err != nil {
			return err
		}
		if tailh.BudgetSpent() {
			skipped++
			return nil
		}
		n++
		if c.Witness == "lag" {
			vh.Out(lagWitness(base))
			return nil
		}
		if c.Witness == "dirswap" {
			vh.Out(dirWitness(base))
			return nil
		}
		if len(c.Obs) != len(c.Hist) {
			vh.Fatal("case has %d steps and %d observations", len(c.Hist), len(c.Obs))
		}
		res := runOnce(base, &c)
		if res.why != "" {
			res = runOnce(base, &c) // a failure counts only if it reproduces from a clean directory
		}
		if c.Report {
			vh.Out(map[string]any{"report": true, "lines": res.all, "got": res.got})
		}
		if res.why != "" && res.stall {
			tailh.NoteStall()
		}
		if res.why != "" {
			bad++
			vh.Out(map[string]any{"mismatch": true, "why": res.why, "step": res.step, "stall": res.stall,
				"case": json.RawMessage(raw), "got": res.got})
		}
		return nil
	})
	if err != nil {
		vh.Fatal("%v", err)
	}
	vh.Out(map[string]any{"summary": true, "cases": n, "mismatches": bad, "skipped": skipped})
	vh.Flush()
	os.RemoveAll(base)
	os.Exit(0) // do not wait for goroutines a witness schedule may have left spinning
}
