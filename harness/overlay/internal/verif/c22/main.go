//go:build verif

// c22 replays the (store, cfg, expected records) cases printed by spec/Expo.tla
// (Mode = "formats") into the real non-Prometheus exports:
//
//	json      HandleJSON        decoded back (round trip) into names, keys, label sets, values, times
//	varz      HandleVarz
//	graphite  HandleGraphite    and writeSocketMetrics with metricToGraphite
//	statsd    writeSocketMetrics with metricToStatsd   (one record per Write = one datagram)
//	collectd  writeSocketMetrics with metricToCollectd
//
// Each output is parsed by a small parser of that format (which also checks
// well-formedness), turned into canonical record texts and compared as a
// multiset with the specification's `want` and `want_dev`.
package main

import (
	"bytes"
	"context"
	"encoding/json"
	"flag"
	"fmt"
	"math"
	"net/http/httptest"
	"regexp"
	"sort"
	"strconv"
	"strings"
	"time"

	"github.com/google/mtail/internal/exporter"
	"github.com/google/mtail/internal/metrics"
	"github.com/google/mtail/internal/verif/expo"
	"github.com/google/mtail/internal/verif/vh"
)

type rec struct {
	Metric string      `json:"metric"`
	Prog   string      `json:"prog"`
	Labels [][2]string `json:"labels"`
	Role   string      `json:"role"`
	Le     int         `json:"le"`
	N      int         `json:"n"`
	Val    expo.Val    `json:"val"`
	Dtype  string      `json:"dtype"`
	TS     int         `json:"ts"`
	Kind   string      `json:"kind"`
}

type jrec struct {
	Metric   string   `json:"metric"`
	Prog     string   `json:"prog"`
	Kind     string   `json:"kind"`
	Type     string   `json:"type"`
	Keys     []string `json:"keys"`
	Labelseq []string `json:"labelseq"`
	Val      expo.Val `json:"val"`
	TS       int      `json:"ts"`
	Counts   [][2]int `json:"counts"`
	Count    int      `json:"count"`
}

type jmetric struct {
	Metric string   `json:"metric"`
	Prog   string   `json:"prog"`
	Keys   []string `json:"keys"`
	N      int      `json:"n"`
}

type jwant struct {
	OK      bool      `json:"ok"`
	Recs    []jrec    `json:"recs"`
	Metrics []jmetric `json:"metrics"`
}

type vrec struct {
	Metric string      `json:"metric"`
	Labels [][2]string `json:"labels"`
	Val    expo.Val    `json:"val"`
	Dtype  string      `json:"dtype"`
}

type wants struct {
	JSON     jwant  `json:"json"`
	Varz     []vrec `json:"varz"`
	Graphite []rec  `json:"graphite"`
	Scalar   []rec  `json:"scalar"`
}

type tcase struct {
	ID      int           `json:"id"`
	Store   []expo.Metric `json:"store"`
	Cfg     expo.Cfg      `json:"cfg"`
	Want    wants         `json:"want"`
	WantDev wants         `json:"want_dev"`
}

const interval = 60

// ---- expected records as canonical texts ---------------------------------------------------

func counts(cs [][2]int) string {
	sort.Slice(cs, func(i, j int) bool { return cs[i][0] < cs[j][0] })
	s := make([]string, 0, len(cs))
	for _, c := range cs {
		s = append(s, expo.Float(expo.Bound(c[0]))+":"+strconv.Itoa(c[1]))
	}
	return strings.Join(s, ",")
}

func jsonWant(w jwant) []string {
	if !w.OK {
		return []string{"<no json: the export failed>"}
	}
	out := []string{}
	for _, r := range w.Recs {
		ls := make([]string, len(r.Labelseq))
		for i, l := range r.Labelseq {
			ls[i] = expo.LabelVal(l)
		}
		t := fmt.Sprintf("rec %s|%s|%s|%s|%q|%q|%s|ts=%d", r.Metric, r.Prog, r.Kind, r.Type, r.Keys, ls, expo.NumOf(r.Type, r.Val), r.TS)
		if r.Type == "Buckets" {
			t += "|count=" + strconv.Itoa(r.Count) + "|" + counts(r.Counts)
		}
		out = append(out, t)
	}
	for _, m := range w.Metrics {
		out = append(out, fmt.Sprintf("metric %s|%s|%q|%d", m.Metric, m.Prog, m.Keys, m.N))
	}
	return out
}

func varzWant(w []vrec) []string {
	out := []string{}
	for _, r := range w {
		out = append(out, r.Metric+"{"+expo.Labels(r.Labels)+"} "+expo.NumOf(r.Dtype, r.Val))
	}
	return out
}

func lineWant(w []rec) []string { // graphite
	out := []string{}
	for _, r := range w {
		t := r.Prog + "|" + r.Metric + "|" + expo.Labels(r.Labels) + "|" + r.Role
		switch r.Role {
		case "value":
			t += "|" + expo.NumOf(r.Dtype, r.Val)
		case "bin":
			t += "|le=" + expo.Float(expo.Bound(r.Le)) + "|i:" + strconv.Itoa(r.N)
		case "count":
			t += "|i:" + strconv.Itoa(r.N)
		}
		out = append(out, t+"|ts="+strconv.Itoa(r.TS))
	}
	return out
}

var statsdType = map[string]string{"Counter": "c", "Gauge": "g", "Timer": "ms"}
var collectdType = map[string]string{"Counter": "counter", "Gauge": "gauge", "Timer": "gauge"}

func statsdWant(w []rec) []string {
	out := []string{}
	for _, r := range w {
		out = append(out, r.Prog+"|"+r.Metric+"|"+expo.Labels(r.Labels)+"|"+expo.NumOf(r.Dtype, r.Val)+"|"+statsdType[r.Kind])
	}
	return out
}

func collectdWant(w []rec, c expo.Cfg) []string {
	out := []string{}
	for _, r := range w {
		out = append(out, c.Host+"|"+c.Prefix+"|"+r.Prog+"|"+collectdType[r.Kind]+"|"+r.Metric+"|"+expo.Labels(r.Labels)+
			"|"+expo.NumOf(r.Dtype, r.Val)+"|ts="+strconv.Itoa(r.TS)+"|interval="+strconv.Itoa(interval))
	}
	return out
}

// ---- parsers of the real outputs --------------------------------------------------------------

type meta struct{ kind, typ string }

func kv(parts []string) (string, bool) {
	if len(parts)%2 != 0 {
		return "", false
	}
	s := []string{}
	prev := ""
	for i := 0; i < len(parts); i += 2 {
		if i > 0 && parts[i] < prev {
			return "", false // keys must come sorted
		}
		prev = parts[i]
		s = append(s, strconv.Quote(parts[i])+"="+strconv.Quote(parts[i+1]))
	}
	sort.Strings(s)
	return strings.Join(s, ","), true
}

func tsOf(s string) (string, bool) {
	n, err := strconv.ParseInt(s, 10, 64)
	if err != nil {
		return "", false
	}
	return "ts=" + strconv.FormatInt(n-expo.BaseTime, 10), true
}

var reGraphite = regexp.MustCompile(`^(\S+) (\S+) (-?\d+)$`)

// parsePath splits "<prefix><prog>.<name>(.<k>.<v>)*(.<role>)?"
func parsePath(path, prefix string, known map[string]meta) (prog, name, labels, role string, ok bool) {
	if !strings.HasPrefix(path, prefix) {
		return
	}
	parts := strings.Split(path[len(prefix):], ".")
	if len(parts) < 2 {
		return
	}
	prog, name = parts[0], parts[1]
	rest := parts[2:]
	role = "value"
	if len(rest)%2 == 1 {
		role = rest[len(rest)-1]
		rest = rest[:len(rest)-1]
	}
	labels, ok = kv(rest)
	return
}

func parseGraphite(body string, c expo.Cfg, known map[string]meta, skip func(meta) bool) (got, bad []string) {
	for _, line := range strings.Split(body, "\n") {
		if line == "" {
			continue
		}
		m := reGraphite.FindStringSubmatch(line)
		if m == nil {
			bad = append(bad, "graphite: malformed line "+strconv.Quote(line))
			continue
		}
		prog, name, labels, role, ok := parsePath(m[1], c.Prefix, known)
		ts, ok2 := tsOf(m[3])
		mt, ok3 := known[prog+"/"+name]
		if !ok || !ok2 || !ok3 {
			bad = append(bad, "graphite: malformed line "+strconv.Quote(line))
			continue
		}
		if skip(mt) {
			continue
		}
		t := prog + "|" + name + "|" + labels + "|"
		switch {
		case role == "value":
			t += "value|" + expo.NumText(m[2])
		case role == "count":
			t += "count|" + expo.NumText(m[2])
		case strings.HasPrefix(role, "bin_"):
			le := strings.TrimPrefix(role, "bin_")
			f := math.Inf(1)
			if le != "inf" {
				var err error
				if f, err = strconv.ParseFloat(le, 64); err != nil {
					bad = append(bad, "graphite: malformed bucket name in "+strconv.Quote(line))
					continue
				}
			}
			t += "bin|le=" + expo.Float(f) + "|" + expo.NumText(m[2])
		default:
			bad = append(bad, "graphite: malformed line "+strconv.Quote(line))
			continue
		}
		got = append(got, t+"|"+ts)
	}
	return
}

var reStatsd = regexp.MustCompile(`^([^:\s]+):([^|\s]+)\|(c|g|ms)?$`)

func parseStatsd(writes []string, c expo.Cfg, known map[string]meta, skip func(meta) bool) (got, bad []string) {
	for _, w := range writes {
		m := reStatsd.FindStringSubmatch(w)
		if m == nil {
			bad = append(bad, "statsd: malformed datagram "+strconv.Quote(w))
			continue
		}
		prog, name, labels, role, ok := parsePath(m[1], c.Prefix, known)
		mt, ok3 := known[prog+"/"+name]
		if !ok || !ok3 || role != "value" {
			bad = append(bad, "statsd: malformed datagram "+strconv.Quote(w))
			continue
		}
		if skip(mt) {
			continue
		}
		got = append(got, prog+"|"+name+"|"+labels+"|"+expo.NumText(m[2])+"|"+m[3])
	}
	return
}

var reCollectd = regexp.MustCompile(`^PUTVAL "([^/"]+)/([^/"]*)mtail-([^/"]+)/([a-z]+)-([^"/]+)" interval=(\d+) (-?\d+):(\S+)\n$`)

func parseCollectd(writes []string, known map[string]meta, skip func(meta) bool) (got, bad []string) {
	for _, w := range writes {
		m := reCollectd.FindStringSubmatch(w)
		if m == nil {
			bad = append(bad, "collectd: malformed line "+strconv.Quote(w))
			continue
		}
		parts := strings.Split(m[5], "-")
		labels, ok := kv(parts[1:])
		ts, ok2 := tsOf(m[7])
		mt, ok3 := known[m[3]+"/"+parts[0]]
		if !ok || !ok2 || !ok3 {
			bad = append(bad, "collectd: malformed line "+strconv.Quote(w))
			continue
		}
		if skip(mt) {
			continue
		}
		got = append(got, m[1]+"|"+m[2]+"|"+m[3]+"|"+m[4]+"|"+parts[0]+"|"+labels+"|"+expo.NumText(m[8])+"|"+ts+"|interval="+m[6])
	}
	return
}

var reVarz = regexp.MustCompile(`^([^{\s]+)\{([^}]*)\} (\S*)$`)

func parseVarz(body string) (got, bad []string) {
	for _, line := range strings.Split(body, "\n") {
		if line == "" {
			continue
		}
		m := reVarz.FindStringSubmatch(line)
		if m == nil {
			bad = append(bad, "varz: malformed line "+strconv.Quote(line))
			continue
		}
		s := []string{}
		for _, p := range strings.Split(m[2], ",") {
			i := strings.IndexByte(p, '=')
			if i <= 0 {
				bad = append(bad, "varz: malformed label in "+strconv.Quote(line))
				continue
			}
			s = append(s, strconv.Quote(p[:i])+"="+strconv.Quote(p[i+1:]))
		}
		sort.Strings(s)
		got = append(got, m[1]+"{"+strings.Join(s, ",")+"} "+expo.NumText(m[3]))
	}
	return
}

func parseJSON(body []byte) (got, bad []string) {
	type lv struct {
		Labels []string
		Value  map[string]json.RawMessage
	}
	type jm struct {
		Name, Program string
		Kind, Type    int
		Keys          []string
		LabelValues   []lv
	}
	var ms []jm
	dec := json.NewDecoder(bytes.NewReader(body))
	dec.UseNumber()
	if err := dec.Decode(&ms); err != nil {
		return nil, []string{"json: " + err.Error()}
	}
	for _, m := range ms {
		kind, typ := metrics.Kind(m.Kind).String(), metrics.Type(m.Type).String()
		if m.Keys == nil {
			m.Keys = []string{}
		}
		got = append(got, fmt.Sprintf("metric %s|%s|%q|%d", m.Name, m.Program, m.Keys, len(m.LabelValues)))
		for _, l := range m.LabelValues {
			if l.Labels == nil {
				l.Labels = []string{}
			}
			var ns json.Number
			if err := json.Unmarshal(l.Value["Time"], &ns); err != nil {
				bad = append(bad, "json: datum of "+m.Name+" without Time")
				continue
			}
			n, _ := ns.Int64()
			if n%1e9 != 0 {
				bad = append(bad, "json: Time of "+m.Name+" is not what was stored")
			}
			ts := n/1e9 - expo.BaseTime
			val := ""
			extra := ""
			if typ == "Buckets" {
				var bs map[string]json.Number
				var cnt, sum json.Number
				if json.Unmarshal(l.Value["Buckets"], &bs) != nil || json.Unmarshal(l.Value["Count"], &cnt) != nil ||
					json.Unmarshal(l.Value["Sum"], &sum) != nil {
					bad = append(bad, "json: malformed buckets datum of "+m.Name)
					continue
				}
				val = expo.NumText(sum.String())
				type bc struct {
					le float64
					c  string
				}
				var l2 []bc
				for k, v := range bs {
					f, err := strconv.ParseFloat(k, 64)
					if err != nil {
						bad = append(bad, "json: bucket key "+k)
					}
					l2 = append(l2, bc{f, v.String()})
				}
				sort.Slice(l2, func(i, j int) bool { return l2[i].le < l2[j].le })
				s := []string{}
				for _, b := range l2 {
					s = append(s, expo.Float(b.le)+":"+b.c)
				}
				extra = "|count=" + cnt.String() + "|" + strings.Join(s, ",")
			} else {
				raw := strings.TrimSpace(string(l.Value["Value"]))
				if strings.HasPrefix(raw, `"`) {
					var sv string
					_ = json.Unmarshal(l.Value["Value"], &sv)
					val = "s:" + sv
				} else {
					val = expo.NumText(raw)
				}
			}
			got = append(got, fmt.Sprintf("rec %s|%s|%s|%s|%q|%q|%s|ts=%d", m.Name, m.Program, kind, typ, m.Keys, l.Labels, val, ts)+extra)
		}
	}
	return
}

// ---- driving the real exporters ------------------------------------------------------------------

type recorder struct{ writes []string }

func (r *recorder) Write(p []byte) (int, error) {
	r.writes = append(r.writes, string(p))
	return len(p), nil
}

func verdict(got, bad, want, wantDev []string) map[string]any {
	v, miss, extra := expo.Verdict(got, want, wantDev)
	if len(bad) > 0 {
		v = "none"
	}
	return map[string]any{"verdict": v, "missing": miss, "extra": extra, "bad": bad}
}

func runCase(c *tcase) map[string]any {
	for _, f := range []string{"graphite_prefix", "statsd_prefix", "collectd_prefix"} {
		if err := flag.Set(f, c.Cfg.Prefix); err != nil {
			vh.Fatal("flag %s: %v", f, err)
		}
	}
	store := metrics.NewStore()
	opts := []exporter.Option{exporter.Hostname(c.Cfg.Host), exporter.PushInterval(interval * time.Second)}
	if c.Cfg.OmitProg {
		opts = append(opts, exporter.OmitProgLabel())
	}
	ctx, cancel := context.WithCancel(context.Background())
	defer cancel()
	e, err := exporter.New(ctx, store, opts...)
	if err != nil {
		vh.Fatal("exporter.New: %v", err)
	}
	defer e.Stop()
	if _, err := expo.Build(store, c.Store); err != nil {
		vh.Fatal("case %d: building the store: %v", c.ID, err)
	}
	known := map[string]meta{}
	for _, m := range c.Store {
		known[m.Prog+"/"+m.Name] = meta{m.Kind, m.Type}
	}
	isText := func(m meta) bool { return m.kind == "Text" }
	notScalar := func(m meta) bool { return m.kind != "Counter" && m.kind != "Gauge" && m.kind != "Timer" }
	out := map[string]any{}

	// json
	w := httptest.NewRecorder()
	e.HandleJSON(w, httptest.NewRequest("GET", "/json", nil))
	if w.Code != 200 {
		out["json"] = verdict([]string{"<no json: the export failed>"}, nil, jsonWant(c.Want.JSON), jsonWant(c.WantDev.JSON))
		out["json"].(map[string]any)["status"] = strconv.Itoa(w.Code) + " " + strings.TrimSpace(w.Body.String())
	} else {
		got, bad := parseJSON(w.Body.Bytes())
		out["json"] = verdict(got, bad, jsonWant(c.Want.JSON), jsonWant(c.WantDev.JSON))
	}
	// varz
	w = httptest.NewRecorder()
	e.HandleVarz(w, httptest.NewRequest("GET", "/varz", nil))
	got, bad := parseVarz(w.Body.String())
	if w.Code != 200 {
		bad = append(bad, "varz: status "+strconv.Itoa(w.Code))
	}
	out["varz"] = verdict(got, bad, varzWant(c.Want.Varz), varzWant(c.WantDev.Varz))
	// graphite, http handler (also prints text metrics, about which C22 says nothing)
	w = httptest.NewRecorder()
	e.HandleGraphite(w, httptest.NewRequest("GET", "/graphite", nil))
	got, bad = parseGraphite(w.Body.String(), c.Cfg, known, isText)
	if w.Code != 200 {
		bad = append(bad, "graphite: status "+strconv.Itoa(w.Code))
	}
	out["graphite_http"] = verdict(got, bad, lineWant(c.Want.Graphite), lineWant(c.WantDev.Graphite))
	// push path
	for _, f := range []string{"graphite", "statsd", "collectd"} {
		r := &recorder{}
		if err := e.VerifWriteSocketMetrics(r, f); err != nil {
			out[f] = map[string]any{"verdict": "none", "bad": []string{f + ": " + err.Error()}}
			continue
		}
		switch f {
		case "graphite":
			got, bad = parseGraphite(strings.Join(r.writes, ""), c.Cfg, known, isText)
			out[f] = verdict(got, bad, lineWant(c.Want.Graphite), lineWant(c.WantDev.Graphite))
		case "statsd": // histograms are outside C22 for statsd and collectd
			got, bad = parseStatsd(r.writes, c.Cfg, known, notScalar)
			out[f] = verdict(got, bad, statsdWant(c.Want.Scalar), statsdWant(c.WantDev.Scalar))
		case "collectd":
			got, bad = parseCollectd(r.writes, known, notScalar)
			out[f] = verdict(got, bad, collectdWant(c.Want.Scalar, c.Cfg), collectdWant(c.WantDev.Scalar, c.Cfg))
		}
	}
	return map[string]any{"id": c.ID, "formats": out}
}

func main() {
	_ = flag.Set("logtostderr", "true")
	n := 0
	err := vh.EachCase(func(_ int, raw []byte) error {
		var c tcase
		if err := json.Unmarshal(raw, &c); err != nil {
			return err
		}
		n++
		vh.Out(runCase(&c))
		return nil
	})
	if err != nil {
		vh.Fatal("%v", err)
	}
	vh.Out(map[string]any{"summary": true, "cases": n})
	vh.Flush()
}
