//go:build verif

// c16 replays TLC-generated file histories (spec/FileStream.tla) on the real
// filesystem against the real tailer.Tailer + logstream.fileStream.
//
// One model step = one filesystem operation followed by one complete
// observation: every parked stream goroutine is woken and runs until it parks
// again or returns, then the pattern poller runs once, then a stream created
// by it parks.  The numbers of goroutines that must park (w, p) and whether a
// stream ends (rm) come from the model; the barriers are tailh.Barrier (a
// waker.Waker) and the tail.remove hook event, never time.  After each step
// the lines that came out of the tailer's output channel, the keys of
// Tailer.logstreams and the per-path expvar counters are compared with the
// model's record.
package main

import (
	"encoding/json"
	"flag"
	"fmt"
	"io"
	"os"
	"path/filepath"
	"runtime"
	"strconv"
	"strings"
	"sync"

	"github.com/google/mtail/internal/verif/tailh"
	"github.com/google/mtail/internal/verif/vh"
)

type opRec struct {
	Op    string   `json:"op"`
	Bytes []string `json:"bytes"`
}

type cntRec struct {
	Lines  int64 `json:"lines"`
	Truncs int64 `json:"truncs"`
	Opens  int64 `json:"opens"`
	Closes int64 `json:"closes"`
	Logs   int64 `json:"logs"`
}

type obsRec struct {
	Op     string     `json:"op"`
	Lines  [][]string `json:"lines"`
	W      int        `json:"w"`
	Rm     bool       `json:"rm"`
	P      int        `json:"p"`
	Tailed bool       `json:"tailed"`
	Cnt    cntRec     `json:"cnt"`
}

type tcase struct {
	Pre  string   `json:"pre"`
	Hist []opRec  `json:"hist"`
	Obs  []obsRec `json:"obs"`
}

func conc(cls []string) string {
	var b strings.Builder
	for _, c := range cls {
		switch c {
		case "n":
			b.WriteByte('\n')
		case "r":
			b.WriteByte('\r')
		default:
			if len(c) != 1 {
				vh.Fatal("unknown byte class %q", c)
			}
			b.WriteString(c)
		}
	}
	return b.String()
}

func concLines(ls [][]string) []string {
	out := make([]string, len(ls))
	for i, l := range ls {
		out[i] = conc(l)
	}
	return out
}

type stepGot struct {
	Op     string   `json:"op"`
	Lines  []string `json:"lines"`
	Tailed bool     `json:"tailed"`
	Cnt    cntRec   `json:"cnt"`
}

type outcome struct {
	why   string // "" = conforms
	step  int
	stall bool
	got   []stepGot
}

func create(path string, content string) error {
	f, err := os.OpenFile(path, os.O_CREATE|os.O_EXCL|os.O_WRONLY, 0o600)
	if err != nil {
		return err
	}
	if _, err := io.WriteString(f, content); err != nil {
		f.Close()
		return err
	}
	return f.Close()
}

func appendTo(path, content string) error {
	f, err := os.OpenFile(path, os.O_APPEND|os.O_WRONLY, 0o600)
	if err != nil {
		return err
	}
	if _, err := io.WriteString(f, content); err != nil {
		f.Close()
		return err
	}
	return f.Close()
}

// apply performs one environment operation of the model on the real filesystem.
func apply(root, path string, n int, o opRec) error {
	switch o.Op {
	case "line", "frag", "crlf":
		return appendTo(path, conc(o.Bytes))
	case "trunc":
		return os.Truncate(path, 0)
	case "copytrunc":
		b, err := os.ReadFile(path)
		if err != nil {
			return err
		}
		if err := os.WriteFile(filepath.Join(root, "copy."+strconv.Itoa(n)), b, 0o600); err != nil {
			return err
		}
		return os.Truncate(path, 0)
	case "rotate":
		if err := os.Rename(path, filepath.Join(root, "rotated."+strconv.Itoa(n))); err != nil {
			return err
		}
		return create(path, "")
	case "rotatew":
		if err := os.Rename(path, filepath.Join(root, "rotated."+strconv.Itoa(n))); err != nil {
			return err
		}
		return create(path, conc(o.Bytes))
	case "delete":
		return os.Remove(path)
	case "recreate":
		return create(path, "")
	case "nop":
		return nil
	}
	return fmt.Errorf("unknown operation %q", o.Op)
}

func eqLines(a, b []string) bool {
	if len(a) != len(b) {
		return false
	}
	for i := range a {
		if a[i] != b[i] {
			return false
		}
	}
	return true
}

// runOnce executes the history on a fresh directory against the expectation obs.
func runOnce(base string, c *tcase, obs []obsRec) (res outcome) {
	r, err := tailh.NewRoot(base)
	if err != nil {
		vh.Fatal("mkdir: %v", err)
	}
	defer r.Close()
	path := filepath.Join(r.Root, "log")
	switch c.Pre {
	case "absent":
	case "empty":
		err = create(path, "")
	case "line":
		err = create(path, "_\n")
	case "frag":
		err = create(path, "_")
	default:
		vh.Fatal("unknown pre %q", c.Pre)
	}
	if err != nil {
		vh.Fatal("create: %v", err)
	}
	fail := func(step int, format string, a ...any) outcome {
		res.why = fmt.Sprintf(format, a...)
		res.step = step
		res.stall = strings.HasPrefix(res.why, "stall:")
		return res
	}
	if err := r.Start([]string{path}, ""); err != nil {
		return fail(-1, "%v", err)
	}
	p0 := 0
	if c.Pre != "absent" {
		p0 = 1
	}
	if err := r.StreamsParked(p0); err != nil {
		return fail(-1, "%v", err)
	}
	wantWakes := p0
	mark, removed := 0, 0
	for i, o := range c.Hist {
		w := obs[i]
		if o.Op == "stop" {
			if err := r.Stop(); err != nil {
				return fail(i, "%v", err)
			}
		} else {
			if err := apply(r.Root, path, i, o); err != nil {
				vh.Fatal("history not executable at step %d (%s): %v", i, o.Op, err)
			}
			if err := r.WakeStreams(w.W); err != nil {
				return fail(i, "%v", err)
			}
			if w.Rm {
				removed++
				if err := r.Removed(removed); err != nil {
					return fail(i, "%v", err)
				}
			}
			if err := r.PollPatterns(); err != nil {
				return fail(i, "%v", err)
			}
			if err := r.StreamsParked(w.P); err != nil {
				return fail(i, "%v", err)
			}
			wantWakes += w.P
		}
		all, err := r.Received()
		if err != nil {
			return fail(i, "%v", err)
		}
		g := stepGot{Op: o.Op, Lines: []string{}}
		for _, l := range all[mark:] {
			g.Lines = append(g.Lines, l.Text)
			if l.File != path {
				return fail(i, "line %q carries source %q", l.Text, l.File)
			}
		}
		mark = len(all)
		keys := r.Keys()
		g.Tailed = len(keys) > 0
		g.Cnt = cntRec{
			Lines:  tailh.MapCounter("log_lines_total", path),
			Truncs: tailh.MapCounter("file_truncates_total", path),
			Opens:  tailh.MapCounter("log_opens_total", path),
		}
		res.got = append(res.got, g)
		if want := concLines(w.Lines); !eqLines(g.Lines, want) {
			return fail(i, "after %q the tailer delivered %q, the specification expects %q", o.Op, g.Lines, want)
		}
		if len(keys) > 1 || (len(keys) == 1 && keys[0] != "log") {
			return fail(i, "logstreams has keys %q", keys)
		}
		if g.Tailed != w.Tailed {
			return fail(i, "after %q path tailed = %v, the specification expects %v", o.Op, g.Tailed, w.Tailed)
		}
		if p := r.Streams.Parked(); o.Op != "stop" && p != w.P {
			return fail(i, "after %q %d stream goroutines are parked, the model has %d", o.Op, p, w.P)
		}
		if _, _, rm := r.Ev.Counts(); o.Op != "stop" && rm != removed {
			return fail(i, "after %q %d streams have ended, the model has %d", o.Op, rm, removed)
		}
		if g.Cnt.Lines != w.Cnt.Lines {
			return fail(i, "log_lines_total = %d, the model has %d", g.Cnt.Lines, w.Cnt.Lines)
		}
		if g.Cnt.Truncs != w.Cnt.Truncs {
			return fail(i, "file_truncates_total = %d, the model has %d", g.Cnt.Truncs, w.Cnt.Truncs)
		}
		if g.Cnt.Opens != w.Cnt.Opens {
			return fail(i, "log_opens_total = %d, the model has %d", g.Cnt.Opens, w.Cnt.Opens)
		}
		if o.Op == "stop" {
			// everything has finished: these are exact now
			if cl := tailh.MapCounter("log_closes_total", path); cl != w.Cnt.Closes {
				return fail(i, "log_closes_total = %d, the model has %d", cl, w.Cnt.Closes)
			}
			if tw := r.Streams.Total(); tw != wantWakes {
				return fail(i, "stream goroutines parked %d times in total, the model has %d", tw, wantWakes)
			}
			hl := r.Ev.LinesCopy()
			if len(hl) != len(all) {
				return fail(i, "readers produced %d lines, %d came out of the tailer", len(hl), len(all))
			}
			for k := range hl {
				if hl[k].Text != all[k].Text {
					return fail(i, "line %d produced by the reader is %q, forwarded as %q", k, hl[k].Text, all[k].Text)
				}
			}
		}
	}
	return res
}

// check runs a case against an expectation; a failure counts only if it reproduces from a clean directory.
func check(base string, c *tcase, obs []obsRec) outcome {
	a := runOnce(base, c, obs)
	if a.why == "" {
		return a
	}
	b := runOnce(base, c, obs)
	return b
}

func main() {
	flag.Set("log_dir", mustDir("glog"))
	flag.Set("stderrthreshold", "FATAL")
	flag.Parse()
	base, err := os.MkdirTemp(os.Getenv("VERIF_TMP"), "verif-c16-")
	if err != nil {
		vh.Fatal("%v", err)
	}
	defer os.RemoveAll(base)
	workers := runtime.NumCPU()
	if s := os.Getenv("VERIF_WORKERS"); s != "" {
		if n, err := strconv.Atoi(s); err == nil && n > 0 {
			workers = n
		}
	}
	type job struct{ raw []byte }
	jobs := make(chan job, 256)
	var wg sync.WaitGroup
	var mu sync.Mutex
	n, bad, skipped := 0, 0, 0
	for i := 0; i < workers; i++ {
		wg.Add(1)
		go func() {
			defer wg.Done()
			for j := range jobs {
				var c tcase
				if err := json.Unmarshal(j.raw, &c); err != nil {
					vh.Fatal("bad case: %v", err)
				}
				if len(c.Obs) != len(c.Hist) {
					vh.Fatal("case has %d operations and %d observations", len(c.Hist), len(c.Obs))
				}
				if tailh.BudgetSpent() {
					mu.Lock()
					skipped++
					mu.Unlock()
					continue
				}
				res := check(base, &c, c.Obs)
				mu.Lock()
				n++
				mu.Unlock()
				if res.why == "" {
					continue
				}
				if res.stall {
					tailh.NoteStall()
				}
				mu.Lock()
				bad++
				mu.Unlock()
				vh.Out(map[string]any{"mismatch": true, "why": res.why, "step": res.step, "stall": res.stall,
					"case": json.RawMessage(j.raw), "got": res.got})
			}
		}()
	}
	err = vh.EachCase(func(_ int, raw []byte) error {
		jobs <- job{raw}
		return nil
	})
	close(jobs)
	wg.Wait()
	if err != nil {
		vh.Fatal("%v", err)
	}
	vh.Out(map[string]any{"summary": true, "cases": n, "mismatches": bad, "skipped": skipped})
	vh.Flush()
}

func mustDir(name string) string {
	d, err := filepath.Abs(name)
	if err != nil {
		vh.Fatal("%v", err)
	}
	if err := os.MkdirAll(d, 0o755); err != nil {
		vh.Fatal("%v", err)
	}
	return d
}
