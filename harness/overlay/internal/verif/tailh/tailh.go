//go:build verif

// Package tailh is the shared machinery of the C16 / C18 replay harnesses: it
// runs the real tailer.Tailer (and through it the real logstream code) on a
// real directory and makes "the tailer has observed the step" a deterministic
// barrier.
//
// Why not waker.NewTest: its awaken(wake, wait) protocol needs, at every call,
// exactly `wake` goroutines parked whose arrival was already acknowledged by an
// earlier call.  A stream goroutine created by a pattern poll parks for the
// first time *between* two calls; the only way to acknowledge it is
// awaken(0, 1), whose broadcast also wakes that goroutine spuriously if it
// happens to be parked already - after which the bookkeeping is off by one
// and a later awaken may return before the stream has looked at the file.
// That is a scheduling race in the test helper, so a verdict built on it
// could be a false alarm.  Barrier below implements the same waker.Waker
// interface (the seam the production code offers) with exact accounting:
// every Wake() call is counted under a lock together with the channel it
// returns, Broadcast closes exactly that channel.
package tailh

import (
	"context"
	"expvar"
	"fmt"
	"os"
	"path/filepath"
	"sort"
	"strings"
	"sync"
	"sync/atomic"
	"time"

	"github.com/google/mtail/internal/logline"
	"github.com/google/mtail/internal/tailer"
	"github.com/google/mtail/internal/verifhook"
)

// Deadline is how long a barrier may take before the step counts as stalled.
// No verdict depends on it on the good path: every wait ends by an event.
var Deadline = 10 * time.Second

// A stalled barrier costs two deadlines per case (first run + re-run).  A defect that makes many cases stall
// would take hours; once StallBudget cases have stalled twice, the remaining cases of this process are
// skipped and reported as skipped (the checker then needs the confirmed stalls for a verdict, or gives none).
const StallBudget = 3

var stalls atomic.Int32

func NoteStall()        { stalls.Add(1) }
func BudgetSpent() bool { return stalls.Load() >= StallBudget }

// ---------------------------------------------------------------------------

// Barrier is a waker.Waker.  A goroutine is "parked" from its call of Wake()
// (the production loops call it only inside `select { case <-w.Wake(): }`)
// until the next Broadcast.
type Barrier struct {
	mu     sync.Mutex
	ch     chan struct{}
	parked int // Wake() calls since the last Broadcast
	total  int // Wake() calls ever
	sig    chan struct{}
}

func NewBarrier() *Barrier {
	return &Barrier{ch: make(chan struct{}), sig: make(chan struct{}, 1)}
}

// Wake implements waker.Waker.
func (b *Barrier) Wake() <-chan struct{} {
	b.mu.Lock()
	b.parked++
	b.total++
	c := b.ch
	b.mu.Unlock()
	select {
	case b.sig <- struct{}{}:
	default:
	}
	return c
}

// Broadcast wakes every parked goroutine and starts a new epoch.
func (b *Barrier) Broadcast() {
	b.mu.Lock()
	old := b.ch
	b.ch = make(chan struct{})
	b.parked = 0
	b.mu.Unlock()
	close(old)
}

func (b *Barrier) Parked() int { b.mu.Lock(); defer b.mu.Unlock(); return b.parked }
func (b *Barrier) Total() int  { b.mu.Lock(); defer b.mu.Unlock(); return b.total }

// WaitParked blocks until at least n goroutines are parked in this epoch.
func (b *Barrier) WaitParked(n int) (int, bool) {
	t := time.NewTimer(Deadline)
	defer t.Stop()
	for {
		if p := b.Parked(); p >= n {
			return p, true
		}
		select {
		case <-b.sig:
		case <-t.C:
			p := b.Parked()
			return p, p >= n
		}
	}
}

// ---------------------------------------------------------------------------
// hook events, routed to the run that owns the path

type Line struct {
	File, Text string
	Finish     bool // came from LineReader.Finish
}

// Events of one run, fed by the verifhook sink.
type Events struct {
	mu      sync.Mutex
	Lines   []Line   // lr.line / lr.finish in order
	Adds    []string // tail.add
	Removes []string // tail.remove
	sig     chan struct{}
}

var (
	routeMu sync.RWMutex
	routes  = map[string]*Events{} // run root dir -> events
	sinkOn  sync.Once
)

func str(v interface{}) string { s, _ := v.(string); return s }

func route(p string) *Events {
	routeMu.RLock()
	defer routeMu.RUnlock()
	for d := p; len(d) > 1; d = filepath.Dir(d) {
		if e, ok := routes[d]; ok {
			return e
		}
	}
	return nil
}

func sink(e verifhook.Event) {
	switch e.Ev {
	case "lr.line", "lr.finish":
		f := str(e.Get("file"))
		if ev := route(f); ev != nil {
			ev.mu.Lock()
			ev.Lines = append(ev.Lines, Line{File: f, Text: str(e.Get("line")), Finish: e.Ev == "lr.finish"})
			ev.mu.Unlock()
			ev.poke()
		}
	case "tail.add", "tail.remove":
		p := str(e.Get("path"))
		if ev := route(p); ev != nil {
			ev.mu.Lock()
			if e.Ev == "tail.add" {
				ev.Adds = append(ev.Adds, p)
			} else {
				ev.Removes = append(ev.Removes, p)
			}
			ev.mu.Unlock()
			ev.poke()
		}
	}
}

func (ev *Events) poke() {
	select {
	case ev.sig <- struct{}{}:
	default:
	}
}

func (ev *Events) Counts() (lines, adds, removes int) {
	ev.mu.Lock()
	defer ev.mu.Unlock()
	return len(ev.Lines), len(ev.Adds), len(ev.Removes)
}

func (ev *Events) LinesCopy() []Line {
	ev.mu.Lock()
	defer ev.mu.Unlock()
	return append([]Line(nil), ev.Lines...)
}

func (ev *Events) wait(cond func() bool) bool {
	t := time.NewTimer(Deadline)
	defer t.Stop()
	for {
		if cond() {
			return true
		}
		select {
		case <-ev.sig:
		case <-t.C:
			return cond()
		}
	}
}

// ---------------------------------------------------------------------------

// Run is one real Tailer on one fresh directory.
type Run struct {
	Root    string // fresh directory owned by this run
	T       *tailer.Tailer
	Streams *Barrier
	Pattern *Barrier
	Ev      *Events
	NPat    int

	// Hold, when set before Start, makes the tailer's output channel unbuffered and keeps the
	// consumer from receiving until Release is called (a slow consumer: back-pressure).
	Hold chan struct{}

	cancel context.CancelFunc
	wg     sync.WaitGroup
	lines  chan *logline.LogLine

	gotMu  sync.Mutex
	got    []Line // received on the tailer's output channel
	closed bool   // output channel closed
	gotSig chan struct{}
}

// NewRoot creates the fresh directory of a run under base and registers it for hook routing.
func NewRoot(base string) (*Run, error) {
	sinkOn.Do(func() { verifhook.SetSink(sink) })
	root, err := os.MkdirTemp(base, "r")
	if err != nil {
		return nil, err
	}
	r := &Run{Root: root, Streams: NewBarrier(), Pattern: NewBarrier(),
		Ev: &Events{sig: make(chan struct{}, 1)}, gotSig: make(chan struct{}, 1)}
	routeMu.Lock()
	routes[root] = r.Ev
	routeMu.Unlock()
	return r, nil
}

// Start creates the Tailer (which globs every pattern once, synchronously) and waits
// until the pattern pollers are parked.
func (r *Run) Start(patterns []string, ignore string) error {
	ctx, cancel := context.WithCancel(context.Background())
	r.cancel = cancel
	r.lines = make(chan *logline.LogLine, 16)
	hold := r.Hold
	if hold != nil {
		r.lines = make(chan *logline.LogLine)
	}
	go func() {
		if hold != nil {
			<-hold
		}
		for l := range r.lines {
			r.gotMu.Lock()
			r.got = append(r.got, Line{File: l.Filename, Text: l.Line})
			r.gotMu.Unlock()
			r.pokeGot()
		}
		r.gotMu.Lock()
		r.closed = true
		r.gotMu.Unlock()
		r.pokeGot()
	}()
	opts := []tailer.Option{tailer.LogPatterns(patterns), tailer.LogPatternPollWaker(r.Pattern), tailer.LogstreamPollWaker(r.Streams)}
	if ignore != "" {
		opts = append(opts, tailer.IgnoreRegex(ignore))
	}
	t, err := tailer.New(ctx, &r.wg, r.lines, opts...)
	if err != nil {
		cancel()
		return err
	}
	r.T = t
	r.NPat = len(patterns)
	if p, ok := r.Pattern.WaitParked(r.NPat); !ok {
		return fmt.Errorf("stall: %d of %d pattern pollers parked after New", p, r.NPat)
	}
	return nil
}

// Release lets a held consumer run.
func (r *Run) Release() {
	if r.Hold != nil {
		close(r.Hold)
		r.Hold = nil
	}
}

func (r *Run) pokeGot() {
	select {
	case r.gotSig <- struct{}{}:
	default:
	}
}

// WakeStreams wakes every parked stream goroutine and waits until `parked` of them
// (re-parked ones and new generations) are parked again.
func (r *Run) WakeStreams(parked int) error {
	r.Streams.Broadcast()
	return r.StreamsParked(parked)
}

// StreamsParked waits until `parked` stream goroutines are parked in the current epoch.
func (r *Run) StreamsParked(parked int) error {
	p, ok := r.Streams.WaitParked(parked)
	if !ok {
		return fmt.Errorf("stall: %d stream goroutines parked, the model has %d", p, parked)
	}
	return nil
}

// Removed waits until n tail.remove events have been seen in total.
func (r *Run) Removed(n int) error {
	if !r.Ev.wait(func() bool { _, _, rm := r.Ev.Counts(); return rm >= n }) {
		_, _, rm := r.Ev.Counts()
		return fmt.Errorf("stall: %d streams ended (tail.remove), the model has %d", rm, n)
	}
	return nil
}

// WaitLines waits until the readers have produced n lines in total (lr.line / lr.finish events).
func (r *Run) WaitLines(n int) error {
	if !r.Ev.wait(func() bool { l, _, _ := r.Ev.Counts(); return l >= n }) {
		l, _, _ := r.Ev.Counts()
		return fmt.Errorf("stall: readers produced %d lines, expected %d", l, n)
	}
	return nil
}

// PollPatterns runs one round of every pattern poller to completion.
func (r *Run) PollPatterns() error {
	r.Pattern.Broadcast()
	if p, ok := r.Pattern.WaitParked(r.NPat); !ok {
		return fmt.Errorf("stall: %d of %d pattern pollers parked after a poll", p, r.NPat)
	}
	return nil
}

// Received waits until every line the readers produced so far (hook count) has come out
// of the tailer's output channel, and returns all lines received so far.
func (r *Run) Received() ([]Line, error) {
	want, _, _ := r.Ev.Counts()
	t := time.NewTimer(Deadline)
	defer t.Stop()
	for {
		r.gotMu.Lock()
		n := len(r.got)
		r.gotMu.Unlock()
		if n >= want {
			break
		}
		select {
		case <-r.gotSig:
		case <-t.C:
			return nil, fmt.Errorf("stall: readers produced %d lines, %d came out of the tailer", want, n)
		}
	}
	r.gotMu.Lock()
	defer r.gotMu.Unlock()
	return append([]Line(nil), r.got...), nil
}

// Stop cancels the tailer and waits for every goroutine and for the output channel to be closed.
func (r *Run) Stop() error {
	if r.cancel == nil {
		return nil
	}
	r.Release()
	r.cancel()
	r.cancel = nil
	done := make(chan struct{})
	go func() { r.wg.Wait(); close(done) }()
	select {
	case <-done:
	case <-time.After(Deadline):
		return fmt.Errorf("stall: tailer goroutines did not finish after cancel")
	}
	t := time.NewTimer(Deadline)
	defer t.Stop()
	for {
		r.gotMu.Lock()
		c := r.closed
		r.gotMu.Unlock()
		if c {
			return nil
		}
		select {
		case <-r.gotSig:
		case <-t.C:
			return fmt.Errorf("stall: output channel not closed after the tailer finished")
		}
	}
}

// WaitParkedOrRemoved waits until `parked` stream goroutines are parked in the current epoch or `removed`
// streams have ended in total - whichever the tree under test does.
func (r *Run) WaitParkedOrRemoved(parked, removed int) error {
	t := time.NewTimer(Deadline)
	defer t.Stop()
	for {
		_, _, rm := r.Ev.Counts()
		if r.Streams.Parked() >= parked || rm >= removed {
			return nil
		}
		select {
		case <-r.Streams.sig:
		case <-r.Ev.sig:
		case <-t.C:
			return fmt.Errorf("stall: %d stream goroutines parked and %d streams ended", r.Streams.Parked(), rm)
		}
	}
}

// Abandon cancels the tailer without waiting for its goroutines (for schedules after which they are known
// not to finish) and forgets the run; only for processes that exit right afterwards.
func (r *Run) Abandon() {
	if r.cancel != nil {
		r.Release()
		r.cancel()
		r.cancel = nil
	}
	routeMu.Lock()
	delete(routes, r.Root)
	routeMu.Unlock()
	os.RemoveAll(r.Root)
}

// Close stops (if needed) and removes the directory, the routing entry and the expvar keys.
func (r *Run) Close() {
	_ = r.Stop()
	routeMu.Lock()
	delete(routes, r.Root)
	routeMu.Unlock()
	for _, m := range []string{"log_lines_total", "file_truncates_total", "log_opens_total", "log_closes_total", "log_errors_total"} {
		if mv, ok := expvar.Get(m).(*expvar.Map); ok {
			var keys []string
			mv.Do(func(kv expvar.KeyValue) {
				if strings.HasPrefix(kv.Key, r.Root) {
					keys = append(keys, kv.Key)
				}
			})
			for _, k := range keys {
				mv.Delete(k)
			}
		}
	}
	os.RemoveAll(r.Root)
}

// Keys returns the sorted keys of Tailer.logstreams, relative to the run root.
func (r *Run) Keys() []string {
	ks := r.T.VerifLogstreamKeys()
	for i, k := range ks {
		if rel, err := filepath.Rel(r.Root, k); err == nil {
			ks[i] = rel
		}
	}
	sort.Strings(ks)
	return ks
}

// MapCounter reads an expvar map counter keyed by path (0 if absent).
func MapCounter(name, key string) int64 {
	m, _ := expvar.Get(name).(*expvar.Map)
	if m == nil {
		return -1
	}
	if v, ok := m.Get(key).(*expvar.Int); ok {
		return v.Value()
	}
	return 0
}

// LogCount reads the process-wide log_count gauge.
func LogCount() int64 {
	if v, ok := expvar.Get("log_count").(*expvar.Int); ok {
		return v.Value()
	}
	return -1
}
