//go:build verif

// c10 replays every finished Gc pass of spec/StoreGc.tla on a real metrics.Store.
//
// case: {"T":t,"pre":[{"limit":n,"data":[[time,expiry],..]},..],"post":[[[label,time,expiry,value],..],..]}
// The store is built with the public API (NewMetric, Store.Add, GetDatum, a datum
// update with the mapped timestamp, ExpireDatum), Store.Gc() is called once and the
// LabelValues of every metric (labels in order, timestamp, expiry mark, value) and
// the metric's Limit/Name/Kind are compared with the model's store after the pass.
//
// Time: Gc reads time.Now() itself.  Model instant t is mapped to
// base - (T-t)h + 30min with base = time.Now() taken just before the store is built,
// expiry e to e hours: for integer t, T, e the real age (T-t)h - 30min + (a few ms)
// is > e hours exactly when T-t > e, the model's condition.  Ties and order of
// timestamps are preserved exactly.  The boundary age == expiry to the nanosecond
// is not reproducible through time.Now() and is checked in the model only.
package main

import (
	"encoding/json"
	"fmt"
	"strings"
	"time"

	"github.com/google/mtail/internal/metrics"
	"github.com/google/mtail/internal/metrics/datum"
	"github.com/google/mtail/internal/verif/vh"
)

type mspec struct {
	Limit int     `json:"limit"`
	Data  [][]int `json:"data"`
}

type tcase struct {
	T    int       `json:"T"`
	Pre  []mspec   `json:"pre"`
	Post [][][]int `json:"post"`
	// a second pass on the same store at instant T2 >= T (time passing is emulated by re-stamping every datum, with its
	// own value, at the instant that lies as far before the second pass as the model says); Upd re-stamps one datum
	// (metric index, label number, new model time) before it.  Judged by TLC against GcPost (Judge2), see c10.py.
	Second *second `json:"second,omitempty"`
}

type second struct {
	T2  int   `json:"T2"`
	Upd []int `json:"upd,omitempty"`
}

func label(j int) string { return strings.Repeat("a", j) }

func run(c *tcase) (got [][][]int, why string, sec map[string]any, err error) {
	base := time.Now()
	ts := func(t int) time.Time {
		return base.Add(-time.Duration(c.T-t)*time.Hour + 30*time.Minute)
	}
	s := metrics.NewStore()
	ms := make([]*metrics.Metric, len(c.Pre))
	for k, sp := range c.Pre {
		typ, kind := metrics.Int, metrics.Counter
		if k%2 == 1 {
			typ, kind = metrics.Float, metrics.Gauge
		}
		m := metrics.NewMetric(fmt.Sprintf("m%d", k), "prog", kind, typ, "key")
		m.Limit = sp.Limit
		ms[k] = m
		if err := s.Add(m); err != nil {
			return nil, "", nil, err
		}
		for j0, d := range sp.Data {
			j := j0 + 1
			dd, err := m.GetDatum(label(j))
			if err != nil {
				return nil, "", nil, err
			}
			if typ == metrics.Int {
				datum.SetInt(dd, int64(100+j), ts(d[0]))
			} else {
				datum.SetFloat(dd, float64(100+j), ts(d[0]))
			}
			if d[1] > 0 {
				if err := m.ExpireDatum(time.Duration(d[1])*time.Hour, label(j)); err != nil {
					return nil, "", nil, err
				}
			}
		}
	}
	if err := s.Gc(); err != nil {
		return nil, "", nil, err
	}
	if since := time.Since(base); since > 20*time.Minute {
		return nil, "", nil, fmt.Errorf("case took %v: time mapping no longer valid", since)
	}
	// "nothing else in the store changes"
	n := 0
	for name, ml := range s.Metrics {
		for _, m := range ml {
			n++
			found := false
			for k := range ms {
				if ms[k] == m {
					found = true
					if name != fmt.Sprintf("m%d", k) || m.Name != name || m.Limit != c.Pre[k].Limit || len(m.Keys) != 1 {
						why = fmt.Sprintf("metric %s changed (name/limit/keys)", name)
					}
				}
			}
			if !found {
				why = "store holds a metric that was not added"
			}
		}
	}
	if n != len(ms) && why == "" {
		why = fmt.Sprintf("store holds %d metrics, %d were added", n, len(ms))
	}
	got = make([][][]int, len(ms))
	for k, m := range ms {
		got[k] = [][]int{}
		for _, lv := range m.LabelValues {
			j := len(lv.Labels[0])
			if len(lv.Labels) != 1 || lv.Labels[0] != label(j) {
				j = -1
			}
			// model time of the datum
			t := -1000
			for cand := -2; cand <= 40; cand++ {
				if ts(cand).Equal(lv.Value.TimeUTC()) {
					t = cand
				}
			}
			e := int(lv.Expiry / time.Hour)
			if lv.Expiry%time.Hour != 0 {
				e = -1
			}
			v := -1
			fmt.Sscanf(lv.Value.ValueString(), "%d", &v)
			got[k] = append(got[k], []int{j, t, e, v})
		}
		if metrics.VerifIndexLen(m) != len(m.LabelValues) && why == "" {
			why = fmt.Sprintf("metric m%d: %d label values but %d index entries", k, len(m.LabelValues), metrics.VerifIndexLen(m))
		}
		for key, pos := range metrics.VerifIndexPositions(m) {
			if pos < 0 && why == "" {
				why = fmt.Sprintf("metric m%d: index entry %q points outside the slice", k, key)
			}
		}
	}
	if c.Second != nil && why == "" {
		sec, err = secondPass(c, s, ms, got)
		if err != nil {
			return nil, "", nil, err
		}
	}
	return got, why, sec, nil
}

// secondPass re-stamps the surviving data for the instant T2, applies the optional update, runs Store.Gc again and
// reports the store before and after in model terms.
func secondPass(c *tcase, s *metrics.Store, ms []*metrics.Metric, after1 [][][]int) (map[string]any, error) {
	base := time.Now()
	T2 := c.Second.T2
	ts := func(t int) time.Time { return base.Add(-time.Duration(T2-t)*time.Hour + 30*time.Minute) }
	before := make([][][]int, len(ms))
	for k, m := range ms {
		before[k] = [][]int{}
		for i, lv := range m.LabelValues {
			d := append([]int(nil), after1[k][i]...) // label, time, expiry, value
			if u := c.Second.Upd; len(u) == 3 && u[0] == k+1 && u[1] == d[0] {
				d[1] = u[2]
			}
			if m.Type == metrics.Int {
				datum.SetInt(lv.Value, int64(d[3]), ts(d[1]))
			} else {
				datum.SetFloat(lv.Value, float64(d[3]), ts(d[1]))
			}
			before[k] = append(before[k], d)
		}
	}
	if err := s.Gc(); err != nil {
		return nil, err
	}
	post := make([][][]int, len(ms))
	limits := make([]int, len(ms))
	for k, m := range ms {
		limits[k] = m.Limit
		post[k] = [][]int{}
		for _, lv := range m.LabelValues {
			j := len(lv.Labels[0])
			t := -1000
			for cand := -2; cand <= 40; cand++ {
				if ts(cand).Equal(lv.Value.TimeUTC()) {
					t = cand
				}
			}
			v := -1
			fmt.Sscanf(lv.Value.ValueString(), "%d", &v)
			post[k] = append(post[k], []int{j, t, int(lv.Expiry / time.Hour), v})
		}
	}
	return map[string]any{"T": T2, "limits": limits, "before": before, "post": post}, nil
}

func canon(v any) string {
	b, _ := json.Marshal(v)
	return string(b)
}

func main() {
	n, bad := 0, 0
	err := vh.EachCase(func(_ int, raw []byte) error {
		var c tcase
		if err := json.Unmarshal(raw, &c); err != nil {
			return err
		}
		n++
		got, why, sec, err := run(&c)
		if err != nil {
			return err
		}
		if sec != nil {
			vh.Out(map[string]any{"second": sec, "case": json.RawMessage(raw)})
		}
		if why == "" && canon(got) != canon(c.Post) {
			why = "store after Gc is " + canon(got) + ", model says " + canon(c.Post)
		}
		if why != "" {
			bad++
			vh.Out(map[string]any{"mismatch": true, "why": why, "case": json.RawMessage(raw), "got": got})
		}
		return nil
	})
	if err != nil {
		vh.Fatal("%v", err)
	}
	vh.Out(map[string]any{"summary": true, "cases": n, "mismatches": bad})
	vh.Flush()
}
