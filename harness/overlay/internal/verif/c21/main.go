//go:build verif

// c21 replays every behaviour of spec/Buckets.tla through the real compiler, VM
// and datum: for a declaration `decl` the program
//
//	histogram h by k buckets <decl>
//	/^(\S+) (\S+)$/ {
//	  h[$1] = float($2)
//	}
//
// is compiled once; each case observes its values on a fresh label (one log line
// per observation) and after every line the datum's bucket bounds, bucket counts,
// Count and Sum are compared with the model; after the last one also
// datum.GetBucketsCumByMax, the datum's JSON and (for a sample of cases) the
// Prometheus text exposition written by the real exporter.
//
// case: {"decl":[..],"obs":[..],"maxes":[..],"steps":[{"n":[..],"sum":s},..],"cum":[..]}
// numbers: finite values in half units; -1000 = -Inf, 1000 = +Inf, 9999 = NaN.
package main

import (
	"bytes"
	"context"
	"encoding/json"
	"fmt"
	"math"
	"regexp"
	"strconv"
	"strings"

	"github.com/google/mtail/internal/exporter"
	"github.com/google/mtail/internal/logline"
	"github.com/google/mtail/internal/metrics"
	"github.com/google/mtail/internal/metrics/datum"
	"github.com/google/mtail/internal/runtime/compiler"
	"github.com/google/mtail/internal/runtime/vm"
	"github.com/google/mtail/internal/verif/vh"
)

type step struct {
	N     []int64 `json:"n"`
	Count int64   `json:"count"`
	Sum   int64   `json:"sum"`
}

type reloadSpec struct {
	At    int   `json:"at"`
	Decl2 []int `json:"decl2"`
}

type tcase struct {
	Reload reloadSpec `json:"reload"` // Decl2 non-empty: after At observations the program is reloaded with that list
	Decl   []int      `json:"decl"`
	Obs    []int64    `json:"obs"`
	Maxes  []int64    `json:"maxes"`
	Steps  []step     `json:"steps"`
	Cum    []int64    `json:"cum"`
}

type got struct {
	Maxes []int64 `json:"maxes"`
	Steps []step  `json:"steps"`
}

const (
	negInf = -1000
	posInf = 1000
	nan    = 9999
)

func conc(n int64) float64 {
	switch n {
	case negInf:
		return math.Inf(-1)
	case posInf:
		return math.Inf(+1)
	case nan:
		return math.NaN()
	}
	return float64(n) / 2
}

// abs maps a real float to the model's number; ok=false if it is not representable
func abs(f float64) (int64, bool) {
	switch {
	case math.IsNaN(f):
		return nan, true
	case math.IsInf(f, +1):
		return posInf, true
	case math.IsInf(f, -1):
		return negInf, true
	}
	h := f * 2
	if h != math.Trunc(h) || math.Abs(h) > 500 {
		return 0, false
	}
	return int64(h), true
}

func text(n int64) string {
	switch n {
	case negInf:
		return "-Inf"
	case posInf:
		return "+Inf"
	case nan:
		return "NaN"
	}
	return strconv.FormatFloat(float64(n)/2, 'g', -1, 64)
}

type prog struct {
	v     *vm.VM
	m     *metrics.Metric
	store *metrics.Store
}

var progs = map[string]*prog{}

func declText(decl []int) string {
	parts := make([]string, len(decl))
	for i, b := range decl { // half units
		parts[i] = strconv.FormatFloat(float64(b)/2, 'g', -1, 64)
	}
	return strings.Join(parts, ", ")
}

func progFor(decl []int, how string) (*prog, error) {
	key := declText(decl)
	if how == "fresh" { // a program of its own (the case reloads it)
		how = "f"
	} else if p, ok := progs[how+key]; ok {
		return p, nil
	}
	cached := how + key
	// two ways in, one program each (a metric assigned a float anywhere is Float-typed everywhere): a float-typed
	// observation (fset -> SetFloat) and an int-typed one (iset -> datum.SetInt on the buckets)
	src := "histogram h by k buckets " + key + "\n/^f (\\S+) (\\S+)$/ {\n  h[$1] = float($2)\n}\n"
	if how == "i" {
		src = "histogram h by k buckets " + key + "\n/^i (\\S+) (-?\\d+)$/ {\n  h[$1] = $2\n}\n"
	}
	c, err := compiler.New()
	if err != nil {
		return nil, err
	}
	obj, err := c.Compile("c21.mtail", strings.NewReader(src))
	if err != nil {
		return nil, fmt.Errorf("compile %q: %v", src, err)
	}
	if len(obj.Metrics) != 1 {
		return nil, fmt.Errorf("program has %d metrics", len(obj.Metrics))
	}
	p := &prog{v: vm.New("c21.mtail", obj, false, nil, false, false), m: obj.Metrics[0], store: metrics.NewStore()}
	if err := p.store.Add(p.m); err != nil {
		return nil, err
	}
	progs[cached] = p
	return p, nil
}

func snapshot(d datum.Datum) (maxes []int64, st step, why string) {
	b, ok := d.(*datum.Buckets)
	if !ok {
		return nil, st, fmt.Sprintf("datum is a %T", d)
	}
	b.RLock()
	defer b.RUnlock()
	for _, bc := range b.Buckets {
		mx, ok := abs(bc.Range.Max)
		if !ok {
			why = fmt.Sprintf("bucket bound %v", bc.Range.Max)
		}
		maxes = append(maxes, mx)
		st.N = append(st.N, int64(bc.Count))
	}
	s, ok := abs(b.Sum)
	if !ok {
		why = fmt.Sprintf("sum %v", b.Sum)
	}
	st.Sum = s
	st.Count = int64(b.Count)
	return maxes, st, why
}

func eqInts(a, b []int64) bool {
	if len(a) != len(b) {
		return false
	}
	for i := range a {
		if a[i] != b[i] {
			return false
		}
	}
	return true
}

var (
	lineRe = regexp.MustCompile(`^h_bucket\{(.*)\} (\d+)$`)
	kRe    = regexp.MustCompile(`(?:^|,)k="([^"]*)"`)
	leRe   = regexp.MustCompile(`(?:^|,)le="([^"]*)"`)
)

func run(n int, c *tcase, expo bool) (g got, why string, err error) {
	// every other case observes through the int-typed program, provided all its values are whole numbers
	how := "f"
	if n%2 == 1 {
		how = "i"
		for _, o := range c.Obs {
			if o == negInf || o == posInf || o == nan || o%2 != 0 {
				how = "f"
			}
		}
	}
	if len(c.Reload.Decl2) > 0 {
		how = "fresh"
	}
	p, err := progFor(c.Decl, how)
	if err != nil {
		return g, "", err
	}
	if how == "fresh" {
		how = "f"
		defer delete(progs, "f"+declText(c.Decl)) // never reused
	}
	key := fmt.Sprintf("c%d", n)
	ctx := context.Background()
	note := func(s string) {
		if why == "" {
			why = s
		}
	}
	var d datum.Datum
	for i, o := range c.Obs {
		if len(c.Reload.Decl2) > 0 && i == c.Reload.At {
			// the reload as the loader does it: compile the edited source, register its metric (Store.Add hands over
			// the label values of the metric it replaces), run the new VM
			p2, err := progFor(c.Reload.Decl2, "fresh")
			if err != nil {
				return g, "", err
			}
			delete(progs, "f"+declText(c.Reload.Decl2))
			if err := p.store.Add(p2.m); err != nil {
				return g, "", fmt.Errorf("Store.Add at reload: %v", err)
			}
			p2.store = p.store
			p = p2
		}
		p.v.ProcessLogLine(ctx, logline.New(ctx, "c21", how+" "+key+" "+text(o)))
		p.m.RLock()
		lv := p.m.FindLabelValueOrNil([]string{key})
		p.m.RUnlock()
		if lv == nil {
			return g, fmt.Sprintf("observation %d (%s) made no datum; runtime error: %s", i, text(o), p.v.RuntimeErrorString()), nil
		}
		d = lv.Value
		maxes, st, w := snapshot(d)
		if w != "" {
			note(w)
		}
		g.Maxes = maxes
		g.Steps = append(g.Steps, st)
		if len(c.Reload.Decl2) > 0 && i >= c.Reload.At {
			// after a reload with an edited list the statement does not say which layout the datum has (the code keeps
			// the one it was made with); what it does say still holds: nothing counted so far is lost, and each
			// observation is counted in exactly one bucket
			var tot int64
			for _, x := range st.N {
				tot += x
			}
			if tot != int64(i+1) {
				note(fmt.Sprintf("after a reload with `buckets %s` (made with `buckets %s`) and %d observations the bucket counts %v add up to %d",
					declText(c.Reload.Decl2), declText(c.Decl), i+1, st.N, tot))
			}
			if i > c.Reload.At && len(g.Steps) >= 2 && len(g.Steps[len(g.Steps)-2].N) == len(st.N) {
				prev, diff := g.Steps[len(g.Steps)-2].N, int64(0)
				for k := range st.N {
					if st.N[k] < prev[k] {
						diff += 100
					}
					diff += st.N[k] - prev[k]
				}
				if diff != 1 {
					note(fmt.Sprintf("observation %d after the reload changed the bucket counts from %v to %v", i+1, prev, st.N))
				}
			}
		} else if !eqInts(maxes, c.Maxes) {
			note(fmt.Sprintf("bucket upper bounds are %v, model says %v", maxes, c.Maxes))
		} else if !eqInts(st.N, c.Steps[i].N) {
			note(fmt.Sprintf("after observing %v the bucket counts are %v, model says %v", c.Obs[:i+1], st.N, c.Steps[i].N))
		}
		if st.Sum != c.Steps[i].Sum {
			note(fmt.Sprintf("after observing %v the sum is %d/2, model says %d/2", c.Obs[:i+1], st.Sum, c.Steps[i].Sum))
		}
		if st.Count != c.Steps[i].Count || datum.GetBucketsCount(d) != uint64(st.Count) {
			note(fmt.Sprintf("Count is %d (GetCount %d) after %d observations", st.Count, datum.GetBucketsCount(d), i+1))
		}
	}
	if d == nil || why != "" || len(c.Reload.Decl2) > 0 {
		return g, why, nil
	}
	// exports of the final datum
	cum := datum.GetBucketsCumByMax(d)
	if len(cum) != len(c.Maxes) {
		note(fmt.Sprintf("GetBucketsCumByMax has %d bounds, model %d", len(cum), len(c.Maxes)))
	}
	for i, mx := range c.Maxes {
		if v, ok := cum[conc(mx)]; !ok || int64(v) != c.Cum[i] {
			note(fmt.Sprintf("GetBucketsCumByMax[%s] = %d (present=%v), model says %d", text(mx), v, ok, c.Cum[i]))
		}
	}
	jb, jerr := json.Marshal(d)
	if jerr != nil {
		// encoding/json refuses NaN / Inf sums; the bucket part cannot be checked through JSON then
		if !(math.IsNaN(datum.GetBucketsSum(d)) || math.IsInf(datum.GetBucketsSum(d), 0)) {
			note("json.Marshal(datum): " + jerr.Error())
		}
	} else {
		var j struct {
			Buckets map[string]int64
			Count   int64
		}
		if e := json.Unmarshal(jb, &j); e != nil {
			note("json.Unmarshal(datum): " + e.Error())
		}
		last := c.Steps[len(c.Steps)-1]
		if len(j.Buckets) != len(c.Maxes) || j.Count != int64(len(c.Obs)) {
			note(fmt.Sprintf("JSON has %d buckets and Count %d", len(j.Buckets), j.Count))
		}
		for i, mx := range c.Maxes {
			if v, ok := j.Buckets[strconv.FormatFloat(conc(mx), 'g', -1, 64)]; !ok || v != last.N[i] {
				note(fmt.Sprintf("JSON bucket %s = %d (present=%v), model says %d", text(mx), v, ok, last.N[i]))
			}
		}
	}
	if expo && why == "" {
		e, err := exporter.New(ctx, p.store)
		if err != nil {
			return g, "", err
		}
		var buf bytes.Buffer
		if err := e.Write(&buf); err != nil {
			return g, "", fmt.Errorf("exporter.Write: %v", err)
		}
		seen := map[string]int64{}
		for _, line := range strings.Split(buf.String(), "\n") {
			m := lineRe.FindStringSubmatch(line)
			if m == nil {
				continue
			}
			k, le := kRe.FindStringSubmatch(m[1]), leRe.FindStringSubmatch(m[1])
			if k != nil && le != nil && k[1] == key {
				v, _ := strconv.ParseInt(m[2], 10, 64)
				seen[le[1]] = v
			}
		}
		if len(seen) != len(c.Maxes) {
			note(fmt.Sprintf("Prometheus exposition has %d le= lines for this label, model has %d bounds: %v", len(seen), len(c.Maxes), seen))
		}
		for i, mx := range c.Maxes {
			le := strconv.FormatFloat(conc(mx), 'g', -1, 64)
			if v, ok := seen[le]; !ok || v != c.Cum[i] {
				note(fmt.Sprintf("Prometheus le=%q is %d (present=%v), model says %d", le, v, ok, c.Cum[i]))
			}
		}
	}
	return g, why, nil
}

func main() {
	n, bad, expos := 0, 0, 0
	seed := vh.Seed()
	err := vh.EachCase(func(_ int, raw []byte) error {
		var c tcase
		if err := json.Unmarshal(raw, &c); err != nil {
			return err
		}
		n++
		expo := (int64(n)*2654435761+seed)%997 == 0 // a seeded ~0.1% sample goes through the exporter (a full scrape each)
		if expo {
			expos++
		}
		g, why, err := run(n, &c, expo)
		if err != nil {
			return err
		}
		if why != "" {
			bad++
			vh.Out(map[string]any{"mismatch": true, "k": n - 1, "why": why, "got": g})
		}
		return nil
	})
	if err != nil {
		vh.Fatal("%v", err)
	}
	vh.Out(map[string]any{"summary": true, "cases": n, "mismatches": bad, "expositions": expos})
	vh.Flush()
}
