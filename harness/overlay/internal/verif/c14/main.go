//go:build verif

// c14 replays histories emitted by TLC from spec/Runtime.tla (family C14) on a
// real runtime.Runtime, metrics.Store and Prometheus exporter; see package rtx.
package main

import "github.com/google/mtail/internal/verif/rtx"

func main() { rtx.Main("C14") }
