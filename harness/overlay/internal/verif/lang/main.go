//go:build verif

// lang replays the cases emitted by /verif/spec/MtailGen.tla: it renders each
// program AST to mtail source (fully parenthesised and with minimal
// parentheses), compiles it with the real compiler (optimiser on, and off when
// -opt=both), runs the lines through a real VM and prints the projected
// metrics after every line.  Comparison with the model's expectation is done
// by checks/langlib.py.
package main

import (
	"encoding/json"
	"flag"
	"fmt"
	"regexp"
	"strings"
	"time"

	"github.com/google/mtail/internal/verif/mlang"
	"github.com/google/mtail/internal/verif/vh"
)

type tcase struct {
	Seed    int64           `json:"seed"`
	Profile string          `json:"profile"`
	Prog    mlang.Program   `json:"prog"`
	Lines   []mlang.Line    `json:"lines"`
	TzSecs  int             `json:"tz"`
	Year    bool            `json:"year"`
	Exp     json.RawMessage `json:"exp"`
	// witness mode: literal source text and lines instead of an AST
	Src      string   `json:"src"`
	RawLines []string `json:"rawlines"`
}

type run struct {
	Mode     string             `json:"mode"` // full | min
	Opt      bool               `json:"opt"`
	Src      string             `json:"src"`
	Accepted bool               `json:"accepted"`
	Errors   string             `json:"errors,omitempty"`
	Panic    string             `json:"panic,omitempty"`
	Lines    []mlang.LineResult `json:"lines,omitempty"`
	Fresh    []mlang.FreshPair  `json:"fresh,omitempty"`
	FreshErr string             `json:"fresherr,omitempty"`
}

// timeIDs maps the instant ids of MtailLang!ParseTab to (layout index, value).
var timeIDs = map[string][2]string{
	"mdY-0304": {"2", "03/04/1970"},
	"dmY-0304": {"3", "03/04/1970"},
	"mdY-1225": {"2", "12/25/1970"},
	"dmY-2512": {"3", "25/12/1970"},
	"rfc-a":    {"1", "1970-01-02T03:04:05Z"},
	"y0-0304":  {"4", "03/04"},
	"y0-1230":  {"4", "12/30"},
}

var timeToks = []string{"03/04/1970", "25/12/1970", "12/25/1970", "1970-01-02T03:04:05Z", "03/04", "12/30"}

// checkParseTab verifies the model's strptime table against time.Parse: the
// listed entries parse, every other (layout, value token) pair fails.
func checkParseTab() {
	ok := map[[2]string]bool{}
	for _, lv := range timeIDs {
		ok[lv] = true
	}
	for li := 1; li <= 4; li++ {
		for _, v := range timeToks {
			_, err := time.Parse(mlang.Layouts[li-1], v)
			key := [2]string{fmt.Sprint(li), v}
			if (err == nil) != ok[key] {
				vh.Fatal("ParseTab disagrees with time.Parse for layout %d value %q (err=%v)", li, v, err)
			}
		}
	}
}

func main() {
	opt := flag.String("opt", "on", "on | both : also compile with the optimiser disabled")
	modes := flag.String("modes", "full,min", "rendering modes")
	fresh := flag.Bool("fresh", false, "also run every line on a freshly loaded copy holding the same metric values (C05)")
	matchcheck := flag.Bool("matchcheck", true, "verify the model's pattern/line abstraction against Go regexp")
	flag.Parse()
	checkParseTab()
	n := 0
	err := vh.EachCase(func(_ int, raw []byte) error {
		var c tcase
		if err := json.Unmarshal(raw, &c); err != nil {
			return err
		}
		n++
		var loc *time.Location
		if c.TzSecs != 0 {
			loc = time.FixedZone("verif", c.TzSecs)
		}
		out := map[string]any{"seed": c.Seed}
		var runs []run
		if c.Src != "" {
			for _, rl := range c.RawLines {
				toks := [][]string{}
				if rl != "" {
					for _, t := range strings.Split(rl, " ") {
						toks = append(toks, []string{t})
					}
				}
				c.Lines = append(c.Lines, mlang.Line{Toks: toks, File: []string{"log"}})
			}
			for _, o := range []bool{true, false} {
				name := fmt.Sprintf("w%d%v.mtail", c.Seed, o)
				r := run{Mode: "src", Opt: o, Src: c.Src}
				cc := mlang.Compile(name, c.Src, o)
				r.Errors, r.Panic = cc.Errors, cc.Panic
				if cc.Obj != nil && cc.Errors == "" && cc.Panic == "" {
					r.Accepted = true
					_, r.Lines = mlang.Run(name, cc.Obj, c.Lines, mlang.RunOpts{Loc: loc, CurrentYear: c.Year})
				}
				runs = append(runs, r)
			}
			out["runs"] = runs
			vh.Out(out)
			return nil
		}
		for _, mode := range strings.Split(*modes, ",") {
			src, rerr := mlang.Render(&c.Prog, mlang.RenderOpts{FullParens: mode == "full", CommaIndex: c.Seed%2 == 0})
			if rerr != nil {
				vh.Fatal("render: %v", rerr)
			}
			for _, o := range []bool{true, false} {
				if !o && *opt != "both" {
					continue
				}
				name := fmt.Sprintf("p%d%s%v.mtail", c.Seed, mode, o)
				r := run{Mode: mode, Opt: o, Src: src}
				cc := mlang.Compile(name, src, o)
				r.Errors, r.Panic = cc.Errors, cc.Panic
				if cc.Obj != nil && cc.Errors == "" && cc.Panic == "" {
					r.Accepted = true
					_, r.Lines = mlang.Run(name, cc.Obj, c.Lines, mlang.RunOpts{Loc: loc, CurrentYear: c.Year})
					if *fresh && o && mode == "full" {
						fp, ferr := mlang.RunFresh(name+"-A", src, c.Lines, mlang.RunOpts{Loc: loc, CurrentYear: c.Year})
						r.Fresh = fp
						if ferr != nil {
							r.FreshErr = ferr.Error()
						}
					}
				}
				runs = append(runs, r)
			}
		}
		out["runs"] = runs
		// concrete instants of the strptime table under this configuration
		tt := map[string]int64{}
		for id, lv := range timeIDs {
			var li int
			fmt.Sscan(lv[0], &li)
			var tm time.Time
			var err error
			if loc != nil {
				tm, err = time.ParseInLocation(mlang.Layouts[li-1], lv[1], loc)
			} else {
				tm, err = time.Parse(mlang.Layouts[li-1], lv[1])
			}
			if err == nil {
				if tm.Year() == 0 {
					if !c.Year {
						continue // not representable in nanoseconds; the model drops such cases
					}
					now := time.Now()
					if loc != nil {
						now = now.In(loc)
					}
					tm = tm.AddDate(now.Year(), 0, 0)
				}
				tt[id] = tm.UnixNano()
			}
		}
		out["timetab"] = tt
		if *matchcheck {
			// the abstraction map: every (pattern, line) pair must behave under Go's regexp as the model's Match
			var mm []map[string]any
			for pi, p := range c.Prog.Pats {
				re, err := regexp.Compile(p.Regex())
				if err != nil {
					vh.Fatal("pattern %d does not compile: %v", pi+1, err)
				}
				for li, l := range c.Lines {
					m := re.FindStringSubmatch(l.Text())
					var caps []string
					if m != nil {
						caps = m[1:]
					}
					mm = append(mm, map[string]any{"p": pi + 1, "l": li + 1, "ok": m != nil, "caps": caps})
				}
			}
			out["matches"] = mm
		}
		vh.Out(out)
		return nil
	})
	if err != nil {
		vh.Fatal("%v", err)
	}
	vh.Out(map[string]any{"summary": true, "cases": n})
	vh.Flush()
}
