//go:build verif

// c13 replays the (store, cfg, expected sample set) cases printed by
// spec/Expo.tla (Mode = "prom") into the real Prometheus exposition:
//
//	path "metrics": the exporter registered with a prometheus.Registry while the
//	    store is still empty (as mtail.go does), the store filled, then the real
//	    promhttp handler of /metrics
//	path "write":   Exporter.Write (what `mtail --one_shot` prints)
//
// Both outputs are parsed with the Prometheus text parser (expfmt) and the
// multiset of samples is compared with the specification's `want`, and with
// `want_dev` (the expectation under the open deviations).
package main

import (
	"bytes"
	"context"
	"encoding/json"
	"flag"
	"math"
	"net/http/httptest"
	"sort"
	"strconv"
	"strings"
	"time"

	"github.com/google/mtail/internal/exporter"
	"github.com/google/mtail/internal/metrics"
	"github.com/google/mtail/internal/verif/expo"
	"github.com/google/mtail/internal/verif/vh"
	"github.com/prometheus/client_golang/prometheus"
	"github.com/prometheus/client_golang/prometheus/promhttp"
	"github.com/prometheus/common/expfmt"
)

type sample struct {
	Name    string      `json:"name"`
	Labels  [][2]string `json:"labels"`
	Type    string      `json:"type"`
	Val     expo.Val    `json:"val"`
	Dtype   string      `json:"dtype"`
	Buckets [][2]int    `json:"buckets"`
	Count   int         `json:"count"`
	TS      int         `json:"ts"`
}

// pathWant is the expectation for one way of scraping: the scrape works and
// yields these samples, or (ok = false) it fails as a whole.
type pathWant struct {
	OK      bool     `json:"ok"`
	Samples []sample `json:"samples"`
}

type tcase struct {
	ID      int           `json:"id"`
	Store   []expo.Metric `json:"store"`
	Cfg     expo.Cfg      `json:"cfg"`
	Want    []sample      `json:"want"`
	WantDev struct {
		Metrics pathWant `json:"metrics"`
		Write   pathWant `json:"write"`
	} `json:"want_dev"`
}

func tsText(ms int64, present bool) string {
	if !present {
		return "-"
	}
	return strconv.FormatInt(ms, 10)
}

// canonical text of an expected sample
func wantText(s sample) string {
	ts := tsText(0, false)
	if s.TS == -1 { // the timestamp 0 itself (the epoch)
		ts = tsText(0, true)
	} else if s.TS != 0 {
		ts = tsText((expo.BaseTime+int64(s.TS))*1000, true)
	}
	var b strings.Builder
	b.WriteString(s.Name + "{" + expo.Labels(s.Labels) + "} " + s.Type + " ts=" + ts)
	if s.Type == "histogram" {
		bs := make([]string, 0, len(s.Buckets))
		sort.Slice(s.Buckets, func(i, j int) bool { return s.Buckets[i][0] < s.Buckets[j][0] })
		for _, bk := range s.Buckets {
			bs = append(bs, expo.Float(expo.Bound(bk[0]))+":"+strconv.Itoa(bk[1]))
		}
		b.WriteString(" count=" + strconv.Itoa(s.Count) + " sum=" + expo.Float(float64(s.Val.N)) + " buckets=" + strings.Join(bs, ","))
	} else {
		b.WriteString(" value=" + expo.Float(expo.AsFloat(s.Dtype, s.Val)))
	}
	return b.String()
}

// parse turns a text exposition into canonical sample texts + well-formedness complaints
func parse(body []byte) (got []string, bad []string) {
	var p expfmt.TextParser
	fams, err := p.TextToMetricFamilies(bytes.NewReader(body))
	if err != nil {
		return nil, []string{"text parser: " + err.Error()}
	}
	for name, mf := range fams {
		typ := strings.ToLower(mf.GetType().String())
		for _, m := range mf.GetMetric() {
			ls := make([]string, 0, len(m.GetLabel()))
			for _, lp := range m.GetLabel() {
				ls = append(ls, strconv.Quote(lp.GetName())+"="+strconv.Quote(lp.GetValue()))
			}
			sort.Strings(ls)
			var b strings.Builder
			b.WriteString(name + "{" + strings.Join(ls, ",") + "} " + typ + " ts=" + tsText(m.GetTimestampMs(), m.TimestampMs != nil))
			switch typ {
			case "counter":
				b.WriteString(" value=" + expo.Float(m.GetCounter().GetValue()))
			case "gauge":
				b.WriteString(" value=" + expo.Float(m.GetGauge().GetValue()))
			case "untyped":
				b.WriteString(" value=" + expo.Float(m.GetUntyped().GetValue()))
			case "histogram":
				h := m.GetHistogram()
				bk := h.GetBucket()
				sort.SliceStable(bk, func(i, j int) bool { return bk[i].GetUpperBound() < bk[j].GetUpperBound() })
				bs := make([]string, 0, len(bk))
				var prev uint64
				sawInf := false
				for i, x := range bk {
					bs = append(bs, expo.Float(x.GetUpperBound())+":"+strconv.FormatUint(x.GetCumulativeCount(), 10))
					if i > 0 && x.GetCumulativeCount() < prev {
						bad = append(bad, name+": bucket counts decrease at le="+expo.Float(x.GetUpperBound()))
					}
					prev = x.GetCumulativeCount()
					if math.IsInf(x.GetUpperBound(), 1) {
						sawInf = true
						if x.GetCumulativeCount() != h.GetSampleCount() {
							bad = append(bad, name+": +Inf bucket differs from _count")
						}
					}
				}
				if !sawInf {
					bad = append(bad, name+": no +Inf bucket")
				}
				b.WriteString(" count=" + strconv.FormatUint(h.GetSampleCount(), 10) + " sum=" + expo.Float(h.GetSampleSum()) +
					" buckets=" + strings.Join(bs, ","))
			default:
				bad = append(bad, name+": unexpected family type "+typ)
			}
			got = append(got, b.String())
		}
	}
	return got, bad
}

func texts(ss []sample) []string {
	out := make([]string, 0, len(ss))
	for _, s := range ss {
		out = append(out, wantText(s))
	}
	return out
}

// judge compares one scrape (failed with `failure`, or body) with the ideal and the deviation expectation.
func judge(failure string, body []byte, want []string, dev pathWant) map[string]any {
	one := map[string]any{}
	if failure != "" {
		one["verdict"] = "none"
		if !dev.OK {
			one["verdict"] = "want_dev"
		}
		one["bad"] = []string{failure}
		return one
	}
	got, bad := parse(body)
	v, miss, extra := "none", []string(nil), []string(nil)
	if dev.OK {
		v, miss, extra = expo.Verdict(got, want, texts(dev.Samples))
	} else if miss, extra = expo.Diff(got, want); len(miss) == 0 && len(extra) == 0 {
		v = "want"
	}
	if len(bad) > 0 {
		v = "none"
	}
	one["verdict"], one["missing"], one["extra"], one["bad"] = v, miss, extra, bad
	return one
}

func runCase(c *tcase) map[string]any {
	want := texts(c.Want)
	store := metrics.NewStore()
	opts := []exporter.Option{exporter.Hostname(c.Cfg.Host)}
	if c.Cfg.OmitProg {
		opts = append(opts, exporter.OmitProgLabel())
	}
	if c.Cfg.EmitTs {
		opts = append(opts, exporter.EmitTimestamp())
	}
	ctx, cancel := context.WithCancel(context.Background())
	defer cancel()
	e, err := exporter.New(ctx, store, opts...)
	if err != nil {
		vh.Fatal("exporter.New: %v", err)
	}
	defer e.Stop()
	reg := prometheus.NewRegistry()
	if err := reg.Register(e); err != nil { // while the store is empty, as mtail.go initExporter does
		vh.Fatal("registering the exporter: %v", err)
	}
	if _, err := expo.Build(store, c.Store); err != nil {
		vh.Fatal("case %d: building the store: %v", c.ID, err)
	}
	paths := map[string]any{}

	// /metrics
	// a scrape that never comes back (a collector waiting for a lock it holds) is an exposition that reflects nothing:
	// it is reported as this case's failure, and the process is given up (its locks are gone for good)
	rec := httptest.NewRecorder()
	failure := ""
	if !within(10*time.Second, func() {
		promhttp.HandlerFor(reg, promhttp.HandlerOpts{}).ServeHTTP(rec, httptest.NewRequest("GET", "/metrics", nil))
	}) {
		failure = "the /metrics scrape did not return within 10 s"
		rec = httptest.NewRecorder()
	} else if rec.Code != 200 {
		failure = "status " + strconv.Itoa(rec.Code) + ": " + strings.TrimSpace(rec.Body.String())
	}
	paths["metrics"] = judge(failure, rec.Body.Bytes(), want, c.WantDev.Metrics)
	if strings.HasPrefix(failure, "the /metrics scrape did not return") {
		paths["write"] = paths["metrics"]
		return map[string]any{"id": c.ID, "paths": paths, "nwant": len(want), "stalled": true}
	}

	// Exporter.Write
	var buf bytes.Buffer
	failure = ""
	var werr error
	if !within(10*time.Second, func() { werr = e.Write(&buf) }) {
		failure = "Exporter.Write did not return within 10 s"
		paths["write"] = judge(failure, nil, want, c.WantDev.Write)
		return map[string]any{"id": c.ID, "paths": paths, "nwant": len(want), "stalled": true}
	}
	if werr != nil {
		failure = "Write: " + werr.Error()
	}
	paths["write"] = judge(failure, buf.Bytes(), want, c.WantDev.Write)
	return map[string]any{"id": c.ID, "paths": paths, "nwant": len(want)}
}

// after two stalls in this process the wait is cut to one second: a stall that repeats is systematic, and every
// further case would otherwise cost the full deadline
var stalls int

func within(d time.Duration, f func()) bool {
	if stalls >= 2 {
		d = time.Second
	}
	ok := within1(d, f)
	if !ok {
		stalls++
	}
	return ok
}

func within1(d time.Duration, f func()) bool {
	done := make(chan struct{})
	go func() { defer close(done); f() }()
	select {
	case <-done:
		return true
	case <-time.After(d):
		return false
	}
}

func main() {
	_ = flag.Set("logtostderr", "true")
	n := 0
	err := vh.EachCase(func(_ int, raw []byte) error {
		var c tcase
		if err := json.Unmarshal(raw, &c); err != nil {
			return err
		}
		n++
		if stalls >= 5 {
			// this process has met five scrapes that never returned: the rest of its share is not tried (each would
			// cost another deadline and leave another goroutine holding a lock); the stalls themselves were reported
			skip := map[string]any{"verdict": "none", "bad": []string{"not tried: five earlier scrapes in this process never returned"}}
			vh.Out(map[string]any{"id": c.ID, "paths": map[string]any{"metrics": skip, "write": skip}, "nwant": 0, "skipped": true})
			return nil
		}
		vh.Out(runCase(&c))
		return nil
	})
	if err != nil {
		vh.Fatal("%v", err)
	}
	vh.Out(map[string]any{"summary": true, "cases": n})
	vh.Flush()
}
