//go:build verif

// c11 runs the real goroutines that share one metric - VM(s) executing a compiled
// program, Store.Gc, Store.Add of a re-compiled program (reload), the Prometheus /
// varz / graphite / JSON exporters - concurrently.
//
//	-mode=race    (binary built with -race)  stdin: {"group":[actors],"iters":n}.
//	              Each iteration builds a fresh store+VM and starts one goroutine per
//	              actor, entered through a function named actorXxx so that the race
//	              detector's stacks identify the actor.  Scheduling is perturbed by
//	              seeded runtime.Gosched()/spin pauses between calls (no
//	              synchronisation, hence no happens-before edges); event tracing and
//	              the verifhook gates stay off.  Reports go to GORACE log_path.
//	-mode=atomic  stdin: {"group":[actors],"incs":n}.  Logs, with one atomic sequence
//	              number, when each increment line starts/ends and when each export
//	              starts, which value it carried for the label "a", and when it ended;
//	              then the final value.  spec/TraceConcurrency.tla validates the log.
package main

import (
	"bytes"
	"context"
	"encoding/json"
	"fmt"
	"io"
	"math/rand"
	"net/http"
	"net/http/httptest"
	"os"
	"regexp"
	"runtime"
	"strconv"
	"strings"
	"sync"
	"sync/atomic"

	"github.com/google/mtail/internal/exporter"
	"github.com/google/mtail/internal/logline"
	"github.com/google/mtail/internal/metrics"
	"github.com/google/mtail/internal/metrics/datum"
	"github.com/google/mtail/internal/runtime/code"
	"github.com/google/mtail/internal/runtime/compiler"
	"github.com/google/mtail/internal/runtime/vm"
	"github.com/google/mtail/internal/verif/vh"
)

const src = `counter c by k limit 6
counter total by k
/^inc (\S+)$/ {
  c[$1]++
  total[$1]++
}
/^del (\S+)$/ {
  del c[$1]
}
/^exp (\S+)$/ {
  del c[$1] after 1h
}
`

func compile() *code.Object {
	c, err := compiler.New()
	if err != nil {
		vh.Fatal("%v", err)
	}
	obj, err := c.Compile("c11.mtail", strings.NewReader(src))
	if err != nil {
		vh.Fatal("compile: %v", err)
	}
	return obj
}

type scenario struct {
	store *metrics.Store
	obj   *code.Object
	exp   *exporter.Exporter
	ctx   context.Context
	rnd   func(id int) *rand.Rand
	n     int
}

func newScenario(seed int64, n int) (*scenario, context.CancelFunc) {
	s := &scenario{store: metrics.NewStore(), obj: compile(), n: n}
	for _, m := range s.obj.Metrics {
		if err := s.store.Add(m); err != nil {
			vh.Fatal("Add: %v", err)
		}
	}
	ctx, cancel := context.WithCancel(context.Background())
	s.ctx = ctx
	e, err := exporter.New(ctx, s.store, exporter.Hostname("h"))
	if err != nil {
		vh.Fatal("exporter.New: %v", err)
	}
	s.exp = e
	s.rnd = func(id int) *rand.Rand { return rand.New(rand.NewSource(seed*131 + int64(id))) }
	return s, cancel
}

// pause perturbs the schedule without synchronising with anybody.
func pause(r *rand.Rand) {
	switch r.Intn(4) {
	case 0:
		runtime.Gosched()
	case 1:
		for i, n := 0, r.Intn(2000); i < n; i++ {
			_ = i * i
		}
	}
}

func line(s string) *logline.LogLine { return logline.New(context.Background(), "c11", s) }

func newVM(s *scenario) *vm.VM { return vm.New("c11.mtail", s.obj, false, nil, false, false) }

// ---- the actors: one entry function each (the names are what the check looks for in race reports)

func actorVM(s *scenario) {
	defer notePanic("vm")
	r, v := s.rnd(1), newVM(s)
	for i := 0; i < s.n; i++ {
		k := "k" + strconv.Itoa(r.Intn(9))
		switch r.Intn(6) {
		case 0:
			v.ProcessLogLine(s.ctx, line("del "+k))
		case 1:
			v.ProcessLogLine(s.ctx, line("exp "+k))
		default:
			v.ProcessLogLine(s.ctx, line("inc "+k))
		}
		pause(r)
	}
}

func actorVM2(s *scenario) {
	defer notePanic("vm2")
	r, v := s.rnd(2), newVM(s)
	for i := 0; i < s.n; i++ {
		v.ProcessLogLine(s.ctx, line("inc k"+strconv.Itoa(r.Intn(9))))
		pause(r)
	}
}

func actorGc(s *scenario) {
	defer notePanic("gc")
	r := s.rnd(3)
	for i := 0; i < s.n/4+2; i++ {
		if err := s.store.Gc(); err != nil {
			noteFault("gc", err)
		}
		pause(r)
	}
}

func actorReload(s *scenario) {
	defer notePanic("reload")
	r := s.rnd(4)
	for i := 0; i < 3; i++ {
		obj := compile()
		pause(r)
		for _, m := range obj.Metrics {
			if err := s.store.Add(m); err != nil {
				noteFault("reload", err)
			}
		}
	}
}

func actorProm(s *scenario) {
	defer notePanic("prom")
	r := s.rnd(5)
	for i := 0; i < s.n/4+2; i++ {
		if err := s.exp.Write(io.Discard); err != nil {
			noteFault("prom", err)
		}
		pause(r)
	}
}

// panics of an actor (net/http would recover a panicking handler and abort the response; the
// harness records it: a crash caused by concurrent mutation is as much evidence as a race report)
var (
	panicMu sync.Mutex
	panics  = map[string]int{}
)

// noteFault records an error returned by the real code to an actor (not a harness failure)
func noteFault(actor string, err error) {
	msg := err.Error()
	if len(msg) > 160 {
		msg = msg[:160]
	}
	panicMu.Lock()
	panics[actor+": error: "+msg]++
	panicMu.Unlock()
}

func notePanic(actor string) {
	if r := recover(); r != nil {
		panicMu.Lock()
		panics[actor+": "+fmt.Sprint(r)]++
		panicMu.Unlock()
	}
}

func handler(s *scenario, h func(http.ResponseWriter, *http.Request)) {
	w := httptest.NewRecorder()
	req := httptest.NewRequest(http.MethodGet, "/x", nil)
	h(w, req)
}

func actorVarz(s *scenario) {
	defer notePanic("varz")
	r := s.rnd(6)
	for i := 0; i < s.n/4+2; i++ {
		handler(s, s.exp.HandleVarz)
		pause(r)
	}
}

func actorGraphite(s *scenario) {
	defer notePanic("graphite")
	r := s.rnd(7)
	for i := 0; i < s.n/4+2; i++ {
		handler(s, s.exp.HandleGraphite)
		pause(r)
	}
}

func actorJSON(s *scenario) {
	defer notePanic("json")
	r := s.rnd(8)
	for i := 0; i < s.n/4+2; i++ {
		handler(s, s.exp.HandleJSON)
		pause(r)
	}
}

func actorPush(s *scenario) {
	defer notePanic("push")
	r := s.rnd(9)
	formats := []string{"statsd", "graphite", "collectd"}
	for i := 0; i < s.n/4+2; i++ {
		if err := s.exp.VerifWriteSocketMetrics(io.Discard, formats[i%len(formats)]); err != nil {
			noteFault("push", err)
		}
		pause(r)
	}
}

var actors = map[string]func(*scenario){
	"push": actorPush,
	"vm":   actorVM, "vm2": actorVM2, "gc": actorGc, "reload": actorReload,
	"prom": actorProm, "varz": actorVarz, "graphite": actorGraphite, "json": actorJSON,
}

type raceCase struct {
	Group  []string `json:"group"`
	Iters  int      `json:"iters"`
	Incs   int      `json:"incs"`
	Hammer bool     `json:"hammer"`
}

// finalValue reads total["a"] through the metric object the VMs of this scenario write to (after
// a reload the store holds a newer version of the metric, which only shares the label values that
// existed when Store.Add copied them).
func finalValue(s *scenario) int64 {
	for _, m := range s.obj.Metrics {
		if m.Name != "total" {
			continue
		}
		m.RLock()
		lv := m.FindLabelValueOrNil([]string{"a"})
		m.RUnlock()
		if lv != nil {
			return datum.GetInt(lv.Value)
		}
	}
	return -1
}

// hammer: two VMs of one program increment the same datum as fast as they can; only the
// totals are logged ("bulk a n": actor a completed n increments) and the final value.
func hammer(n int, c *raceCase) {
	s, cancel := newScenario(vh.Seed()*31+int64(n), c.Incs)
	defer cancel()
	var wg sync.WaitGroup
	for _, a := range []string{"vm", "vm2"} {
		wg.Add(1)
		go func() {
			defer wg.Done()
			v := newVM(s)
			for i := 0; i < c.Incs; i++ {
				v.ProcessLogLine(s.ctx, line("inc a"))
			}
		}()
		_ = a
	}
	wg.Wait()
	final := finalValue(s)
	vh.Out(event{Seq: 1, Ev: "bulk", A: "vm", V: int64(c.Incs)})
	vh.Out(event{Seq: 2, Ev: "bulk", A: "vm2", V: int64(c.Incs)})
	vh.Out(event{Seq: 3, Ev: "final", A: "harness", V: final})
	vh.Out(map[string]any{"trace_end": true, "group": []string{"vm", "vm2"}, "incs": c.Incs, "events": 3})
}

func race() {
	seed := vh.Seed()
	err := vh.EachCase(func(n int, raw []byte) error {
		var c raceCase
		if err := json.Unmarshal(raw, &c); err != nil {
			return err
		}
		for it := 0; it < c.Iters; it++ {
			ops := 40
			if c.Hammer { // long overlapping runs: removals by `del` lines against removals by Gc (limit eviction)
				ops = 6000
			}
			s, cancel := newScenario(seed*1000003+int64(n)*977+int64(it), ops)
			// a few label values exist before the actors start
			v := newVM(s)
			for i := 0; i < 5; i++ {
				v.ProcessLogLine(s.ctx, line("inc k"+strconv.Itoa(i)))
			}
			var wg sync.WaitGroup
			start := make(chan struct{})
			for _, a := range c.Group {
				f, ok := actors[a]
				if !ok {
					vh.Fatal("unknown actor %q", a)
				}
				wg.Add(1)
				go func() {
					defer wg.Done()
					<-start
					f(s)
				}()
			}
			close(start)
			wg.Wait()
			// at quiescence every metric is a map again: the slice and the index name the same label values, once each
			// (every critical section of Metric.tla preserves IndexOK; an operation split over two critical sections
			// does not, and no race report would say so)
			seen := map[*metrics.Metric]bool{}
			var all []*metrics.Metric
			for _, m := range s.obj.Metrics {
				all = append(all, m)
			}
			_ = s.store.Range(func(m *metrics.Metric) error { all = append(all, m); return nil })
			for _, m := range all {
				if seen[m] {
					continue
				}
				seen[m] = true
				pos := metrics.VerifIndexPositions(m)
				m.RLock()
				n := len(m.LabelValues)
				m.RUnlock()
				used := map[int]bool{}
				for k, p := range pos {
					if p < 0 || used[p] {
						noteFault("index", fmt.Errorf("after %v: metric %s: index entry %q points %s", c.Group, m.Name, k, map[bool]string{true: "at a slot another entry has", false: "outside the slice"}[p >= 0]))
					}
					used[p] = true
				}
				if len(pos) != n {
					noteFault("index", fmt.Errorf("after %v: metric %s: %d label values in the slice, %d in the index", c.Group, m.Name, n, len(pos)))
				}
			}
			cancel()
		}
		vh.Out(map[string]any{"group": c.Group, "iters": c.Iters})
		return nil
	})
	if err != nil {
		vh.Fatal("%v", err)
	}
	for what, n := range panics {
		vh.Out(map[string]any{"panic": what, "count": n})
	}
	vh.Out(map[string]any{"summary": true})
}

// ---- atomicity log

var seq atomic.Int64

type event struct {
	Seq int64  `json:"seq"`
	Ev  string `json:"ev"`
	A   string `json:"a"`
	V   int64  `json:"v"`
}

type logger struct {
	mu sync.Mutex
	ev []event
}

// note takes the sequence number first (that is the linearization point of the event)
func (l *logger) note(ev, a string, v int64) {
	e := event{Seq: seq.Add(1), Ev: ev, A: a, V: v}
	l.mu.Lock()
	l.ev = append(l.ev, e)
	l.mu.Unlock()
}

var (
	promRe = regexp.MustCompile(`(?m)^total\{k="a",prog="c11.mtail"\} (\d+)$`)
	varzRe = regexp.MustCompile(`(?m)^total\{k=a,prog=c11.mtail,instance=h\} (\d+)$`)
)

func jsonValue(b []byte) (int64, bool) {
	var ms []struct {
		Name        string
		LabelValues []struct {
			Labels []string
			Value  struct{ Value int64 }
		}
	}
	if err := json.Unmarshal(b, &ms); err != nil {
		vh.Fatal("json: %v", err)
	}
	found, val := false, int64(0)
	for _, m := range ms {
		if m.Name != "total" {
			continue
		}
		for _, lv := range m.LabelValues {
			if len(lv.Labels) == 1 && lv.Labels[0] == "a" {
				// during a reload two versions of the metric may be listed; they share the datum
				if found && val != lv.Value.Value && false {
					return 0, false
				}
				found, val = true, lv.Value.Value
			}
		}
	}
	return val, found
}

func atomicRun() {
	seed := vh.Seed()
	err := vh.EachCase(func(n int, raw []byte) error {
		var c raceCase
		if err := json.Unmarshal(raw, &c); err != nil {
			return err
		}
		if c.Hammer {
			hammer(n, &c)
			return nil
		}
		s, cancel := newScenario(seed*7919+int64(n), c.Incs)
		defer cancel()
		lg := &logger{}
		seq.Store(0)
		var wg sync.WaitGroup
		var writers sync.WaitGroup
		stop := make(chan struct{})
		incr := func(name string, id int) {
			defer wg.Done()
			defer writers.Done()
			r, v := s.rnd(id), newVM(s)
			for i := 0; i < c.Incs; i++ {
				lg.note("inc.start", name, 0)
				v.ProcessLogLine(s.ctx, line("inc a"))
				lg.note("inc.done", name, 0)
				pause(r)
			}
		}
		export := func(name string, id int, get func() (int64, bool)) {
			defer wg.Done()
			r := s.rnd(id)
			for k := 0; c.Iters == 0 || k < c.Iters; k++ { // at most Iters exports: keeps the log small
				select {
				case <-stop:
					return
				default:
				}
				lg.note("exp.start", name, 0)
				v, ok := get()
				if ok {
					lg.note("exp.value", name, v)
				}
				lg.note("exp.end", name, 0)
				pause(r)
			}
		}
		for _, a := range c.Group {
			switch a {
			case "vm":
				wg.Add(1)
				writers.Add(1)
				go incr("vm", 1)
			case "vm2":
				wg.Add(1)
				writers.Add(1)
				go incr("vm2", 2)
			case "gc":
				wg.Add(1)
				go func() {
					defer wg.Done()
					for {
						select {
						case <-stop:
							return
						default:
							_ = s.store.Gc()
							runtime.Gosched()
						}
					}
				}()
			case "reload":
				wg.Add(1)
				go func() { defer wg.Done(); actorReload(s) }()
			case "prom":
				wg.Add(1)
				go export("prom", 5, func() (int64, bool) {
					var b bytes.Buffer
					if err := s.exp.Write(&b); err != nil {
						vh.Fatal("prometheus Write: %v", err)
					}
					m := promRe.FindSubmatch(b.Bytes())
					if m == nil {
						return 0, false
					}
					v, _ := strconv.ParseInt(string(m[1]), 10, 64)
					return v, true
				})
			case "varz":
				wg.Add(1)
				go export("varz", 6, func() (int64, bool) {
					w := httptest.NewRecorder()
					s.exp.HandleVarz(w, httptest.NewRequest(http.MethodGet, "/varz", nil))
					m := varzRe.FindSubmatch(w.Body.Bytes())
					if m == nil {
						return 0, false
					}
					v, _ := strconv.ParseInt(string(m[1]), 10, 64)
					return v, true
				})
			case "json":
				wg.Add(1)
				go export("json", 8, func() (int64, bool) {
					w := httptest.NewRecorder()
					s.exp.HandleJSON(w, httptest.NewRequest(http.MethodGet, "/json", nil))
					return jsonValue(w.Body.Bytes())
				})
			default:
				vh.Fatal("actor %q has no role in the atomicity run", a)
			}
		}
		writers.Wait()
		close(stop)
		wg.Wait()
		// the value every reader now sees
		lg.note("final", "harness", finalValue(s))
		for _, e := range lg.ev {
			vh.Out(e)
		}
		vh.Out(map[string]any{"trace_end": true, "group": c.Group, "incs": c.Incs, "events": len(lg.ev)})
		return nil
	})
	if err != nil {
		vh.Fatal("%v", err)
	}
	vh.Out(map[string]any{"summary": true})
}

func main() {
	mode := ""
	for _, a := range os.Args[1:] {
		if strings.HasPrefix(a, "-mode=") {
			mode = a[6:]
		}
	}
	switch mode {
	case "race":
		race()
	case "atomic":
		atomicRun()
	default:
		vh.Fatal("usage: c11 -mode=race|atomic")
	}
	vh.Flush()
	_ = fmt.Sprint
}
