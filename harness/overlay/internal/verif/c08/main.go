//go:build verif

// c08 binds the key-encoding part of spec/Metric.tla to metric.go.
//
//	-mode=keys   stdin: {"t":[[chars]..],"k0":[chars],"k1":[chars]} per tuple TLC
//	             enumerated.  Computes the real buildLabelValueKey of every tuple,
//	             reports how many equal the corrected model's key (k0) / the key of
//	             the model with DEV_BackslashNotEscaped (k1), and every group of
//	             distinct tuples the REAL function maps to one key.
//	-mode=pairs  stdin: {"a":tuple,"b":tuple}: on a real Metric, look both tuples up,
//	             update, expire and remove one and watch the other.
//	-mode=walk   as the c09 harness (walks over the operational model).
//
// Model characters: "a" "-" "\\" are themselves, "F" is the byte 0xff.
package main

import (
	"encoding/json"
	"os"
	"time"

	"github.com/google/mtail/internal/metrics"
	"github.com/google/mtail/internal/metrics/datum"
	"github.com/google/mtail/internal/verif/c09/replay"
	"github.com/google/mtail/internal/verif/vh"
)

func conc(cs []string) string {
	b := make([]byte, 0, len(cs))
	for _, c := range cs {
		switch c {
		case "F":
			b = append(b, 0xff)
		default:
			if len(c) != 1 {
				vh.Fatal("model character %q", c)
			}
			b = append(b, c[0])
		}
	}
	return string(b)
}

func concTuple(t [][]string) []string {
	r := make([]string, len(t))
	for i, s := range t {
		r[i] = conc(s)
	}
	return r
}

type keyCase struct {
	T  [][]string `json:"t"`
	K0 []string   `json:"k0"`
	K1 []string   `json:"k1"`
}

func keys() {
	type ent struct {
		raw json.RawMessage
	}
	byKey := map[string][]json.RawMessage{} // arity + real key -> tuples
	n, eq0, eq1, neither := 0, 0, 0, 0
	var firstNeither json.RawMessage
	err := vh.EachCase(func(_ int, raw []byte) error {
		var c keyCase
		if err := json.Unmarshal(raw, &c); err != nil {
			return err
		}
		n++
		t := concTuple(c.T)
		k := metrics.VerifLabelValueKey(t)
		m0, m1 := k == conc(c.K0), k == conc(c.K1)
		if m0 {
			eq0++
		}
		if m1 {
			eq1++
		}
		if !m0 && !m1 {
			neither++
			if firstNeither == nil {
				firstNeither = raw
			}
		}
		tj, _ := json.Marshal(c.T)
		gk := string(rune('0'+len(t))) + "|" + k
		byKey[gk] = append(byKey[gk], tj)
		return nil
	})
	if err != nil {
		vh.Fatal("%v", err)
	}
	groups := 0
	for _, g := range byKey {
		if len(g) > 1 {
			groups++
			if groups <= 2000 {
				vh.Out(map[string]any{"collision": true, "tuples": g})
			}
		}
	}
	vh.Out(map[string]any{"summary": true, "cases": n, "equal_corrected": eq0, "equal_deviation": eq1,
		"equal_neither": neither, "first_neither": firstNeither, "collision_groups": groups})
}

type pairCase struct {
	A [][]string `json:"a"`
	B [][]string `json:"b"`
}

// pairs: the statement of C08 on one pair of tuples of equal length.
func pairs() {
	n, bad := 0, 0
	err := vh.EachCase(func(_ int, raw []byte) error {
		var c pairCase
		if err := json.Unmarshal(raw, &c); err != nil {
			return err
		}
		n++
		a, b := concTuple(c.A), concTuple(c.B)
		same := len(a) == len(b)
		for i := range a {
			same = same && a[i] == b[i]
		}
		keysN := make([]string, len(a))
		for i := range keysN {
			keysN[i] = "k" + string(rune('0'+i))
		}
		m := metrics.NewMetric("verif", "prog", metrics.Gauge, metrics.Int, keysN...)
		why := ""
		fail := func(s string) {
			if why == "" {
				why = s
			}
		}
		da, err := m.GetDatum(append([]string(nil), a...)...)
		if err != nil {
			return err
		}
		db, err := m.GetDatum(append([]string(nil), b...)...)
		if err != nil {
			return err
		}
		shared := da == db
		if shared != same {
			if shared {
				fail("two different tuples address the same datum")
			} else {
				fail("equal tuples address different data")
			}
		}
		if !same {
			ts := time.Unix(1000, 0)
			datum.SetInt(da, 1, ts)
			datum.SetInt(db, 2, ts)
			if datum.GetInt(da) != 1 {
				fail("updating one tuple changed the value of the other")
			}
			if len(m.LabelValues) != 2 {
				fail("two different tuples, but the metric holds one label value")
			}
			if err := m.ExpireDatum(time.Hour, append([]string(nil), a...)...); err != nil {
				fail("ExpireDatum: " + err.Error())
			}
			if lv := m.FindLabelValueOrNil(b); lv == nil || lv.Expiry != 0 {
				fail("expiring one tuple marked the other")
			}
			if err := m.RemoveDatum(append([]string(nil), a...)...); err != nil {
				fail("RemoveDatum: " + err.Error())
			}
			if lv := m.FindLabelValueOrNil(b); lv == nil || lv.Value != db {
				fail("removing one tuple removed the other")
			}
			if lv := m.FindLabelValueOrNil(a); lv != nil && lv.Value != db {
				fail("removed tuple still present")
			}
			ch := make(chan *metrics.LabelSet, 4)
			m.EmitLabelSets(ch)
			cnt := 0
			for range ch {
				cnt++
			}
			if cnt != 1 {
				fail("after removing one of two tuples the metric does not enumerate exactly one")
			}
		}
		if why != "" {
			bad++
			vh.Out(map[string]any{"mismatch": true, "why": why, "case": json.RawMessage(raw), "shared": shared})
		}
		return nil
	})
	if err != nil {
		vh.Fatal("%v", err)
	}
	vh.Out(map[string]any{"summary": true, "cases": n, "mismatches": bad})
}

func walks() {
	var u *replay.Universe
	n, steps, bad := 0, 0, 0
	err := vh.EachCase(func(_ int, raw []byte) error {
		if u == nil {
			u = &replay.Universe{}
			if err := json.Unmarshal(raw, u); err != nil {
				return err
			}
			if !u.Header {
				vh.Fatal("first record must be the universe header")
			}
			u.Prepare()
			return nil
		}
		var c replay.Case
		if err := json.Unmarshal(raw, &c); err != nil {
			return err
		}
		n++
		steps += len(c.Walk)
		actual, at, why, err := replay.Run(u, &c)
		if err != nil {
			return err
		}
		if at >= 0 {
			bad++
			vh.Out(map[string]any{"mismatch": true, "why": why, "step": at, "case": json.RawMessage(raw), "actual": actual})
		}
		return nil
	})
	if err != nil {
		vh.Fatal("%v", err)
	}
	vh.Out(map[string]any{"summary": true, "cases": n, "steps": steps, "mismatches": bad})
}

func main() {
	mode := ""
	for _, a := range os.Args[1:] {
		if len(a) > 6 && a[:6] == "-mode=" {
			mode = a[6:]
		}
	}
	switch mode {
	case "keys":
		keys()
	case "pairs":
		pairs()
	case "walk":
		walks()
	default:
		vh.Fatal("usage: c08 -mode=keys|pairs|walk")
	}
	vh.Flush()
}
