//go:build verif

// c15 replays TLC-generated LineReader behaviours (spec/LineReader.tla) into
// the real logstream.LineReader: same stream, same chunking, same buffer
// size; the delivered lines and the log_lines_total delta must equal the
// model's `out`.
package main

import (
	"context"
	"encoding/json"
	"errors"
	"expvar"
	"io"
	"strconv"

	"github.com/google/mtail/internal/logline"
	"github.com/google/mtail/internal/tailer/logstream"
	"github.com/google/mtail/internal/verif/vh"
)

type tcase struct {
	Stream []string   `json:"stream"`
	Size   int        `json:"size"`
	Chunks []int      `json:"chunks"`
	Out    [][]string `json:"out"`
}

var classByte = map[string]byte{"n": '\n', "r": '\r', "x": 'x', "e": 0xc3, "f": 0xa9}

func conc(cls []string) string {
	b := make([]byte, len(cls))
	for i, c := range cls {
		v, ok := classByte[c]
		if !ok {
			vh.Fatal("unknown byte class %q", c)
		}
		b[i] = v
	}
	return string(b)
}

// scripted hands out exactly the scheduled number of bytes per Read.
type scripted struct {
	data   []byte
	chunks []int
	i      int
	bad    string
}

func (s *scripted) Read(p []byte) (int, error) {
	if s.i >= len(s.chunks) {
		return 0, io.EOF
	}
	k := s.chunks[s.i]
	s.i++
	var rerr error
	if k < 0 { // the model says: these bytes arrive together with an error
		k = -k
		rerr = errTransient
	}
	if k > len(p) {
		s.bad = "model chunk " + strconv.Itoa(k) + " larger than the room the real reader offers " + strconv.Itoa(len(p))
		k = len(p)
	}
	copy(p, s.data[:k])
	s.data = s.data[k:]
	return k, rerr
}

var errTransient = errors.New("transient read error delivered with data")

const src = "verif-c15"

func count() int64 {
	m, _ := expvar.Get("log_lines_total").(*expvar.Map)
	if m == nil {
		return -1
	}
	if v, ok := m.Get(src).(*expvar.Int); ok {
		return v.Value()
	}
	return 0
}

func main() {
	n, bad := 0, 0
	err := vh.EachCase(func(_ int, raw []byte) error {
		var c tcase
		if err := json.Unmarshal(raw, &c); err != nil {
			return err
		}
		n++
		data := []byte(conc(c.Stream))
		lines := make(chan *logline.LogLine, len(data)+2)
		rd := &scripted{data: data, chunks: c.Chunks}
		lr := logstream.NewLineReader(src, lines, rd, c.Size, func() {})
		ctx := context.Background()
		before := count()
		why := ""
		for _, k := range c.Chunks {
			got, _ := lr.ReadAndSend(ctx)
			if k < 0 {
				k = -k
			}
			if got != k && why == "" {
				why = "ReadAndSend returned count " + strconv.Itoa(got) + ", scheduled " + strconv.Itoa(k)
			}
		}
		lr.Finish(ctx)
		close(lines)
		var got []string
		for l := range lines {
			got = append(got, l.Line)
			if l.Filename != src && why == "" {
				why = "line carries source " + l.Filename
			}
		}
		want := make([]string, len(c.Out))
		for i, l := range c.Out {
			want[i] = conc(l)
		}
		if rd.bad != "" {
			why = rd.bad
		}
		if why == "" && len(got) != len(want) {
			why = "number of lines differs"
		}
		if why == "" {
			for i := range got {
				if got[i] != want[i] {
					why = "line " + strconv.Itoa(i) + " differs"
					break
				}
			}
		}
		if d := count() - before; why == "" && d != int64(len(want)) {
			why = "log_lines_total advanced by " + strconv.FormatInt(d, 10)
		}
		if why != "" {
			bad++
			vh.Out(map[string]any{"mismatch": true, "why": why, "case": json.RawMessage(raw), "got": got, "want": want})
		}
		return nil
	})
	if err != nil {
		vh.Fatal("%v", err)
	}
	vh.Out(map[string]any{"summary": true, "cases": n, "mismatches": bad})
	vh.Flush()
}
