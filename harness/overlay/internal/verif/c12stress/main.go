//go:build verif

// c12stress is the real-code side of ExportLocks.tla's liveness properties
// (VMProgress, ExportsComplete): line processing (GetDatum, which needs the
// metric's write lock) runs concurrently with every exporter, and every
// single export and every single update must complete.  An export or an
// update that does not return within the deadline is a stall; the goroutine
// dump is kept.  Scheduling is perturbed by the seed.
package main

import (
	"context"
	"flag"
	"io"
	"math/rand"
	"net"
	"net/http/httptest"
	"runtime"
	"strconv"
	"strings"
	"sync"
	"sync/atomic"
	"time"

	"github.com/google/mtail/internal/exporter"
	"github.com/google/mtail/internal/metrics"
	"github.com/google/mtail/internal/metrics/datum"
	"github.com/google/mtail/internal/verif/vh"
)

func store() (*metrics.Store, []*metrics.Metric) {
	s := metrics.NewStore()
	var ms []*metrics.Metric
	for r := 1; r <= 3; r++ {
		var m *metrics.Metric
		switch r {
		case 1:
			m = metrics.NewMetric("met1", "p1", metrics.Counter, metrics.Int, "k")
		case 2:
			m = metrics.NewMetric("met2", "p2", metrics.Gauge, metrics.Float, "k")
		default:
			m = metrics.NewMetric("met3", "p3", metrics.Histogram, metrics.Buckets, "k")
			m.Buckets = []datum.Range{{Min: 0, Max: 1}, {Min: 1, Max: 100}}
		}
		for i := 1; i <= 3; i++ {
			d, _ := m.GetDatum("v" + strconv.Itoa(i))
			switch m.Type {
			case metrics.Int:
				datum.SetInt(d, int64(i), time.Now())
			case metrics.Float:
				datum.SetFloat(d, float64(i), time.Now())
			default:
				datum.Observe(d, float64(i), time.Now())
			}
		}
		_ = s.Add(m)
		ms = append(ms, m)
	}
	return s, ms
}

// pushStall is ExportLocks.tla's write fault on the REAL network path: PushMetrics to a collector that accepts the
// connection and then never reads, with more data than the socket buffers hold.  The push must give up at
// -metric_push_write_deadline (a failed write, the model's `wfail`), leave every metric unlocked and let a line
// processing update through.
func pushStall() {
	l, err := net.Listen("tcp", "127.0.0.1:0")
	if err != nil {
		vh.Fatal("listen: %v", err)
	}
	defer l.Close()
	var conns []net.Conn
	var cmu sync.Mutex
	go func() {
		for {
			c, err := l.Accept()
			if err != nil {
				return
			}
			cmu.Lock()
			conns = append(conns, c) // accepted, never read
			cmu.Unlock()
		}
	}()
	_ = flag.Set("graphite_host_port", l.Addr().String())
	_ = flag.Set("metric_push_write_deadline", "1s")
	s := metrics.NewStore()
	m := metrics.NewMetric("big", "p1", metrics.Counter, metrics.Int, "k")
	pad := strings.Repeat("x", 200)
	for i := 0; i < 60000; i++ { // ~15 MB of graphite lines: far beyond the loopback socket buffers
		d, _ := m.GetDatum(pad + strconv.Itoa(i))
		datum.SetInt(d, int64(i), time.Now())
	}
	_ = s.Add(m)
	ctx, cancel := context.WithCancel(context.Background())
	defer cancel()
	e, err := exporter.New(ctx, s, exporter.Hostname("h"))
	if err != nil {
		vh.Fatal("exporter.New: %v", err)
	}
	res := map[string]any{"pushstall": true, "write_deadline_ms": 1000}
	t0 := time.Now()
	fin := make(chan struct{})
	go func() { defer close(fin); e.PushMetrics() }()
	select {
	case <-fin:
		res["returned"] = true
	case <-time.After(20 * time.Second):
		res["returned"] = false
	}
	res["push_ms"] = time.Since(t0).Milliseconds()
	if m.TryLock() {
		m.Unlock()
		res["locked"] = false
	} else {
		res["locked"] = true
	}
	upd := make(chan struct{})
	go func() { defer close(upd); _, _ = m.GetDatum("later") }()
	select {
	case <-upd:
		res["update"] = "ok"
	case <-time.After(10 * time.Second):
		res["update"] = "stalled"
	}
	cmu.Lock()
	res["accepted"] = len(conns)
	for _, c := range conns {
		_ = c.Close()
	}
	cmu.Unlock()
	vh.Out(res)
	vh.Flush()
}

func main() {
	rounds := flag.Int("rounds", 300, "exports per exporter kind")
	deadline := flag.Duration("deadline", 10*time.Second, "an export or update taking longer is a stall")
	stall := flag.Bool("pushstall", false, "run the stalled-collector scenario instead")
	flag.Parse()
	if *stall {
		pushStall()
		return
	}
	rnd := rand.New(rand.NewSource(vh.Seed()))
	s, ms := store()
	ctx, cancel := context.WithCancel(context.Background())
	var wg sync.WaitGroup
	e, err := exporter.New(ctx, s, exporter.Hostname("h"))
	if err != nil {
		vh.Fatal("exporter.New: %v", err)
	}
	var stop atomic.Bool
	var updates atomic.Int64
	var lastUpdate [4]atomic.Int64 // unix nanos of each updater's last completed update
	for u := 0; u < 4; u++ {
		wg.Add(1)
		go func(u int) {
			defer wg.Done()
			r := rand.New(rand.NewSource(vh.Seed()*31 + int64(u)))
			for !stop.Load() {
				m := ms[r.Intn(len(ms))]
				// an existing or a new label set: both need the metric's write lock
				if _, err := m.GetDatum("v" + strconv.Itoa(1+r.Intn(5))); err == nil {
					updates.Add(1)
				}
				lastUpdate[u].Store(time.Now().UnixNano())
				if r.Intn(4) == 0 {
					runtime.Gosched()
				}
			}
		}(u)
	}
	kinds := []string{"prom", "varz", "graphite", "push-graphite", "push-statsd", "push-collectd", "json"}
	var stalls []map[string]any
	done := 0
	for i := 0; i < *rounds*len(kinds) && len(stalls) == 0; i++ {
		kind := kinds[i%len(kinds)]
		fin := make(chan struct{})
		go func() {
			defer close(fin)
			switch kind {
			case "prom":
				_ = e.Write(io.Discard)
			case "varz":
				e.HandleVarz(httptest.NewRecorder(), httptest.NewRequest("GET", "/varz", nil))
			case "graphite":
				e.HandleGraphite(httptest.NewRecorder(), httptest.NewRequest("GET", "/graphite", nil))
			case "json":
				e.HandleJSON(httptest.NewRecorder(), httptest.NewRequest("GET", "/json", nil))
			default:
				_ = e.VerifWriteSocketMetrics(io.Discard, kind[5:])
			}
		}()
		select {
		case <-fin:
			done++
		case <-time.After(*deadline):
			buf := make([]byte, 1<<20)
			buf = buf[:runtime.Stack(buf, true)]
			stalls = append(stalls, map[string]any{"kind": kind, "after_exports": done, "what": "export did not return", "goroutines": string(buf[:min(len(buf), 20000)])})
		}
		if rnd.Intn(8) == 0 {
			time.Sleep(time.Duration(rnd.Intn(200)) * time.Microsecond)
		}
	}
	// every updater must still be making progress
	if len(stalls) == 0 {
		time.Sleep(50 * time.Millisecond)
		now := time.Now().UnixNano()
		for u := range lastUpdate {
			if now-lastUpdate[u].Load() > int64(*deadline) {
				stalls = append(stalls, map[string]any{"kind": "update", "what": "a line-processing goroutine has not completed a GetDatum for longer than the deadline", "updater": u})
			}
		}
	}
	stop.Store(true)
	if len(stalls) == 0 {
		wg.Wait()
	}
	cancel()
	vh.Out(map[string]any{"stress": true, "exports": done, "updates": updates.Load(), "stalls": stalls})
	vh.Flush()
}
