//go:build verif

// Package vh holds the small helpers shared by the verification harness
// binaries: ndjson case input, ndjson result output.
package vh

import (
	"bufio"
	"encoding/json"
	"fmt"
	"os"
	"strconv"
	"sync"
)

// Seed returns VERIF_SEED (default 1).
func Seed() int64 {
	if s := os.Getenv("VERIF_SEED"); s != "" {
		if n, err := strconv.ParseInt(s, 10, 64); err == nil {
			return n
		}
	}
	return 1
}

// EachCase calls f for every ndjson line on stdin (or the file named by the
// first argument when present).
func EachCase(f func(n int, raw []byte) error) error {
	in := os.Stdin
	if len(os.Args) > 1 && os.Args[len(os.Args)-1] != "" && os.Args[len(os.Args)-1][0] != '-' {
		if fh, err := os.Open(os.Args[len(os.Args)-1]); err == nil {
			defer fh.Close()
			in = fh
		}
	}
	sc := bufio.NewScanner(in)
	sc.Buffer(make([]byte, 1<<20), 1<<28)
	n := 0
	for sc.Scan() {
		b := sc.Bytes()
		if len(b) == 0 || b[0] != '{' {
			continue
		}
		n++
		cp := append([]byte(nil), b...)
		if err := f(n, cp); err != nil {
			return fmt.Errorf("case %d: %w", n, err)
		}
	}
	return sc.Err()
}

var (
	outMu sync.Mutex
	outW  = bufio.NewWriterSize(os.Stdout, 1<<16)
)

// Out writes one ndjson record to stdout.
func Out(v any) {
	b, err := json.Marshal(v)
	if err != nil {
		b, _ = json.Marshal(map[string]any{"marshal_error": err.Error(), "value": fmt.Sprintf("%#v", v)})
	}
	outMu.Lock()
	outW.Write(b)
	outW.WriteByte('\n')
	outMu.Unlock()
}

// Flush must be called before exit.
func Flush() {
	outMu.Lock()
	outW.Flush()
	outMu.Unlock()
}

// Fatal reports a harness (not mtail) failure and exits 3.
func Fatal(format string, a ...any) {
	Flush()
	fmt.Fprintf(os.Stderr, "harness error: "+format+"\n", a...)
	os.Exit(3)
}
