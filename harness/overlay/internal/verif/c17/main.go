//go:build verif

// c17 drives REAL fifo / stdin / unix / tcp / unixgram / udp log streams
// (logstream.New) with scripted writer goroutines and records, per trace, the
// harness-side events that spec/TraceConnStream.tla validates against
// spec/ConnStream.tla (property C17, direction B).
//
// Event discipline (DESIGN section 7): every event of one trace is appended
// under ONE mutex; an event that announces a call (open, write, close, cancel)
// is logged BEFORE the call, an event that reports an observation (opened,
// written, *fail, line, chanclosed, wgdone) AFTER it.  Hence a line can only be
// logged after the write that completed it was logged as started.  Every event
// is written to the output file immediately (one write(2)), so the events of a
// trace survive a crash of the process (a send on a closed channel inside the
// stream cannot be recovered by the harness).
//
// usage: c17 -out events.ndjson [-par N] [-deadline 10s] < cases.ndjson
package main

import (
	"context"
	"encoding/json"
	"errors"
	"flag"
	"fmt"
	"net"
	"os"
	"path/filepath"
	"runtime"
	"strings"
	"sync"
	"sync/atomic"
	"syscall"
	"time"

	"github.com/google/mtail/internal/tailer/logstream"
	"github.com/google/mtail/internal/verif/vh"
	"github.com/google/mtail/internal/waker"
)

type wscript struct {
	OpenDelayUs  int     `json:"open_delay_us"`
	Chunks       [][]int `json:"chunks"`
	DelaysUs     []int   `json:"delays_us"`
	CloseDelayUs int     `json:"close_delay_us"`
	Hold         bool    `json:"hold"` // keep the write end / connection open until Lines() was seen closed
}

type tcase struct {
	ID          int       `json:"id"`
	Kind        string    `json:"kind"` // fifo stdin unix tcp unixgram udp
	OneShot     bool      `json:"oneshot"`
	Mode        string    `json:"mode"` // drain | cut
	Writers     []wscript `json:"writers"`
	CancelUs    int       `json:"cancel_us"`    // cut: cancel this long after the start ...
	CancelLines int       `json:"cancel_lines"` // ... or as soon as this many lines were received (<0: never)
}

var (
	outF     *os.File
	deadline = 10 * time.Second
	settle   bool
)

// tracer orders the events of one trace.
type tracer struct {
	mu sync.Mutex
	id int
	n  int
}

func (t *tracer) log(ev string, kv ...any) {
	t.mu.Lock()
	defer t.mu.Unlock()
	t.n++
	m := map[string]any{"t": t.id, "n": t.n, "ev": ev}
	for i := 0; i+1 < len(kv); i += 2 {
		m[kv[i].(string)] = kv[i+1]
	}
	b, _ := json.Marshal(m)
	b = append(b, '\n')
	if _, err := outF.Write(b); err != nil {
		vh.Fatal("writing event: %v", err)
	}
}

// code <-> byte: 0 is LF, payload codes 10.. map to printable bytes.
func enc(codes []int) []byte {
	b := make([]byte, len(codes))
	for i, c := range codes {
		switch {
		case c == 0:
			b[i] = '\n'
		case c >= 10 && c <= 200:
			b[i] = byte(48 + c)
		default:
			vh.Fatal("bad byte code %d", c)
		}
	}
	return b
}

func dec(s string) []int {
	codes := make([]int, len(s))
	for i := 0; i < len(s); i++ {
		if s[i] >= 58 {
			codes[i] = int(s[i]) - 48
		} else {
			codes[i] = 1000 + int(s[i]) // never written by any writer
		}
	}
	return codes
}

func sleepUs(us int) {
	if us <= 0 {
		return
	}
	d := time.Duration(us) * time.Microsecond
	t0 := time.Now()
	if d > 300*time.Microsecond {
		time.Sleep(d - 200*time.Microsecond)
	}
	for time.Since(t0) < d {
		runtime.Gosched()
	}
}

func freePort(network string) int {
	if network == "udp" {
		c, err := net.ListenPacket("udp", "127.0.0.1:0")
		if err != nil {
			vh.Fatal("free udp port: %v", err)
		}
		defer c.Close()
		return c.LocalAddr().(*net.UDPAddr).Port
	}
	l, err := net.Listen("tcp", "127.0.0.1:0")
	if err != nil {
		vh.Fatal("free tcp port: %v", err)
	}
	defer l.Close()
	return l.Addr().(*net.TCPAddr).Port
}

// a writer's handle on the kernel object
type sink interface {
	Write(p []byte) (int, error)
	Close() error
}

type deadliner interface{ SetWriteDeadline(time.Time) error }

var stdinMu sync.Mutex // os.Stdin is process-global: one stdin stream is created at a time

func waitOrDeadline(ch <-chan struct{}) bool {
	select {
	case <-ch:
		return true
	case <-time.After(deadline):
		return false
	}
}

func runTrace(c tcase, dir string) {
	tr := &tracer{id: c.ID}
	ctx, cancel := context.WithCancel(context.Background())
	wctx, wcancel := context.WithCancel(context.Background())
	defer wcancel()
	defer cancel()
	wk := waker.NewTimed(wctx, time.Millisecond)
	var wg sync.WaitGroup
	// Datagram sockets: one datagram is in flight at a time (the kernel enqueues datagrams atomically
	// anyway), so the order of the datagrams in the socket queue is the order of the "write" events and
	// the trace specification need not search over it.  NOT the trace mutex: a sender blocked on a full
	// unixgram queue must not stop the consumer from logging lines.
	var dgramMu sync.Mutex
	serial := c.Kind == "unixgram" || c.Kind == "udp"
	oneShot := logstream.OneShotDisabled
	if c.OneShot {
		oneShot = logstream.OneShotEnabled
	}
	nw := len(c.Writers)
	tr.log("reset", "id", c.ID, "real", c.Kind, "oneshot", c.OneShot, "nw", nw, "mode", c.Mode)

	var (
		ls      logstream.LogStream
		err     error
		addr    string
		stdinW  []*os.File // stdin: the writers' dup'ed write ends, opened before the stream exists
		network = c.Kind
	)
	switch c.Kind {
	case "fifo":
		addr = filepath.Join(dir, fmt.Sprintf("fifo%d", c.ID))
		if err := syscall.Mkfifo(addr, 0o600); err != nil {
			vh.Fatal("mkfifo: %v", err)
		}
		ls, err = logstream.New(ctx, &wg, wk, addr, oneShot)
	case "stdin":
		r, w, perr := os.Pipe()
		if perr != nil {
			vh.Fatal("pipe: %v", perr)
		}
		for i := 0; i < nw; i++ {
			tr.log("open", "w", i+1)
			fd, derr := syscall.Dup(int(w.Fd()))
			if derr != nil {
				vh.Fatal("dup: %v", derr)
			}
			syscall.CloseOnExec(fd)
			stdinW = append(stdinW, os.NewFile(uintptr(fd), "stdin-writer"))
			tr.log("opened", "w", i+1)
		}
		w.Close()
		stdinMu.Lock()
		saved := os.Stdin
		os.Stdin = r
		ls, err = logstream.New(ctx, &wg, wk, "-", oneShot)
		os.Stdin = saved
		stdinMu.Unlock()
	case "unix", "unixgram":
		addr = filepath.Join(dir, fmt.Sprintf("s%d", c.ID))
		ls, err = logstream.New(ctx, &wg, wk, c.Kind+"://"+addr, oneShot)
	case "tcp", "udp":
		for try := 0; try < 8; try++ {
			addr = fmt.Sprintf("127.0.0.1:%d", freePort(c.Kind))
			ls, err = logstream.New(ctx, &wg, wk, c.Kind+"://"+addr, oneShot)
			if err == nil || !strings.Contains(err.Error(), "address already in use") {
				break
			}
		}
	default:
		vh.Fatal("unknown kind %q", c.Kind)
	}
	if err != nil {
		vh.Fatal("logstream.New(%s): %v", c.Kind, err)
	}

	// consumer: the only reader of Lines()
	var nlines atomic.Int64
	closed := make(chan struct{})
	lineSeen := make(chan struct{}, 1)
	go func() {
		for l := range ls.Lines() {
			tr.log("line", "b", dec(l.Line))
			nlines.Add(1)
			select {
			case lineSeen <- struct{}{}:
			default:
			}
		}
		tr.log("chanclosed")
		close(closed)
	}()

	// canceller
	var cancelOnce sync.Once
	doCancel := func() {
		cancelOnce.Do(func() {
			tr.log("cancel")
			cancel()
		})
	}
	cutDone := make(chan struct{})
	if c.Mode == "cut" {
		go func() {
			defer close(cutDone)
			timer := time.After(time.Duration(c.CancelUs) * time.Microsecond)
			if c.CancelUs < 1000 {
				t0 := time.Now()
				for time.Since(t0) < time.Duration(c.CancelUs)*time.Microsecond {
					if c.CancelLines >= 0 && nlines.Load() >= int64(c.CancelLines) {
						break
					}
					runtime.Gosched()
				}
				doCancel()
				return
			}
			for {
				if c.CancelLines >= 0 && nlines.Load() >= int64(c.CancelLines) {
					doCancel()
					return
				}
				select {
				case <-timer:
					doCancel()
					return
				case <-lineSeen:
				case <-closed:
					doCancel()
					return
				}
			}
		}()
	} else {
		close(cutDone)
	}

	// writers
	var (
		wwg      sync.WaitGroup
		okLF     atomic.Int64 // LFs in chunks whose write succeeded
		okTails  atomic.Int64 // writers that closed after an unterminated tail (stream sockets: one more line each)
		okBytes  atomic.Int64
		failures atomic.Int64
		sentZero atomic.Bool
	)
	var held sync.WaitGroup // every writer has finished, or (holders) has written everything and waits
	holders := 0
	for i := range c.Writers {
		held.Add(1)
		if c.Writers[i].Hold {
			holders++
		}
	}
	for i := range c.Writers {
		wwg.Add(1)
		go func(w int, s wscript) {
			defer wwg.Done()
			released := false
			defer func() {
				if !released {
					held.Done()
				}
			}()
			sleepUs(s.OpenDelayUs)
			var k sink
			switch c.Kind {
			case "stdin":
				k = stdinW[w-1]
			case "fifo":
				tr.log("open", "w", w)
				fd, oerr := syscall.Open(addr, syscall.O_WRONLY|syscall.O_NONBLOCK|syscall.O_CLOEXEC, 0)
				if oerr != nil {
					if errors.Is(oerr, syscall.ENXIO) {
						tr.log("openfail", "w", w, "err", oerr.Error())
						failures.Add(1)
						return
					}
					vh.Fatal("open fifo for writing: %v", oerr)
				}
				k = os.NewFile(uintptr(fd), addr)
				tr.log("opened", "w", w)
			default:
				tr.log("open", "w", w)
				conn, derr := net.DialTimeout(network, addr, deadline)
				if derr != nil {
					tr.log("openfail", "w", w, "err", derr.Error())
					failures.Add(1)
					return
				}
				k = conn
				tr.log("opened", "w", w)
			}
			var all []int
			for j, ch := range s.Chunks {
				if j < len(s.DelaysUs) {
					sleepUs(s.DelaysUs[j])
				}
				if d, ok := k.(deadliner); ok {
					if serial {
						_ = d.SetWriteDeadline(time.Now().Add(100 * time.Millisecond))
					} else {
						_ = d.SetWriteDeadline(time.Now().Add(deadline))
					}
				}
				if serial {
					dgramMu.Lock()
				}
				tr.log("write", "w", w, "b", ch)
				n, werr := k.Write(enc(ch))
				for t0 := time.Now(); serial && werr != nil && os.IsTimeout(werr) && time.Since(t0) < deadline; {
					// a datagram is sent whole or not at all: poll again with a fresh short deadline (a sender
					// parked on a full unixgram queue is not always woken when the reader drains or closes it)
					_ = k.(deadliner).SetWriteDeadline(time.Now().Add(100 * time.Millisecond))
					n, werr = k.Write(enc(ch))
				}
				if werr != nil || n != len(ch) {
					if werr != nil && os.IsTimeout(werr) {
						tr.log("stall", "what", "write", "w", w)
					} else {
						tr.log("writefail", "w", w, "err", fmt.Sprint(werr), "wrote", n)
					}
					failures.Add(1)
					if serial {
						dgramMu.Unlock()
					}
					_ = k.Close()
					return
				}
				tr.log("written", "w", w)
				if serial {
					dgramMu.Unlock()
				}
				if len(ch) == 0 {
					sentZero.Store(true)
				}
				for _, b := range ch {
					if b == 0 {
						okLF.Add(1)
					}
				}
				okBytes.Add(int64(len(ch)))
				all = append(all, ch...)
			}
			if s.Hold {
				// the stream has to end by cancellation (read deadline), not by this writer going away
				released = true
				held.Done()
				waitOrDeadline(closed)
			} else if len(all) > 0 && all[len(all)-1] != 0 {
				okTails.Add(1)
			}
			sleepUs(s.CloseDelayUs)
			tr.log("close", "w", w)
			_ = k.Close()
		}(i+1, c.Writers[i])
	}
	wdone := make(chan struct{})
	go func() { wwg.Wait(); close(wdone) }()
	hdone := make(chan struct{})
	go func() { held.Wait(); close(hdone) }()
	if !waitOrDeadline(hdone) {
		// a writer is stuck in open/write beyond every deadline: nothing more can be said
		tr.log("stall", "what", "writers")
	}
	<-cutDone

	stream := c.Kind == "unix" || c.Kind == "tcp"
	pipe := c.Kind == "fifo" || c.Kind == "stdin"
	waitLines := func(want int64) {
		t0 := time.Now()
		for nlines.Load() < want {
			select {
			case <-closed:
				return
			case <-lineSeen:
			case <-time.After(20 * time.Millisecond):
			}
			if time.Since(t0) > deadline {
				tr.log("stall", "what", "lines", "want", want, "got", nlines.Load())
				return
			}
		}
	}
	waitClosed := func() bool {
		if !waitOrDeadline(closed) {
			tr.log("stall", "what", "closed")
			return false
		}
		return true
	}
	if c.Mode == "drain" {
		switch {
		case holders > 0 && (pipe || (stream && c.OneShot)):
			// a write end stays open: only cancellation can end the stream
		case pipe:
			// the pipe's output ends by itself once its writers are gone, if any byte was written
			if okBytes.Load() > 0 {
				waitClosed()
			}
		case stream && c.OneShot:
			// ends once the one accepted connection is closed (if any connection was made at all)
			if nw-int(failures.Load()) > 0 {
				waitClosed()
			}
		case stream:
			if failures.Load() == 0 {
				waitLines(okLF.Load() + okTails.Load())
			}
		default: // datagrams
			if c.OneShot && sentZero.Load() {
				waitClosed()
			} else if failures.Load() == 0 {
				waitLines(okLF.Load())
			}
		}
		doCancel()
	}
	ok := waitClosed()
	if holders > 0 {
		waitOrDeadline(wdone)
	}
	if ok {
		wgd := make(chan struct{})
		go func() { wg.Wait(); close(wgd) }()
		if waitOrDeadline(wgd) {
			tr.log("wgdone")
		} else {
			tr.log("stall", "what", "wg")
		}
	}
	if settle {
		// Attribution only (never a verdict): with one trace at a time, wait until no connection handler of
		// this stream is left, so that a late panic in one (send on the closed channel) kills the process
		// while THIS trace is still the unfinished one.
		buf := make([]byte, 1<<20)
		for t0 := time.Now(); time.Since(t0) < 2*time.Second; time.Sleep(200 * time.Microsecond) {
			n := runtime.Stack(buf, true)
			// (a handler that has not run yet shows up as ...stream.func2.gowrap1)
			if d := string(buf[:n]); !strings.Contains(d, "logstream.(*socketStream).handleConn") &&
				!strings.Contains(d, "logstream.(*socketStream).stream.func") {
				break
			}
		}
	}
	tr.log("end")
}

// scratchRoot: temporary files live under the working directory (the check's scratch directory, removed
// when the check exits - also if this process is killed by a panic inside mtail), not under /tmp.
func scratchRoot() string {
	if wd, err := os.Getwd(); err == nil {
		return wd
	}
	return ""
}

func main() {
	out := flag.String("out", "", "event file (ndjson, appended)")
	par := flag.Int("par", 4, "traces run concurrently")
	dl := flag.Duration("deadline", 10*time.Second, "stall deadline")
	flag.Parse()
	_ = flag.Set("logtostderr", "true") // glog: never leave log files behind
	deadline = *dl
	settle = *par == 1
	if *out == "" {
		vh.Fatal("-out required")
	}
	var err error
	outF, err = os.OpenFile(*out, os.O_CREATE|os.O_WRONLY|os.O_APPEND, 0o644)
	if err != nil {
		vh.Fatal("%v", err)
	}
	dir, err := os.MkdirTemp(scratchRoot(), "c17-")
	if err != nil {
		vh.Fatal("%v", err)
	}
	defer os.RemoveAll(dir)
	sem := make(chan struct{}, *par)
	var wg sync.WaitGroup
	n := 0
	err = vh.EachCase(func(_ int, raw []byte) error {
		var c tcase
		if err := json.Unmarshal(raw, &c); err != nil {
			return err
		}
		n++
		sem <- struct{}{}
		wg.Add(1)
		go func() {
			defer wg.Done()
			defer func() { <-sem }()
			runTrace(c, dir)
		}()
		return nil
	})
	wg.Wait()
	if err != nil {
		os.RemoveAll(dir)
		vh.Fatal("%v", err)
	}
	vh.Out(map[string]any{"summary": true, "cases": n})
	vh.Flush()
}
