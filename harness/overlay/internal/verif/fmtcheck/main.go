//go:build verif

// fmtcheck is property C23 on the real code: source S (rendered from a
// TLC-generated AST) is parsed and checked (as cmd/mfmt does), formatted with
// the real Unparser to S', S' is parsed and checked again, and the two trees
// must be structurally identical (declarations with all attributes, statement
// structure, expression trees, patterns, string literals); formatting S' again
// must give S' verbatim.
package main

import (
	"encoding/json"
	"fmt"
	"strings"

	"github.com/google/mtail/internal/runtime/compiler/ast"
	"github.com/google/mtail/internal/runtime/compiler/checker"
	"github.com/google/mtail/internal/runtime/compiler/parser"
	"github.com/google/mtail/internal/verif/mlang"
	"github.com/google/mtail/internal/verif/vh"
)

type tcase struct {
	Seed int64         `json:"seed"`
	Prog mlang.Program `json:"prog"`
	Src  string        `json:"src"`
}

func parseCheck(name, src string) (t ast.Node, err error) {
	defer func() {
		if r := recover(); r != nil {
			err = fmt.Errorf("panic: %v", r)
		}
	}()
	t, err = parser.Parse(name, strings.NewReader(src))
	if err != nil {
		return nil, fmt.Errorf("parse: %w", err)
	}
	t, err = checker.Check(t, 0, 0)
	if err != nil {
		return nil, fmt.Errorf("check: %w", err)
	}
	return t, nil
}

func unparse(t ast.Node) (s string, err error) {
	defer func() {
		if r := recover(); r != nil {
			err = fmt.Errorf("unparser panic: %v", r)
		}
	}()
	up := parser.Unparser{}
	return up.Unparse(t), nil
}

func one(name, src string) map[string]any {
	out := map[string]any{"src": src}
	t1, err := parseCheck(name, src)
	if err != nil {
		out["input_rejected"] = err.Error()
		return out
	}
	d1 := mlang.Dump(t1)
	s1, err := unparse(t1)
	if err != nil {
		out["fail"] = err.Error()
		return out
	}
	out["formatted"] = s1
	t2, err := parseCheck(name, s1)
	if err != nil {
		out["fail"] = "formatter output is not a valid program: " + err.Error()
		return out
	}
	d2 := mlang.Dump(t2)
	if d1 != d2 {
		// first difference, with a little context
		i := 0
		for i < len(d1) && i < len(d2) && d1[i] == d2[i] {
			i++
		}
		lo := i - 60
		if lo < 0 {
			lo = 0
		}
		hi1, hi2 := i+80, i+80
		if hi1 > len(d1) {
			hi1 = len(d1)
		}
		if hi2 > len(d2) {
			hi2 = len(d2)
		}
		out["fail"] = "tree changed by formatting: original …" + d1[lo:hi1] + "… formatted …" + d2[lo:hi2] + "…"
		return out
	}
	s2, err := unparse(t2)
	if err != nil {
		out["fail"] = err.Error()
		return out
	}
	if s2 != s1 {
		out["fail"] = "formatting is not idempotent"
		out["formatted2"] = s2
	}
	return out
}

func main() {
	n := 0
	err := vh.EachCase(func(_ int, raw []byte) error {
		var c tcase
		if err := json.Unmarshal(raw, &c); err != nil {
			return err
		}
		n++
		out := map[string]any{"seed": c.Seed}
		if c.Src != "" {
			out["src"] = one("w.mtail", c.Src)
			vh.Out(out)
			return nil
		}
		for _, mode := range []string{"full", "min"} {
			src, rerr := mlang.Render(&c.Prog, mlang.RenderOpts{FullParens: mode == "full", CommaIndex: c.Seed%2 == 0, SplitPats: c.Seed%3 != 0})
			if rerr != nil {
				vh.Fatal("render: %v", rerr)
			}
			out[mode] = one(fmt.Sprintf("f%d.mtail", c.Seed), src)
		}
		vh.Out(out)
		return nil
	})
	if err != nil {
		vh.Fatal("%v", err)
	}
	vh.Out(map[string]any{"summary": true, "cases": n})
	vh.Flush()
}
