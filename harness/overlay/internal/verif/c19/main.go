//go:build verif

// c19 runs the REAL mtail server in one-shot mode (mtail.New(..., mtail.OneShot) + Run) on generated
// programs and log files and records, per case, the hook events (internal/verifhook) that
// spec/TraceSystem.tla validates against spec/System.tla (property C19, direction B), the final metric
// store, and the reference result computed from the interleaving each program actually saw.
//
// usage: c19 [-deadline 30s] [-perturb] < cases.ndjson > results.ndjson
// One case at a time per process (the hook sink and mtail's expvars are process-global).
package main

import (
	"context"
	"encoding/json"
	"flag"
	"fmt"
	"os"
	"path/filepath"
	"regexp"
	"runtime"
	"sort"
	"strconv"
	"strings"
	"sync"
	"sync/atomic"
	"time"

	"github.com/google/mtail/internal/metrics"
	"github.com/google/mtail/internal/mtail"
	"github.com/google/mtail/internal/verif/vh"
	"github.com/google/mtail/internal/verifhook"
	"github.com/google/mtail/internal/waker"
)

type fileSpec struct {
	Name  string   `json:"name"`
	Lines []string `json:"lines"`
	Tail  bool     `json:"tail"` // the last line has no newline
}

type progSpec struct {
	Name     string `json:"name"`     // file name, e.g. p1.mtail
	Template string `json:"template"` // count | order | max
}

type tcase struct {
	ID      int        `json:"id"`
	Seed    int64      `json:"seed"`
	Files   []fileSpec `json:"files"`
	Progs   []progSpec `json:"progs"`
	Glob    bool       `json:"glob"`    // one glob pattern instead of explicit paths
	Perturb int        `json:"perturb"` // 0 none, else 1/perturb of the hook points sleep or yield
}

var templates = map[string]string{
	// per-file counts, the last line number per file (file order), a sum (order independent) and the
	// value of the very last line seen (depends on the interleaving)
	"count": `counter lines_total by tag
gauge last_n by tag
counter vsum
gauge last_v
/^(?P<tag>\w+) (?P<n>\d+) (?P<v>\d+)$/ {
  lines_total[$tag]++
  last_n[$tag] = $n
  vsum += $v
  last_v = $v
}
`,
	// counts by file name, and the number of lines that did not directly follow their predecessor in
	// the same file (0 iff every file's lines arrive in file order, once)
	"order": `counter seen by filename
counter gaps
hidden gauge prev by tag
counter other
/^(?P<tag>\w+) (?P<n>\d+) / {
  seen[getfilename()]++
  $n != prev[$tag] + 1 {
    gaps++
  }
  prev[$tag] = $n
}
/^#/ {
  other++
}
`,
	// a running maximum and a count of everything, matching or not
	"max": `gauge biggest
counter everything
/^\w+ \d+ (?P<v>\d+)$/ {
  $v > biggest {
    biggest = $v
  }
}
/$/ {
  everything++
}
`,
}

var lineRe = regexp.MustCompile(`^(\w+) (\d+) (\d+)$`)
var prefRe = regexp.MustCompile(`^(\w+) (\d+) `)

type seen struct{ file, line string }

// reference computes what the store must hold for one program after it processed `in` in this order.
func reference(prog progSpec, in []seen) map[string]string {
	out := map[string]string{}
	key := func(name string, labels ...string) string {
		return prog.Name + "/" + name + "{" + strings.Join(labels, ",") + "}"
	}
	add := func(k string, d int64) {
		v, _ := strconv.ParseInt(out[k], 10, 64)
		out[k] = strconv.FormatInt(v+d, 10)
	}
	switch prog.Template {
	case "count":
		out[key("vsum")] = "0" // dimensionless counters exist from load time; a gauge only once it was touched
		for _, s := range in {
			m := lineRe.FindStringSubmatch(s.line)
			if m == nil {
				continue
			}
			v, _ := strconv.ParseInt(m[3], 10, 64)
			add(key("lines_total", m[1]), 1)
			n, _ := strconv.ParseInt(m[2], 10, 64)
			out[key("last_n", m[1])] = strconv.FormatInt(n, 10)
			add(key("vsum"), v)
			out[key("last_v")] = strconv.FormatInt(v, 10)
		}
	case "order":
		out[key("gaps")] = "0"
		out[key("other")] = "0"
		prev := map[string]int64{}
		for _, s := range in {
			if m := prefRe.FindStringSubmatch(s.line); m != nil {
				add(key("seen", s.file), 1)
				n, _ := strconv.ParseInt(m[2], 10, 64)
				if n != prev[m[1]]+1 {
					add(key("gaps"), 1)
				}
				prev[m[1]] = n
			}
			if strings.HasPrefix(s.line, "#") {
				add(key("other"), 1)
			}
		}
	case "max":
		out[key("everything")] = "0"
		var big int64
		for _, s := range in {
			if m := lineRe.FindStringSubmatch(s.line); m != nil {
				if v, _ := strconv.ParseInt(m[3], 10, 64); v > big {
					big = v
				}
				out[key("biggest")] = strconv.FormatInt(big, 10) // the comparison reads (and so creates) the gauge
			}
			add(key("everything"), 1)
		}
	default:
		vh.Fatal("unknown template %q", prog.Template)
	}
	return out
}

func storeDump(s *metrics.Store) map[string]string {
	out := map[string]string{}
	_ = s.Range(func(m *metrics.Metric) error {
		m.RLock()
		defer m.RUnlock()
		for _, lv := range m.LabelValues {
			out[m.Program+"/"+m.Name+"{"+strings.Join(lv.Labels, ",")+"}"] = lv.Value.ValueString()
		}
		return nil
	})
	return out
}

var deadline = 30 * time.Second

func runCase(c tcase) map[string]any {
	dir, err := os.MkdirTemp(scratchRoot(), "c19-")
	if err != nil {
		vh.Fatal("%v", err)
	}
	defer os.RemoveAll(dir)
	progDir := filepath.Join(dir, "progs")
	logDir := filepath.Join(dir, "logs")
	_ = os.Mkdir(progDir, 0o755)
	_ = os.Mkdir(logDir, 0o755)
	for _, p := range c.Progs {
		src, ok := templates[p.Template]
		if !ok {
			vh.Fatal("unknown template %q", p.Template)
		}
		if err := os.WriteFile(filepath.Join(progDir, p.Name), []byte(src), 0o644); err != nil {
			vh.Fatal("%v", err)
		}
	}
	var patterns []string
	pathOf := map[string]string{}
	for _, f := range c.Files {
		data := strings.Join(f.Lines, "\n")
		if len(f.Lines) > 0 && !f.Tail {
			data += "\n"
		}
		p := filepath.Join(logDir, f.Name)
		if err := os.WriteFile(p, []byte(data), 0o644); err != nil {
			vh.Fatal("%v", err)
		}
		pathOf[p] = f.Name
		patterns = append(patterns, p)
	}
	if c.Glob {
		patterns = []string{filepath.Join(logDir, "*.log")}
	}

	// hook events, in sequence order (the sink runs under the hook lock)
	var (
		mu     sync.Mutex
		events []map[string]any
		ctr    atomic.Uint64
	)
	short := func(v any) any {
		if s, ok := v.(string); ok {
			if n, ok := pathOf[s]; ok {
				return n
			}
		}
		return v
	}
	verifhook.SetSink(func(e verifhook.Event) {
		m := e.Map()
		for _, k := range []string{"file", "path"} {
			if v, ok := m[k]; ok {
				m[k] = short(v)
			}
		}
		mu.Lock()
		events = append(events, m)
		mu.Unlock()
	})
	if c.Perturb > 0 {
		seed := uint64(c.Seed)*0x9e3779b97f4a7c15 + 1
		verifhook.SetGate(func(verifhook.Event) {
			x := seed + ctr.Add(1)*0xbf58476d1ce4e5b9
			x ^= x >> 31
			x *= 0x94d049bb133111eb
			x ^= x >> 29
			switch x % uint64(c.Perturb) {
			case 0:
				time.Sleep(time.Duration(x>>8%300) * time.Microsecond)
			case 1:
				runtime.Gosched()
			}
		})
	} else {
		verifhook.SetGate(nil)
	}
	defer verifhook.SetSink(nil)
	defer verifhook.SetGate(nil)

	ctx, cancel := context.WithCancel(context.Background())
	defer cancel()
	store := metrics.NewStore()
	wk := waker.NewTimed(ctx, 250*time.Millisecond)
	res := map[string]any{"id": c.ID}
	t0 := time.Now()
	m, err := mtail.New(ctx, store, mtail.ProgramPath(progDir), mtail.LogPathPatterns(patterns...), mtail.OneShot,
		mtail.OmitMetricSource, mtail.LogPatternPollWaker(wk), mtail.LogstreamPollWaker(wk))
	if err != nil {
		vh.Fatal("mtail.New: %v", err) // the generated programs are valid: this is an infrastructure problem
	}
	done := make(chan error, 1)
	go func() { done <- m.Run() }()
	returned := false
	select {
	case rerr := <-done:
		returned = true
		if rerr != nil {
			res["run_error"] = rerr.Error()
		}
		verifhook.Point("run.returned")
	case <-time.After(deadline):
		buf := make([]byte, 1<<20)
		n := runtime.Stack(buf, true)
		res["goroutines"] = string(buf[:n])
	}
	res["returned"] = returned
	res["elapsed_ms"] = time.Since(t0).Milliseconds()
	cancel()
	mu.Lock()
	evs := append([]map[string]any(nil), events...)
	mu.Unlock()
	res["events"] = evs
	// what each program saw, in its own order
	sawBy := map[string][]seen{}
	for _, e := range evs {
		if e["ev"] == "vm.line.start" {
			p := fmt.Sprint(e["prog"])
			sawBy[p] = append(sawBy[p], seen{fmt.Sprint(e["file"]), fmt.Sprint(e["line"])})
		}
	}
	expect := map[string]string{}
	for _, p := range c.Progs {
		// the `order` template labels by getfilename(): the full path
		in := sawBy[p.Name]
		for k, v := range reference(p, in) {
			expect[k] = v
		}
	}
	got := storeDump(store)
	// map full paths in label values back to file names
	norm := map[string]string{}
	for k, v := range got {
		for full, name := range pathOf {
			k = strings.ReplaceAll(k, full, name)
		}
		norm[k] = v
	}
	res["store"] = norm
	res["expect"] = expect
	var diff []string
	keys := map[string]bool{}
	for k := range norm {
		keys[k] = true
	}
	for k := range expect {
		keys[k] = true
	}
	for k := range keys {
		if norm[k] != expect[k] {
			diff = append(diff, fmt.Sprintf("%s: store=%q reference=%q", k, norm[k], expect[k]))
		}
	}
	sort.Strings(diff)
	res["store_diff"] = diff
	return res
}

// scratchRoot: temporary files live under the working directory (the check's scratch directory, removed
// when the check exits - also if this process is killed by a panic inside mtail), not under /tmp.
func scratchRoot() string {
	if wd, err := os.Getwd(); err == nil {
		return wd
	}
	return ""
}

func main() {
	dl := flag.Duration("deadline", 30*time.Second, "Run must return within this time")
	flag.Parse()
	_ = flag.Set("logtostderr", "true") // glog: never leave log files behind
	_ = flag.Set("stderrthreshold", "ERROR")
	deadline = *dl
	n := 0
	err := vh.EachCase(func(_ int, raw []byte) error {
		var c tcase
		if err := json.Unmarshal(raw, &c); err != nil {
			return err
		}
		n++
		r := runCase(c)
		vh.Out(r)
		vh.Flush()
		if r["returned"] != true {
			// the stuck server still owns the process-global hook sink: no further case in this process
			vh.Out(map[string]any{"summary": true, "cases": n, "aborted": true})
			vh.Flush()
			os.Exit(0)
		}
		return nil
	})
	if err != nil {
		vh.Fatal("%v", err)
	}
	vh.Out(map[string]any{"summary": true, "cases": n})
	vh.Flush()
}
