//go:build verif

// Package expo is the abstraction map between the abstract stores of
// spec/Expo.tla and real metrics.Store contents (checks C13 and C22): one
// total, injective rendering of names, keys, label values, values and
// timestamps, used both to BUILD the real store and to render the
// specification's expected records, so the two cannot drift apart.
package expo

import (
	"fmt"
	"math"
	"sort"
	"strconv"
	"strings"
	"time"

	"github.com/google/mtail/internal/metrics"
	"github.com/google/mtail/internal/metrics/datum"
)

// Val is the abstract value of a label set: token + the label set's unique id
// (N carries the sum of a histogram's observations).
type Val struct {
	Tok string `json:"tok"`
	UID int    `json:"uid"`
	N   int    `json:"n"`
}

type LSet struct {
	Labels []string `json:"labels"`
	Val    Val      `json:"val"`
	Obs    []int    `json:"obs"`
	TS     int      `json:"ts"`
}

type Metric struct {
	Name   string   `json:"name"`
	Prog   string   `json:"prog"`
	Kind   string   `json:"kind"`
	Type   string   `json:"type"`
	Keys   []string `json:"keys"`
	Bounds []int    `json:"bounds"`
	Lsets  []LSet   `json:"lsets"`
}

type Cfg struct {
	OmitProg bool   `json:"omitProg"`
	EmitTs   bool   `json:"emitTs"`
	Host     string `json:"host"`
	Prefix   string `json:"prefix"`
}

// INF is the model's +Inf bucket boundary.
const INF = 1000000

// BaseTime is instant 0 of the model; label set uid has timestamp BaseTime+uid seconds.
const BaseTime = 1343124840

// ts 0 is the Unix epoch itself (Expo.tla EpochTs): a datum whose last write carried that instant.
func Time(ts int) time.Time {
	if ts == 0 {
		return time.Unix(0, 0)
	}
	return time.Unix(BaseTime+int64(ts), 0)
}

// LabelVal renders a label value token.
func LabelVal(tok string) string {
	switch tok {
	case "esc":
		return "q\"u\\o\nte"
	case "nonutf8":
		return "\xffz"
	case "pct": // not a separator in any export format - but a verb to any formatting function it is handed to
		return "r%d%%x%s"
	}
	return tok
}

func IntVal(v Val) int64 {
	switch v.Tok {
	case "neg":
		return -7 - int64(v.UID)
	case "zero":
		return 0
	case "small":
		return 3 + int64(v.UID)
	case "huge":
		return (1 << 62) + 1 + int64(v.UID)
	}
	panic("expo: no int token " + v.Tok)
}

func FloatVal(v Val) float64 {
	switch v.Tok {
	case "neg":
		return -1.5 - float64(v.UID)
	case "zero":
		return 0
	case "small":
		return 2.25 + 0.125*float64(v.UID)
	case "huge":
		return 1e300 * (1 + float64(v.UID)/64)
	case "nan":
		return math.NaN()
	case "pinf":
		return math.Inf(1)
	case "ninf":
		return math.Inf(-1)
	}
	panic("expo: no float token " + v.Tok)
}

func StringVal(v Val) string { return "s" + strconv.Itoa(v.UID) }

// Number renders the value a label set of the given datum type reports, as
// the canonical text used for comparisons: ints exactly, floats by bits.
func Number(dtype string, v Val) string {
	switch dtype {
	case "Int":
		return "i:" + strconv.FormatInt(IntVal(v), 10)
	case "Float":
		return Float(FloatVal(v))
	case "Buckets":
		return Float(float64(v.N))
	case "String":
		return "s:" + StringVal(v)
	}
	panic("expo: no datum type " + dtype)
}

// AsFloat is the value as Prometheus sees it (datum as float64).
func AsFloat(dtype string, v Val) float64 {
	switch dtype {
	case "Int":
		return float64(IntVal(v))
	case "Float":
		return FloatVal(v)
	case "Buckets":
		return float64(v.N)
	}
	return 0
}

// Float is the canonical text of a float64 (NaN compares equal to NaN).
func Float(f float64) string {
	if math.IsNaN(f) {
		return "f:NaN"
	}
	return "f:" + strconv.FormatFloat(f, 'g', -1, 64)
}

func Bound(b int) float64 {
	if b >= INF {
		return math.Inf(1)
	}
	return float64(b)
}

var kinds = map[string]metrics.Kind{"Counter": metrics.Counter, "Gauge": metrics.Gauge, "Timer": metrics.Timer,
	"Text": metrics.Text, "Histogram": metrics.Histogram}
var types = map[string]metrics.Type{"Int": metrics.Int, "Float": metrics.Float, "String": metrics.String, "Buckets": metrics.Buckets}

// Build fills a real store with the abstract one, through the same calls the VM uses.
func Build(s *metrics.Store, ms []Metric) ([]*metrics.Metric, error) {
	var out []*metrics.Metric
	for i, am := range ms {
		k, ok1 := kinds[am.Kind]
		t, ok2 := types[am.Type]
		if !ok1 || !ok2 {
			return nil, fmt.Errorf("unknown kind/type %s/%s", am.Kind, am.Type)
		}
		m := metrics.NewMetric(am.Name, am.Prog, k, t, am.Keys...)
		m.Source = "verif.mtail:" + strconv.Itoa(i+1)
		if t == metrics.Buckets {
			prev := 0.0
			m.Buckets = []datum.Range{}
			for _, b := range am.Bounds {
				m.Buckets = append(m.Buckets, datum.Range{Min: prev, Max: float64(b)})
				prev = float64(b)
			}
		}
		for _, ls := range am.Lsets {
			lv := make([]string, len(ls.Labels))
			for j, l := range ls.Labels {
				lv[j] = LabelVal(l)
			}
			d, err := m.GetDatum(lv...)
			if err != nil {
				return nil, err
			}
			ts := Time(ls.TS)
			switch t {
			case metrics.Int:
				datum.SetInt(d, IntVal(ls.Val), ts)
			case metrics.Float:
				datum.SetFloat(d, FloatVal(ls.Val), ts)
			case metrics.String:
				datum.SetString(d, StringVal(ls.Val), ts)
			case metrics.Buckets:
				if len(ls.Obs) == 0 {
					return nil, fmt.Errorf("histogram label set without observation")
				}
				for _, o := range ls.Obs {
					datum.Observe(d, float64(o), ts)
				}
			}
		}
		if err := s.Add(m); err != nil {
			return nil, err
		}
		out = append(out, m)
	}
	// every other metric is then registered once more, as a reload of its program does: same declaration, no label
	// values of its own - Store.Add replaces the old registration and hands its label values (the very datums) over.
	// The abstract store is the same; what walks the store afterwards must still meet every metric exactly once.
	for i := len(out) - 1; i >= 0; i-- {
		if (i+len(out))%2 == 0 {
			continue
		}
		old := out[i]
		twin := metrics.NewMetric(old.Name, old.Program, old.Kind, old.Type, old.Keys...)
		twin.Source = old.Source
		twin.Buckets = append([]datum.Range{}, old.Buckets...)
		if old.Buckets == nil {
			twin.Buckets = nil
		}
		if err := s.Add(twin); err != nil {
			return nil, err
		}
		out[i] = twin
	}
	return out, nil
}

// Labels renders a set of <<key, value-token>> pairs as sorted "k=v" strings.
func Labels(pairs [][2]string) string {
	s := make([]string, 0, len(pairs))
	for _, p := range pairs {
		s = append(s, strconv.Quote(p[0])+"="+strconv.Quote(LabelVal(p[1])))
	}
	sort.Strings(s)
	return strings.Join(s, ",")
}

// Diff compares two multisets of canonical record strings.
func Diff(got, want []string) (missing, extra []string) {
	cnt := map[string]int{}
	for _, w := range want {
		cnt[w]++
	}
	for _, g := range got {
		if cnt[g] > 0 {
			cnt[g]--
		} else {
			extra = append(extra, g)
		}
	}
	for w, n := range cnt {
		for ; n > 0; n-- {
			missing = append(missing, w)
		}
	}
	sort.Strings(missing)
	sort.Strings(extra)
	return
}

// Verdict names which expectation a multiset of records meets.
func Verdict(got, want, wantDev []string) (string, []string, []string) {
	miss, extra := Diff(got, want)
	if len(miss) == 0 && len(extra) == 0 {
		return "want", nil, nil
	}
	if m2, e2 := Diff(got, wantDev); len(m2) == 0 && len(e2) == 0 {
		return "want_dev", miss, extra
	}
	return "none", miss, extra
}

// NumFloat is the canonical text of a number printed by a format: integral
// values below 2^53 as "i:<n>" (an int datum and an integral float print the
// same digits), everything else by its float64 value.
func NumFloat(f float64) string {
	if !math.IsNaN(f) && !math.IsInf(f, 0) && f == math.Trunc(f) && math.Abs(f) < 1<<53 {
		return "i:" + strconv.FormatInt(int64(f), 10)
	}
	return Float(f)
}

// NumText canonicalises a value as printed by an export format.
func NumText(s string) string {
	if n, err := strconv.ParseInt(s, 10, 64); err == nil {
		return "i:" + strconv.FormatInt(n, 10)
	}
	if f, err := strconv.ParseFloat(s, 64); err == nil {
		return NumFloat(f)
	}
	return "s:" + s
}

// NumOf is the canonical text of the value the specification expects.
func NumOf(dtype string, v Val) string {
	switch dtype {
	case "Int":
		return "i:" + strconv.FormatInt(IntVal(v), 10)
	case "Float":
		return NumFloat(FloatVal(v))
	case "Buckets":
		return NumFloat(float64(v.N))
	case "String":
		return "s:" + StringVal(v)
	}
	panic("expo: no datum type " + dtype)
}
