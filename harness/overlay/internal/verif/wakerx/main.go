//go:build verif

// wakerx records executions of the real testWaker (internal/waker) for
// spec/TraceWaker.tla.  Wakee goroutines follow the discipline of mtail's
// stream goroutines (Wake, block on the channel, work, Wake again or leave);
// the test goroutine calls awaken(k, m) the way the replay engines of this
// tree do: k = wakees parked, m = those of them that park again.  Every event
// gets one atomic sequence number; events are printed in that order.
package main

import (
	"context"
	"flag"
	"fmt"
	"math/rand"
	"runtime"
	"sort"
	"sync"
	"sync/atomic"
	"time"

	"github.com/google/mtail/internal/verif/vh"
	"github.com/google/mtail/internal/waker"
)

type event struct {
	Seq int64  `json:"seq"`
	Ev  string `json:"ev"`
	W   int    `json:"w"`
	G   int    `json:"g"`
	K   int    `json:"k"`
	M   int    `json:"m"`
	Lv  []int  `json:"lv"`
}

type rec struct {
	mu   sync.Mutex
	seq  atomic.Int64
	evs  []event
	gens map[<-chan struct{}]int
}

func (r *rec) log(e event) {
	r.mu.Lock()
	e.Seq = r.seq.Add(1)
	if e.Lv == nil {
		e.Lv = []int{}
	}
	r.evs = append(r.evs, e)
	r.mu.Unlock()
}

// logCall numbers the channel's generation by first appearance, under the same lock as the event
func (r *rec) logCall(w int, ch <-chan struct{}) {
	r.mu.Lock()
	g, ok := r.gens[ch]
	if !ok {
		g = len(r.gens) + 1
		r.gens[ch] = g
	}
	r.evs = append(r.evs, event{Seq: r.seq.Add(1), Ev: "call", W: w, G: g, Lv: []int{}})
	r.mu.Unlock()
}

func oneRun(nw, cycles int, rng *rand.Rand) ([]event, bool) {
	ctx, cancel := context.WithCancel(context.Background())
	defer cancel()
	wk, awaken := waker.NewTest(ctx, nw, "wakerx")
	r := &rec{gens: map[<-chan struct{}]int{}}
	leave := make([]atomic.Bool, nw+1)
	exited := make([]atomic.Bool, nw+1)
	parkedCh := make(chan int, 64) // a wakee reports that it has called Wake (it is parked or about to be)
	var wg sync.WaitGroup
	for w := 1; w <= nw; w++ {
		wg.Add(1)
		go func(w int) {
			defer wg.Done()
			pr := rand.New(rand.NewSource(rng.Int63()))
			for {
				r.log(event{Ev: "calling", W: w})
				ch := wk.Wake()
				r.logCall(w, ch)
				parkedCh <- w
				select {
				case <-ch:
				case <-ctx.Done():
					return
				}
				r.log(event{Ev: "woken", W: w})
				if pr.Intn(3) == 0 {
					runtime.Gosched()
				}
				if leave[w].Load() {
					r.log(event{Ev: "exit", W: w})
					exited[w].Store(true)
					return
				}
			}
		}(w)
	}
	live := nw
	need := nw // "call" reports to collect before the next awaken
	stuck := false
	for c := 0; c < cycles && live > 0 && !stuck; c++ {
		// every live wakee has called Wake (the engines know this from their own barriers; awaken's preceding
		// wait loop then guarantees that its helper is through wakeeDone)
		for need > 0 {
			select {
			case <-parkedCh:
				need--
			case <-time.After(10 * time.Second):
				stuck = true
				need = 0
			}
		}
		if stuck {
			break
		}
		var lv []int
		for w := 1; w <= nw; w++ {
			if !exited[w].Load() && rng.Intn(4) == 0 {
				lv = append(lv, w)
			}
		}
		sort.Ints(lv)
		for _, w := range lv {
			leave[w].Store(true)
		}
		k, m := live, live-len(lv)
		r.log(event{Ev: "begin", K: k, M: m, Lv: lv})
		done := make(chan struct{})
		go func() { defer close(done); awaken(k, m) }()
		select {
		case <-done:
			r.log(event{Ev: "end"})
		case <-time.After(10 * time.Second):
			stuck = true
		}
		// the leavers must be gone before the next call (the discipline's precondition)
		for _, w := range lv {
			for t0 := time.Now(); !exited[w].Load() && time.Since(t0) < 10*time.Second; {
				runtime.Gosched()
			}
		}
		live = m
		need = m
	}
	cancel()
	wg.Wait()
	r.mu.Lock()
	defer r.mu.Unlock()
	sort.Slice(r.evs, func(i, j int) bool { return r.evs[i].Seq < r.evs[j].Seq })
	return r.evs, stuck
}

func main() {
	runs := flag.Int("runs", 40, "number of executions")
	nw := flag.Int("wakees", 3, "wakee goroutines")
	cycles := flag.Int("cycles", 3, "awaken calls per execution")
	flag.Parse()
	rng := rand.New(rand.NewSource(vh.Seed()))
	for i := 0; i < *runs; i++ {
		evs, stuck := oneRun(*nw, *cycles, rng)
		vh.Out(map[string]any{"run": i, "stuck": stuck, "events": evs, "desc": fmt.Sprintf("%d wakees, %d cycles", *nw, *cycles)})
	}
	vh.Out(map[string]any{"summary": true, "runs": *runs})
	vh.Flush()
}
