//go:build verif

// c25 drives the real code over seeded random histories and records, for
// spec/TraceCounters.tla, its own operations (the events themselves), every
// verifhook event (where the expvars are updated) and the expvar values read
// at quiescent points.
//
//	-mode rt  : a real runtime.Runtime, lines offered on its input channel
//	-mode e2e : a real mtail.Server over two temp log files, streams polled
//	            through waker.NewTest barriers
//
// Program sources are of the kinds of Counters.tla (ok, err, bad, shc, shg,
// missing).  Program and metric names are unique per run because the expvars
// are process-global; lines_total is read as a delta.
package main

import (
	"context"
	"expvar"
	"flag"
	"fmt"
	"math/rand"
	"os"
	"path/filepath"
	"strconv"
	"sync"
	"time"

	"github.com/google/mtail/internal/logline"
	"github.com/google/mtail/internal/metrics"
	"github.com/google/mtail/internal/mtail"
	mrt "github.com/google/mtail/internal/runtime"
	"github.com/google/mtail/internal/verif/vh"
	"github.com/google/mtail/internal/verifhook"
	"github.com/google/mtail/internal/waker"
)

const deadline = 15 * time.Second

type rec map[string]any

type run struct {
	mu      sync.Mutex
	cond    *sync.Cond
	trace   []rec
	progIdx map[string]int
	fileIdx map[string]int
	vmid    map[string]int
	nvm     int
	recvs   int // rt.line.recv seen
	wantEnd int // sum of nprogs over the received lines
	ends    int // vm.line.end seen
}

var cur *run
var curMu sync.RWMutex

var keep = map[string]bool{
	"lr.line": true, "lr.finish": true, "tail.fwd": true, "rt.line.recv": true, "rt.line.sent": true,
	"vm.line.start": true, "vm.error": true, "vm.line.end": true, "rt.load.unchanged": true,
	"rt.load.compile_error": true, "rt.load.add": true, "rt.load.registered": true, "rt.load.swapped": true,
	"rt.unload": true,
}

func blank(ev string) rec {
	return rec{"ev": ev, "prog": 0, "vm": 0, "file": 0, "text": "", "kind": "", "stamp": 0, "err": 0, "nprogs": -1,
		"lines_total": 0, "loads": []int64{}, "unloads": []int64{}, "load_errors": []int64{}, "rt_errors": []int64{}, "log_lines": []int64{}}
}

func sink(e verifhook.Event) {
	curMu.RLock()
	r := cur
	curMu.RUnlock()
	if r == nil || !keep[e.Ev] {
		return
	}
	r.mu.Lock()
	defer r.mu.Unlock()
	m := blank(e.Ev)
	if s, ok := e.Get("prog").(string); ok {
		m["prog"] = r.progIdx[s]
	}
	if v := e.Get("vm"); v != nil {
		k := fmt.Sprintf("%p", v)
		if e.Ev == "rt.load.registered" {
			r.nvm++
			r.vmid[k] = r.nvm
		}
		m["vm"] = r.vmid[k]
	}
	if s, ok := e.Get("file").(string); ok {
		m["file"] = r.fileIdx[s]
	}
	if s, ok := e.Get("line").(string); ok {
		m["text"] = s
	}
	if n, ok := e.Get("nprogs").(int); ok {
		m["nprogs"] = n
	}
	if e.Ev == "rt.load.add" && e.Get("err") != nil {
		if err, ok := e.Get("err").(error); ok && err != nil {
			m["err"] = 1
		}
	}
	r.trace = append(r.trace, m)
	switch e.Ev {
	case "rt.line.recv":
		r.recvs++
		r.wantEnd += m["nprogs"].(int)
	case "vm.line.end":
		r.ends++
	}
	r.cond.Broadcast()
}

func (r *run) log(m rec) {
	r.mu.Lock()
	r.trace = append(r.trace, m)
	r.mu.Unlock()
}

// quiesce waits until n lines have been received by the fan-out and every VM that was handed one has finished it.
func (r *run) quiesce(n int) bool {
	done := make(chan struct{})
	var timedOut bool
	t := time.AfterFunc(deadline, func() {
		r.mu.Lock()
		timedOut = true
		r.cond.Broadcast()
		r.mu.Unlock()
	})
	go func() {
		r.mu.Lock()
		for !(r.recvs >= n && r.ends >= r.wantEnd) && !timedOut {
			r.cond.Wait()
		}
		r.mu.Unlock()
		close(done)
	}()
	<-done
	t.Stop()
	r.mu.Lock()
	defer r.mu.Unlock()
	return r.recvs >= n && r.ends >= r.wantEnd
}

func mapInt(name, key string) int64 {
	m, _ := expvar.Get(name).(*expvar.Map)
	if m == nil {
		return -1
	}
	if v, ok := m.Get(key).(*expvar.Int); ok {
		return v.Value()
	}
	return 0
}

func source(kind, uniq, shared string, stamp int) string {
	tail := "# " + strconv.Itoa(stamp) + "\n"
	switch kind {
	case "ok":
		return "counter c_" + uniq + "\n/^/ {\n  c_" + uniq + "++\n}\n" + tail
	case "err":
		return "gauge g_" + uniq + "\n/(\\S+)/ {\n  g_" + uniq + " = int($1)\n}\n" + tail
	case "bad":
		return "counter c_" + uniq + "\n/x/ {\n" + tail
	case "shc":
		return "counter " + shared + "\n/^/ {\n  " + shared + "++\n}\n" + tail
	case "shg":
		return "gauge " + shared + "\n/^(\\d+)/ {\n  " + shared + " = $1\n}\n" + tail
	}
	vh.Fatal("unknown kind %q", kind)
	return ""
}

var kinds = []string{"ok", "ok", "err", "err", "bad", "shc", "shg", "missing"}

const NP, NF = 2, 2

func oneRun(mode string, seed int64, id int) (rec, bool) {
	rng := rand.New(rand.NewSource(seed))
	r := &run{progIdx: map[string]int{}, fileIdx: map[string]int{}, vmid: map[string]int{}}
	r.cond = sync.NewCond(&r.mu)
	tag := fmt.Sprintf("%s%d_%d", mode, seed, id)
	dir, err := os.MkdirTemp("", "verif-c25-")
	if err != nil {
		vh.Fatal("%v", err)
	}
	defer os.RemoveAll(dir)
	progDir, logDir := filepath.Join(dir, "progs"), filepath.Join(dir, "logs")
	os.Mkdir(progDir, 0o700)
	os.Mkdir(logDir, 0o700)
	var names, paths, uniq [NP + 1]string
	for p := 1; p <= NP; p++ {
		uniq[p] = fmt.Sprintf("%s_%d", tag, p)
		names[p] = "p_" + uniq[p] + ".mtail"
		paths[p] = filepath.Join(progDir, names[p])
		r.progIdx[names[p]] = p
	}
	shared := "shared_" + tag
	var files [NF + 1]string
	var fh [NF + 1]*os.File
	nfiles := 0
	if mode == "e2e" {
		nfiles = NF
		for f := 1; f <= NF; f++ {
			files[f] = filepath.Join(logDir, fmt.Sprintf("log%d", f))
			fh[f], err = os.OpenFile(files[f], os.O_CREATE|os.O_WRONLY|os.O_APPEND, 0o600)
			if err != nil {
				vh.Fatal("%v", err)
			}
			defer fh[f].Close()
			r.fileIdx[files[f]] = f
		}
	}
	base := expvar.Get("lines_total").(*expvar.Int).Value()

	curMu.Lock()
	cur = r
	curMu.Unlock()
	defer func() { curMu.Lock(); cur = nil; curMu.Unlock() }()

	var rt *mrt.Runtime
	var lines chan *logline.LogLine
	var wg sync.WaitGroup
	var awaken waker.WakeFunc
	var cancel context.CancelFunc
	var srvDone chan error
	store := metrics.NewStore()
	if mode == "rt" {
		lines = make(chan *logline.LogLine)
		rt, err = mrt.New(lines, &wg, progDir, store)
		if err != nil {
			vh.Fatal("runtime.New: %v", err)
		}
	} else {
		var ctx context.Context
		ctx, cancel = context.WithCancel(context.Background())
		var sw, pw waker.Waker
		sw, awaken = waker.NewTest(ctx, NF, "streams")
		pw, _ = waker.NewTest(ctx, 1, "patterns")
		srv, err := mtail.New(ctx, store, mtail.ProgramPath(progDir), mtail.LogPathPatterns(logDir+"/*"),
			mtail.LogstreamPollWaker(sw), mtail.LogPatternPollWaker(pw))
		if err != nil {
			vh.Fatal("mtail.New: %v", err)
		}
		rt = srv.VerifRuntime()
		srvDone = make(chan error, 1)
		go func() { srvDone <- srv.Run() }()
	}

	stuck := false
	nlines := 0
	curKind := [NP + 1]string{}
	curStamp := [NP + 1]int{}
	nextStamp := 1
	observe := func() {
		if !r.quiesce(nlines) {
			stuck = true
			return
		}
		m := blank("h.obs")
		m["lines_total"] = expvar.Get("lines_total").(*expvar.Int).Value() - base
		var lo, un, le, re, ll []int64
		for p := 1; p <= NP; p++ {
			lo = append(lo, mapInt("prog_loads_total", names[p]))
			un = append(un, mapInt("prog_unloads_total", names[p]))
			le = append(le, mapInt("prog_load_errors_total", names[p]))
			re = append(re, mapInt("prog_runtime_errors_total", names[p]))
		}
		ll = []int64{}
		for f := 1; f <= NF; f++ {
			if f <= nfiles {
				ll = append(ll, mapInt("log_lines_total", files[f]))
			} else {
				ll = append(ll, 0)
			}
		}
		m["loads"], m["unloads"], m["load_errors"], m["rt_errors"], m["log_lines"] = lo, un, le, re, ll
		r.log(m)
	}
	nops := 8 + rng.Intn(10)
	for op := 0; op < nops && !stuck; op++ {
		switch x := rng.Intn(10); {
		case x < 4: // a line
			nlines++
			kind, text := "num", strconv.Itoa(nlines)
			if rng.Intn(2) == 0 {
				kind, text = "txt", "x"+strconv.Itoa(nlines)
			}
			if mode == "rt" {
				m := blank("h.offer")
				m["text"], m["kind"] = text, kind
				r.log(m)
				select {
				case lines <- logline.New(context.Background(), "direct", text):
				case <-time.After(deadline):
					stuck = true
				}
			} else {
				f := 1 + rng.Intn(NF)
				m := blank("h.write")
				m["text"], m["kind"], m["file"] = text, kind, f
				r.log(m)
				if _, err := fh[f].WriteString(text + "\n"); err != nil {
					vh.Fatal("%v", err)
				}
				awaken(NF, NF)
			}
		case x < 9: // a load attempt
			p := 1 + rng.Intn(NP)
			kind := kinds[rng.Intn(len(kinds))]
			stamp := nextStamp
			if curKind[p] != "" && rng.Intn(4) == 0 { // same content again
				kind, stamp = curKind[p], curStamp[p]
			} else {
				nextStamp++
			}
			if kind == "missing" {
				os.Remove(paths[p])
			} else if err := os.WriteFile(paths[p], []byte(source(kind, uniq[p], shared, stamp)), 0o600); err != nil {
				vh.Fatal("%v", err)
			}
			m := blank("h.load.begin")
			m["prog"], m["kind"], m["stamp"] = p, kind, stamp
			r.log(m)
			// the outcome of the load: LoadProgram's own error (file unreadable) or the error CompileAndRun
			// returned, which LoadProgram records (and only logs unless ErrorsAbort is set)
			lerr := rt.LoadProgram(paths[p])
			if lerr == nil && kind != "missing" {
				lerr = rt.VerifProgramError(names[p])
			}
			m = blank("h.load.end")
			m["prog"] = p
			if lerr != nil {
				m["err"] = 1
			} else {
				// nil: the program runs now, or its content was unchanged - either way this source is current
				curKind[p], curStamp[p] = kind, stamp
			}
			r.log(m)
		default: // unload
			p := 1 + rng.Intn(NP)
			if curKind[p] == "" {
				continue
			}
			rt.UnloadProgram(paths[p])
			curKind[p], curStamp[p] = "", 0
		}
		observe()
	}
	// e2e: a burst of lines that no stream has been woken for yet is still pending when shutdown is requested; the
	// graceful shutdown reads and delivers them.  Hook events are no longer recorded (the trace ends here); what is
	// compared afterwards is the property itself: lines received by the loader = lines delivered by the streams.
	burst := 0
	if mode == "e2e" && !stuck {
		curMu.Lock()
		cur = nil
		curMu.Unlock()
		burst = 20 + rng.Intn(60)
		for i := 0; i < burst; i++ {
			if _, err := fh[1+i%NF].WriteString("burst " + strconv.Itoa(i) + "\n"); err != nil {
				vh.Fatal("%v", err)
			}
		}
		// ... and a last line that its writer never terminated: the stream's final flush delivers it, and counts it
		if _, err := fh[1].WriteString("unterminated tail"); err != nil {
			vh.Fatal("%v", err)
		}
		burst++
	}
	// shut down
	fin := make(chan struct{})
	go func() {
		defer close(fin)
		if mode == "rt" {
			close(lines)
			wg.Wait()
		} else {
			cancel()
			<-srvDone
		}
	}()
	select {
	case <-fin:
	case <-time.After(deadline):
		stuck = true
	}
	if !stuck {
		r.log(blank("h.end"))
	}
	curMu.Lock()
	cur = nil
	curMu.Unlock()
	r.mu.Lock()
	defer r.mu.Unlock()
	out := rec{"run": id, "mode": mode, "seed": seed, "stuck": stuck, "trace": r.trace, "nprogs": NP, "nfiles": nfiles}
	if mode == "e2e" && !stuck {
		var sum int64
		for f := 1; f <= nfiles; f++ {
			sum += mapInt("log_lines_total", files[f])
		}
		out["shutdown"] = rec{"burst": burst, "lines_total": expvar.Get("lines_total").(*expvar.Int).Value() - base, "log_lines_sum": sum}
	}
	return out, stuck
}

func main() {
	mode := flag.String("mode", "rt", "rt | e2e")
	n := flag.Int("n", 20, "number of runs")
	first := flag.Int("first", 0, "index of the first run")
	flag.Set("logtostderr", "true")
	flag.Parse()
	if devnull, err := os.OpenFile(os.DevNull, os.O_WRONLY, 0); err == nil {
		os.Stderr = devnull // glog noise; Go runtime panics still reach fd 2
	}
	verifhook.SetSink(sink)
	for i := *first; i < *first+*n; i++ {
		out, stuck := oneRun(*mode, vh.Seed()*100003+int64(i), i)
		vh.Out(out)
		vh.Flush()
		if stuck {
			vh.Out(rec{"abandon": true, "at": i})
			vh.Flush()
			os.Exit(0)
		}
	}
	vh.Out(rec{"summary": true, "runs": *n})
	vh.Flush()
}
