//go:build verif

// fold binds spec/Fold.tla to internal/runtime/compiler/opt: for every constant
// expression TLC enumerates it (a) parses `g = <expr>` and runs the REAL
// opt.Optimise on the tree, reporting the literal the expression was folded
// to (or the rejection), and (b) compiles and runs the one-line program with
// the optimiser on and off and reports the value the gauge received.
package main

import (
	"encoding/json"
	"fmt"
	"math"
	"strconv"
	"strings"

	"github.com/google/mtail/internal/runtime/compiler/ast"
	"github.com/google/mtail/internal/runtime/compiler/opt"
	"github.com/google/mtail/internal/runtime/compiler/parser"
	"github.com/google/mtail/internal/verif/mlang"
	"github.com/google/mtail/internal/verif/vh"
)

type tcase struct {
	E    *mlang.Node `json:"e"`
	Fe   *mlang.Node `json:"fe"`   // the model's folded tree (open family)
	Open bool        `json:"open"` // contains $1: the program matches /(\d+)/ and the line is "4"
}

type finder struct{ rhs ast.Node }

func (f *finder) VisitBefore(n ast.Node) (ast.Visitor, ast.Node) {
	if b, ok := n.(*ast.BinaryExpr); ok && b.Op == parser.ASSIGN && f.rhs == nil {
		f.rhs = b.RHS
	}
	return f, n
}
func (f *finder) VisitAfter(n ast.Node) ast.Node { return n }

type outcome struct {
	Kind      string  `json:"kind"` // int | float | other | rejected | parse_error | panic
	I         int64   `json:"i"`
	F         float64 `json:"f"`
	Msg       string  `json:"msg,omitempty"`
	Dump      string  `json:"dump,omitempty"` // canonical dump of the folded right-hand side
	NonFinite bool    `json:"nonfinite,omitempty"`
}

func foldReal(src string) (o outcome) {
	defer func() {
		if r := recover(); r != nil {
			o = outcome{Kind: "panic", Msg: fmt.Sprint(r)}
		}
	}()
	tree, err := parser.Parse("fold.mtail", strings.NewReader(src))
	if err != nil {
		return outcome{Kind: "parse_error", Msg: err.Error()}
	}
	tree, err = opt.Optimise(tree)
	if err != nil {
		return outcome{Kind: "rejected", Msg: err.Error()}
	}
	f := &finder{}
	ast.Walk(f, tree)
	switch l := f.rhs.(type) {
	case *ast.IntLit:
		return outcome{Kind: "int", I: l.I}
	case *ast.FloatLit:
		if math.IsNaN(l.F) || math.IsInf(l.F, 0) {
			return outcome{Kind: "float", Msg: fmt.Sprint(l.F), NonFinite: true}
		}
		return outcome{Kind: "float", F: l.F}
	}
	return outcome{Kind: "other", Msg: fmt.Sprintf("%T", f.rhs), Dump: mlang.Dump(f.rhs)}
}

type value struct {
	Accepted bool    `json:"accepted"`
	Errors   string  `json:"errors,omitempty"`
	RtErr    bool    `json:"rterr"`
	Type     string  `json:"type"`
	Set      bool    `json:"set"`
	I        int64   `json:"i"`
	F        float64 `json:"f"`
	FS       string  `json:"fs"` // exact rendering of F (NaN and infinities survive)
}

func runReal(name, src string, optimise bool, line string) (v value) {
	cc := mlang.Compile(name, src, optimise)
	if cc.Obj == nil || cc.Errors != "" || cc.Panic != "" {
		v.Errors = cc.Errors + cc.Panic
		return
	}
	v.Accepted = true
	_, res := mlang.Run(name, cc.Obj, []mlang.Line{{Toks: [][]string{{line}}, File: []string{"f"}}}, mlang.RunOpts{})
	v.RtErr = res[0].Err
	for _, m := range res[0].Metrics {
		if m.Name == "g" {
			v.Type = m.Type
			if len(m.LVs) == 1 {
				v.Set = true
				v.I, v.F = m.LVs[0].I, m.LVs[0].F
				v.FS = strconv.FormatFloat(v.F, 'g', -1, 64)
				if math.IsNaN(v.F) || math.IsInf(v.F, 0) {
					v.F = 0
				}
			}
		}
	}
	return
}

func main() {
	n := 0
	err := vh.EachCase(func(_ int, raw []byte) error {
		var c tcase
		if err := json.Unmarshal(raw, &c); err != nil {
			return err
		}
		n++
		out := map[string]any{"n": n}
		for _, mode := range []string{"full", "min"} {
			ex, err := mlang.RenderExpr(c.E, mlang.RenderOpts{FullParens: mode == "full"})
			if err != nil {
				vh.Fatal("render: %v", err)
			}
			src := "gauge g\n/x/ {\n  g = " + ex + "\n}\n"
			line := "x"
			if c.Open {
				src = "gauge g\n/(\\d+)/ {\n  g = " + ex + "\n}\n"
				line = "4"
			}
			rec := map[string]any{
				"expr": ex,
				"fold": foldReal(src),
				"on":   runReal(fmt.Sprintf("f%d%son.mtail", n, mode), src, true, line),
				"off":  runReal(fmt.Sprintf("f%d%soff.mtail", n, mode), src, false, line),
			}
			if c.Fe != nil {
				rec["modeldump"] = mlang.DumpModel(c.Fe)
			}
			out[mode] = rec
		}
		vh.Out(out)
		return nil
	})
	if err != nil {
		vh.Fatal("%v", err)
	}
	vh.Out(map[string]any{"summary": true, "cases": n})
	vh.Flush()
}
