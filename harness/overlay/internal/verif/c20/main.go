//go:build verif

// c20 binds spec/Reload.tla to the real runtime.Runtime.
//
// mode replay (default): every ndjson case on stdin is a behaviour `h` of
// Reload.tla.  The harness builds a real Runtime over a temp program
// directory and a harness-owned unbuffered lines channel, installs a blocking
// gate on the verifhook points and executes the behaviour action by action:
// an action releases exactly one parked goroutine (or offers a line / starts
// a load / closes the input); afterwards exactly the events the model lists
// in `exp` must have been emitted (after the action was issued), and the
// gauge of every program must show the model's last write.  At the end the
// per-line processing log and the order of writes are compared with the
// model's `procd` / `writes`.  The complete hook trace of every case is
// returned for validation by TraceReload.tla.
//
// mode fuzz: two programs, seeded random loads/unloads while lines flow,
// gates only perturb (sleep); returns the traces (direction B).
package main

import (
	"context"
	"encoding/json"
	"flag"
	"fmt"
	"math/rand"
	"os"
	"path/filepath"
	"runtime"
	"sort"
	"strconv"
	"sync"
	"sync/atomic"
	"time"

	"github.com/google/mtail/internal/logline"
	"github.com/google/mtail/internal/metrics"
	"github.com/google/mtail/internal/metrics/datum"
	mrt "github.com/google/mtail/internal/runtime"
	"github.com/google/mtail/internal/verif/vh"
	"github.com/google/mtail/internal/verifhook"
)

type mev struct {
	E string `json:"e"`
	P int    `json:"p"`
	L int    `json:"l"`
	V int    `json:"v"`
}

type step struct {
	A   string    `json:"a"`
	P   int       `json:"p"`
	V   int       `json:"v"`
	Exp []mev     `json:"exp"`
	G   [][]int64 `json:"g"`
}

type tcase struct {
	ID         int       `json:"id"`
	Steps      []step    `json:"steps"`
	Procd      [][]int   `json:"procd"`
	Writes     [][][]int `json:"writes"`
	NLines     int       `json:"nlines"`
	NProgs     int       `json:"nprogs"`
	Init       []int     `json:"init"`
	DeadlineMs int       `json:"deadline_ms"`
	Label      string    `json:"label"`
}

type note struct {
	ev  mev
	seq int64
	raw string
}

// run is the state of one case; the verifhook sink and gate are process
// global and dispatch to the current run.
type run struct {
	mu      sync.Mutex
	gating  bool
	parked  map[string]chan struct{}
	vmid    map[string][2]int // %p of *vm.VM -> (prog, version)
	nreg    map[int]int
	trace   []map[string]any
	lastSeq atomic.Int64
	evq     chan note
	sleepAt map[int64]bool // fuzz: gate calls that sleep
	ngate   atomic.Int64
}

var cur atomic.Pointer[run]

func progName(p int) string { return "p" + strconv.Itoa(p) + ".mtail" }
func progIdx(name string) int {
	var p int
	if _, err := fmt.Sscanf(name, "p%d.mtail", &p); err != nil {
		return -1
	}
	return p
}
func progText(p, v int) string {
	return fmt.Sprintf("gauge g%d\n/^(\\d+)$/ {\n  g%d = $1 * 10 + %d\n}\n", p, p, v)
}

var parkEvents = map[string]bool{
	"rt.line.recv": true, "rt.line.sent": true, "vm.line.start": true, "vm.line.end": true,
	"rt.load.registered": true, "rt.load.closed_old": true, "rt.load.swapped": true, "rt.unload": true,
}
var kind = map[string]string{
	"rt.line.recv": "recv", "rt.line.sent": "sent", "vm.line.start": "start", "vm.line.end": "end",
	"vm.exit": "exit", "rt.load.registered": "reg", "rt.load.closed_old": "closed",
	"rt.load.swapped": "swapped", "rt.unload": "unload",
}
var ignored = map[string]bool{"rt.load.add": true, "store.gc.start": true, "store.gc.end": true}

func (r *run) describe(e verifhook.Event) (mev, string) {
	k, ok := kind[e.Ev]
	if !ok {
		return mev{E: e.Ev}, ""
	}
	d := mev{E: k}
	if s, ok := e.Get("prog").(string); ok {
		d.P = progIdx(s)
	}
	if s, ok := e.Get("line").(string); ok {
		d.L, _ = strconv.Atoi(s)
	}
	actor := ""
	if v := e.Get("vm"); v != nil {
		r.mu.Lock()
		id := r.vmid[fmt.Sprintf("%p", v)]
		r.mu.Unlock()
		d.P, d.V = id[0], id[1]
	}
	switch k {
	case "recv", "sent":
		actor = "fan"
		if k == "recv" {
			d.P = 0
		}
	case "start", "end", "exit":
		actor = fmt.Sprintf("vm:%d:%d", d.P, d.V)
		if k == "exit" {
			d.L = 0
		}
	default:
		actor = "rl"
	}
	return d, actor
}

func sink(e verifhook.Event) {
	r := cur.Load()
	if r == nil {
		return
	}
	if e.Ev == "rt.load.registered" {
		p := progIdx(fmt.Sprint(e.Get("prog")))
		r.mu.Lock()
		r.nreg[p]++
		r.vmid[fmt.Sprintf("%p", e.Get("vm"))] = [2]int{p, r.nreg[p]}
		r.mu.Unlock()
	}
	m := map[string]any{"seq": e.Seq, "ev": e.Ev}
	if s, ok := e.Get("prog").(string); ok {
		m["prog"] = progIdx(s)
	}
	if v := e.Get("vm"); v != nil {
		r.mu.Lock()
		id := r.vmid[fmt.Sprintf("%p", v)]
		r.mu.Unlock()
		m["prog"] = id[0]
		m["vm"] = id[0]*100 + id[1]
	}
	if s, ok := e.Get("file").(string); ok {
		m["file"] = s
	}
	if s, ok := e.Get("line").(string); ok {
		m["line"] = s
	}
	if n, ok := e.Get("nprogs").(int); ok {
		m["nprogs"] = n
	}
	r.trace = append(r.trace, m) // sink calls are serialised by the hook lock
	r.lastSeq.Store(e.Seq)
}

func gate(e verifhook.Event) {
	r := cur.Load()
	if r == nil || ignored[e.Ev] {
		return
	}
	if r.sleepAt != nil { // fuzz: perturb only
		n := r.ngate.Add(1)
		if r.sleepAt[n] {
			time.Sleep(2 * time.Millisecond)
		} else {
			runtime.Gosched()
		}
		return
	}
	d, actor := r.describe(e)
	n := note{ev: d, seq: e.Seq, raw: e.Ev}
	if !parkEvents[e.Ev] {
		r.evq <- n
		return
	}
	r.mu.Lock()
	if !r.gating {
		r.mu.Unlock()
		r.evq <- n
		return
	}
	ch := make(chan struct{})
	r.parked[actor] = ch
	r.mu.Unlock()
	r.evq <- n
	<-ch
}

func (r *run) release(actor string) bool {
	r.mu.Lock()
	ch, ok := r.parked[actor]
	delete(r.parked, actor)
	r.mu.Unlock()
	if ok {
		close(ch)
	}
	return ok
}

func (r *run) releaseAll() {
	r.mu.Lock()
	r.gating = false
	for k, ch := range r.parked {
		close(ch)
		delete(r.parked, k)
	}
	r.mu.Unlock()
}

type mismatch struct {
	Step int    `json:"step"`
	Kind string `json:"kind"` // unexpected | timeout | early | notparked | gauge | procd | writes | error
	Why  string `json:"why"`
	Got  any    `json:"got,omitempty"`
	Want any    `json:"want,omitempty"`
}

type world struct {
	r      *run
	c      *tcase
	dir    string
	store  *metrics.Store
	lines  chan *logline.LogLine
	wg     sync.WaitGroup
	rt     *mrt.Runtime
	sent   int
	closed bool
	rlDone chan error
	dl     time.Duration
}

func newRun() *run {
	return &run{parked: map[string]chan struct{}{}, vmid: map[string][2]int{}, nreg: map[int]int{},
		evq: make(chan note, 1<<14)}
}

func (w *world) writeProg(p, v int) {
	// write-then-rename so that a concurrent reader never sees a half-written program
	tmp := filepath.Join(w.dir, ".tmp"+strconv.Itoa(p))
	if err := os.WriteFile(tmp, []byte(progText(p, v)), 0o600); err != nil {
		vh.Fatal("%v", err)
	}
	if err := os.Rename(tmp, filepath.Join(w.dir, progName(p))); err != nil {
		vh.Fatal("%v", err)
	}
}

// gauge reads the exported value of program p's gauge without creating anything (Metric.GetDatum would
// allocate the datum and so change what a later Store.Add hands over): -1 no such metric, 0 no datum yet.
func (w *world) gauge(p int) int64 {
	m := w.store.FindMetricOrNil("g"+strconv.Itoa(p), progName(p))
	if m == nil {
		return -1
	}
	m.RLock()
	defer m.RUnlock()
	if len(m.LabelValues) == 0 {
		return 0
	}
	return datum.GetInt(m.LabelValues[0].Value)
}

// await consumes the notifications caused by one action: exactly `exp`, each
// with a sequence number greater than t0.
func (w *world) await(i int, exp []mev, t0 int64) *mismatch {
	pend := append([]mev(nil), exp...)
	timer := time.NewTimer(w.dl)
	defer timer.Stop()
	take := func(n note) *mismatch {
		for k, e := range pend {
			if e == n.ev {
				if n.seq <= t0 {
					return &mismatch{Step: i, Kind: "early", Why: "event was emitted before the action that causes it in the model", Got: n.ev}
				}
				pend = append(pend[:k], pend[k+1:]...)
				return nil
			}
		}
		return &mismatch{Step: i, Kind: "unexpected", Why: "event not predicted by the model for this action", Got: n.ev, Want: exp}
	}
	for len(pend) > 0 {
		select {
		case n := <-w.r.evq:
			if m := take(n); m != nil {
				return m
			}
		case <-timer.C:
			return &mismatch{Step: i, Kind: "timeout", Why: "expected event(s) not observed within the deadline", Want: pend}
		}
	}
	for {
		select {
		case n := <-w.r.evq:
			return &mismatch{Step: i, Kind: "unexpected", Why: "event not predicted by the model for this action", Got: n.ev, Want: exp}
		default:
			return nil
		}
	}
}

func (w *world) offer(n int) bool {
	t := time.NewTimer(w.dl)
	defer t.Stop()
	select {
	case w.lines <- logline.New(context.Background(), "f", strconv.Itoa(n)):
		return true
	case <-t.C:
		return false
	}
}

func (w *world) do(i int, st step) *mismatch {
	r := w.r
	t0 := r.lastSeq.Load()
	rel := func(actor string) *mismatch {
		if !r.release(actor) {
			return &mismatch{Step: i, Kind: "notparked", Why: "goroutine " + actor + " is not parked at a hook point where the model has it"}
		}
		return nil
	}
	var m *mismatch
	waitLoader := false
	switch st.A {
	case "FanRecv":
		w.sent++
		if !w.offer(w.sent) {
			return &mismatch{Step: i, Kind: "timeout", Why: "the fan-out goroutine does not take the next line"}
		}
	case "FanGo", "FanRelease":
		m = rel("fan")
	case "VmRun", "VmNext":
		m = rel(fmt.Sprintf("vm:%d:%d", st.P, st.V))
	case "RlStart":
		w.writeProg(st.P, st.V)
		path := filepath.Join(w.dir, progName(st.P))
		w.rlDone = make(chan error, 1)
		go func(done chan error) { done <- w.rt.LoadProgram(path) }(w.rlDone)
	case "Unload":
		path := filepath.Join(w.dir, progName(st.P))
		w.rlDone = make(chan error, 1)
		go func(done chan error) { w.rt.UnloadProgram(path); done <- nil }(w.rlDone)
	case "RlLock", "RlSwapGo":
		m = rel("rl")
	case "RlFinish", "UnlFinish":
		m = rel("rl")
		waitLoader = true
	case "FanEof":
		close(w.lines)
		w.closed = true
	default:
		vh.Fatal("unknown action %q", st.A)
	}
	if m != nil {
		return m
	}
	if waitLoader {
		t := time.NewTimer(w.dl)
		select {
		case err := <-w.rlDone:
			w.rlDone = nil
			if err != nil {
				return &mismatch{Step: i, Kind: "error", Why: "load returned " + err.Error()}
			}
		case <-t.C:
			return &mismatch{Step: i, Kind: "timeout", Why: "LoadProgram/UnloadProgram did not return"}
		}
		t.Stop()
	}
	if m = w.await(i, st.Exp, t0); m != nil {
		return m
	}
	if len(st.Exp) == 0 && (st.A == "Unload" || st.A == "RlLock") {
		// the model has the loader blocked in (or past) handleMu.Lock() and no hook point announces it
		t := time.Now()
		for !w.rt.VerifHandleLockBusy() {
			if time.Since(t) > w.dl {
				return &mismatch{Step: i, Kind: "timeout", Why: "the loader does not reach handleMu.Lock()"}
			}
			runtime.Gosched()
		}
	}
	for p := 1; p <= w.c.NProgs; p++ {
		want := int64(0)
		if g := st.G[p-1]; g[0] != 0 {
			want = g[0]*10 + g[1]
		}
		got := w.gauge(p)
		if got < 0 && want == 0 {
			continue // program not loaded yet
		}
		if got != want {
			return &mismatch{Step: i, Kind: "gauge", Why: fmt.Sprintf("gauge g%d after %s", p, st.A), Got: got, Want: want}
		}
	}
	return nil
}

// observed per-line processing log and write order, from the hook trace.
func (r *run) observed(nprogs int) (procd [][]int, writes [][][]int) {
	writes = make([][][]int, nprogs)
	for p := range writes {
		writes[p] = [][]int{}
	}
	procd = [][]int{}
	for _, m := range r.trace {
		ev := m["ev"]
		if ev != "vm.line.start" && ev != "vm.line.end" {
			continue
		}
		p := m["prog"].(int)
		v := m["vm"].(int) % 100
		l, _ := strconv.Atoi(m["line"].(string))
		if ev == "vm.line.start" {
			procd = append(procd, []int{p, l, v})
		} else if p >= 1 && p <= nprogs {
			writes[p-1] = append(writes[p-1], []int{l, v})
		}
	}
	return
}

func canon(x [][]int) string {
	s := make([]string, len(x))
	for i, t := range x {
		s[i] = fmt.Sprint(t)
	}
	sort.Strings(s)
	return fmt.Sprint(s)
}

func runCase(c *tcase) (out map[string]any, stuck bool) {
	r := newRun()
	w := &world{r: r, c: c, store: metrics.NewStore(), lines: make(chan *logline.LogLine), dl: 10 * time.Second}
	if c.DeadlineMs > 0 {
		w.dl = time.Duration(c.DeadlineMs) * time.Millisecond
	}
	dir, err := os.MkdirTemp("", "verif-c20-")
	if err != nil {
		vh.Fatal("%v", err)
	}
	defer os.RemoveAll(dir)
	w.dir = dir
	for _, p := range c.Init {
		w.writeProg(p, 1)
	}
	cur.Store(r)
	defer cur.Store(nil)
	w.rt, err = mrt.New(w.lines, &w.wg, dir, w.store)
	if err != nil {
		vh.Fatal("runtime.New: %v", err)
	}
	var mm *mismatch
	// the initial load: reg + swapped of version 1 of every initial program
	var init0 []mev
	for _, p := range c.Init {
		init0 = append(init0, mev{E: "reg", P: p, V: 1}, mev{E: "swapped", P: p, V: 1})
	}
	mm = w.await(-1, init0, 0)
	r.mu.Lock()
	r.gating = true
	r.mu.Unlock()
	done := 0
	for i, st := range c.Steps {
		if mm != nil {
			break
		}
		mm = w.do(i, st)
		if mm == nil {
			done++
		}
	}
	obsP, obsW := r.observed(c.NProgs)
	if mm == nil {
		if canon(obsP) != canon(c.Procd) {
			mm = &mismatch{Step: done, Kind: "procd", Why: "per-line processing log (prog, line, version) differs from the model", Got: obsP, Want: c.Procd}
		} else if fmt.Sprint(obsW) != fmt.Sprint(c.Writes) {
			mm = &mismatch{Step: done, Kind: "writes", Why: "order of gauge writes (line, version) differs from the model", Got: obsW, Want: c.Writes}
		}
	}
	// free run to the end
	r.releaseAll()
	fin := make(chan struct{})
	go func() {
		defer close(fin)
		if !w.closed {
			for w.sent < c.NLines {
				w.sent++
				if !w.offer(w.sent) {
					return
				}
			}
		}
		if w.rlDone != nil {
			select {
			case <-w.rlDone:
			case <-time.After(w.dl):
				return
			}
		}
		if !w.closed {
			close(w.lines)
		}
		w.wg.Wait()
	}()
	select {
	case <-fin:
	case <-time.After(10*time.Second + w.dl):
		stuck = true
	}
	gs := make([]int64, c.NProgs)
	for p := 1; p <= c.NProgs; p++ {
		gs[p-1] = w.gauge(p)
	}
	cur.Store(nil)
	out = map[string]any{"id": c.ID, "label": c.Label, "ok": mm == nil && !stuck, "steps_done": done, "nsteps": len(c.Steps),
		"trace": r.trace, "final_gauge": gs, "procd": obsP, "writes": obsW, "stuck": stuck}
	if mm != nil {
		out["mismatch"] = mm
	}
	return
}

// ---------------------------------------------------------------------------
// fuzz (direction B): two programs, seeded random loader operations while
// lines flow; gates only perturb.
func fuzzOne(seed int64, id int) (map[string]any, bool) {
	rng := rand.New(rand.NewSource(seed))
	r := newRun()
	r.sleepAt = map[int64]bool{}
	for k := 0; k < 1+rng.Intn(4); k++ {
		r.sleepAt[int64(8+rng.Intn(60))] = true
	}
	nprogs, nlines := 2, 4+rng.Intn(5)
	c := &tcase{NProgs: nprogs, NLines: nlines}
	w := &world{r: r, c: c, store: metrics.NewStore(), lines: make(chan *logline.LogLine), dl: 10 * time.Second}
	dir, err := os.MkdirTemp("", "verif-c20f-")
	if err != nil {
		vh.Fatal("%v", err)
	}
	defer os.RemoveAll(dir)
	w.dir = dir
	w.writeProg(1, 1)
	if rng.Intn(2) == 0 {
		w.writeProg(2, 1)
	}
	cur.Store(r)
	defer cur.Store(nil)
	w.rt, err = mrt.New(w.lines, &w.wg, dir, w.store)
	if err != nil {
		vh.Fatal("runtime.New: %v", err)
	}
	ver := map[int]int{1: 1, 2: 1}
	loaded := map[int]bool{1: true, 2: false}
	if _, err := os.Stat(filepath.Join(dir, progName(2))); err == nil {
		loaded[2] = true
	}
	nops := 1 + rng.Intn(4)
	type op struct {
		at   int // the operation starts right after line `at` has been taken by the fan-out
		kind int
		p    int
	}
	ops := make([]op, nops)
	for i := range ops {
		ops[i] = op{at: rng.Intn(nlines + 1), kind: rng.Intn(3), p: 1 + rng.Intn(2)}
	}
	sort.SliceStable(ops, func(a, b int) bool { return ops[a].at < ops[b].at })
	reached := make([]chan struct{}, nlines+1)
	for i := range reached {
		reached[i] = make(chan struct{})
	}
	close(reached[0])
	fin := make(chan struct{})
	var ok atomic.Bool
	ok.Store(true)
	go func() {
		defer close(fin)
		var inner sync.WaitGroup
		inner.Add(2)
		go func() {
			defer inner.Done()
			for n := 1; n <= nlines; n++ {
				if !w.offer(n) {
					ok.Store(false)
					for k := n; k <= nlines; k++ {
						close(reached[k])
					}
					return
				}
				close(reached[n])
			}
		}()
		go func() {
			defer inner.Done()
			for _, o := range ops {
				<-reached[o.at]
				path := filepath.Join(dir, progName(o.p))
				switch {
				case o.kind == 2 && loaded[o.p] && o.p == 2:
					w.rt.UnloadProgram(path)
					loaded[o.p] = false
				default:
					ver[o.p]++
					w.writeProg(o.p, ver[o.p])
					if err := w.rt.LoadProgram(path); err != nil {
						ok.Store(false)
					}
					loaded[o.p] = true
				}
			}
		}()
		inner.Wait()
		close(w.lines)
		w.wg.Wait()
	}()
	stuck := false
	select {
	case <-fin:
	case <-time.After(30 * time.Second):
		stuck = true
	}
	cur.Store(nil)
	return map[string]any{"id": id, "fuzz": true, "seed": seed, "ok": ok.Load() && !stuck, "stuck": stuck, "trace": r.trace, "nlines": nlines}, stuck
}

func main() {
	mode := flag.String("mode", "replay", "replay | fuzz")
	n := flag.Int("n", 50, "fuzz: number of runs")
	flag.Set("logtostderr", "true")
	flag.Parse()
	// glog output is noise here; Go runtime panics still reach fd 2
	if devnull, err := os.OpenFile(os.DevNull, os.O_WRONLY, 0); err == nil {
		os.Stderr = devnull
	}
	verifhook.SetSink(sink)
	verifhook.SetGate(gate)
	switch *mode {
	case "fuzz":
		for i := 0; i < *n; i++ {
			out, stuck := fuzzOne(vh.Seed()*100003+int64(i), i)
			vh.Out(out)
			if stuck {
				vh.Out(map[string]any{"abandon": true, "at": i})
				vh.Flush()
				os.Exit(0)
			}
		}
		vh.Out(map[string]any{"summary": true, "cases": *n})
	default:
		cnt, bad := 0, 0
		err := vh.EachCase(func(_ int, raw []byte) error {
			var c tcase
			if err := json.Unmarshal(raw, &c); err != nil {
				return err
			}
			out, stuck := runCase(&c)
			cnt++
			vh.Out(out)
			vh.Flush() // a crash of the code under test in a later case must not lose this result
			if ok, _ := out["ok"].(bool); !ok {
				bad++
				if bad >= 12 && !stuck { // enough evidence: a departing tree is not replayed to the end
					vh.Out(map[string]any{"truncated": true, "at": c.ID})
					vh.Flush()
					os.Exit(0)
				}
			}
			if stuck {
				vh.Out(map[string]any{"abandon": true, "at": c.ID})
				vh.Flush()
				os.Exit(0)
			}
			return nil
		})
		if err != nil {
			vh.Fatal("%v", err)
		}
		vh.Out(map[string]any{"summary": true, "cases": cnt})
	}
	vh.Flush()
}
