//go:build verif

// c09 replays walks over the state graph of spec/Metric.tla (a transition-covering
// set chosen by the check, plus TLC -simulate walks) on a real metrics.Metric; see
// package replay for what is compared after every call.
//
// stdin: one header record {"header":true,"arity":..,"nt":..,"tuples":[..]} then one
// walk per line.  stdout: one record per walk that left the model, then a summary.
package main

import (
	"encoding/json"

	"github.com/google/mtail/internal/verif/c09/replay"
	"github.com/google/mtail/internal/verif/vh"
)

func main() {
	var u *replay.Universe
	n, steps, bad := 0, 0, 0
	err := vh.EachCase(func(_ int, raw []byte) error {
		if u == nil {
			u = &replay.Universe{}
			if err := json.Unmarshal(raw, u); err != nil {
				return err
			}
			if !u.Header {
				vh.Fatal("first record must be the universe header")
			}
			u.Prepare()
			return nil
		}
		var c replay.Case
		if err := json.Unmarshal(raw, &c); err != nil {
			return err
		}
		n++
		steps += len(c.Walk)
		actual, at, why, err := replay.Run(u, &c)
		if err != nil {
			return err
		}
		if at >= 0 {
			bad++
			vh.Out(map[string]any{"mismatch": true, "why": why, "step": at, "case": json.RawMessage(raw), "actual": actual})
		}
		return nil
	})
	if err != nil {
		vh.Fatal("%v", err)
	}
	vh.Out(map[string]any{"summary": true, "cases": n, "steps": steps, "mismatches": bad})
	vh.Flush()
}
