//go:build verif

// Package replay executes walks emitted from spec/Metric.tla on a real
// metrics.Metric and compares, after every call, the projection of the real
// metric with the model's: the LabelValues slice in order (tuple, value,
// timestamp, expiry), the index (for every tuple of the universe the slice
// position its labelValuesMap entry points at), the number of index entries,
// what the call returned (error, created, which element), the EmitLabelSets
// enumeration and the JSON marshalling.  Shared by the C08 and C09 harnesses.
package replay

import (
	"encoding/json"
	"fmt"
	"math"
	"time"

	"github.com/google/mtail/internal/metrics"
	"github.com/google/mtail/internal/metrics/datum"
)

// Universe is the header record: concrete label tuples (strings given as byte values).
type Universe struct {
	Header bool      `json:"header"`
	Arity  int       `json:"arity"`
	NT     int       `json:"nt"`     // the first NT tuples have the right length
	Tuples [][][]int `json:"tuples"` // good tuples then wrong-length tuples
	conc   [][]string
}

func (u *Universe) Prepare() {
	u.conc = make([][]string, len(u.Tuples))
	for i, t := range u.Tuples {
		u.conc[i] = make([]string, len(t))
		for j, s := range t {
			b := make([]byte, len(s))
			for k, c := range s {
				b[k] = byte(c)
			}
			u.conc[i][j] = string(b)
		}
	}
}

// Tuple returns a fresh copy of the concrete tuple number ti (1-based).
func (u *Universe) Tuple(ti int) []string {
	return append([]string(nil), u.conc[ti-1]...)
}

func (u *Universe) index(labels []string) int {
	for i := 0; i < u.NT; i++ {
		if eq(u.conc[i], labels) {
			return i + 1
		}
	}
	return 0
}

func eq(a, b []string) bool {
	if len(a) != len(b) {
		return false
	}
	for i := range a {
		if a[i] != b[i] {
			return false
		}
	}
	return true
}

type Call struct {
	Op string `json:"op"`
	T  int    `json:"t"`
	U  struct {
		F string `json:"f"`
		A int64  `json:"a"`
	} `json:"u"`
	Ts int `json:"ts"`
	E  int `json:"e"`
}

type Obs struct {
	C       Call `json:"c"`
	Err     bool `json:"err"`
	Created bool `json:"created"`
	Pos     int  `json:"pos"`
	T       int  `json:"t"`
}

// State is Proj(M) of Metric.tla.  L rows are [tuple index, value, time, expiry],
// value being a number or, for Buckets, [bucket le 1, bucket +Inf, count, sum].
type State struct {
	L [][]json.RawMessage `json:"l"`
	X []int               `json:"x"`
	N int                 `json:"n"`
}

type Step struct {
	O Obs   `json:"o"`
	S State `json:"s"`
}

type Case struct {
	V    string `json:"v"`
	Walk []Step `json:"walk"`
}

// Actual is what the real metric did in one step, in the model's vocabulary.
type Actual struct {
	Err     bool       `json:"err"`
	Created bool       `json:"created"`
	Pos     int        `json:"pos"`
	S       ActualProj `json:"s"`
}

type ActualProj struct {
	L [][]any `json:"l"`
	X []int   `json:"x"`
	N int     `json:"n"`
}

// model timestamp k>0 -> a fixed instant after every "now" the run can see, so that
// the model's order 0 (stamped by the constructor) < 1 < 2 is the real order
var tsBase = time.Date(2100, 1, 1, 0, 0, 0, 0, time.UTC)

func TsOf(k int) time.Time { return tsBase.Add(time.Duration(k) * time.Hour) }

var strVals = []string{"", "p", "q\xffq"}

func floatOf(a int64) float64 {
	if a == 0 {
		return 0
	}
	return float64(a) + 0.5
}

func typeOf(v string) (metrics.Type, metrics.Kind, error) {
	switch v {
	case "Int":
		return metrics.Int, metrics.Counter, nil
	case "Float":
		return metrics.Float, metrics.Gauge, nil
	case "String":
		return metrics.String, metrics.Text, nil
	case "Buckets":
		return metrics.Buckets, metrics.Histogram, nil
	}
	return 0, 0, fmt.Errorf("unknown metric type %q", v)
}

// NewMetric makes the real metric a walk starts from.
func NewMetric(u *Universe, v string) (*metrics.Metric, error) {
	typ, kind, err := typeOf(v)
	if err != nil {
		return nil, err
	}
	keys := make([]string, u.Arity)
	for i := range keys {
		keys[i] = fmt.Sprintf("k%d", i)
	}
	m := metrics.NewMetric("verif", "prog", kind, typ, keys...)
	if typ == metrics.Buckets {
		m.Buckets = []datum.Range{{Min: 0, Max: 1}, {Min: 1, Max: math.Inf(+1)}}
	}
	return m, nil
}

// value of a datum in the model's vocabulary
func valueOf(v string, d datum.Datum) (any, error) {
	switch v {
	case "Int":
		return datum.GetInt(d), nil
	case "Float":
		f := datum.GetFloat(d)
		if f == 0 {
			return int64(0), nil
		}
		if f-0.5 == math.Trunc(f-0.5) {
			return int64(f - 0.5), nil
		}
		return f, nil
	case "String":
		s := datum.GetString(d)
		for i, x := range strVals {
			if x == s {
				return int64(i), nil
			}
		}
		return "unknown string " + s, nil
	case "Buckets":
		b := datum.GetBuckets(d)
		var c1, c2 uint64
		n := 0
		for r, c := range b.GetBuckets() {
			n++
			switch {
			case r.Max == 1:
				c1 = c
			case math.IsInf(r.Max, +1):
				c2 = c
			default:
				return fmt.Sprintf("unexpected bucket %v", r), nil
			}
		}
		if n != 2 {
			return fmt.Sprintf("%d buckets", n), nil
		}
		return []int64{int64(c1), int64(c2), int64(b.GetCount()), int64(b.GetSum())}, nil
	}
	return nil, fmt.Errorf("unknown metric type %q", v)
}

// model time of a datum: 0 = stamped by the constructor, k = TsOf(k), -1 = anything else
func timeOf(v string, d datum.Datum, t0 time.Time) int {
	t := d.TimeUTC()
	if v == "Buckets" && t.UnixNano() == 0 {
		return 0 // MakeBuckets does not stamp
	}
	if v != "Buckets" && !t.Before(t0) && !t.After(time.Now()) {
		return 0
	}
	k := t.Sub(tsBase) / time.Hour
	if k > 0 && k < 1000 && TsOf(int(k)).Equal(t) {
		return int(k)
	}
	return -1
}

// Project returns Proj(M) of the real metric.
func Project(u *Universe, v string, m *metrics.Metric, t0 time.Time) (ActualProj, error) {
	var p ActualProj
	m.RLock()
	lvs := append([]*metrics.LabelValue(nil), m.LabelValues...)
	m.RUnlock()
	p.L = make([][]any, 0, len(lvs))
	for _, lv := range lvs {
		val, err := valueOf(v, lv.Value)
		if err != nil {
			return p, err
		}
		exp := any(int64(lv.Expiry / time.Hour))
		if lv.Expiry%time.Hour != 0 {
			exp = lv.Expiry.String()
		}
		p.L = append(p.L, []any{u.index(lv.Labels), val, timeOf(v, lv.Value, t0), exp})
	}
	p.X = make([]int, u.NT)
	for i := 0; i < u.NT; i++ {
		m.RLock()
		f := m.FindLabelValueOrNil(u.conc[i])
		m.RUnlock()
		if f == nil {
			continue
		}
		p.X[i] = -1
		for j, lv := range lvs {
			if lv == f {
				p.X[i] = j + 1
				break
			}
		}
	}
	p.N = metrics.VerifIndexLen(m)
	return p, nil
}

func canon(v any) string {
	b, _ := json.Marshal(v)
	return string(b)
}

// poison overwrites a datum that has been removed from the metric: if the metric
// still aliases it, the next projection shows the poison
func poison(v string, d datum.Datum) {
	ts := TsOf(900)
	switch v {
	case "Int":
		datum.SetInt(d, 99, ts)
	case "Float":
		datum.SetFloat(d, 99.5, ts)
	case "String":
		datum.SetString(d, "poison", ts)
	case "Buckets":
		for i := 0; i < 50; i++ {
			datum.Observe(d, 0.5, ts)
		}
	}
}

// Run replays one walk.  It returns the actual observations step by step and, if
// the real metric left the model, the index of that step and why.
func Run(u *Universe, c *Case) (actual []Actual, badStep int, why string, err error) {
	m, err := NewMetric(u, c.V)
	if err != nil {
		return nil, -1, "", err
	}
	t0 := time.Now()
	badStep = -1
	for i, st := range c.Walk {
		call := st.O.C
		before := map[datum.Datum]bool{}
		m.RLock()
		prev := append([]*metrics.LabelValue(nil), m.LabelValues...)
		m.RUnlock()
		for _, lv := range prev {
			before[lv.Value] = true
		}
		var a Actual
		var ret datum.Datum
		var emitted []*metrics.LabelSet
		switch call.Op {
		case "get", "update":
			d, e := m.GetDatum(u.Tuple(call.T)...)
			a.Err = e != nil
			if e == nil {
				ret = d
				a.Created = !before[d]
				if call.Op == "update" {
					ts := TsOf(call.Ts)
					switch call.U.F {
					case "set":
						switch c.V {
						case "Int":
							datum.SetInt(d, call.U.A, ts)
						case "Float":
							datum.SetFloat(d, floatOf(call.U.A), ts)
						case "String":
							datum.SetString(d, strVals[call.U.A], ts)
						default:
							return nil, -1, "", fmt.Errorf("set on %s", c.V)
						}
					case "inc":
						datum.IncIntBy(d, call.U.A, ts)
					case "obs":
						datum.Observe(d, float64(call.U.A), ts)
					default:
						return nil, -1, "", fmt.Errorf("unknown update %q", call.U.F)
					}
				}
			}
		case "remove":
			a.Err = m.RemoveDatum(u.Tuple(call.T)...) != nil
		case "expire":
			a.Err = m.ExpireDatum(time.Duration(call.E)*time.Hour, u.Tuple(call.T)...) != nil
			if !a.Err {
				m.RLock()
				if lv := m.FindLabelValueOrNil(u.Tuple(call.T)); lv != nil {
					ret = lv.Value
				}
				m.RUnlock()
			}
		case "oldest":
			m.RemoveOldestDatum()
		case "emit":
			ch := make(chan *metrics.LabelSet)
			m.RLock()
			go m.EmitLabelSets(ch)
			for ls := range ch {
				emitted = append(emitted, ls)
			}
			m.RUnlock()
		default:
			return nil, -1, "", fmt.Errorf("unknown call %q", call.Op)
		}
		// data that left the slice are poisoned
		m.RLock()
		now := map[*metrics.LabelValue]bool{}
		for _, lv := range m.LabelValues {
			now[lv] = true
		}
		if ret != nil {
			for j, lv := range m.LabelValues {
				if lv.Value == ret {
					a.Pos = j + 1
					break
				}
			}
		}
		m.RUnlock()
		for _, lv := range prev {
			if !now[lv] {
				poison(c.V, lv.Value)
			}
		}
		p, e := Project(u, c.V, m, t0)
		if e != nil {
			return nil, -1, "", e
		}
		a.S = p
		actual = append(actual, a)

		switch {
		case a.Err != st.O.Err:
			why = fmt.Sprintf("%s returned error=%v, model says %v", call.Op, a.Err, st.O.Err)
		case (call.Op == "get" || call.Op == "update") && a.Created != st.O.Created:
			why = fmt.Sprintf("%s created a datum=%v, model says %v", call.Op, a.Created, st.O.Created)
		case (call.Op == "get" || call.Op == "update" || call.Op == "expire") && a.Pos != st.O.Pos:
			why = fmt.Sprintf("%s returned/affected the element at position %d, model says %d", call.Op, a.Pos, st.O.Pos)
		case canon(p.L) != canon(st.S.L):
			why = fmt.Sprintf("LabelValues are %s, model says %s", canon(p.L), canon(st.S.L))
		case canon(p.X) != canon(st.S.X):
			why = fmt.Sprintf("index positions are %s, model says %s", canon(p.X), canon(st.S.X))
		case p.N != st.S.N:
			why = fmt.Sprintf("labelValuesMap has %d entries, model says %d", p.N, st.S.N)
		}
		if why == "" {
			why = checkExports(u, c.V, m, p, emitted, call.Op == "emit", t0)
		}
		if why != "" {
			return actual, i, why, nil
		}
	}
	return actual, -1, "", nil
}

// checkExports: EmitLabelSets and the JSON marshalling list each element of the
// projection exactly once, in order, with its current value.
func checkExports(u *Universe, v string, m *metrics.Metric, p ActualProj, emitted []*metrics.LabelSet, isEmit bool, t0 time.Time) string {
	if !isEmit {
		ch := make(chan *metrics.LabelSet)
		m.RLock()
		go m.EmitLabelSets(ch)
		for ls := range ch {
			emitted = append(emitted, ls)
		}
		m.RUnlock()
	}
	if len(emitted) != len(p.L) {
		return fmt.Sprintf("EmitLabelSets lists %d label sets, the metric has %d", len(emitted), len(p.L))
	}
	for i, ls := range emitted {
		ti, _ := p.L[i][0].(int)
		if ti == 0 {
			continue
		}
		want := u.conc[ti-1]
		if len(ls.Labels) != u.Arity {
			return fmt.Sprintf("EmitLabelSets label set %d has %d labels", i, len(ls.Labels))
		}
		for k, lab := range want {
			if ls.Labels[fmt.Sprintf("k%d", k)] != lab {
				return fmt.Sprintf("EmitLabelSets label set %d carries labels %q, want %q", i, ls.Labels, want)
			}
		}
		val, _ := valueOf(v, ls.Datum)
		if canon(val) != canon(p.L[i][1]) {
			return fmt.Sprintf("EmitLabelSets label set %d carries value %s, the metric has %s", i, canon(val), canon(p.L[i][1]))
		}
	}
	m.RLock()
	b, err := json.Marshal(m)
	m.RUnlock()
	if err != nil {
		return "json.Marshal(metric): " + err.Error()
	}
	var jm struct {
		LabelValues []struct {
			Labels []string
			Value  json.RawMessage
			Expiry int64
		}
	}
	if err := json.Unmarshal(b, &jm); err != nil {
		return "json.Unmarshal(metric): " + err.Error()
	}
	if len(jm.LabelValues) != len(p.L) {
		return fmt.Sprintf("JSON lists %d label values, the metric has %d", len(jm.LabelValues), len(p.L))
	}
	for i, jl := range jm.LabelValues {
		ti, _ := p.L[i][0].(int)
		if ti != 0 {
			// encoding/json coerces invalid UTF-8 to U+FFFD: compare after the same coercion
			wb, _ := json.Marshal(u.conc[ti-1])
			var want []string
			_ = json.Unmarshal(wb, &want)
			if !eq(want, jl.Labels) {
				return fmt.Sprintf("JSON label value %d carries labels %q, want %q", i, jl.Labels, want)
			}
		}
		if exp, ok := p.L[i][3].(int64); ok && jl.Expiry != exp*int64(time.Hour) {
			return fmt.Sprintf("JSON label value %d carries expiry %d, the metric has %dh", i, jl.Expiry, exp)
		}
		var jv struct {
			Value   json.RawMessage
			Time    int64
			Count   *int64
			Sum     *float64
			Buckets map[string]int64
		}
		if err := json.Unmarshal(jl.Value, &jv); err != nil {
			return "json.Unmarshal(datum): " + err.Error()
		}
		var got any
		switch v {
		case "Int":
			var n int64
			_ = json.Unmarshal(jv.Value, &n)
			got = n
		case "Float":
			var f float64
			_ = json.Unmarshal(jv.Value, &f)
			if f == 0 {
				got = int64(0)
			} else {
				got = int64(f - 0.5)
			}
		case "String":
			var s string
			_ = json.Unmarshal(jv.Value, &s)
			got = "unknown string"
			for k, x := range strVals {
				xb, _ := json.Marshal(x)
				var xs string
				_ = json.Unmarshal(xb, &xs)
				if xs == s {
					got = int64(k)
				}
			}
		case "Buckets":
			if jv.Count == nil || jv.Sum == nil {
				return fmt.Sprintf("JSON label value %d has no Count/Sum", i)
			}
			got = []int64{jv.Buckets["1"], jv.Buckets["+Inf"], *jv.Count, int64(*jv.Sum)}
		}
		if canon(got) != canon(p.L[i][1]) {
			return fmt.Sprintf("JSON label value %d carries value %s, the metric has %s", i, canon(got), canon(p.L[i][1]))
		}
		mt, _ := p.L[i][2].(int)
		if mt > 0 && jv.Time != TsOf(mt).UnixNano() {
			return fmt.Sprintf("JSON label value %d carries time %d, the metric has model time %d", i, jv.Time, mt)
		}
	}
	return ""
}
