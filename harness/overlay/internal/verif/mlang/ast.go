//go:build verif

// Package mlang renders the abstract syntax trees emitted by
// /verif/spec/MtailGen.tla to mtail source text, compiles and runs them with
// the real compiler and VM, and projects the resulting metrics.
package mlang

import (
	"encoding/json"
	"fmt"
	"math"
	"regexp"
	"strconv"
	"strings"
)

// Node is any AST node of MtailLang.tla (statements and expressions).
type Node struct {
	N      string          `json:"n"`
	V      json.RawMessage `json:"v,omitempty"`
	P      int             `json:"p,omitempty"`
	G      int             `json:"g,omitempty"`
	Byname bool            `json:"byname,omitempty"`
	Name   string          `json:"name,omitempty"`
	M      string          `json:"m,omitempty"`
	Idx    []*Node         `json:"idx,omitempty"`
	Op     string          `json:"op,omitempty"`
	L      *Node           `json:"l,omitempty"`
	R      *Node           `json:"r,omitempty"`
	S      []string        `json:"s,omitempty"`
	A      bool            `json:"a,omitempty"`
	Neg    bool            `json:"neg,omitempty"`
	F      string          `json:"f,omitempty"`
	Args   []*Node         `json:"args,omitempty"`
	C      *Node           `json:"c,omitempty"`
	T      []*Node         `json:"t,omitempty"`
	E      []*Node         `json:"e,omitempty"`
	He     bool            `json:"he,omitempty"`
	H      int             `json:"h,omitempty"`
	D      *Decl           `json:"d,omitempty"` // a declaration used as a statement inside a block (C24)
}

type Cap struct {
	K    string `json:"k"`
	Name string `json:"name"`
}

type Pattern struct {
	Anch bool     `json:"anch"`
	W    []string `json:"w"`
	Caps []Cap    `json:"caps"`
	Bad  bool     `json:"bad,omitempty"`  // C24: syntactically invalid regular expression
	Long bool     `json:"long,omitempty"` // C24: longer than the configured limit
}

type Decl struct {
	Name   string   `json:"name"`
	Kind   string   `json:"kind"`
	Keys   []string `json:"keys"`
	Ty     string   `json:"ty"`
	Hidden bool     `json:"hidden"`
	// attributes only used by the formatter profile (C23)
	As      string     `json:"as,omitempty"`
	Limit   int        `json:"limit,omitempty"`
	Buckets [][2]int64 `json:"buckets,omitempty"`
}

type Deco struct {
	Name string  `json:"name"`
	Body []*Node `json:"body"`
}

type Program struct {
	Decls []Decl    `json:"decls"`
	Pre   []*Node   `json:"pre"` // never-executed typing statements, rendered before everything else
	Decos []Deco    `json:"decos"`
	Body  []*Node   `json:"body"`
	Pats  []Pattern `json:"pats"`
	// ConstDup (MtailMut class 8): a pattern constant of this name is declared after the metrics and used in one
	// pattern concatenation at the end of the program
	ConstDup string `json:"constdup,omitempty"`
}

type Line struct {
	Toks [][]string `json:"toks"`
	File []string   `json:"file"`
}

func (l Line) Text() string {
	ts := make([]string, len(l.Toks))
	for i, t := range l.Toks {
		ts[i] = strings.Join(t, "")
	}
	return strings.Join(ts, " ")
}

// Regex renders a pattern of the model as the RE2 text the model's Match
// operator stands for.
func (p Pattern) Regex() string {
	if len(p.W) == 0 && len(p.Caps) == 0 && !p.Bad && !p.Long {
		return "$"
	}
	var b strings.Builder
	if p.Anch {
		b.WriteString("^")
	} else {
		b.WriteString("(?:^| )")
	}
	parts := []string{}
	if len(p.W) > 0 {
		parts = append(parts, regexp.QuoteMeta(strings.Join(p.W, "")))
	}
	for _, c := range p.Caps {
		body := map[string]string{"d": `\d+`, "f": `\d+\.\d+`, "s": `\S+`}[c.K]
		if c.Name != "" {
			parts = append(parts, "(?P<"+c.Name+">"+body+")")
		} else {
			parts = append(parts, "("+body+")")
		}
	}
	b.WriteString(strings.Join(parts, " "))
	b.WriteString("(?: |$)")
	if p.Bad {
		b.WriteString("(x")
	}
	if p.Long {
		b.WriteString(strings.Repeat("a?", 600))
	}
	return b.String()
}

// Render options.
type RenderOpts struct {
	FullParens bool // parenthesise every non-primary operand (else: minimal, by parser.y precedence)
	CommaIndex bool // m[a, b] instead of m[a][b]
	SplitPats  bool // render patterns as concatenations, some through const fragments (C23)
}

// precedence levels of parser.y, low to high
func level(n *Node) int {
	switch n.N {
	case "bin":
		switch n.Op {
		case "&&", "||":
			return 1
		case "&", "|", "^":
			return 2
		case "<", "<=", ">", ">=", "==", "!=":
			return 3
		case "<<", ">>":
			return 4
		case "+", "-", "cat":
			return 5
		case "*", "/", "%", "**":
			return 6
		}
	case "smatch", "pmatch":
		return 1 // match_expr is an operand of logical_expr only
	}
	return 9
}

func FloatLit(n, d int64) string {
	f := float64(n) / float64(d)
	s := strconv.FormatFloat(f, 'f', -1, 64)
	if !strings.Contains(s, ".") {
		s += ".0"
	}
	return s
}

type renderer struct {
	p   *Program
	o   RenderOpts
	err error
}

func (r *renderer) operand(n *Node, parentLevel int, right bool) string {
	s := r.expr(n)
	lv := level(n)
	if lv == 9 {
		return s
	}
	if r.o.FullParens || lv < parentLevel || (right && lv == parentLevel) {
		return "(" + s + ")"
	}
	return s
}

func (r *renderer) index(m string, idx []*Node) string {
	if len(idx) == 0 {
		return m
	}
	parts := make([]string, len(idx))
	for i, e := range idx {
		parts[i] = r.expr(e)
	}
	if r.o.CommaIndex {
		return m + "[" + strings.Join(parts, ", ") + "]"
	}
	return m + "[" + strings.Join(parts, "][") + "]"
}

func quote(chars []string) string {
	s := strings.Join(chars, "")
	s = strings.ReplaceAll(s, `\`, `\\`)
	s = strings.ReplaceAll(s, `"`, `\"`)
	return `"` + s + `"`
}

func (r *renderer) expr(n *Node) string {
	switch n.N {
	case "int":
		var v int64
		_ = json.Unmarshal(n.V, &v)
		return strconv.FormatInt(EdgeInt(v), 10)
	case "float":
		var v [2]int64
		_ = json.Unmarshal(n.V, &v)
		return FloatLit(v[0], v[1])
	case "str":
		var v []string
		_ = json.Unmarshal(n.V, &v)
		return quote(v)
	case "cap":
		if n.Byname {
			return "$" + n.Name
		}
		return "$" + strconv.Itoa(n.G)
	case "var":
		return r.index(n.M, n.Idx)
	case "pat":
		if pt := r.p.Pats[n.P-1]; pt.Long && n.P%2 == 0 {
			// over the limit only as a whole: two literals that are each within it
			base := pt
			base.Long = false
			return "/" + strings.ReplaceAll(base.Regex(), "/", `\/`) + strings.Repeat("a?", 300) + "/ + /" + strings.Repeat("a?", 300) + "/"
		}
		re := r.p.Pats[n.P-1].Regex()
		if r.o.SplitPats && len(re) > 8 {
			k := strings.Index(re, ") (")
			if k < 0 {
				k = len(re) / 2
				for k > 0 && re[k-1] == '\\' {
					k--
				}
				// never split inside a group or an escape
				if strings.Count(re[:k], "(") != strings.Count(re[:k], ")") {
					k = 0
				}
			} else {
				k++
			}
			if k > 0 {
				a, b := re[:k], re[k:]
				if n.P%2 == 0 {
					return "/" + strings.ReplaceAll(a, "/", `\/`) + "/ + FRAG" + strconv.Itoa(n.P)
				}
				return "/" + strings.ReplaceAll(a, "/", `\/`) + "/ + /" + strings.ReplaceAll(b, "/", `\/`) + "/"
			}
		}
		return "/" + strings.ReplaceAll(re, "/", `\/`) + "/"
	case "pmatch":
		l := r.expr(n.L)
		if level(n.L) != 9 {
			l = "(" + l + ")"
		}
		return l + " =~ /" + strings.ReplaceAll(r.p.Pats[n.P-1].Regex(), "/", `\/`) + "/"
	case "smatch":
		re := regexp.QuoteMeta(strings.Join(n.S, ""))
		if n.A {
			re = "^" + re
		}
		op := " =~ "
		if n.Neg {
			op = " !~ "
		}
		l := r.expr(n.L)
		if level(n.L) != 9 {
			l = "(" + l + ")"
		}
		return l + op + "/" + strings.ReplaceAll(re, "/", `\/`) + "/"
	case "bin":
		op := n.Op
		if op == "cat" {
			op = "+"
		}
		lv := level(n)
		if n.L.N == "pat" { // pattern_expr logical_op logical_expr : the right side is a whole logical_expr
			return r.expr(n.L) + " " + op + " " + r.expr(n.R)
		}
		if n.R.N == "pmatch" { // logical_expr logical_op match_expr
			return r.operand(n.L, lv, false) + " " + op + " " + r.expr(n.R)
		}
		return r.operand(n.L, lv, false) + " " + op + " " + r.operand(n.R, lv, true)
	case "assign":
		return r.index(n.M, n.Idx) + " = " + r.expr(n.R)
	case "addassign":
		return r.index(n.M, n.Idx) + " += " + r.expr(n.R)
	case "inc":
		return r.index(n.M, n.Idx) + "++"
	case "dec":
		return r.index(n.M, n.Idx) + "--"
	case "call":
		if n.F == "strptime" {
			var li int
			_ = json.Unmarshal(n.Args[1].V, &li)
			return "strptime(" + r.expr(n.Args[0]) + ", \"" + Layouts[li-1] + "\")"
		}
		parts := make([]string, len(n.Args))
		for i, a := range n.Args {
			parts[i] = r.expr(a)
		}
		return n.F + "(" + strings.Join(parts, ", ") + ")"
	}
	r.err = fmt.Errorf("cannot render expression node %q", n.N)
	return "?"
}

// Layouts mirrors MtailLang!Layouts.
var Layouts = []string{"2006-01-02T15:04:05Z07:00", "01/02/2006", "02/01/2006", "01/02"}

func (r *renderer) block(b *strings.Builder, ss []*Node, ind string) {
	for _, s := range ss {
		switch s.N {
		case "cond":
			b.WriteString(ind + r.expr(s.C) + " {\n")
			r.block(b, s.T, ind+"  ")
			if s.He {
				b.WriteString(ind + "} else {\n")
				r.block(b, s.E, ind+"  ")
			}
			b.WriteString(ind + "}\n")
		case "otherwise":
			b.WriteString(ind + "otherwise {\n")
			r.block(b, s.T, ind+"  ")
			b.WriteString(ind + "}\n")
		case "expr":
			b.WriteString(ind + r.expr(s.E[0]) + "\n")
		case "del":
			b.WriteString(ind + "del " + r.index(s.M, s.Idx) + "\n")
		case "delafter":
			b.WriteString(ind + "del " + r.index(s.M, s.Idx) + " after " + strconv.Itoa(s.H) + "h\n")
		case "deco":
			b.WriteString(ind + "@" + s.Name + " {\n")
			r.block(b, s.T, ind+"  ")
			b.WriteString(ind + "}\n")
		case "decl":
			b.WriteString(ind + declText(*s.D) + "\n")
		case "next":
			b.WriteString(ind + "next\n")
		case "stop":
			b.WriteString(ind + "stop\n")
		default:
			r.err = fmt.Errorf("cannot render statement node %q", s.N)
		}
	}
}

// UnmarshalJSON lets the statement field `e` be either an expression (expr
// statement) or a statement list (else block): the model uses the same name.
func (n *Node) UnmarshalJSON(b []byte) error {
	type plain Node
	var raw struct {
		plain
		E json.RawMessage `json:"e,omitempty"`
	}
	if err := json.Unmarshal(b, &raw); err != nil {
		return err
	}
	*n = Node(raw.plain)
	n.E = nil
	if len(raw.E) > 0 {
		if raw.E[0] == '[' {
			return json.Unmarshal(raw.E, &n.E)
		}
		var e Node
		if err := json.Unmarshal(raw.E, &e); err != nil {
			return err
		}
		n.E = []*Node{&e}
	}
	return nil
}

func declText(d Decl) string {
	var b strings.Builder
	if d.Hidden {
		b.WriteString("hidden ")
	}
	b.WriteString(d.Kind + " " + d.Name)
	if len(d.Keys) > 0 {
		b.WriteString(" by " + strings.Join(d.Keys, ", "))
	}
	if d.As != "" {
		b.WriteString(" as " + strconv.Quote(d.As))
	}
	if len(d.Buckets) > 0 {
		bs := make([]string, len(d.Buckets))
		for i, x := range d.Buckets {
			bs[i] = strconv.FormatFloat(float64(x[0])/float64(x[1]), 'f', -1, 64)
		}
		b.WriteString(" buckets " + strings.Join(bs, ", "))
	}
	if d.Limit > 0 {
		b.WriteString(" limit " + strconv.Itoa(d.Limit))
	}
	return b.String()
}

// Render produces mtail source text for the program.
func Render(p *Program, o RenderOpts) (string, error) {
	r := &renderer{p: p, o: o}
	var b strings.Builder
	for _, d := range p.Decls {
		b.WriteString(declText(d) + "\n")
	}
	if o.SplitPats {
		used := map[int]bool{}
		var walk func(ns []*Node)
		walk = func(ns []*Node) {
			for _, n := range ns {
				if n == nil {
					continue
				}
				if n.N == "pat" {
					used[n.P] = true
				}
				walk([]*Node{n.C, n.L, n.R})
				walk(n.T)
				walk(n.E)
				walk(n.Idx)
				walk(n.Args)
			}
		}
		walk(p.Body)
		for _, d := range p.Decos {
			walk(d.Body)
		}
		for i, pt := range p.Pats {
			re := pt.Regex()
			if (i+1)%2 == 0 && len(re) > 8 && used[i+1] {
				k := strings.Index(re, ") (")
				if k < 0 {
					k = len(re) / 2
					for k > 0 && re[k-1] == '\\' {
						k--
					}
					if strings.Count(re[:k], "(") != strings.Count(re[:k], ")") {
						k = 0
					}
				} else {
					k++
				}
				if k > 0 {
					b.WriteString("const FRAG" + strconv.Itoa(i+1) + " /" + strings.ReplaceAll(re[k:], "/", `\/`) + "/\n")
				}
			}
		}
	}
	if p.ConstDup != "" {
		b.WriteString("const " + p.ConstDup + " /x?/\n")
	}
	r.block(&b, p.Pre, "")
	for _, d := range p.Decos {
		b.WriteString("def " + d.Name + " {\n")
		r.block(&b, d.Body, "  ")
		b.WriteString("}\n")
	}
	r.block(&b, p.Body, "")
	if p.ConstDup != "" {
		b.WriteString("/q/ + " + p.ConstDup + " {\n}\n")
	}
	return b.String(), r.err
}

// RenderExpr renders one expression tree (no program context needed unless
// it contains patterns).
func RenderExpr(n *Node, o RenderOpts) (string, error) {
	r := &renderer{p: &Program{}, o: o}
	s := r.expr(n)
	return s, r.err
}

// EdgeInt maps the model's sentinel literals (TLC integers are 32 bit; every |v| > 1e9 is "outside the model" there)
// to the 64-bit boundary values they stand for.  Other values are themselves.
func EdgeInt(v int64) int64 {
	neg := v < 0
	a := v
	if neg {
		a = -v
	}
	var r int64
	switch a {
	case 2000000001:
		if neg {
			return math.MinInt64
		}
		return math.MaxInt64
	case 2000000002:
		r = 1 << 53
	case 2000000003:
		r = 1<<53 + 1
	case 2000000004:
		r = 1 << 62
	case 2000000005:
		r = 3037000500 // just above sqrt(2^63)
	case 2000000006:
		r = 1 << 32
	default:
		return v
	}
	if neg {
		return -r
	}
	return r
}
