//go:build verif

package mlang

import (
	"context"
	"expvar"
	"fmt"
	"math"
	"strings"
	"sync"
	"time"

	"github.com/google/mtail/internal/logline"
	"github.com/google/mtail/internal/metrics"
	"github.com/google/mtail/internal/metrics/datum"
	"github.com/google/mtail/internal/runtime/code"
	"github.com/google/mtail/internal/runtime/compiler"
	"github.com/google/mtail/internal/runtime/vm"
	"github.com/google/mtail/internal/verif/vh"
)

// LV is one projected label set of a metric.
type LV struct {
	Labels []string `json:"l"`
	// exactly one of I/F/S is meaningful, by Type
	I      int64   `json:"i"`
	F      float64 `json:"f"`
	FBits  string  `json:"fs"` // %v of the float, so NaN/Inf survive JSON
	S      string  `json:"s"`
	TimeNs int64   `json:"t"`
	Expiry int64   `json:"e"` // nanoseconds
}

// Met is one projected metric.
type Met struct {
	Name   string   `json:"name"`
	Kind   string   `json:"kind"`
	Type   string   `json:"type"`
	Keys   []string `json:"keys"`
	Hidden bool     `json:"hidden"`
	LVs    []LV     `json:"lvs"`
}

// LineResult is what the real VM did with one line.
type LineResult struct {
	Err     bool   `json:"err"`     // prog_runtime_errors_total advanced
	ErrMsg  string `json:"errmsg"`  // RuntimeErrorString (last error), when Err
	T0      int64  `json:"t0"`      // wall clock before, ns
	T1      int64  `json:"t1"`      // wall clock after, ns
	Metrics []Met  `json:"metrics"` // projection of VM.Metrics after the line
	Panic   string `json:"panic,omitempty"`
}

// Project renders VM.Metrics (hidden ones included) in declaration order.
func Project(ms []*metrics.Metric) []Met {
	out := make([]Met, 0, len(ms))
	for _, m := range ms {
		pm := Met{Name: m.Name, Kind: m.Kind.String(), Type: m.Type.String(), Keys: append([]string{}, m.Keys...), Hidden: m.Hidden}
		m.RLock()
		for _, lv := range m.LabelValues {
			p := LV{Labels: append([]string{}, lv.Labels...), Expiry: int64(lv.Expiry), TimeNs: lv.Value.TimeUTC().UnixNano()}
			switch d := lv.Value.(type) {
			case *datum.Int:
				p.I = d.Get()
			case *datum.Float:
				p.F = d.Get()
				p.FBits = fmt.Sprintf("%v", p.F)
				if math.IsNaN(p.F) || math.IsInf(p.F, 0) {
					p.F = 0
				}
			case *datum.String:
				p.S = d.Get()
			default:
				p.S = lv.Value.ValueString()
			}
			pm.LVs = append(pm.LVs, p)
		}
		m.RUnlock()
		out = append(out, pm)
	}
	return out
}

// Compiled is the outcome of compiling one source text.
type Compiled struct {
	Obj    *code.Object
	Errors string
	Panic  string
}

// Compile runs the real compiler, optionally without the optimiser.
func Compile(name, src string, optimise bool) (c Compiled) {
	defer func() {
		if r := recover(); r != nil {
			c.Panic = fmt.Sprint(r)
		}
	}()
	var opts []compiler.Option
	if !optimise {
		opts = append(opts, compiler.DisableOptimisation())
	}
	cc, err := compiler.New(opts...)
	if err != nil {
		c.Errors = err.Error()
		return
	}
	obj, err := cc.Compile(name, strings.NewReader(src))
	if err != nil {
		c.Errors = err.Error()
	}
	c.Obj = obj
	reuseCheck(name, src, optimise, opts, c)
	return
}

// The program loader keeps ONE compiler.Compiler for every program it ever loads, so compiling a source on a
// compiler that has already compiled (and rejected) other sources must give what a fresh compiler gives.
// reuseCheck compiles every source a second time on such a long-lived compiler; a difference that is reproduced
// from a clean start by the two-step sequence (last rejected source, this source) is printed as a
// "compiler_reuse" record, which every check that compiles programs reports.
var (
	reuseMu     sync.Mutex
	reused      = map[bool]*compiler.Compiler{}
	lastRefused = map[bool][2]string{} // name, source last rejected by the long-lived compiler
	reuseSeen   = map[string]bool{}
)

func outcome(obj *code.Object, err error) string {
	var b strings.Builder
	if err != nil {
		// refused: the wording is not compared (messages print node addresses, and their order comes from map
		// iteration); what must agree is THAT the source is refused, and the object when there is one
		b.WriteString("ERR\n")
	}
	if obj != nil {
		for _, i := range obj.Program {
			fmt.Fprintf(&b, "%s %v|", i.Opcode, i.Operand)
		}
		fmt.Fprintf(&b, "#%q#", obj.Strings)
		for _, r := range obj.Regexps {
			b.WriteString(r.String() + "|")
		}
		for _, m := range obj.Metrics {
			fmt.Fprintf(&b, "%s %v %v %v %v|", m.Name, m.Kind, m.Type, m.Keys, m.Hidden)
		}
	}
	return b.String()
}

func compileOn(cc *compiler.Compiler, name, src string) (out string) {
	defer func() {
		if r := recover(); r != nil {
			out = "PANIC"
		}
	}()
	return outcome(cc.Compile(name, strings.NewReader(src)))
}

func reuseCheck(name, src string, optimise bool, opts []compiler.Option, fresh Compiled) {
	reuseMu.Lock()
	defer reuseMu.Unlock()
	cc := reused[optimise]
	if cc == nil {
		cc, _ = compiler.New(opts...)
		reused[optimise] = cc
	}
	var ferr error
	if fresh.Errors != "" {
		ferr = fmt.Errorf("%s", fresh.Errors)
	}
	want := outcome(fresh.Obj, ferr)
	if fresh.Panic != "" {
		want = "PANIC"
	}
	got := compileOn(cc, name, src)
	prev := lastRefused[optimise]
	if strings.HasPrefix(got, "ERR") || got == "PANIC" {
		lastRefused[optimise] = [2]string{name, src}
	}
	if got == want || reuseSeen[prev[1]+"\x00"+src] {
		return
	}
	reuseSeen[prev[1]+"\x00"+src] = true
	// from a clean start: the last refused source, then this one
	c2, _ := compiler.New(opts...)
	rec := map[string]any{"optimise": optimise, "name": name, "source": src, "fresh": want, "reused": got, "prev_name": prev[0], "prev_source": prev[1]}
	if prev[1] != "" {
		_ = compileOn(c2, prev[0], prev[1])
		again := compileOn(c2, name, src)
		c3, _ := compiler.New(opts...)
		rec["reproduced"] = again != compileOn(c3, name, src)
		rec["reused_again"] = again
	} else {
		rec["reproduced"] = false
	}
	vh.Out(map[string]any{"compiler_reuse": rec})
}

func rtErrors(name string) int64 {
	m, _ := expvar.Get("prog_runtime_errors_total").(*expvar.Map)
	if m == nil {
		return 0
	}
	if v, ok := m.Get(name).(*expvar.Int); ok {
		return v.Value()
	}
	return 0
}

// RunOpts configures the VM.
type RunOpts struct {
	Loc         *time.Location
	CurrentYear bool
}

// Run processes the lines one by one on a fresh VM of the object.
func Run(name string, obj *code.Object, lines []Line, o RunOpts) (*vm.VM, []LineResult) {
	v := vm.New(name, obj, o.CurrentYear, o.Loc, false, false)
	return v, RunOn(v, name, lines)
}

// RunOn processes lines on an existing VM.
func RunOn(v *vm.VM, name string, lines []Line) []LineResult {
	res := make([]LineResult, 0, len(lines))
	ctx := context.Background()
	for _, l := range lines {
		var r LineResult
		before := rtErrors(name)
		r.T0 = time.Now().UnixNano()
		func() {
			defer func() {
				if p := recover(); p != nil {
					r.Panic = fmt.Sprint(p)
				}
			}()
			v.ProcessLogLine(ctx, logline.New(ctx, strings.Join(l.File, ""), l.Text()))
		}()
		r.T1 = time.Now().UnixNano()
		if rtErrors(name) != before {
			r.Err = true
			r.ErrMsg = v.RuntimeErrorString()
		}
		r.Metrics = Project(v.Metrics)
		res = append(res, r)
	}
	return res
}

// CopyState makes the metrics of `to` (a freshly compiled copy of the same
// program) hold the same label sets, values, timestamps and expiry marks as
// `from`, using the public datum setters.
func CopyState(from, to []*metrics.Metric) error {
	if len(from) != len(to) {
		return fmt.Errorf("metric count differs: %d vs %d", len(from), len(to))
	}
	for i, m := range from {
		n := to[i]
		if m.Name != n.Name || m.Type != n.Type {
			return fmt.Errorf("metric %d differs: %s/%v vs %s/%v", i, m.Name, m.Type, n.Name, n.Type)
		}
		if m.Type == metrics.Buckets {
			continue // histograms only occur as the target of a faulting `++`; nothing is ever observed
		}
		// a fresh scalar counter already holds one datum; anything else the copy must not keep
		for _, lv := range append([]*metrics.LabelValue{}, n.LabelValues...) {
			if err := n.RemoveDatum(lv.Labels...); err != nil {
				return err
			}
		}
		for _, lv := range m.LabelValues {
			d, err := n.GetDatum(lv.Labels...)
			if err != nil {
				return err
			}
			ts := time.Unix(0, lv.Value.TimeUTC().UnixNano())
			switch v := lv.Value.(type) {
			case *datum.Int:
				datum.SetInt(d, v.Get(), ts)
			case *datum.Float:
				datum.SetFloat(d, v.Get(), ts)
			case *datum.String:
				datum.SetString(d, v.Get(), ts)
			default:
				return fmt.Errorf("unsupported datum type %T", lv.Value)
			}
			if lv.Expiry != 0 {
				if err := n.ExpireDatum(lv.Expiry, lv.Labels...); err != nil {
					return err
				}
			}
		}
	}
	return nil
}

// FreshPair is the outcome of one line on the long-running VM (A) and on a
// freshly loaded copy whose metrics hold the same values (B).
type FreshPair struct {
	A LineResult `json:"a"`
	B LineResult `json:"b"`
}

// RunFresh is property C05 executed literally: VM A processes the whole
// history; before every line a fresh copy B of the program is compiled, given
// A's metric values, and processes just that line.
func RunFresh(name, src string, lines []Line, o RunOpts) ([]FreshPair, error) {
	ca := Compile(name, src, true)
	if ca.Obj == nil || ca.Errors != "" {
		return nil, fmt.Errorf("compile: %s%s", ca.Errors, ca.Panic)
	}
	a := vm.New(name, ca.Obj, o.CurrentYear, o.Loc, false, false)
	var out []FreshPair
	for i, l := range lines {
		bn := fmt.Sprintf("%s-fresh%d", name, i)
		cb := Compile(bn, src, true)
		if cb.Obj == nil || cb.Errors != "" {
			return nil, fmt.Errorf("compile fresh: %s%s", cb.Errors, cb.Panic)
		}
		b := vm.New(bn, cb.Obj, o.CurrentYear, o.Loc, false, false)
		if err := CopyState(a.Metrics, b.Metrics); err != nil {
			return nil, err
		}
		ra := RunOn(a, name, []Line{l})
		rb := RunOn(b, bn, []Line{l})
		out = append(out, FreshPair{A: ra[0], B: rb[0]})
	}
	return out, nil
}
