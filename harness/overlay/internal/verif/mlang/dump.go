//go:build verif

package mlang

import (
	"encoding/json"
	"fmt"
	"strconv"
	"strings"

	"github.com/google/mtail/internal/runtime/compiler/ast"
	"github.com/google/mtail/internal/runtime/compiler/parser"
)

// Dump renders the real compiler's AST in a canonical, position-free form:
// declarations with every attribute, statement structure, expression trees
// with their operators, pattern texts and string literals.  Conversions
// inserted by the checker are transparent.
func Dump(n ast.Node) string {
	var b strings.Builder
	dump(&b, n)
	return b.String()
}

func dump(b *strings.Builder, n ast.Node) {
	if n == nil {
		b.WriteString("nil")
		return
	}
	switch v := n.(type) {
	case *ast.StmtList:
		b.WriteString("(block")
		for _, c := range v.Children {
			b.WriteString(" ")
			dump(b, c)
		}
		b.WriteString(")")
	case *ast.ExprList:
		b.WriteString("(list")
		for _, c := range v.Children {
			b.WriteString(" ")
			dump(b, c)
		}
		b.WriteString(")")
	case *ast.CondStmt:
		b.WriteString("(cond ")
		dump(b, v.Cond)
		b.WriteString(" ")
		dump(b, v.Truth)
		b.WriteString(" ")
		dump(b, v.Else)
		b.WriteString(")")
	case *ast.IDTerm:
		b.WriteString("(id " + v.Name + ")")
	case *ast.CaprefTerm:
		b.WriteString("(capref " + v.Name + " " + strconv.FormatBool(v.IsNamed) + ")")
	case *ast.BuiltinExpr:
		b.WriteString("(call " + v.Name + " ")
		dump(b, v.Args)
		b.WriteString(")")
	case *ast.BinaryExpr:
		b.WriteString("(bin " + strconv.Itoa(v.Op) + " ")
		dump(b, v.LHS)
		b.WriteString(" ")
		dump(b, v.RHS)
		b.WriteString(")")
	case *ast.UnaryExpr:
		b.WriteString("(un " + strconv.Itoa(v.Op) + " ")
		dump(b, v.Expr)
		b.WriteString(")")
	case *ast.IndexedExpr:
		b.WriteString("(index ")
		dump(b, v.LHS)
		b.WriteString(" ")
		dump(b, v.Index)
		b.WriteString(")")
	case *ast.VarDecl:
		fmt.Fprintf(b, "(decl kind=%v name=%s hidden=%v exported=%q keys=%q limit=%d buckets=%v)",
			v.Kind, v.Name, v.Hidden, v.ExportedName, v.Keys, v.Limit, v.Buckets)
	case *ast.StringLit:
		b.WriteString("(str " + strconv.Quote(v.Text) + ")")
	case *ast.IntLit:
		b.WriteString("(int " + strconv.FormatInt(v.I, 10) + ")")
	case *ast.FloatLit:
		b.WriteString("(float " + strconv.FormatFloat(v.F, 'g', -1, 64) + ")")
	case *ast.PatternExpr:
		b.WriteString("(pattern ")
		dump(b, v.Expr)
		b.WriteString(")")
	case *ast.PatternLit:
		b.WriteString("(re " + strconv.Quote(v.Pattern) + ")")
	case *ast.PatternFragment:
		b.WriteString("(const ")
		dump(b, v.ID)
		b.WriteString(" ")
		dump(b, v.Expr)
		b.WriteString(")")
	case *ast.DecoDecl:
		b.WriteString("(def " + v.Name + " ")
		dump(b, v.Block)
		b.WriteString(")")
	case *ast.DecoStmt:
		b.WriteString("(deco " + v.Name + " ")
		dump(b, v.Block)
		b.WriteString(")")
	case *ast.NextStmt:
		b.WriteString("(next)")
	case *ast.OtherwiseStmt:
		b.WriteString("(otherwise)")
	case *ast.DelStmt:
		b.WriteString("(del " + v.Expiry.String() + " ")
		dump(b, v.N)
		b.WriteString(")")
	case *ast.ConvExpr:
		dump(b, v.N)
	case *ast.StopStmt:
		b.WriteString("(stop)")
	case *ast.Error:
		b.WriteString("(error " + strconv.Quote(v.Spelling) + ")")
	default:
		fmt.Fprintf(b, "(unknown %T)", n)
	}
}

// binOp maps the model's operator spelling to the parser's token number (as printed by Dump).
var binOp = map[string]int{"+": parser.PLUS, "-": parser.MINUS, "*": parser.MUL, "/": parser.DIV, "%": parser.MOD, "**": parser.POW}

// DumpModel renders a MODEL expression tree (literals, $n, arithmetic operators) in the format of Dump.
func DumpModel(n *Node) string {
	switch n.N {
	case "int":
		var v int64
		_ = json.Unmarshal(n.V, &v)
		return "(int " + strconv.FormatInt(v, 10) + ")"
	case "float":
		var v [2]int64
		_ = json.Unmarshal(n.V, &v)
		return "(float " + strconv.FormatFloat(float64(v[0])/float64(v[1]), 'g', -1, 64) + ")"
	case "cap":
		return "(capref " + strconv.Itoa(n.G) + " false)"
	case "bin":
		return "(bin " + strconv.Itoa(binOp[n.Op]) + " " + DumpModel(n.L) + " " + DumpModel(n.R) + ")"
	}
	return "(model? " + n.N + ")"
}
