//go:build verif

// vmx exports the REAL bytecode of each program (for spec/VM.tla to explore)
// and runs the real VM on the lines with pc tracing on, recording for every
// line the executed pc sequence and how the line ended.
package main

import (
	"context"
	"encoding/json"
	"expvar"
	"fmt"
	"os"
	"regexp"
	"strings"
	"time"

	"github.com/google/mtail/internal/logline"
	"github.com/google/mtail/internal/runtime/code"
	"github.com/google/mtail/internal/runtime/vm"
	"github.com/google/mtail/internal/verif/mlang"
	"github.com/google/mtail/internal/verif/vh"
)

type tcase struct {
	Seed     int64         `json:"seed"`
	Prog     mlang.Program `json:"prog"`
	Lines    []mlang.Line  `json:"lines"`
	Src      string        `json:"src"`
	RawLines []string      `json:"rawlines"`
	Name     string        `json:"name"`
}

type instr struct {
	Op string `json:"op"`
	Ok string `json:"ok"` // operand kind: nil int i64 f64 bool dur str other
	Ov int64  `json:"ov"` // integer value of the operand, -1 when not an integer
}

type met struct {
	Ty string `json:"ty"`
	Nk int    `json:"nk"`
}

type trace struct {
	Pcs      []int  `json:"pcs"`
	Err      bool   `json:"err"`
	Internal bool   `json:"internal"`
	Msg      string `json:"msg,omitempty"`
	Line     string `json:"line"`
}

func export(obj *code.Object) ([]instr, []met, []int) {
	var is []instr
	for _, i := range obj.Program {
		x := instr{Op: i.Opcode.String(), Ok: "other", Ov: -1}
		switch i.Opcode { // opcodes the name table of package code does not list
		case code.Dec:
			x.Op = "dec"
		case code.Expire:
			x.Op = "expire"
		case code.Bad:
			x.Op = "bad"
		}
		switch v := i.Operand.(type) {
		case nil:
			x.Ok = "nil"
		case int:
			x.Ok, x.Ov = "int", int64(v)
		case int64:
			x.Ok = "i64"
			if v > -1000000000 && v < 1000000000 {
				x.Ov = v
			}
		case float64:
			x.Ok = "f64"
		case bool:
			x.Ok = "bool"
		case time.Duration:
			x.Ok = "dur"
		case string:
			x.Ok = "str"
		}
		if x.Ok == "i64" && x.Ov < 0 {
			x.Ov = -1
		}
		is = append(is, x)
	}
	var ms []met
	for _, m := range obj.Metrics {
		ms = append(ms, met{Ty: m.Type.String(), Nk: len(m.Keys)})
	}
	var res []int
	for _, r := range obj.Regexps {
		res = append(res, r.NumSubexp()+1)
	}
	return is, ms, res
}

var internalPat = regexp.MustCompile(`unexpected int type|unexpected float type|unexpected type for string|Unexpected type to|panic in thread|Invalid re index|Invalid operand|illegal instruction|Unexpected value on stack|Failed to pop a timestamp|unexpected operator type|dload \(GetDatum\) failed|del \(RemoveDatum\) failed|int32 index out of range`)
var cannotCompare = regexp.MustCompile(`cannot compare (\S+) .* with (\S+) `)

func isInternal(msg string) bool {
	first := strings.SplitN(msg, "\n", 2)[0]
	if internalPat.MatchString(first) {
		return true
	}
	if m := cannotCompare.FindStringSubmatch(first); m != nil {
		return m[1] != "string" && m[2] != "string"
	}
	return false
}

func rtErrors(name string) int64 {
	m, _ := expvar.Get("prog_runtime_errors_total").(*expvar.Map)
	if m == nil {
		return 0
	}
	if v, ok := m.Get(name).(*expvar.Int); ok {
		return v.Value()
	}
	return 0
}

func main() {
	n := 0
	outPath := ""
	if len(os.Args) > 2 && os.Args[1] == "-progs" {
		outPath = os.Args[2]
		os.Args = append(os.Args[:1], os.Args[3:]...)
	}
	var pf *os.File
	if outPath != "" {
		var err error
		pf, err = os.Create(outPath)
		if err != nil {
			vh.Fatal("%v", err)
		}
		defer pf.Close()
	}
	err := vh.EachCase(func(_ int, raw []byte) error {
		var c tcase
		if err := json.Unmarshal(raw, &c); err != nil {
			return err
		}
		n++
		src := c.Src
		if src == "" {
			var rerr error
			src, rerr = mlang.Render(&c.Prog, mlang.RenderOpts{FullParens: c.Seed%2 == 0, CommaIndex: c.Seed%3 == 0})
			if rerr != nil {
				vh.Fatal("render: %v", rerr)
			}
		} else {
			for _, rl := range c.RawLines {
				toks := [][]string{}
				if rl != "" {
					for _, t := range strings.Split(rl, " ") {
						toks = append(toks, []string{t})
					}
				}
				c.Lines = append(c.Lines, mlang.Line{Toks: toks, File: []string{"log"}})
			}
		}
		name := c.Name
		if name == "" {
			name = fmt.Sprintf("v%d.mtail", c.Seed)
		}
		out := map[string]any{"seed": c.Seed, "src": src, "name": name}
		cc := mlang.Compile(name, src, true)
		if cc.Panic != "" {
			out["compile_panic"] = cc.Panic
		}
		if cc.Obj == nil || cc.Errors != "" || cc.Panic != "" {
			out["accepted"] = false
			out["errors"] = cc.Errors
			vh.Out(out)
			return nil
		}
		out["accepted"] = true
		is, ms, res := export(cc.Obj)
		v := vm.New(name, cc.Obj, false, nil, false, true)
		ctx := context.Background()
		var trs []trace
		for _, l := range c.Lines {
			v.VerifResetTrace()
			before := rtErrors(name)
			t := trace{Line: l.Text()}
			func() {
				defer func() {
					if p := recover(); p != nil {
						t.Err, t.Internal, t.Msg = true, true, "PANIC escaped the VM: "+fmt.Sprint(p)
					}
				}()
				v.ProcessLogLine(ctx, logline.New(ctx, strings.Join(l.File, ""), l.Text()))
			}()
			t.Pcs = v.VerifTrace()
			if t.Pcs == nil {
				t.Pcs = []int{}
			}
			if rtErrors(name) != before && t.Msg == "" {
				t.Err = true
				t.Msg = strings.SplitN(v.RuntimeErrorString(), "\n", 2)[0]
				t.Internal = isInternal(t.Msg)
			}
			trs = append(trs, t)
		}
		rec := map[string]any{"id": c.Seed, "prog": is, "mets": ms, "nstr": len(cc.Obj.Strings), "re": res, "traces": trs}
		if is == nil {
			rec["prog"] = []instr{}
		}
		if ms == nil {
			rec["mets"] = []met{}
		}
		if res == nil {
			rec["re"] = []int{}
		}
		if trs == nil {
			rec["traces"] = []trace{}
		}
		if pf != nil {
			b, _ := json.Marshal(rec)
			pf.Write(b)
			pf.Write([]byte("\n"))
		}
		out["ninstr"] = len(is)
		out["traces"] = trs
		vh.Out(out)
		return nil
	})
	if err != nil {
		vh.Fatal("%v", err)
	}
	vh.Out(map[string]any{"summary": true, "cases": n})
	vh.Flush()
}
