//go:build verif

// Package rtx is the replay engine shared by the C14, C26 and C06 harness
// binaries.  It replays histories emitted by TLC from spec/Runtime.tla on a
// real runtime.Runtime + metrics.Store + Prometheus exporter:
//
//   - a fresh temporary program directory, store, runtime (harness-owned
//     `lines` channel) and registry per case;
//   - every step is a list of concrete operations (write/remove/rename a
//     program file, mkdir, LoadAllPrograms, UnloadProgram, send a line, Gc);
//   - a line is complete when the fan-out loop has reported `rt.line.recv`
//     (it then holds handleMu.RLock), a Lock/Unlock barrier on handleMu has
//     passed (the line was offered to every handle) and as many `vm.line.end`
//     as `rt.line.sent` hook events for the line have been seen - never a sleep;
//   - after every step the observation (store projection, prog_* counter
//     deltas, handles, a real Prometheus scrape through promhttp, the
//     rt.load.*/rt.unload hook events of the step) is compared with the
//     model's observation for the corrected design (`want`) and, when the
//     check supplies one, with the model's observation under the open
//     deviations (`wantdev`).
package rtx

import (
	"context"
	"encoding/json"
	"expvar"
	"fmt"
	"net/http/httptest"
	"os"
	"path/filepath"
	"reflect"
	"sort"
	"strconv"
	"strings"
	"sync"
	"time"

	"github.com/google/mtail/internal/exporter"
	"github.com/google/mtail/internal/logline"
	"github.com/google/mtail/internal/metrics"
	"github.com/google/mtail/internal/metrics/datum"
	"github.com/google/mtail/internal/runtime"
	"github.com/google/mtail/internal/runtime/vm"
	"github.com/google/mtail/internal/verif/vh"
	"github.com/google/mtail/internal/verifhook"
	"github.com/prometheus/client_golang/prometheus"
	"github.com/prometheus/client_golang/prometheus/promhttp"
	"github.com/prometheus/common/expfmt"
)

// Op is one concrete operation of a step.
type Op struct {
	Op   string `json:"op"` // write rm mv mkdir loadall loadprog unload line gc
	File string `json:"file,omitempty"`
	To   string `json:"to,omitempty"`
	Src  string `json:"src,omitempty"`
	Cid  string `json:"cid,omitempty"` // the model's content id of Src
	Text string `json:"text,omitempty"`
}

// Step is a list of operations followed by one observation.
type Step struct {
	Ops     []Op            `json:"ops"`
	Want    json.RawMessage `json:"want,omitempty"`
	WantDev json.RawMessage `json:"wantdev,omitempty"`
}

// Case is one history.
type Case struct {
	ID    string   `json:"id"`
	Names []string `json:"names"` // program names whose counters are observed
	Scope string   `json:"scope"` // "" = compare everything, "loaded" = store/series of running programs only
	Steps []Step   `json:"steps"`
	Dump  bool     `json:"dump,omitempty"` // output every observation (probing / replay files)
	// OmitSource runs the runtime with the OmitMetricSource option (Metric.Source = "")
	OmitSource bool `json:"omit_source,omitempty"`
}

// LV is one label value of a metric.
type LV struct {
	L []string `json:"l"`
	V float64  `json:"v"`
	E int      `json:"e"` // pending expiry in hours (0 = none)
	O bool     `json:"o"` // datum timestamp older than one hour
}

// Met is the projection of one metrics.Metric of the store.
type Met struct {
	N    string   `json:"n"`
	P    string   `json:"p"`
	K    string   `json:"k"`
	T    string   `json:"t"`
	S    int      `json:"s"` // source line of the declaration
	Keys []string `json:"keys"`
	Lvs  []LV     `json:"lvs"`
}

// Run is one program handle.
type Run struct {
	P   string `json:"p"`
	Cid string `json:"cid"`
	VM  int    `json:"vm"` // serial number of the rt.load.swapped event that installed the VM
}

// Ser is one scraped series.
type Ser struct {
	N string            `json:"n"`
	L map[string]string `json:"l"`
	V float64           `json:"v"`
}

// Obs is what is compared after every step.
type Obs struct {
	Store    []Met            `json:"store"`
	Loads    map[string]int64 `json:"loads"`
	Unloads  map[string]int64 `json:"unloads"`
	Lerr     map[string]int64 `json:"lerr"`
	Rterr    map[string]int64 `json:"rterr"`
	Run      []Run            `json:"run"`
	ScrapeOK bool             `json:"scrape_ok"`
	Series   []Ser            `json:"series"`
	Ev       [][]string       `json:"ev"`
	ScrapeEr string           `json:"scrape_err,omitempty"`
}

type engine struct {
	mu      sync.Mutex
	cond    *sync.Cond
	evs     []verifhook.Event
	recvN   map[string]int // line text -> nprogs reported by rt.line.recv
	sentN   map[string]int
	endN    map[string]int
	vmSer   map[*vm.VM]int
	disk    map[string]string // program file -> content id last written there by the harness
	vmCid   map[*vm.VM]string // content id of the file at the moment the VM was installed
	nSwap   int
	keepVMs []*vm.VM
}

func (e *engine) sink(ev verifhook.Event) {
	e.mu.Lock()
	switch ev.Ev {
	case "rt.line.recv":
		e.recvN[ev.Get("line").(string)] = ev.Get("nprogs").(int)
	case "rt.line.sent":
		e.sentN[ev.Get("line").(string)]++
	case "vm.line.end":
		e.endN[ev.Get("line").(string)]++
	case "rt.load.swapped":
		v := ev.Get("vm").(*vm.VM)
		e.nSwap++
		e.vmSer[v] = e.nSwap
		if p, ok := ev.Get("prog").(string); ok {
			e.vmCid[v] = e.disk[p]
		}
		e.keepVMs = append(e.keepVMs, v) // keep alive: addresses stay unique within the case
		e.evs = append(e.evs, ev)
	case "rt.load.unchanged", "rt.load.compile_error", "rt.load.add", "rt.load.registered", "rt.load.closed_old", "rt.unload", "vm.error":
		e.evs = append(e.evs, ev)
	}
	e.cond.Broadcast()
	e.mu.Unlock()
}

func expMap(name string, key string) int64 {
	m, _ := expvar.Get(name).(*expvar.Map)
	if m == nil {
		return 0
	}
	if v, ok := m.Get(key).(*expvar.Int); ok {
		return v.Value()
	}
	return 0
}

var ctrNames = []string{"prog_loads_total", "prog_unloads_total", "prog_load_errors_total", "prog_runtime_errors_total"}

func readCtrs(names []string) map[string]map[string]int64 {
	out := map[string]map[string]int64{}
	for _, c := range ctrNames {
		out[c] = map[string]int64{}
		for _, n := range names {
			out[c][n] = expMap(c, n)
		}
	}
	return out
}

func srcLine(s string) int {
	// "prog.mtail:LINE:COL" or "prog.mtail:LINE:COL-COL"
	parts := strings.Split(s, ":")
	if len(parts) < 2 {
		return 0
	}
	n, _ := strconv.Atoi(parts[len(parts)-2])
	return n
}

func datumVal(d datum.Datum) float64 {
	switch n := d.(type) {
	case *datum.Int:
		return float64(n.Get())
	case *datum.Float:
		return n.Get()
	}
	f, _ := strconv.ParseFloat(d.ValueString(), 64)
	return f
}

func observeStore(s *metrics.Store) []Met {
	names := make([]string, 0, len(s.Metrics))
	for n := range s.Metrics {
		names = append(names, n)
	}
	sort.Strings(names)
	out := []Met{}
	now := time.Now()
	for _, n := range names {
		for _, m := range s.Metrics[n] {
			mm := Met{N: m.Name, P: m.Program, K: m.Kind.String(), T: m.Type.String(), S: srcLine(m.Source),
				Keys: append([]string{}, m.Keys...), Lvs: []LV{}}
			for _, lv := range m.LabelValues {
				mm.Lvs = append(mm.Lvs, LV{L: append([]string{}, lv.Labels...), V: datumVal(lv.Value),
					E: int(lv.Expiry / time.Hour), O: now.Sub(lv.Value.TimeUTC()) > time.Hour})
			}
			out = append(out, mm)
		}
	}
	return out
}

func scrape(reg *prometheus.Registry) (bool, []Ser, string) {
	h := promhttp.HandlerFor(reg, promhttp.HandlerOpts{})
	rec := httptest.NewRecorder()
	req := httptest.NewRequest("GET", "/metrics", nil)
	h.ServeHTTP(rec, req)
	if rec.Code != 200 {
		body := rec.Body.String()
		if len(body) > 300 {
			body = body[:300]
		}
		return false, []Ser{}, fmt.Sprintf("%d %s", rec.Code, body)
	}
	var p expfmt.TextParser
	fams, err := p.TextToMetricFamilies(rec.Body)
	if err != nil {
		return false, []Ser{}, "unparseable exposition: " + err.Error()
	}
	out := []Ser{}
	for name, f := range fams {
		for _, m := range f.Metric {
			s := Ser{N: name, L: map[string]string{}}
			for _, l := range m.Label {
				s.L[l.GetName()] = l.GetValue()
			}
			switch {
			case m.Counter != nil:
				s.V = m.Counter.GetValue()
			case m.Gauge != nil:
				s.V = m.Gauge.GetValue()
			case m.Untyped != nil:
				s.V = m.Untyped.GetValue()
			}
			out = append(out, s)
		}
	}
	sortSeries(out)
	return true, out, ""
}

func serKey(s Ser) string {
	b, _ := json.Marshal(s.L)
	return s.N + "\x00" + string(b)
}

func sortSeries(s []Ser) {
	sort.SliceStable(s, func(i, j int) bool { return serKey(s[i]) < serKey(s[j]) })
}

// normalise makes decoded expectations and real observations comparable.
func normalise(o *Obs, scope map[string]bool) {
	if o.Store == nil {
		o.Store = []Met{}
	}
	if scope != nil {
		st := []Met{}
		for _, m := range o.Store {
			if scope[m.P] {
				st = append(st, m)
			}
		}
		o.Store = st
		se := []Ser{}
		for _, s := range o.Series {
			if scope[s.L["prog"]] {
				se = append(se, s)
			}
		}
		o.Series = se
	}
	for i := range o.Store {
		if o.Store[i].Keys == nil {
			o.Store[i].Keys = []string{}
		}
		if o.Store[i].Lvs == nil {
			o.Store[i].Lvs = []LV{}
		}
		for j := range o.Store[i].Lvs {
			if o.Store[i].Lvs[j].L == nil {
				o.Store[i].Lvs[j].L = []string{}
			}
		}
	}
	if o.Series == nil {
		o.Series = []Ser{}
	}
	for i := range o.Series {
		if o.Series[i].L == nil {
			o.Series[i].L = map[string]string{}
		}
	}
	sortSeries(o.Series)
	if o.Run == nil {
		o.Run = []Run{}
	}
	sort.Slice(o.Run, func(i, j int) bool { return o.Run[i].P < o.Run[j].P })
	if o.Ev == nil {
		o.Ev = [][]string{}
	}
	// the unload order at the end of LoadAllPrograms is a map iteration: sort the trailing run
	k := len(o.Ev)
	for k > 0 && len(o.Ev[k-1]) > 0 && o.Ev[k-1][0] == "unload" {
		k--
	}
	tail := o.Ev[k:]
	sort.Slice(tail, func(i, j int) bool { return strings.Join(tail[i], " ") < strings.Join(tail[j], " ") })
	// the VMs run one line concurrently: their runtime errors come in any order
	for i := 0; i < len(o.Ev); {
		j := i
		for j < len(o.Ev) && len(o.Ev[j]) > 0 && o.Ev[j][0] == "rterr" {
			j++
		}
		if j > i {
			run := o.Ev[i:j]
			sort.Slice(run, func(a, b int) bool { return strings.Join(run[a], " ") < strings.Join(run[b], " ") })
			i = j
		} else {
			i++
		}
	}
	for _, m := range []*map[string]int64{&o.Loads, &o.Unloads, &o.Lerr, &o.Rterr} {
		if *m == nil {
			*m = map[string]int64{}
		}
	}
	o.ScrapeEr = ""
}

func scopeOf(c *Case, want *Obs) map[string]bool {
	if c.Scope != "loaded" {
		return nil
	}
	s := map[string]bool{}
	for _, r := range want.Run {
		s[r.P] = true
	}
	return s
}

func equalObs(c *Case, got Obs, wantRaw json.RawMessage) (bool, string) {
	var want Obs
	if err := json.Unmarshal(wantRaw, &want); err != nil {
		vh.Fatal("case %s: cannot decode expected observation: %v", c.ID, err)
	}
	sc := scopeOf(c, &want)
	g := cloneObs(got)
	normalise(&g, sc)
	normalise(&want, sc)
	if c.Scope == "loaded" {
		// counters of refused loads belong to C25
		g.Lerr, want.Lerr = nil, nil
	}
	type part struct {
		name string
		a, b interface{}
	}
	for _, p := range []part{{"events", g.Ev, want.Ev}, {"handles", g.Run, want.Run}, {"store", g.Store, want.Store},
		{"prog_loads_total", g.Loads, want.Loads}, {"prog_unloads_total", g.Unloads, want.Unloads},
		{"prog_load_errors_total", g.Lerr, want.Lerr}, {"prog_runtime_errors_total", g.Rterr, want.Rterr},
		{"scrape_ok", g.ScrapeOK, want.ScrapeOK}, {"series", g.Series, want.Series}} {
		if !reflect.DeepEqual(p.a, p.b) {
			return false, p.name
		}
	}
	return true, ""
}

func cloneObs(o Obs) Obs {
	b, _ := json.Marshal(o)
	var c Obs
	_ = json.Unmarshal(b, &c)
	return c
}

// runCase executes one case and returns the verdict record.
func runCase(c *Case) map[string]interface{} {
	dir, err := os.MkdirTemp("", "verif-rtx-")
	if err != nil {
		vh.Fatal("mkdtemp: %v", err)
	}
	defer os.RemoveAll(dir)
	e := &engine{recvN: map[string]int{}, sentN: map[string]int{}, endN: map[string]int{}, vmSer: map[*vm.VM]int{}, disk: map[string]string{}, vmCid: map[*vm.VM]string{}}
	e.cond = sync.NewCond(&e.mu)
	verifhook.SetSink(e.sink)
	defer verifhook.SetSink(nil)

	store := metrics.NewStore()
	lines := make(chan *logline.LogLine)
	var wg sync.WaitGroup
	var opts []runtime.Option
	if c.OmitSource {
		opts = append(opts, runtime.OmitMetricSource())
	}
	r, err := runtime.New(lines, &wg, dir, store, opts...)
	if err != nil {
		vh.Fatal("runtime.New: %v", err)
	}
	ctx, cancel := context.WithCancel(context.Background())
	ex, err := exporter.New(ctx, store, exporter.Hostname("verif"))
	if err != nil {
		vh.Fatal("exporter.New: %v", err)
	}
	reg := prometheus.NewRegistry()
	reg.MustRegister(ex) // empty store: registered exactly as mtail.Server does it at start-up
	defer func() {
		close(lines)
		wg.Wait()
		cancel()
		ex.Stop()
	}()

	base := readCtrs(c.Names)
	nline := 0
	allGot := []Obs{}
	okIdeal, okDev := true, true
	firstBadIdeal, firstBadDev := -1, -1
	whyIdeal, whyDev := "", ""

	for si, st := range c.Steps {
		e.mu.Lock()
		e.evs = nil
		e.mu.Unlock()
		var extraEv [][]string
		for _, op := range st.Ops {
			switch op.Op {
			case "write":
				e.mu.Lock()
				e.disk[op.File] = op.Cid
				e.mu.Unlock()
				// write-then-rename so that a reader never sees a half-written file
				tmp := filepath.Join(dir, ".tmp-write")
				if op.Cid == "unread" { // an entry that cannot be opened, whoever runs the harness: a dangling symlink
					_ = os.Remove(tmp)
					if err := os.Symlink(filepath.Join(dir, ".no-such-target"), tmp); err != nil {
						vh.Fatal("symlink: %v", err)
					}
				} else if err := os.WriteFile(tmp, []byte(op.Src), 0o600); err != nil {
					vh.Fatal("write: %v", err)
				}
				if err := os.Rename(tmp, filepath.Join(dir, op.File)); err != nil {
					vh.Fatal("rename: %v", err)
				}
			case "rm":
				e.mu.Lock()
				delete(e.disk, op.File)
				e.mu.Unlock()
				if err := os.RemoveAll(filepath.Join(dir, op.File)); err != nil {
					vh.Fatal("rm: %v", err)
				}
			case "mv":
				e.mu.Lock()
				e.disk[op.To] = e.disk[op.File]
				delete(e.disk, op.File)
				e.mu.Unlock()
				if err := os.Rename(filepath.Join(dir, op.File), filepath.Join(dir, op.To)); err != nil {
					vh.Fatal("mv: %v", err)
				}
			case "mkdir":
				if err := os.Mkdir(filepath.Join(dir, op.File), 0o700); err != nil {
					vh.Fatal("mkdir: %v", err)
				}
				if op.Src != "" { // a valid program inside the subdirectory must never be loaded
					if err := os.WriteFile(filepath.Join(dir, op.File, "inner.mtail"), []byte(op.Src), 0o600); err != nil {
						vh.Fatal("write: %v", err)
					}
				}
			case "loadall":
				// with errorsAbort off a scan reports no error, whatever it met: an error is an observation
				// (an event the model never has), not a harness failure
				if err := r.LoadAllPrograms(); err != nil {
					extraEv = append(extraEv, []string{"loadall_returned_error", err.Error()})
				}
			case "loadprog":
				if err := r.LoadProgram(filepath.Join(dir, op.File)); err != nil {
					extraEv = append(extraEv, []string{"loadprogram_returned_error", err.Error()})
				}
			case "unload":
				// UnloadProgram of a name without a handle dereferences nil: never provoke it,
				// record the disagreement with the model as an event instead
				has := false
				for _, h := range r.VerifC14Handles() {
					has = has || h.Name == op.File
				}
				if has {
					r.UnloadProgram(filepath.Join(dir, op.File))
				} else {
					e.mu.Lock()
					e.evs = append(e.evs, verifhook.Event{Ev: "rt.unload_without_handle", KV: []interface{}{"prog", op.File}})
					e.mu.Unlock()
				}
			case "gc":
				if err := store.Gc(); err != nil {
					vh.Fatal("Gc: %v", err)
				}
			case "line":
				// make every line text unique so that hook events identify it
				nline++
				text := op.Text + " #" + strconv.Itoa(nline)
				lines <- logline.New(context.Background(), "verif.log", text)
				// 1. the fan-out loop has the line and holds handleMu.RLock (rt.line.recv)
				e.mu.Lock()
				for {
					if _, ok := e.recvN[text]; ok {
						break
					}
					e.cond.Wait()
				}
				e.mu.Unlock()
				// 2. it has released the lock again: the line was offered to every handle it meant to
				r.VerifC14Barrier()
				// 3. every VM that took the line has finished it (vm.line.end)
				e.mu.Lock()
				for e.endN[text] < e.sentN[text] {
					e.cond.Wait()
				}
				e.mu.Unlock()
			default:
				vh.Fatal("unknown op %q", op.Op)
			}
		}
		// ---- observe
		var got Obs
		got.Store = observeStore(store)
		now := readCtrs(c.Names)
		delta := func(k string) map[string]int64 {
			m := map[string]int64{}
			for _, n := range c.Names {
				m[n] = now[k][n] - base[k][n]
			}
			return m
		}
		got.Loads, got.Unloads, got.Lerr, got.Rterr = delta(ctrNames[0]), delta(ctrNames[1]), delta(ctrNames[2]), delta(ctrNames[3])
		e.mu.Lock()
		for _, h := range r.VerifC14Handles() {
			cid, ok := e.vmCid[h.VM]
			if !ok || cid == "" {
				cid = "?"
			}
			got.Run = append(got.Run, Run{P: h.Name, Cid: cid, VM: e.vmSer[h.VM]})
		}
		got.Ev = [][]string{}
		for _, ev := range e.evs {
			p, _ := ev.Get("prog").(string)
			switch ev.Ev {
			case "rt.load.add":
				res := "ok"
				if ev.Get("err") != nil {
					if er, isErr := ev.Get("err").(error); isErr && er != nil {
						res = "err"
					}
				}
				got.Ev = append(got.Ev, []string{"add", p, ev.Get("metric").(string), res})
			case "vm.error":
				got.Ev = append(got.Ev, []string{"rterr", p})
			default:
				got.Ev = append(got.Ev, []string{strings.TrimPrefix(strings.TrimPrefix(ev.Ev, "rt.load."), "rt."), p})
			}
		}
		e.mu.Unlock()
		got.Ev = append(got.Ev, extraEv...)
		got.ScrapeOK, got.Series, got.ScrapeEr = scrape(reg)
		allGot = append(allGot, got)

		if st.Want != nil {
			if okIdeal {
				if ok, why := equalObs(c, got, st.Want); !ok {
					okIdeal, firstBadIdeal, whyIdeal = false, si, why
				}
			}
			if okDev {
				w := st.WantDev
				if w == nil {
					w = st.Want
				}
				if ok, why := equalObs(c, got, w); !ok {
					okDev, firstBadDev, whyDev = false, si, why
				}
			}
		}
	}
	res := map[string]interface{}{"id": c.ID}
	switch {
	case okIdeal:
		res["verdict"] = "ok"
	case okDev:
		res["verdict"] = "dev"
		res["step"] = firstBadIdeal
		res["why"] = whyIdeal
	default:
		res["verdict"] = "mismatch"
		res["step"] = firstBadIdeal
		res["why"] = whyIdeal
		res["step_dev"] = firstBadDev
		res["why_dev"] = whyDev
		res["got"] = allGot
	}
	if c.Dump {
		res["got"] = allGot
	}
	return res
}

// Main reads cases from stdin and prints one verdict record per case.
func Main(prop string) {
	n := 0
	counts := map[string]int{}
	err := vh.EachCase(func(_ int, raw []byte) error {
		var c Case
		if err := json.Unmarshal(raw, &c); err != nil {
			return err
		}
		n++
		res := runCase(&c)
		v := res["verdict"].(string)
		counts[v]++
		if v != "ok" || c.Dump {
			vh.Out(res)
		}
		return nil
	})
	if err != nil {
		vh.Fatal("%v", err)
	}
	vh.Out(map[string]interface{}{"summary": true, "prop": prop, "cases": n, "ok": counts["ok"], "dev": counts["dev"], "mismatch": counts["mismatch"]})
	vh.Flush()
}
