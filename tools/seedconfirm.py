#!/usr/bin/env python3
"""tools/seedconfirm.py <seed-out-dir> <package dir for demo_test.go> [test pkgs...]
Independently confirms a seeded change: (1) the demonstration passes on the unchanged tree, (2) the patch applies and builds
(with and without -tags verif), (3) the demonstration fails with the patch, (4) the existing tests of the given packages still pass."""
import os, subprocess, sys, tempfile, shutil, json
out, pkg = os.path.abspath(sys.argv[1]), sys.argv[2]
tests = sys.argv[3:] or ["./" + pkg + "/..."]
env = dict(os.environ, GOFLAGS="-mod=readonly", GOPROXY="off", GOSUMDB="off", GOTOOLCHAIN="local")
wt = tempfile.mkdtemp(prefix="wt-seedconfirm-"); os.rmdir(wt)
subprocess.check_call(["git", "-C", "/repo", "worktree", "add", "-q", wt, "HEAD"])
res = {}
def run(cmd):
    r = subprocess.run(cmd, cwd=wt, env=env, capture_output=True, text=True)
    return r.returncode, (r.stdout + r.stderr)[-1500:]
try:
    demo = [f for f in os.listdir(out) if f.endswith("_test.go")]
    import re
    names = []
    for f in demo:
        names += re.findall(r"^func (Test\w+)\(", open(os.path.join(out, f)).read(), flags=re.M)
    runre = "^(" + "|".join(names) + ")$"
    for f in demo:
        shutil.copy(os.path.join(out, f), os.path.join(wt, pkg, f))
    rc, o = run(["go", "test", "-vet=off", "-count=1", "-run", runre, "./" + pkg])
    res["demo_unchanged_passes"] = rc == 0
    if rc != 0: res["demo_unchanged_out"] = o
    rc, o = run(["git", "apply", os.path.join(out, "patch.diff")])
    if rc != 0:
        rc, o = run(["git", "apply", "--3way", os.path.join(out, "patch.diff")])
        res["patch_needed_3way"] = True
    res["patch_applies"] = rc == 0
    res["build"] = run(["go", "build", "./..."])[0] == 0 and run(["go", "build", "-tags", "verif", "./..."])[0] == 0
    rc, o = run(["go", "test", "-vet=off", "-count=1", "-run", runre, "./" + pkg])
    res["demo_patched_fails"] = rc != 0
    res["demo_patched_out"] = o[-400:]
    for f in demo:
        os.remove(os.path.join(wt, pkg, f))
    # the two tests of internal/mtail that fail on the unchanged tree (empty dhcpd testdata file) are left out
    rc, o = run(["go", "test", "-vet=off", "-count=1", "-skip", "^(TestExamplePrograms|TestFilePipeStreamComparison)$"] + tests)
    res["existing_tests_pass"] = rc == 0
    if rc != 0: res["existing_tests_out"] = o
finally:
    subprocess.call(["git", "-C", "/repo", "worktree", "remove", "--force", wt])
print(json.dumps(res, indent=1))
