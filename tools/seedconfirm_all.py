#!/usr/bin/env python3
"""tools/seedconfirm_all.py [-j N] [ID-prefix ...]   Runs tools/seedconfirm.py for stored seeded changes and records the
outcome in meta.json under "confirmation" (demonstration passes unchanged / patch applies / builds / demonstration
fails patched / existing tests of the touched packages pass)."""
import json, os, subprocess, sys, concurrent.futures as cf
V = "/verif"
args = sys.argv[1:]
jobs = 3
if "-j" in args:
    i = args.index("-j"); jobs = int(args[i + 1]); del args[i:i + 2]
ids = sorted(d for d in os.listdir(V + "/seeded") if os.path.isdir(V + "/seeded/" + d))
if args:
    ids = [d for d in ids if any(d.startswith(a) for a in args)]


def touched_pkgs(meta):
    pk = sorted({"./" + os.path.dirname(f) + "/..." for f in meta["files_touched"] if f.endswith(".go")})
    return pk


def one(sid):
    d = V + "/seeded/" + sid
    meta = json.load(open(d + "/meta.json"))
    pkg = meta["demonstration"]["copy_into"]
    tests = sorted(set(touched_pkgs(meta) + ["./" + pkg + "/..."]))
    r = subprocess.run([sys.executable, V + "/tools/seedconfirm.py", d, pkg] + tests, capture_output=True, text=True)
    try:
        res = json.loads(r.stdout[r.stdout.index("{"):])
    except Exception:
        res = {"error": (r.stdout + r.stderr)[-400:]}
    res.pop("demo_patched_out", None)
    ok = all(res.get(k) for k in ("demo_unchanged_passes", "patch_applies", "build", "demo_patched_fails", "existing_tests_pass"))
    if not ok and not res.get("existing_tests_pass") and res.get("demo_patched_fails"):
        # the suite has load-sensitive tests (logstream timing): once more before believing it
        r2 = subprocess.run([sys.executable, V + "/tools/seedconfirm.py", d, pkg] + tests, capture_output=True, text=True)
        try:
            res2 = json.loads(r2.stdout[r2.stdout.index("{"):])
            res2.pop("demo_patched_out", None)
            res2["first_attempt"] = {k: v for k, v in res.items() if k.endswith("_out")}
            res = res2
            ok = all(res.get(k) for k in ("demo_unchanged_passes", "patch_applies", "build", "demo_patched_fails", "existing_tests_pass"))
        except Exception:
            pass
    meta["confirmation"] = dict(res, all_ok=ok, tests_run=tests)
    json.dump(meta, open(d + "/meta.json", "w"), indent=2)
    print(sid, "OK" if ok else "NOT CONFIRMED %s" % {k: v for k, v in res.items() if not k.endswith("_out")}, flush=True)


with cf.ThreadPoolExecutor(jobs) as ex:
    list(ex.map(one, ids))
