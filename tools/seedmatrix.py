#!/usr/bin/env python3
"""tools/seedmatrix.py [-j N] [--tier quick] [ID-prefix ...]
Re-measures which checks catch which seeded change: for every seeded/<id>/ it applies patch.diff to a scratch
worktree of /repo HEAD (tools/seedtest.py; /repo itself is never touched), runs the check of the broken property and
every check named in meta.json's detection lists against it, rewrites meta.json's "detection"/"measured" and the
results table of seeded/README.md.  exit 1 = the check printed VIOLATION (caught); exit 0 = missed; exit 2 = no verdict."""
import json, os, subprocess, sys, concurrent.futures as cf, datetime
V = "/verif"
args = sys.argv[1:]
jobs, tier = 3, "quick"
if "-j" in args:
    i = args.index("-j"); jobs = int(args[i + 1]); del args[i:i + 2]
if "--tier" in args:
    i = args.index("--tier"); tier = args[i + 1]; del args[i:i + 2]
ids = sorted(d for d in os.listdir(os.path.join(V, "seeded")) if os.path.isdir(os.path.join(V, "seeded", d)))
if args:
    ids = [d for d in ids if any(d.startswith(a) for a in args)]
head = subprocess.check_output(["git", "-C", V, "rev-parse", "--short", "HEAD"], text=True).strip()


def one(sid):
    d = os.path.join(V, "seeded", sid)
    meta = json.load(open(os.path.join(d, "meta.json")))
    det = meta.get("detection", {})
    checks = [meta["breaks_property"]] + [c for c in det.get("caught_by", []) + det.get("missed_by", []) if c != meta["breaks_property"]]
    checks = list(dict.fromkeys(checks))
    r = subprocess.run([sys.executable, os.path.join(V, "tools/seedtest.py"), os.path.join(d, "patch.diff")] + checks + ["--tier", tier],
                       capture_output=True, text=True)
    try:
        res = json.loads(r.stdout.strip().splitlines()[-1])
    except Exception:
        res = {c: {"exit": 2, "violations": 0, "wall_s": 0, "first": (r.stdout + r.stderr)[-300:]} for c in checks}
    det["caught_by"] = [c for c in checks if res.get(c, {}).get("exit") == 1]
    det["missed_by"] = [c for c in checks if res.get(c, {}).get("exit") == 0]
    det["no_verdict"] = [c for c in checks if res.get(c, {}).get("exit") not in (0, 1)]
    meta["detection"] = det
    meta["measured"] = {"verif_commit": head, "tier": tier, "date": datetime.date.today().isoformat(),
                        "command": "python3 tools/seedtest.py seeded/%s/patch.diff %s --tier %s" % (sid, " ".join(checks), tier),
                        "results": res}
    json.dump(meta, open(os.path.join(d, "meta.json"), "w"), indent=2)
    print(sid, {c: res.get(c, {}).get("exit") for c in checks}, flush=True)
    return sid


with cf.ThreadPoolExecutor(jobs) as ex:
    list(ex.map(one, ids))

# ---- README tables (one per round)
allids = sorted(d for d in os.listdir(os.path.join(V, "seeded")) if os.path.isdir(os.path.join(V, "seeded", d)))
rows = {1: [], 2: []}
caught = {1: 0, 2: 0}
for sid in allids:
    m = json.load(open(os.path.join(V, "seeded", sid, "meta.json")))
    det = m["detection"]
    rnd = m.get("round", 1)
    caught[rnd] += bool(det["caught_by"])
    rows[rnd].append("| %s | %s | %s | %s | %s | %s |" % (sid, m["breaks_property"], m.get("kind_of_trigger", ""), ", ".join(det["caught_by"]) or "none",
                                                        ", ".join(det["missed_by"] + ["%s (no verdict)" % c for c in det.get("no_verdict", [])]),
                                                        det.get("strengthening", "").replace("|", "/")))
HDR = "| ID | property | trigger | caught by | missed by | strengthening made |\n|---|---|---|---|---|---|\n"
p = os.path.join(V, "seeded", "README.md")
s = open(p).read()
a = s.index("## Results")
s = s[:a] + ("## Results\n\nCheck id = property id of the check in `/verif/check`.  \"caught by\" / \"missed by\" are measured by "
             "`tools/seedmatrix.py` (each meta.json records the command, the tier, the /verif commit and the first violation line under "
             "`measured`); \"strengthening made\" is what was added to a check because of the seed (empty = the check caught it as it stood).  "
             "Round 1: %d of %d seeds are caught by at least one check.\n\n" % (caught[1], len(rows[1]))) + HDR + "\n".join(rows[1]) + "\n"
if rows[2]:
    s += ("\n## Round 2\n\nA second, independent set of %d changes, written to differ in site and mechanism from round 1 (the authors were "
          "given one-line summaries of the two round-1 changes of their property).  %d of %d are caught by at least one check in the quick tier "
          "(C20-4 by the thorough tier only, see DESIGN.md 10.5b).  Side "
          "observation of the C03 round-2 author, confirmed and repaired: compiling `/(a)(?P<1>b)/` inside a decorator was "
          "nondeterministic (fix eca4fb46 in /repo).\n\n" % (len(rows[2]), caught[2], len(rows[2]))) + HDR + "\n".join(rows[2]) + "\n"
open(p, "w").write(s)
print("caught: round 1 %d of %d, round 2 %d of %d" % (caught[1], len(rows[1]), caught[2], len(rows[2])))
