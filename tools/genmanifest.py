#!/usr/bin/env python3
"""Regenerates /verif/MANIFEST.json from the META dicts of checks/cNN.py."""
import importlib, json, os, sys
V = os.path.dirname(os.path.dirname(os.path.abspath(__file__)))
sys.path.insert(0, os.path.join(V, "lib")); sys.path.insert(0, os.path.join(V, "checks"))
props = [json.loads(l) for l in open(os.path.join(V, "properties.jsonl"))]
na_reasons = {}
p = os.path.join(V, "not_applicable.json")
if os.path.exists(p):
    na_reasons = json.load(open(p))
ready = set(open(os.path.join(V, "ready.txt")).read().split())   # properties whose check the lead has accepted
checks, na, engines = [], [], {}
for pr in props:
    pid = pr["id"]
    f = os.path.join(V, "checks", pid.lower() + ".py")
    if not os.path.exists(f) or pid in na_reasons or pid not in ready:
        na.append({"property_id": pid, "reason": na_reasons.get(pid, "check not built yet (work in progress, see DESIGN.md section 5)")})
        continue
    m = importlib.import_module(pid.lower())
    meta = m.META
    checks.append({
        "property_id": pid,
        "quick_cmd": "./check %s --tier quick" % pid,
        "thorough_cmd": "./check %s --tier thorough" % pid,
        "evidence_file": "/verif/evidence/%s.json" % pid,
        "replay_cmd_template": "./check %s --replay {path}" % pid,
        "engine": "tlc+go-harness",
        "level_claimed": {"category": m.LEVEL, "text": meta["text"], "design_ref": meta.get("design_ref", "DESIGN.md section 5/" + pid)},
        "level_note": meta["note"],
        "technique": meta["technique"],
    })
hooks_commits = []
hp = os.path.join(V, "hooks_commits.txt")
if os.path.exists(hp):
    hooks_commits = [l.split()[0] for l in open(hp) if l.strip() and not l.startswith("#")]
man = {
    "version": 1,
    "setup_cmd": "./tools/setup.sh",
    "hooks": {
        "guard": "verif",
        "enable": "go build -tags verif -overlay <generated: adds /verif/harness/overlay/** to the module, never replaces a file> (lib/vlib.py build())",
        "baseline_off_cmd": "/verif/tools/baseline_off.sh",
        "source_commits": hooks_commits,
        "add_only": True,
    },
    "engines": [
        {"name": "tlc+go-harness", "path": "/verif/check",
         "serves_properties": [c["property_id"] for c in checks],
         "kind_free_text": "TLA+ specifications in /verif/spec checked by TLC; behaviours emitted by TLC are replayed into the real code "
                           "(direction A) and traces recorded from the real code are validated by TLC trace specifications (direction B); "
                           "Go harness compiled into the mtail module with go build -overlay -tags verif"}],
    "checks": checks,
    "notes": "One orchestrator: ./check <ID> --tier quick|thorough [--replay file]. exit 0 held / 1 VIOLATION / 2 infrastructure ERROR. "
             "Known findings: /verif/known_findings.json. VERIF_REPO overrides the repository path (default /repo).",
    "not_applicable": na,
}
json.dump(man, open(os.path.join(V, "MANIFEST.json"), "w"), indent=1)
print("checks:", [c["property_id"] for c in checks], "na:", len(na))
