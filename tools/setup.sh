#!/bin/sh
# Offline setup after a fresh restore: parse every TLA+ module and warm the Go build cache
# by building every harness package from /repo's working tree.
cd "$(dirname "$0")/.." || exit 1
export GOFLAGS=-mod=readonly GOPROXY=off GOSUMDB=off GOTOOLCHAIN=local
python3 - <<'PY'
import sys, os
sys.path.insert(0, "lib")
import vlib
bad = vlib.sany_all()
for fn, out in bad:
    print("SANY FAILED", fn); print(out)
ctx = vlib.Ctx("SETUP")
rc = 1 if bad else 0
try:
    root = os.path.join(vlib.OVERLAY_SRC, "internal", "verif")
    for d in sorted(os.listdir(root)):
        if os.path.exists(os.path.join(root, d, "main.go")):
            try:
                vlib.build(ctx, d)
            except vlib.InfraError as e:
                print("BUILD FAILED", d, e); rc = 1
finally:
    ctx.cleanup()
sys.exit(rc)
PY
