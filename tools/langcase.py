#!/usr/bin/env python3
"""Debug helper: tools/langcase.py <profile> <seed> [DEV_...]  - prints source, model expectation and real result."""
import sys, os, json
sys.path.insert(0, "/verif/lib"); sys.path.insert(0, "/verif/checks")
import vlib, langlib
import langcheck as c01
profile, seed = sys.argv[1], int(sys.argv[2])
devs = sys.argv[3:]
ctx = vlib.Ctx("DBG")
try:
    b = vlib.build(ctx, "lang")
    cases, by = (lambda cs: (cs, c01.replay(ctx, b, cs, "both")))(c01.generate(ctx, profile, seedset=[seed], devs=devs))
    c = cases[0]; rec = by[seed]
    print(rec["runs"][1 if len(rec["runs"]) > 2 else 0]["src"])
    for r in rec["runs"]:
        if not r["accepted"]:
            print("REJECTED", r["mode"], r["opt"], r["errors"])
    for i, l in enumerate(c["lines"]):
        print("LINE %d: %r file=%s" % (i + 1, " ".join("".join(t) for t in l["toks"]), "".join(l["file"])))
        e = c["exp"][i]
        print("  model: err=%s ovf=%s" % (e["err"], e["ovf"]))
        for name, lvs in sorted(e["m"].items()):
            for lv in lvs:
                print("     %s%s = %s  t=%s e=%s" % (name, [langlib.render_str(x) for x in lv["l"]], lv["v"], lv["t"], lv["e"]))
        r = rec["runs"][0]
        if r["accepted"]:
            lr = r["lines"][i]
            print("  real : err=%s %s" % (lr["err"], lr.get("errmsg", "").split("\n")[0][:150]))
            for m in lr["metrics"]:
                for lv in m["lvs"] or []:
                    print("     %s%s = i%s f%s s%r t=%s e=%s (%s)" % (m["name"], lv["l"], lv["i"], lv["fs"], lv["s"], lv["t"], lv["e"], m["type"]))
    out, n, tr = langlib.compare_case(c, rec)
    print("MISMATCHES:", json.dumps(out, indent=1)[:3000])
finally:
    ctx.cleanup()
