#!/usr/bin/env python3
"""tools/seedstore.py <seed-out-dir> <seeded-id> <property> <demo package dir> '<json: check results>' '<needs>'
Stores a confirmed seeded change as /verif/seeded/<id>/ {patch.diff, demo_test.go, notes.md, meta.json}."""
import json, os, shutil, sys
out, sid, prop, pkg, results, needs = sys.argv[1:7]
d = os.path.join("/verif/seeded", sid)
os.makedirs(d, exist_ok=True)
for f in os.listdir(out):
    if f in ("patch.diff", "notes.md") or f.endswith("_test.go") or f.endswith(".go"):
        shutil.copy(os.path.join(out, f), os.path.join(d, f))
meta = {"id": sid, "breaks_property": prop, "needs_to_manifest": needs, "demonstration": {"files": [f for f in os.listdir(d) if f.endswith(".go")], "copy_into": pkg,
        "run": "go test -vet=off -count=1 -run Demo ./%s  (fails with patch.diff applied, passes on the unchanged tree)" % pkg},
        "confirmed_by_lead": "tools/seedconfirm.py: demonstration passes unchanged, patch applies and builds (with and without -tags verif), demonstration fails patched, existing tests of the touched packages pass",
        "checks_run": json.loads(results), "author": "independent sub-agent given only the property text and a scratch worktree"}
json.dump(meta, open(os.path.join(d, "meta.json"), "w"), indent=1)
print("stored", d)
