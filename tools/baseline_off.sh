#!/bin/sh
# Runs the repository's baseline suite with the `verif` guard OFF and compares the
# set of passing tests with /root/.vp/BASELINE.json (stable_pass).  exit 0 iff every
# stable test still passes.
export GOFLAGS=-mod=readonly GOPROXY=off GOSUMDB=off GOTOOLCHAIN=local
REPO=${VERIF_REPO:-/repo}
OUT=$(mktemp)
(cd "$REPO" && go test -json -vet=off -count=1 -timeout 25m ./... > "$OUT" 2>/dev/null)
python3 - "$OUT" <<'PY'
import json, sys
passed=set()
for l in open(sys.argv[1]):
    try: e=json.loads(l)
    except ValueError: continue
    if e.get("Action")=="pass" and e.get("Test"):
        passed.add("%s::%s"%(e["Package"],e["Test"]))
try:
    base=set(json.load(open("/root/.vp/BASELINE.json"))["stable_pass"])
except Exception:
    print("no BASELINE.json; passed=%d"%len(passed)); sys.exit(0)
missing=sorted(base-passed)
print("baseline stable=%d passed_now=%d missing=%d"%(len(base),len(passed),len(missing)))
for m in missing[:40]: print("  MISSING", m)
sys.exit(1 if missing else 0)
PY
rc=$?
rm -f "$OUT"
exit $rc
