#!/usr/bin/env python3
"""tools/seedtest.py <patch.diff> <PROP> [<PROP>...] [--tier quick|thorough] [--seed N]
Applies a seeded change to a scratch worktree of /repo HEAD (never to /repo itself: other jobs may be using it),
runs the named checks against it (VERIF_REPO) and reports which of them print a VIOLATION."""
import os, subprocess, sys, tempfile, shutil, json, time
args = sys.argv[1:]
tier, seed = "quick", "1"
if "--tier" in args:
    i = args.index("--tier"); tier = args[i + 1]; del args[i:i + 2]
if "--seed" in args:
    i = args.index("--seed"); seed = args[i + 1]; del args[i:i + 2]
patch, props = os.path.abspath(args[0]), args[1:]
wt = tempfile.mkdtemp(prefix="wt-seedtest-")
os.rmdir(wt)
subprocess.check_call(["git", "-C", "/repo", "worktree", "add", "-q", wt, "HEAD"])
res = {}
try:
    r = subprocess.run(["git", "-C", wt, "apply", patch], capture_output=True, text=True)
    if r.returncode != 0:       # the tree has moved on since the change was written (fix commits): merge
        r = subprocess.run(["git", "-C", wt, "apply", "--3way", patch], capture_output=True, text=True)
    if r.returncode != 0:
        print("PATCH DOES NOT APPLY:", r.stderr); sys.exit(2)
    env = dict(os.environ, VERIF_REPO=wt, VERIF_SEED=seed)
    for p in props:
        t = time.time()
        r = subprocess.run(["/verif/check", p, "--tier", tier], capture_output=True, text=True, env=env, cwd="/verif")
        lines = [l for l in r.stdout.splitlines() if l.startswith(("VIOLATION", "ERROR", "OK"))]
        res[p] = {"exit": r.returncode, "violations": sum(l.startswith("VIOLATION") for l in lines), "wall_s": round(time.time() - t),
                  "first": next((l for l in (r.stderr.splitlines()) if "violation:" in l), "")[:300]}
        print(p, res[p], flush=True)
finally:
    subprocess.call(["git", "-C", "/repo", "worktree", "remove", "--force", wt])
print(json.dumps(res))
