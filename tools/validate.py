#!/opt/veriftools/pyvenv/bin/python
import json, jsonschema, glob, sys
ok = True
try:
    jsonschema.validate(json.load(open('/verif/MANIFEST.json')), json.load(open('/root/.vp/MANIFEST.schema.json')))
    print('manifest valid')
except Exception as e:
    ok = False; print('MANIFEST INVALID', str(e)[:500])
sch = json.load(open('/root/.vp/EVIDENCE.schema.json'))
for f in sorted(glob.glob('/verif/evidence/*.json')):
    try:
        jsonschema.validate(json.load(open(f)), sch)
    except Exception as e:
        ok = False; print('EVIDENCE INVALID', f, str(e)[:500])
print('evidence files checked:', len(glob.glob('/verif/evidence/*.json')))
sys.exit(0 if ok else 1)
