"""C13 - Prometheus exposition reflects the store exactly.

spec/Expo.tla (Mode "prom"): a state is an abstract store + exporter
configuration, the actions grow the store.  The ideal layer PromIdeal states
the property (one sample per representable label set of every non-text metric:
exported name, keys + prog label, datum as float, type by kind, cumulative
buckets with +Inf = count, timestamp iff enabled; unrepresentable label sets left
out and nothing else).  PromImpl is prometheus.go Collect's loop.  TLC checks
PremiseOK, OneSampleEach, HistOK and RefinesProm on the corrected design,
produces the counterexample of every open deviation, enumerates all small
stores exhaustively and samples large ones (-simulate); every state is printed
as (store, cfg, want, want_dev).

internal/verif/c13 builds each store for real, scrapes it through the real
/metrics handler (registry registered while the store is empty, as mtail.go
does) and through Exporter.Write, parses both with the Prometheus text parser
and compares multisets of samples (+ monotone buckets, +Inf = _count).
"""
import copy
import json

import expo
import vlib

LEVEL = "exploration"
META = {
    "text": "TLC enumerates the abstract stores of spec/Expo.tla exhaustively for small bounds (1 metric of every kind/type x name "
            "class x key class x <=2 label sets of every label-value class; every value token incl. NaN/+-Inf/huge; 2 metrics "
            "sharing a name across programs) and samples stores of <=3 metrics (thorough <=6) x <=3 (5) label sets x <=2 (3) keys "
            "with -simulate, prog label and timestamps on/off; each store is built for real, scraped via the real /metrics handler "
            "and Exporter.Write, parsed with expfmt.TextParser and compared as a multiset of samples with the specification's "
            "PromIdeal (and PromImpl under the open deviations).",
    "note": "Exploration, not proof: exhaustive only within the small bounds, sampled beyond; number formatting and label escaping "
            "are checked through the Prometheus parser only; histogram data come from real Observe calls without NaN observations "
            "(NaN observations are C21's DEV_NaNInNoBucket); metric names colliding only after hyphen replacement are outside the "
            "generated stores.",
    "technique": "TLA+ oracle spec + TLC enumeration/simulation of stores, replayed into the real exporter (direction A)",
    "design_ref": "DESIGN.md 5/C13",
}
DEV = "DEV_CollectDropsRestOfMetric"
SHARED = dict(mm=2, ml=1, mk=1, names=["a-b", "a_b"], progs=["p1", "p2"], kts=["CounterInt"],
              keys=["k1", "k2"], lvals=["a"], shared=True)
# deviation -> constants of a small space in which it matters (for the model-level counterexample)
DEVS = {
    DEV: dict(mm=1, ml=2, mk=1, names=["foo"], kts=["GaugeInt"], keys=["k1"], lvals=["a", "nonutf8"]),
    "DEV_FamilyHelpFromSource": SHARED,
    "DEV_WriteNeedsEqualKeys": SHARED,
}
MODEL_INVS = ["PremiseOK", "OneSampleEach", "HistOK", "RefinesProm"]

NAMES = ["foo", "bar_x", "baz", "a-b", "in valid"]
KEYS = ["k1", "k2", "k3", "prog", "k-x"]
LVALS = ["a", "b", "c", "esc", "nonutf8"]


def presets(ctx):
    """(label, kwargs of expo.constants, simulate, depth)"""
    P = [
        ("bfs-one-metric", dict(mm=1, ml=2, mk=1, mo=1, names=["foo", "a-b", "in valid"], kts=expo.KT_ALL,
                                keys=["k1", "prog", "k-x"], lvals=["a", "esc", "nonutf8"], itoks=["small"], ftoks=["nan"],
                                bounds=["b12"], obs=[0, 3], epoch=True), None, None),
        ("bfs-values", dict(mm=1, ml=1, mk=0, mo=2, names=["foo"], kts=expo.KT_SCALAR + ["HistogramBuckets"],
                            itoks=expo.INT_TOKS, ftoks=expo.FLOAT_TOKS, bounds=["b12", "b0510", "none"], obs=[0, 2, 7]), None, None),
        ("bfs-families", dict(mm=2, ml=1, mk=1, mo=1, names=["foo", "a-b"], progs=["p1", "p2"],
                              kts=["CounterInt", "HistogramBuckets"], keys=["k1"], lvals=["a"], bounds=["b12"], obs=[1]), None, None),
        ("bfs-shared-names", SHARED, None, None),
    ]
    sim = dict(mm=3, ml=3, mk=2, mo=3, names=NAMES, progs=["p1", "p2"], kts=expo.KT_ALL, keys=KEYS, lvals=LVALS,
               itoks=expo.INT_TOKS, ftoks=expo.FLOAT_TOKS, bounds=["b12", "b0510", "none"], obs=[0, 1, 2, 3, 7, 11], epoch=True)
    if ctx.thorough:
        P.append(("bfs-one-metric-wide", dict(mm=1, ml=2, mk=1, mo=2, names=["foo", "a-b", "in valid"], kts=expo.KT_ALL,
                                              keys=["k1", "prog", "k-x"], lvals=["a", "esc", "nonutf8"], itoks=["neg", "huge"],
                                              ftoks=["small", "nan", "pinf"], bounds=["b12"], obs=[0, 1, 2, 3]), None, None))
        P.append(("sim-3x3", sim, 1000, 14))
        P.append(("sim-3x3-shared", dict(sim, names=NAMES + ["a_b"], shared=True), 500, 14))
        big = dict(sim, mm=6, ml=5, mk=3, progs=["p1", "p2", "p3"])
        P.append(("sim-6x5", big, 150, 38))
    else:
        P.append(("sim-3x3", sim, 200, 14))
        P.append(("sim-3x3-shared", dict(sim, names=NAMES + ["a_b"], shared=True), 100, 14))
    return P


def nontrivial(c):
    return len(c["want"]) >= 1


def _verdicts(r):
    return {p: v["verdict"] for p, v in r["paths"].items()}


def _strip(c):
    return {k: c[k] for k in ("id", "store", "cfg", "want", "want_dev")}


def _selftest(ctx, binary, cases):
    """The replay engine must reject a case whose expected value was altered."""
    for c in cases:
        if c["want"] and not (c["blame"]["metrics"] or c["blame"]["write"]) and c["want"][0]["type"] != "histogram":
            bad = copy.deepcopy(_strip(c))
            bad["want"][0]["val"]["uid"] += 1000
            bad["want"][0]["val"]["tok"] = "small"
            bad["want_dev"] = {"metrics": {"ok": True, "samples": bad["want"]}, "write": {"ok": True, "samples": bad["want"]}}
            bad["id"] = 0
            r = expo.run_sharded(ctx, binary, [bad])[0]
            if "none" not in _verdicts(r).values():
                raise vlib.InfraError("self-test: the harness accepted an altered expected sample")
            return
    raise vlib.InfraError("self-test: no case with a scalar sample")


def _classify(c, r, open_devs):
    """-> "ok" | list of open deviations that explain the scrape | None"""
    v = _verdicts(r)
    if all(x == "want" for x in v.values()):
        return "ok"
    used = set()
    for path, x in v.items():
        if x == "want":
            continue
        blamed = set((c.get("blame") or {}).get(path, []))
        if x != "want_dev" or not blamed or not blamed <= open_devs:
            return None
        used |= blamed
    return sorted(used)


def _judge(ctx, binary, cases, open_devs, findings):
    res = expo.run_sharded(ctx, binary, [_strip(c) for c in cases])
    ctx.cov["evaluations"] += len(cases)
    ctx.cov["traces_validated_against_impl"] += len(cases)
    for c in cases:
        if len(ctx.violations) >= 5:      # enough confirmed counterexamples; each costs a fresh process
            break
        r = res[c["id"]]
        k = _classify(c, r, open_devs)
        if k is None:
            r = expo.run_sharded(ctx, binary, [dict(_strip(c), id=0)])[0]      # clean start before reporting
            k = _classify(c, r, open_devs)
        if k == "ok":
            continue
        if k is None:
            ctx.violation({"case": dict(_strip(c), blame=c.get("blame", {})), "got": r["paths"]},
                          "Prometheus exposition differs from the specification: %s" % json.dumps(
                              {p: {q: x.get(q) for q in ("missing", "extra", "bad")} for p, x in r["paths"].items()
                               if x["verdict"] != "want"})[:1500])
            continue
        for d in k:
            findings.setdefault(d, []).append((c, r))


def run(ctx):
    binary = vlib.build(ctx, "c13")
    open_devs = vlib.open_devs(ctx.prop)
    for d in open_devs:
        if d not in DEVS:
            raise vlib.InfraError("known findings name a deviation Expo.tla does not have for C13: %s" % d)
    P = presets(ctx)

    # 1. corrected design (all DEV_ constants off): the implementation-shaped Collect loop and the two scrape paths equal
    #    the ideal sample set, the premise and the histogram laws hold; the same runs print every state as a case, whose
    #    `want_dev` is computed with exactly the open deviations (Explain)
    runs = [(label, expo.constants("prom", random=bool(sim), emit=True, explain=open_devs, **kw),
             MODEL_INVS + ["Emit"], sim, depth) for label, kw, sim, depth in P]
    cases = expo.collect(ctx, runs, coverage_first=True)
    # 2. every open deviation breaks RefinesProm (abstract witness)
    for d in open_devs:
        vlib.expect_dev_counterexample(ctx, "Expo", expo.cfg(expo.constants("prom", emit=False, devs=[d], **DEVS[d]),
                                                             ["RefinesProm"]), d)
    _selftest(ctx, binary, cases)

    # 3. replay
    findings = {}
    _judge(ctx, binary, cases, set(open_devs), findings)
    for d, lst in sorted(findings.items()):
        ent = vlib.open_finding(ctx.prop, d) or {}
        lst.sort(key=lambda cr: (len(cr[0]["blame"]["metrics"]) + len(cr[0]["blame"]["write"]), len(json.dumps(cr[0]["store"]))))
        c, r = lst[0]
        detail = {p: (x.get("missing") or x.get("bad") or [])[:2] for p, x in r["paths"].items() if x["verdict"] != "want"}
        ctx.known_finding(d, "%s [%s] e.g. store %s -> %s" % (
            ent.get("what", ""), ent.get("site", ""),
            json.dumps([{k: m[k] for k in ("name", "prog", "kind", "keys")} | {"labels": [l["labels"] for l in m["lsets"]]}
                        for m in c["store"]], separators=(",", ":")), json.dumps(detail)[:600]))
        ctx.cov.setdefault("cases_explained_by_open_findings", {})[d] = len(lst)

    nt = [c for c in cases if nontrivial(c)]
    ctx.cov["distinct_nontrivial"] = len({expo.store_key(c) for c in nt})
    ctx.cov["exhaustive"] = False
    ctx.cov["rule"] = ("cases = distinct (store, cfg) states of Expo.tla: every state of the exhaustive presets %s and every state of "
                       "%s random behaviours; non-trivial = the specification expects at least one sample (a representable label set "
                       "of a non-text metric exists); distinct by canonical JSON of (store, cfg)" % (
                           [p[0] for p in P if not p[2]], [(p[0], p[2]) for p in P if p[2]]))
    ctx.cov["constants"] = {p[0]: {k: v for k, v in p[1].items()} for p in P}
    ctx.cov["label_sets_max"] = max(expo.n_labelsets(c) for c in cases)
    ctx.cov["cases_with_unrepresentable_label_set"] = sum(1 for c in cases if len(c["want"]) < sum(
        len(m["lsets"]) for m in c["store"] if m["kind"] != "Text"))
    big = sorted(nt, key=lambda c: -len(c["want"]))
    for c in (nt[len(nt) // 2], big[0]):
        ctx.sample({"store": c["store"], "cfg": c["cfg"], "want": c["want"], "origin": c["origin"]})
    ctx.assumptions += [
        "the Prometheus text parser (expfmt.TextParser) and client_golang registry/encoder are trusted",
        "abstraction map internal/verif/expo: tokens -> concrete names, label values, numbers, times (injective, shared by store "
        "construction and expected samples)",
        "histogram data are produced by real datum.Observe calls with finite integer observations",
    ]


def replay(ctx, path):
    binary = vlib.build(ctx, "c13")
    c = json.load(open(path))["case"]["case"]
    r = expo.run_sharded(ctx, binary, [dict(_strip(c), id=0)])[0]
    vlib.log("replay:", _verdicts(r))
    k = _classify(c, r, set(vlib.open_devs(ctx.prop)))
    if k == "ok":
        return
    if k is None:
        ctx.violation({"case": c, "got": r["paths"]}, "Prometheus exposition differs from the specification")
        return
    for d in k:
        ctx.known_finding(d, "replayed case is explained by the open finding")
