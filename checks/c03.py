"""C03 - The compiler terminates on any source text and never crashes."""
import json
import random
import vlib
import langcheck

LEVEL = "exploration"
META = {
    "text": "spec/Lexer.tla is the lexer's state machine over 26 character classes with the parser's InRegex feedback as an input; TLC "
            "checks Progress (every lexProg invocation consumes input or ends the lexing) for all class strings up to length 4 (thorough 5) "
            "and emits the token-kind sequence of each, which must equal what the REAL lexer emits on the concretised string; every such "
            "string, and TLC-generated well-typed programs to which the check applies one seeded byte-level mutation (truncate at any byte, delete/duplicate/swap a token, "
            "insert a class byte, unbalance a bracket/quote/slash, nest an expression up to 300 deep, a 3000-byte regex), is compiled twice by "
            "the real compiler: exactly one of object / non-empty error list, no panic, identical result, within the deadline.",
    "note": "Totality over ALL byte strings is not a model-checking question: exhaustive only for short class strings, sampled beyond; "
            "memory safety and pathological regex compile times are covered only through the inputs tried (deadline 20 s, observed worst case recorded).",
    "technique": "TLA+ lexer automaton with TLC-exhaustive progress check; every enumerated string, and seeded mutants of TLC-generated programs, replayed into the real lexer/compiler",
    "design_ref": "DESIGN.md 5/C03",
}
CLASSES = ["NL", "SP", "DG", "AL", "EE", "SU", "DOT", "MI", "PL", "QU", "BS", "SL", "HA", "DO", "AT", "EQ", "TI", "BA", "LT", "AM", "ST",
           "PU", "US", "OT", "IV", "EA"]
MUTS = ["truncate", "delete", "dup", "swap", "insert", "unbalance", "nest", "longregex"]


def lex_cfg(maxlen, classes):
    return vlib.cfg_text(spec="Spec", constants={"MaxLen": maxlen, "Classes": set(classes), "EmitCases": True},
                         invariants=["TypeOK", "Bounded", "Emit"], properties=["Progress"])


def judge_contract(rec):
    return list(rec["contract"].get("bad") or [])


def naming_family(big):
    names = ["", "1", "2", "x"] + (["3", "y"] if big else [])
    pats = []
    for a in names:
        for b in names:
            pats.append([a, b])
            if big:
                pats += [[a, b, c] for c in names]

    def rx(gs):
        return "".join("(%s%s)" % ("?P<%s>" % g if g else "", ch) for g, ch in zip(gs, "abc"))
    out = []
    for gs in pats:
        refs = ["$1", "$2"] + (["$3"] if len(gs) > 2 else []) + sorted({"$" + g for g in gs if g and not g.isdigit()})
        for ref in refs:
            out.append("counter c by k\n/%s/ {\n  c[%s]++\n}\n" % (rx(gs), ref))
            out.append("counter c by k\ndef d {\n  /%s/ {\n    next\n  }\n}\n@d {\n  c[%s]++\n}\n" % (rx(gs), ref))
            out.append("counter c by k\n/%s/ {\n  /(z)/ {\n    c[%s]++\n  }\n}\n" % (rx(gs), ref))
            if big:
                out.append("counter c by k\ndef d {\n  /%s/ {\n    next\n  }\n}\n@d {\n  /(?P<x>z)/ {\n    c[%s]++\n  }\n}\n" % (rx(gs), ref))
    return out


def run(ctx):
    binary = vlib.build(ctx, "lexx")
    worst = 0.0
    # 1. the lexer automaton: all class strings
    plan = [(3, CLASSES)] + ([(5, CLASSES[:14])] if ctx.thorough else []) + [(4, CLASSES if ctx.thorough else CLASSES[::2] + ["SL", "QU", "BS", "DG"])]
    seen = 0
    for maxlen, classes in plan:
        r = vlib.tlc(ctx, "Lexer", lex_cfg(maxlen, sorted(set(classes))), label="Lexer-%d-%d" % (maxlen, len(set(classes))), timeout=2400, heap="12g")
        recs = [x for x in vlib.run_harness(ctx, binary, cases=[{"src": c["src"], "rx": c["rx"]} for c in r.cases], timeout=2400) if "n" in x]
        if len(recs) != len(r.cases):
            raise vlib.InfraError("lexx processed %d of %d cases" % (len(recs), len(r.cases)))
        ctx.cov["exhaustive"] = True
        for c, rec in zip(r.cases, recs):
            ctx.cov["evaluations"] += 1
            ctx.cov["traces_validated_against_impl"] += 1
            worst = max(worst, rec["contract"].get("secs", 0))
            if len(c["src"]) >= 2:
                seen += 1
            bad = []
            if rec["livelock"]:
                bad.append("the real lexer did not reach EOF within %d tokens" % len(rec["toks"]))
            elif rec["toks"] != c["toks"]:
                bad.append("real lexer tokens %s, Lexer.tla %s" % (rec["toks"], c["toks"]))
            bad += judge_contract(rec)
            if bad and not ctx.enough():
                again = [x for x in vlib.run_harness(ctx, binary, cases=[{"src": c["src"], "rx": c["rx"]}]) if "n" in x][0]
                if again["livelock"] or again["toks"] != c["toks"] or judge_contract(again):
                    ctx.violation({"classes": c["src"], "rx": c["rx"], "text": rec["text"], "model_tokens": c["toks"], "real_tokens": again["toks"],
                                   "mismatches": bad[:3]}, "input %r: %s" % (rec["text"], bad[0][:250]))
        ctx.sample({"classes": r.cases[len(r.cases) // 2]["src"], "tokens": r.cases[len(r.cases) // 2]["toks"]}, limit=2)
    # 2. structured mutants of generated programs
    n = 3000 if ctx.thorough else 400
    lo = ctx.seed * 100000 + 40000
    progs = langcheck.generate(ctx, "lang", lo, lo + n // 4 - 1)
    rnd = random.Random(ctx.seed)
    cases = []
    for i in range(n):
        p = progs[i % len(progs)]
        kind = MUTS[i % len(MUTS)]
        mut = {"kind": kind, "at": rnd.randrange(1001), "arg": rnd.choice(CLASSES),
               "n": rnd.choice([1, 5, 50, 94, 95, 96, 97, 98, 99, 100, 101, 102, 130, 300]) if kind == "nest" else rnd.choice([10, 511, 512, 513, 1500]) if kind == "longregex" else rnd.randrange(64)}
        cases.append({"seed": p["seed"] * 16 + i % 16, "prog": p["prog"], "mut": mut})
    recs = [x for x in vlib.run_harness(ctx, binary, cases=cases, timeout=2400) if "n" in x]
    if len(recs) != len(cases):
        raise vlib.InfraError("lexx processed %d of %d mutants" % (len(recs), len(cases)))
    kinds = {}
    for c, rec in zip(cases, recs):
        ctx.cov["evaluations"] += 1
        worst = max(worst, rec["contract"].get("secs", 0))
        kinds[c["mut"]["kind"]] = kinds.get(c["mut"]["kind"], 0) + 1
        bad = judge_contract(rec)
        if bad and not ctx.enough():
            again = [x for x in vlib.run_harness(ctx, binary, cases=[{"seed": 1, "text": rec["text"]}]) if "n" in x][0]
            bad2 = judge_contract(again)
            if bad2:
                ctx.violation({"text": rec["text"], "mutation": c["mut"], "mismatches": bad2[:3]}, "mutant (%s): %s" % (c["mut"]["kind"], bad2[0][:250]))
    ctx.sample({"mutation": cases[7]["mut"], "text_tail": recs[7]["text"][-200:], "outcome": recs[7]["contract"]["first"]}, limit=3)
    # 3. "the same source twice yields the same bytecode and data": the compiler's symbol tables are Go maps, so a result
    #    that depends on iteration order shows only in some runs.  Family: capture groups whose NAMES collide with the
    #    numbers or names of their neighbours, referenced directly, in a nested block and through a decorator's scope copy;
    #    each text is compiled 1 + reps times.
    fam = naming_family(ctx.thorough)
    frecs = [x for x in vlib.run_harness(ctx, binary, cases=[{"seed": 1, "text": t, "reps": 40} for t in fam], timeout=2400) if "n" in x]
    if len(frecs) != len(fam):
        raise vlib.InfraError("lexx processed %d of %d naming cases" % (len(frecs), len(fam)))
    for t, rec in zip(fam, frecs):
        ctx.cov["evaluations"] += 1
        bad = judge_contract(rec)
        if bad and not ctx.enough():
            again = [x for x in vlib.run_harness(ctx, binary, cases=[{"seed": 1, "text": t, "reps": 200}]) if "n" in x][0]
            bad2 = judge_contract(again)
            if bad2:
                ctx.violation({"text": t, "reps": 200, "mismatches": bad2[:3], "diff": again["contract"].get("diff")},
                              "capture-group naming family: %s; source %r" % (bad2[0][:200], t))
    ctx.cov["naming_family"] = {"texts": len(fam), "compiles_each": 41, "accepted": sum(1 for r in frecs if r["contract"]["first"]["object"])}
    ctx.cov["distinct_nontrivial"] = seen + len(cases)
    ctx.cov["mutants_by_kind"] = kinds
    ctx.cov["worst_compile_seconds"] = round(worst, 3)
    ctx.cov["rule"] = ("all strings over the listed character classes up to the listed length (exhaustive), each lexed by the real lexer and compiled "
                       "twice; non-trivial = length >= 2; plus one mutant per (generated program, mutation kind, seeded position)")
    ctx.assumptions += ["one representative character per class (the lexer dispatches on unicode.IsLetter/IsDigit/IsSpace and fixed characters)",
                        "the 20 s deadline is the bound used for 'finishes in bounded time'"]


def replay(ctx, path):
    binary = vlib.build(ctx, "lexx")
    rc = json.load(open(path))["case"]
    rec = [x for x in vlib.run_harness(ctx, binary, cases=[{"seed": 1, "text": rc["text"], "reps": rc.get("reps", 1)}]) if "n" in x][0]
    bad = judge_contract(rec)
    if rec["contract"].get("diff"):
        print("replay: the two results:\n%s" % json.dumps(rec["contract"]["diff"], indent=1))
    if bad:
        ctx.violation(rc, bad[0][:300])
