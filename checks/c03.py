"""C03 - The compiler terminates on any source text and never crashes."""
import json
import random
import vlib
import langcheck

LEVEL = "exploration"
META = {
    "text": "spec/Lexer.tla is the lexer's state machine over 26 character classes with the parser's InRegex feedback as an input; TLC "
            "checks Progress (every lexProg invocation consumes input or ends the lexing) for all class strings up to length 4 (thorough 5) "
            "and emits the token-kind sequence of each, which must equal what the REAL lexer emits on the concretised string; every such "
            "string, and TLC-generated well-typed programs to which the check applies one seeded byte-level mutation (truncate at any byte, delete/duplicate/swap a token, "
            "insert a class byte, unbalance a bracket/quote/slash, nest an expression up to 300 deep, a 3000-byte regex), is compiled twice by "
            "the real compiler: exactly one of object / non-empty error list, no panic, identical result, within the deadline; two directed "
            "families: capture groups whose NAMES collide with their neighbours' numbers or names, each text compiled 41 times (same "
            "bytecode every time), and decorator definition/use arrangements, one process per text (a compile that kills the process is "
            "attributed to its text).",
    "note": "Totality over ALL byte strings is not a model-checking question: exhaustive only for short class strings, sampled beyond; "
            "memory safety and pathological regex compile times are covered only through the inputs tried (deadline 20 s, observed worst case recorded).",
    "technique": "TLA+ lexer automaton with TLC-exhaustive progress check; every enumerated string, and seeded mutants of TLC-generated programs, replayed into the real lexer/compiler",
    "design_ref": "DESIGN.md 5/C03",
}
CLASSES = ["NL", "SP", "DG", "AL", "EE", "SU", "DOT", "MI", "PL", "QU", "BS", "SL", "HA", "DO", "AT", "EQ", "TI", "BA", "LT", "AM", "ST",
           "PU", "US", "OT", "IV", "EA"]
MUTS = ["truncate", "delete", "dup", "swap", "insert", "unbalance", "nest", "longregex"]


def lex_cfg(maxlen, classes):
    return vlib.cfg_text(spec="Spec", constants={"MaxLen": maxlen, "Classes": set(classes), "EmitCases": True},
                         invariants=["TypeOK", "Bounded", "Emit"], properties=["Progress"])


def judge_contract(rec):
    return list(rec["contract"].get("bad") or [])


def naming_family(big):
    names = ["", "1", "2", "x"] + (["3", "y"] if big else [])
    pats = []
    for a in names:
        for b in names:
            pats.append([a, b])
            if big:
                pats += [[a, b, c] for c in names]

    def rx(gs):
        return "".join("(%s%s)" % ("?P<%s>" % g if g else "", ch) for g, ch in zip(gs, "abc"))
    out = []
    for gs in pats:
        refs = ["$1", "$2"] + (["$3"] if len(gs) > 2 else []) + sorted({"$" + g for g in gs if g and not g.isdigit()})
        for ref in refs:
            out.append("counter c by k\n/%s/ {\n  c[%s]++\n}\n" % (rx(gs), ref))
            out.append("counter c by k\ndef d {\n  /%s/ {\n    next\n  }\n}\n@d {\n  c[%s]++\n}\n" % (rx(gs), ref))
            out.append("counter c by k\n/%s/ {\n  /(z)/ {\n    c[%s]++\n  }\n}\n" % (rx(gs), ref))
            if big:
                out.append("counter c by k\ndef d {\n  /%s/ {\n    next\n  }\n}\n@d {\n  /(?P<x>z)/ {\n    c[%s]++\n  }\n}\n" % (rx(gs), ref))
    return out


def decorator_family():
    """Decorator definitions and uses in every small arrangement: self use, use of an enclosing definition that is still
    open (directly or through a decorator defined inside it), mutual and forward references, definitions nested in
    definitions and in blocks, `next` in odd places.  The code generator in-lines a definition at every use, so what
    keeps compilation finite is the checker's refusal of uses of unfinished definitions."""
    use = lambda n, body="next": "@%s {\n%s\n}\n" % (n, body)
    D = lambda n, body: "def %s {\n%s}\n" % (n, body)
    bodies = {
        "plain": "/a/ {\n next\n}\n",
        "self": use("a"),
        "self_in_block": "/a/ {\n" + use("a") + "}\n",
        "inner_uses_outer": D("b", use("a")) + use("b"),
        "inner_uses_outer_in_block": D("b", "/x/ {\n" + use("a") + "}\n") + "/y/ {\n" + use("b") + "}\n",
        "inner_inner_uses_outer": D("b", D("c", use("a")) + use("c")) + use("b"),
        "inner_uses_itself": D("b", use("b")) + use("b"),
        "inner_defined_not_used": D("b", use("a")) + "next\n",
        "uses_forward": use("z"),
        "two_inner_mutual": D("b", use("c")) + D("c", use("b")) + use("b"),
        "next_twice": "next\nnext\n",
        "redefines_itself": D("a", "next\n") + "next\n",
    }
    tails = ["@a {\n  c++\n}\n", "@a {\n  @a {\n    c++\n  }\n}\n", "/q/ {\n  @a {\n    c++\n  }\n}\n", "c++\n"]
    out = []
    for k, b in sorted(bodies.items()):
        for t in tails:
            out.append("counter c\n" + D("a", b) + "def z {\n  next\n}\n@z {\n}\n" + t)
    # forward and mutual references at top level
    out.append("counter c\n" + D("a", use("b")) + D("b", use("a")) + use("a", "  c++"))
    out.append("counter c\n" + use("a", "  c++") + D("a", "next\n"))
    return out


def crashed(msg):
    return "fatal error" in msg or "stack overflow" in msg or "timed out" in msg


def one_process_each(ctx, binary, cases, label):
    """Each case in its own harness process: a compile that kills the process (fatal stack overflow, not a panic) is
    attributed to its case and reported, instead of taking the whole batch with it."""
    recs = []
    for c in cases:
        try:
            recs.append([x for x in vlib.run_harness(ctx, binary, cases=[c], timeout=120) if "n" in x][0])
        except vlib.InfraError as e:
            msg = str(e)
            if not crashed(msg):
                raise
            try:            # once more from a clean start
                vlib.run_harness(ctx, binary, cases=[c], timeout=120)
                raise vlib.InfraError("%s: harness died on %r once, not twice:\n%s" % (label, c, msg[-600:]))
            except vlib.InfraError as e2:
                if str(e2).startswith(label):
                    raise
                why = "fatal error: stack overflow" if "stack overflow" in str(e2) else "fatal error" if "fatal error" in str(e2) else "no result within 120 s"
                recs.append({"n": 0, "text": c.get("text", ""), "livelock": False, "toks": None, "crash": True,
                             "contract": {"bad": ["compiling this text takes the whole process down (%s): not a panic, cannot be recovered" % why],
                                          "first": {"object": False}, "secs": 0}})
    return recs


def batch(ctx, binary, cases, label, timeout=2400):
    """The whole batch in one process; if that process dies, every case again in a process of its own."""
    try:
        recs = [x for x in vlib.run_harness(ctx, binary, cases=cases, timeout=timeout) if "n" in x]
    except vlib.InfraError as e:
        if not crashed(str(e)):
            raise
        vlib.log("%s: the harness process died, running the %d cases one by one" % (label, len(cases)))
        return one_process_each(ctx, binary, cases, label)
    if len(recs) != len(cases):
        raise vlib.InfraError("lexx processed %d of %d cases (%s)" % (len(recs), len(cases), label))
    return recs


def run(ctx):
    binary = vlib.build(ctx, "lexx")
    worst = 0.0
    # 1. the lexer automaton: all class strings
    plan = [(3, CLASSES)] + ([(5, CLASSES[:14])] if ctx.thorough else []) + [(4, CLASSES if ctx.thorough else CLASSES[::2] + ["SL", "QU", "BS", "DG"])]
    seen = 0
    for maxlen, classes in plan:
        r = vlib.tlc(ctx, "Lexer", lex_cfg(maxlen, sorted(set(classes))), label="Lexer-%d-%d" % (maxlen, len(set(classes))), timeout=2400, heap="12g")
        recs = batch(ctx, binary, [{"src": c["src"], "rx": c["rx"]} for c in r.cases], "lexer classes")
        ctx.cov["exhaustive"] = True
        for c, rec in zip(r.cases, recs):
            ctx.cov["evaluations"] += 1
            ctx.cov["traces_validated_against_impl"] += 1
            worst = max(worst, rec["contract"].get("secs", 0))
            if len(c["src"]) >= 2:
                seen += 1
            bad = []
            if rec["livelock"]:
                bad.append("the real lexer did not reach EOF within %d tokens" % len(rec["toks"]))
            elif rec["toks"] != c["toks"]:
                bad.append("real lexer tokens %s, Lexer.tla %s" % (rec["toks"], c["toks"]))
            bad += judge_contract(rec)
            if rec.get("crash") and not ctx.enough():
                ctx.violation({"classes": c["src"], "rx": c["rx"], "mismatches": judge_contract(rec)}, "input classes %s: %s" % (c["src"], judge_contract(rec)[0][:250]))
                continue
            if bad and not ctx.enough():
                again = [x for x in vlib.run_harness(ctx, binary, cases=[{"src": c["src"], "rx": c["rx"]}]) if "n" in x][0]
                if again["livelock"] or again["toks"] != c["toks"] or judge_contract(again):
                    ctx.violation({"classes": c["src"], "rx": c["rx"], "text": rec["text"], "model_tokens": c["toks"], "real_tokens": again["toks"],
                                   "mismatches": bad[:3]}, "input %r: %s" % (rec["text"], bad[0][:250]))
        ctx.sample({"classes": r.cases[len(r.cases) // 2]["src"], "tokens": r.cases[len(r.cases) // 2]["toks"]}, limit=2)
    # 2. structured mutants of generated programs
    n = 3000 if ctx.thorough else 400
    lo = ctx.seed * 100000 + 40000
    progs = langcheck.generate(ctx, "lang", lo, lo + n // 4 - 1)
    rnd = random.Random(ctx.seed)
    cases = []
    for i in range(n):
        p = progs[i % len(progs)]
        kind = MUTS[i % len(MUTS)]
        mut = {"kind": kind, "at": rnd.randrange(1001), "arg": rnd.choice(CLASSES),
               "n": rnd.choice([1, 5, 50, 94, 95, 96, 97, 98, 99, 100, 101, 102, 130, 300]) if kind == "nest" else rnd.choice([10, 511, 512, 513, 1500]) if kind == "longregex" else rnd.randrange(64)}
        cases.append({"seed": p["seed"] * 16 + i % 16, "prog": p["prog"], "mut": mut})
    recs = batch(ctx, binary, cases, "mutants")
    kinds = {}
    for c, rec in zip(cases, recs):
        ctx.cov["evaluations"] += 1
        worst = max(worst, rec["contract"].get("secs", 0))
        kinds[c["mut"]["kind"]] = kinds.get(c["mut"]["kind"], 0) + 1
        bad = judge_contract(rec)
        if rec.get("crash") and not ctx.enough():
            ctx.violation({"case": c, "mismatches": bad[:3]}, "mutant (%s): %s" % (c["mut"]["kind"], bad[0][:250]))
            continue
        if bad and not ctx.enough():
            again = [x for x in vlib.run_harness(ctx, binary, cases=[{"seed": 1, "text": rec["text"]}]) if "n" in x][0]
            bad2 = judge_contract(again)
            if bad2:
                ctx.violation({"text": rec["text"], "mutation": c["mut"], "mismatches": bad2[:3]}, "mutant (%s): %s" % (c["mut"]["kind"], bad2[0][:250]))
    ctx.sample({"mutation": cases[7]["mut"], "text_tail": recs[7]["text"][-200:], "outcome": recs[7]["contract"]["first"]}, limit=3)
    # 3. "the same source twice yields the same bytecode and data": the compiler's symbol tables are Go maps, so a result
    #    that depends on iteration order shows only in some runs.  Family: capture groups whose NAMES collide with the
    #    numbers or names of their neighbours, referenced directly, in a nested block and through a decorator's scope copy;
    #    each text is compiled 1 + reps times.
    fam = naming_family(ctx.thorough)
    frecs = batch(ctx, binary, [{"seed": 1, "text": t, "reps": 40} for t in fam], "naming family")
    for t, rec in zip(fam, frecs):
        ctx.cov["evaluations"] += 1
        bad = judge_contract(rec)
        if rec.get("crash") and not ctx.enough():
            ctx.violation({"text": t, "mismatches": bad[:3]}, "capture-group naming family: %s; source %r" % (bad[0][:200], t))
            continue
        if bad and not ctx.enough():
            again = [x for x in vlib.run_harness(ctx, binary, cases=[{"seed": 1, "text": t, "reps": 200}]) if "n" in x][0]
            bad2 = judge_contract(again)
            if bad2:
                ctx.violation({"text": t, "reps": 200, "mismatches": bad2[:3], "diff": again["contract"].get("diff")},
                              "capture-group naming family: %s; source %r" % (bad2[0][:200], t))
    # 4. decorator structure family, one process per text
    dfam = decorator_family()
    drecs = one_process_each(ctx, binary, [{"seed": 1, "text": t, "reps": 2} for t in dfam], "decorator family")
    for t, rec in zip(dfam, drecs):
        ctx.cov["evaluations"] += 1
        bad = judge_contract(rec)
        if bad and not ctx.enough():
            ctx.violation({"text": t, "mismatches": bad[:3], "reps": 2}, "decorator family: %s; source %r" % (bad[0][:200], t))
    ctx.cov["decorator_family"] = {"texts": len(dfam), "accepted": sum(1 for r in drecs if r["contract"]["first"]["object"])}
    ctx.cov["naming_family"] = {"texts": len(fam), "compiles_each": 41, "accepted": sum(1 for r in frecs if r["contract"]["first"]["object"])}
    ctx.cov["distinct_nontrivial"] = seen + len(cases)
    ctx.cov["mutants_by_kind"] = kinds
    ctx.cov["worst_compile_seconds"] = round(worst, 3)
    ctx.cov["rule"] = ("all strings over the listed character classes up to the listed length (exhaustive), each lexed by the real lexer and compiled "
                       "twice; non-trivial = length >= 2; plus one mutant per (generated program, mutation kind, seeded position)")
    ctx.assumptions += ["one representative character per class (the lexer dispatches on unicode.IsLetter/IsDigit/IsSpace and fixed characters)",
                        "the 20 s deadline is the bound used for 'finishes in bounded time'"]


def replay(ctx, path):
    binary = vlib.build(ctx, "lexx")
    rc = json.load(open(path))["case"]
    rec = one_process_each(ctx, binary, [{"seed": 1, "text": rc["text"], "reps": rc.get("reps", 1)}], "replay")[0]
    bad = judge_contract(rec)
    if rec["contract"].get("diff"):
        print("replay: the two results:\n%s" % json.dumps(rec["contract"]["diff"], indent=1))
    if bad:
        ctx.violation(rc, bad[0][:300])
