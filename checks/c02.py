"""C02 - Constant folding never changes a program's results."""
import json
import vlib
import langcheck

LEVEL = "exploration"
COMPILES_PROGRAMS = True      # check reports mlang.Compile's long-lived-compiler comparison (vlib.report_compiler_reuse)
META = {
    "text": "spec/Fold.tla models opt.go's constant folder as an AST->AST operator; TLC checks the lemmas Eval(Fold(e))=Eval(e), "
            "'rejects only a literal-zero divisor' and 'folds to one literal' for every constant expression of depth<=2 over a literal set "
            "with zero/negative/int/float values, and every enumerated expression is folded by the REAL opt.Optimise and compiled+run with "
            "the optimiser on and off; an `open` family (one non-constant leaf) compares the folded TREE, an `edge` family (64-bit boundary "
            "literals) and every other case are also judged by the property itself: where both compiles accept they agree on value, "
            "type and runtime error; generated programs (MtailGen, literal-rich profile) are run in both modes against the reference "
            "semantics; every source is also compiled on a long-lived compiler that has refused other sources.",
    "note": "Exponents are small integer literals; float values are dyadic rationals; values beyond 1e9 are outside the model's arithmetic "
            "(there the differential comparison optimised = unoptimised decides).",
    "technique": "TLA+ model of the folder with TLC-exhaustive lemma + every case replayed into real opt.Optimise / compiler / VM (direction A)",
    "design_ref": "DESIGN.md 5/C02",
}
DEV = "DEV_FoldIntModFloatIsZero"


def fold_cfg(dev, emit, deep=False, family="const"):
    return vlib.cfg_text(spec="Spec", constants={"DEV_FoldIntModFloatIsZero": dev, "EmitCases": emit, "Deep": deep, "Family": family,
                                                  "DEV_OtherwiseFlagIsGlobal": False, "DEV_MemoKeyedByValueOnly": False,
                                                  "DEV_MemoCachesFailure": False, "YearOpt": False},
                         invariants=["FoldPreservesValue", "RejectsOnlyZeroDivisor", "FoldsToLiteral", "KeepsNonConstant", "CheckerRejectImpliesFoldReject", "Emit"])


def edge_cfg(deep):
    # the 64-bit boundary family: the model only enumerates shapes (the lemmas would overflow TLC's integers)
    return vlib.cfg_text(spec="Spec", constants={"DEV_FoldIntModFloatIsZero": False, "EmitCases": True, "Deep": deep, "Family": "edge",
                                                  "DEV_OtherwiseFlagIsGlobal": False, "DEV_MemoKeyedByValueOnly": False,
                                                  "DEV_MemoCachesFailure": False, "YearOpt": False}, invariants=["Emit"])


def lit(e):
    if e["n"] == "int":
        return ("int", e["v"], 1)
    return ("float", e["v"][0], e["v"][1])


def close(a, b):
    # non-dyadic quotients (x / 1.5, x / 7) are rounded by float64: relative tolerance, exact for ints
    return a == b or abs(a - b) <= 1e-9 * max(1.0, abs(b))


def explain_case(model_dev, c, rec):
    """Compare one enumerated expression.  Returns list of mismatches against model `c` (a CASE of Fold.tla)."""
    bad = []
    f = c["f"]
    for mode in ("full", "min"):
        r = rec[mode]
        fr = r["fold"]
        if fr["kind"] in ("parse_error", "panic") or (fr["kind"] == "other" and not c.get("open")):
            bad.append("%s: opt.Optimise on %s: %s %s" % (mode, r["expr"], fr["kind"], fr.get("msg", "")))
            continue
        if fr["kind"] == "rejected" and not any(w in fr.get("msg", "") for w in ("divide by zero", "mod by zero")):
            bad.append("%s: %s: the optimiser rejects the program for something other than a zero divisor: %s" % (mode, r["expr"], fr.get("msg", "")[:120]))
            continue
        # the property itself, whatever the model can say about the value: where both compiles accept, they agree
        on, off = r["on"], r["off"]
        if on["accepted"] and off["accepted"]:
            a = (on["rterr"], on["set"], on["type"], on["i"] if on["type"] == "Int" else on["fs"])
            b = (off["rterr"], off["set"], off["type"], off["i"] if off["type"] == "Int" else off["fs"])
            if a != b:
                bad.append("%s: %s: optimised compile gives (runtime error, set, type, value) = %s, unoptimised %s" % (mode, r["expr"], a, b))
                continue
        elif off["accepted"] and not on["accepted"] and not (f["rej"] or c.get("ckrejon")):
            bad.append("%s: %s: only the optimised compile rejects, and no literal zero divides: %s" % (mode, r["expr"], on["errors"][:160]))
            continue
        if f["ovf"]:
            if fr["kind"] == "rejected":
                bad.append("%s: %s: optimiser rejects, the model sees no literal-zero divisor (value outside the model)" % (mode, r["expr"]))
            continue
        if f["rej"] != (fr["kind"] == "rejected"):
            bad.append("%s: %s: optimiser %s, model %s" % (mode, r["expr"], fr["kind"], "rejects" if f["rej"] else "accepts"))
            continue
        if not f["rej"] and c.get("open"):
            if fr["kind"] in ("int", "float") or fr.get("dump") != r.get("modeldump"):
                bad.append("%s: %s: optimiser produced %s, Fold.tla %s" % (mode, r["expr"], fr.get("dump") or fr["kind"], r.get("modeldump")))
        elif not f["rej"]:
            k, n, d = lit(f["e"])
            got = fr["i"] if fr["kind"] == "int" else fr["f"]
            if fr["kind"] != k or not close(got, n / d):
                bad.append("%s: %s folds to %s %s, model %s %s/%s" % (mode, r["expr"], fr["kind"], got, k, n, d))
        # the optimised and unoptimised programs against the reference value
        v = c["v"]
        if v["ovf"]:
            continue
        for which in ("on", "off"):
            x = r[which]
            if which == "on" and (f["rej"] or c.get("ckrejon")):
                if x["accepted"]:
                    bad.append("%s: %s: optimised compile accepted, model rejects" % (mode, r["expr"]))
                continue
            if which == "off" and c["ckrej"]:
                if x["accepted"]:
                    bad.append("%s: %s: unoptimised compile accepted an integer division by the literal 0" % (mode, r["expr"]))
                continue
            if not x["accepted"]:
                bad.append("%s: %s: compile (opt %s) rejected: %s" % (mode, r["expr"], which, x["errors"][:200]))
                continue
            if v["err"]:
                if not x["rterr"]:
                    bad.append("%s: %s: (opt %s) no runtime error, reference raises one" % (mode, r["expr"], which))
                continue
            if x["rterr"] or not x["set"]:
                bad.append("%s: %s: (opt %s) runtime error / unset, reference value %s" % (mode, r["expr"], which, v["v"]))
                continue
            want = v["v"]["v"] if v["v"]["k"] == "i" else v["v"]["n"] / v["v"]["d"]
            got = x["i"] if x["type"] == "Int" else x["f"]
            wt = "Int" if v["v"]["k"] == "i" else "Float"
            if x["type"] != wt or not close(got, want):
                bad.append("%s: %s: (opt %s) g = %s %s, reference %s %s" % (mode, r["expr"], which, x["type"], got, wt, want))
    return bad


def run(ctx):
    fbin = vlib.build(ctx, "fold")
    lbin = vlib.build(ctx, "lang")
    # 1. the lemma on the corrected design, and the enumerated cases
    # (every state of these runs is an initial state: more than two TLC workers only slow them down)
    r = vlib.tlc(ctx, "Fold", fold_cfg(False, True, ctx.thorough), label="Fold-ideal", timeout=2400, heap="12g", workers=2)
    ideal = r.cases
    ctx.cov["exhaustive"] = True
    devs = [d for d in vlib.open_devs(ctx.prop)]
    if DEV in devs:
        vlib.expect_dev_counterexample(ctx, "Fold", fold_cfg(True, False, False), DEV, timeout=600)
    ro = vlib.tlc(ctx, "Fold", fold_cfg(False, True, ctx.thorough, "open"), label="Fold-open", timeout=2400, heap="12g", workers=2)
    re_ = vlib.tlc(ctx, "Fold", edge_cfg(ctx.thorough), label="Fold-edge", timeout=2400, heap="12g", workers=2)
    ideal = ideal + ro.cases + re_.cases
    ctx.cov["edge_family_cases"] = len(re_.cases)
    recs = [x for x in vlib.run_harness(ctx, fbin, cases=[{"e": c["e"], "fe": c["f"]["e"], "open": c.get("open", False)} for c in ideal], timeout=2400) if "full" in x]
    if len(recs) != len(ideal):
        raise vlib.InfraError("fold harness processed %d of %d cases" % (len(recs), len(ideal)))
    ctx.cov["evaluations"] += len(ideal)
    ctx.cov["traces_validated_against_impl"] += len(ideal)
    ctx.cov["distinct_nontrivial"] += sum(1 for c in ideal if c["e"]["n"] == "bin")
    suspects = []
    for c, rec in zip(ideal, recs):
        bad = explain_case(False, c, rec)
        if bad:
            suspects.append((c, rec, bad))
    ctx.sample({"expr": recs[len(recs) // 2]["min"]["expr"], "model_fold": ideal[len(ideal) // 2]["f"], "real": recs[len(recs) // 2]["min"]["fold"]})
    if suspects:
        devcases = {}
        if DEV in devs:
            rd = vlib.tlc(ctx, "Fold", vlib.cfg_text(spec="Spec", constants={
                "DEV_FoldIntModFloatIsZero": True, "EmitCases": True, "Deep": ctx.thorough, "Family": "const", "DEV_OtherwiseFlagIsGlobal": False,
                "DEV_MemoKeyedByValueOnly": False, "DEV_MemoCachesFailure": False, "YearOpt": False}, invariants=["Emit"]),
                label="Fold-dev-emit", timeout=1200, heap="12g")
            devcases = {json.dumps(c["e"], sort_keys=True): c for c in rd.cases}
        nexp = 0
        for c, rec, bad in suspects:
            if ctx.enough():
                break
            dc = devcases.get(json.dumps(c["e"], sort_keys=True))
            if dc is not None:
                # with the deviation the folded literal changes; the optimised run then equals the value of THAT literal
                dbad = [b for b in explain_case(True, dict(dc, v=dict(dc["v"])), rec) if "(opt on)" not in b and "folds to" in b or "optimiser" in b]
                if not dbad:
                    nexp += 1
                    continue
            again = [x for x in vlib.run_harness(ctx, fbin, cases=[{"e": c["e"], "fe": c["f"]["e"], "open": c.get("open", False)}]) if "full" in x][0]
            bad2 = explain_case(False, c, again)
            if bad2:
                ctx.violation({"expr": rec["min"]["expr"], "ast": c["e"], "model": c["f"], "reference_value": c["v"], "real": again, "mismatches": bad2[:4]},
                              bad2[0][:300])
        if nexp:
            f = vlib.open_finding(ctx.prop, DEV)
            ctx.known_finding(DEV, "%s [%d enumerated constant expressions]" % (f["what"], nexp))
    # 2. whole programs, optimiser on and off, against the reference semantics
    n = 2500 if ctx.thorough else 300
    langcheck.run_profile(ctx, lbin, "fold", ctx.seed * 100000 + 50000, n, opt="both")
    ctx.cov["rule"] = ("all constant expressions of depth<=2 over 7 int and 6 float literals and + - * / % ** (exhaustive; non-trivial = has an "
                       "operator) folded by the real optimiser and run in both modes; plus generated literal-rich programs run in both modes")
    ctx.assumptions += ["exponents are literal ints 0..3; floats dyadic; no 64-bit overflow"]


def replay(ctx, path):
    rc = json.load(open(path))["case"]
    if "ast" in rc:
        fbin = vlib.build(ctx, "fold")
        r = vlib.tlc(ctx, "Fold", fold_cfg(False, True, True), label="Fold-ideal", timeout=2400, heap="12g")
        key = json.dumps(rc["ast"], sort_keys=True)
        for c in r.cases:
            if json.dumps(c["e"], sort_keys=True) == key:
                rec = [x for x in vlib.run_harness(ctx, fbin, cases=[{"e": c["e"]}]) if "full" in x][0]
                bad = explain_case(False, c, rec)
                if bad:
                    ctx.violation(rc, bad[0][:300])
    else:
        import c01
        c01.replay(ctx, path)
