"""C12 - No export attempt can leave metrics locked or stall processing.

spec/ExportLocks.tla models the per-metric RWMutex, the EmitLabelSets
goroutine and the control flow of every exporter (prometheus Collect,
HandleVarz, HandleGraphite, writeSocketMetrics, HandleJSON) including their
error / cancellation branches.  TLC

  * checks the corrected design (all DEV_ switches off) exhaustively over every
    store shape (<= NM metrics x <= NL label sets, text or not) x every fault
    (unrepresentable position and reason, failing k-th write, cancellation after
    the k-th write, marshal error): Clean, HeldOnlyInside, EmitterUnderLock,
    RWExclusion, NoLeak, Complete, deadlock freedom and, under fairness and with
    no state constraint, VMProgress (~>) and ExportsComplete (<>);
  * shows that each *open* deviation breaks Clean and VMProgress (the stall);
  * prints the post-state of the faulty attempt of every scenario (direction A).

The Go harness internal/verif/c12 builds every scenario on a real store and the
real exporter (failing net.Conn / http.ResponseWriter, cancelled request
context) and reports TryLock per metric, goroutines blocked in EmitLabelSets
(stack dump), delivered label sets, reported error and whether GetDatum on every
metric plus another export complete.  Store.Range iterates a Go map, so the
visiting order is not controllable: a real post-state is accepted iff it equals
the model's post-state for *some* visiting order (the model is symmetric in the
metric index, so this is a lookup of the permuted scenario).
"""
import itertools
import json
import os
from concurrent.futures import ThreadPoolExecutor

import vlib

LEVEL = "fault_enumeration"
META = {
    "text": "TLC exhausts spec/ExportLocks.tla (RWMutex reader/writer state, EmitLabelSets rendezvous, control flow of the 5 exporters "
            "with error/cancel branches, a VM needing m.Lock) over every store shape of <=2x2 (thorough 3x3) metrics x label sets "
            "and every fault position (unrepresentable name/key/value, failing k-th write, cancellation after the k-th write, "
            "marshal error), incl. liveness under fairness; every enumerated scenario is constructed on a real store and real "
            "exporter and its post-state (TryLock, blocked EmitLabelSets goroutines, delivered label sets, error, follow-up "
            "GetDatum+export) is compared with the model's. The liveness side (VMProgress, ExportsComplete) is also exercised on the real code: every exporter runs interleaved with concurrent metric updates and each export / update must complete within a 10 s deadline (confirmed twice). The export attempt itself runs under a 10 s watchdog, and the write fault is also produced on the real network path: PushMetrics to a TCP collector that accepts and never reads must give up at the write deadline, leave the metric unlocked and let an update through.",
    "note": "Faults are single (one fault per attempt); the consumer of Collect always drains; Store.Range order is matched "
            "existentially; a stall itself (liveness) is shown on the model, on the code its cause (failed TryLock / blocked goroutine).",
    "technique": "TLA+ spec + TLC exhaustive fault enumeration, scenarios replayed on the real exporters (direction A)",
    "design_ref": "DESIGN.md 5/C12, Appendix A.5",
}

KINDS = ["prom", "varz", "graphite", "push", "json"]
PUSH_FORMATS = ["graphite", "statsd", "collectd"]
DEVS = {"DEV_CollectReturnsHoldingRLock": "prom", "DEV_PushReturnsHoldingRLock": "push"}
INVS = ["TypeOK", "Clean", "HeldOnlyInside", "EmitterUnderLock", "RWExclusion", "NoLeak", "Complete"]
CHUNK = 250


def _cfg(nm, nl, kinds, vm, emit, devs=(), invariants=(), properties=(), deadlock=False):
    const = {"NM": nm, "NL": nl, "Kinds": set(kinds), "WithVM": vm, "EmitCases": emit}
    for d in DEVS:
        const[d] = d in devs
    return vlib.cfg_text(spec="Spec", constants=const, invariants=list(invariants), properties=list(properties),
                         check_deadlock=deadlock)


def _fkey(f):
    return (f["type"], f["why"], f["m"], f["i"], f["k"])


def _key(kind, nls, text, f):
    return (kind, tuple(nls), tuple(bool(t) for t in text), _fkey(f))


def _table(cases):
    return {_key(c["kind"], c["nls"], c["text"], c["fault"]): c for c in cases}


def _emit(ctx, nm, nl, kinds, devs, label):
    r = vlib.tlc(ctx, "ExportLocks", _cfg(nm, nl, kinds, False, True, devs=devs, invariants=["Emit"]),
                 label=label, timeout=1500)
    if not r.cases:
        raise vlib.InfraError("TLC emitted no scenario (%s)" % label)
    return r.cases


def _predictions(case, tbl):
    """Post-states the model allows for the real scenario `case`, one per visiting order."""
    nm = len(case["nls"])
    f = case["fault"]
    seen = []
    for sigma in itertools.permutations(range(nm)):          # sigma[p] = real metric visited p-th
        nls = [case["nls"][r] for r in sigma]
        text = [case["text"][r] for r in sigma]
        fm = dict(f)
        if f["type"] == "bad":
            fm["m"] = sigma.index(f["m"] - 1) + 1
        p = tbl.get(_key(case["kind"], nls, text, fm))
        if p is None:
            raise vlib.InfraError("scenario %r not in the model's table" % (_key(case["kind"], nls, text, fm),))
        back = lambda m: 0 if m == 0 else sigma[m - 1] + 1
        pred = {"locked": sorted(back(m) for m in p["locked"]), "leaked": p["leaked"],
                "out": [[back(m), i] for m, i in p["out"]], "err": p["err"]}
        if pred not in seen:
            seen.append(pred)
    return seen


def _followup_want(case, ideal):
    f = case["fault"]
    keep = f if f["type"] in ("bad", "marshal") else {"type": "none", "why": "", "m": 0, "i": 0, "k": 0}
    p = ideal.get(_key(case["kind"], case["nls"], case["text"], keep))
    if p is None:
        raise vlib.InfraError("follow-up scenario missing from the model's table")
    return "ok:%d:%s" % (len(p["out"]), "marshal" if f["type"] == "marshal" else "none")


def _observed(res):
    return {"locked": sorted(res["locked"]), "leaked": res["leaked"], "out": [list(x) for x in res["out"]], "err": res["err"]}


def judge(case, res, ideal, dev):
    """-> ("ok", None) | ("finding", devname) | ("bad", why)"""
    obs = _observed(res)
    if not res.get("settled", True):
        return "bad", "a goroutine inside EmitLabelSets was neither finished nor blocked 10 s after the export returned"
    if obs in _predictions(case, ideal):
        want = _followup_want(case, ideal)
        if res["followup"] != want:
            return "bad", "after the attempt, GetDatum on every metric + another export gave %r, specification says %r" % (
                res["followup"], want)
        return "ok", None
    if dev is not None and obs in _predictions(case, dev):
        for d, kind in DEVS.items():
            if kind == case["kind"]:
                return "finding", d
    return "bad", "post-state %s is none of the specification's %s" % (
        json.dumps(obs, sort_keys=True), json.dumps(_predictions(case, ideal), sort_keys=True))


def _concrete(cases):
    out = []
    for c in cases:
        base = {"kind": c["kind"], "nls": c["nls"], "text": c["text"], "fault": c["fault"]}
        if c["kind"] == "push":
            for f in PUSH_FORMATS:
                out.append(dict(base, fmt=f))
        else:
            out.append(dict(base, fmt=""))
    for i, c in enumerate(out):
        c["id"] = i
    return out


def _run_cases(ctx, binary, cases):
    """Shard over fresh harness processes (leaked goroutines of the code under test stay in their process)."""
    d = ctx.sub("c12-in")
    chunks = [cases[i:i + CHUNK] for i in range(0, len(cases), CHUNK)]
    paths = []
    for n, ch in enumerate(chunks):
        p = os.path.join(d, "cases-%04d.ndjson" % n)
        with open(p, "w") as f:
            for c in ch:
                f.write(json.dumps(c, separators=(",", ":")) + "\n")
        paths.append(p)

    def one(p):
        return vlib.run_harness(ctx, binary, infile=p, timeout=1200)

    with ThreadPoolExecutor(max_workers=max(1, min(vlib.NCPU, 8))) as ex:
        outs = list(ex.map(one, paths))
    res = {}
    for ch, recs in zip(chunks, outs):
        summ = [r for r in recs if r.get("summary")]
        if not summ or summ[0]["cases"] != len(ch):
            raise vlib.InfraError("harness did not process all scenarios of a shard")
        for r in recs:
            if "id" in r:
                res[r["id"]] = r
    if len(res) != len(cases):
        raise vlib.InfraError("harness answered %d of %d scenarios" % (len(res), len(cases)))
    return res


def nontrivial(c):
    f = c["fault"]
    if f["type"] == "none":
        return False
    if f["type"] == "bad":                       # the unrepresentable position is actually visited
        return (not c["text"][f["m"] - 1]) and c["nls"][f["m"] - 1] >= 1
    return True


def _describe(c):
    f = c["fault"]
    what = {"bad": "unrepresentable (%s) at metric %d label set %d" % (f["why"], f["m"], f["i"]),
            "wfail": "write %d fails" % f["k"], "cancel": "request cancelled after write %d" % f["k"],
            "marshal": "a NaN datum makes json.Marshal fail", "none": "no fault"}[f["type"]]
    return "%s%s nls=%s text=%s, %s" % (c["kind"], ("/" + c["fmt"]) if c.get("fmt") else "", c["nls"], c["text"], what)


def _check_batch(ctx, binary, cases, ideal, dev, findings):
    res = _run_cases(ctx, binary, cases)
    ctx.cov["evaluations"] += len(cases)
    ctx.cov["traces_validated_against_impl"] += len(cases)
    for c in cases:
        if len(ctx.violations) >= 5:      # enough confirmed counterexamples; each costs a fresh process
            break
        verdict, info = judge(c, res[c["id"]], ideal, dev)
        if verdict == "ok":
            continue
        if verdict == "finding":
            findings.setdefault(info, []).append((c, res[c["id"]]))
            continue
        # confirm from a clean start (fresh process) before reporting
        again = _run_cases(ctx, binary, [dict(c, id=0)])[0]
        v2, info2 = judge(c, again, ideal, dev)
        if v2 == "bad":
            ctx.violation({"case": c, "got": _observed(again), "followup": again["followup"],
                           "want_any_of": _predictions(c, ideal)},
                          "%s: %s" % (_describe(c), info2))
        elif v2 == "finding":
            findings.setdefault(info2, []).append((c, again))


def _model(ctx, nm, nl, live, coverage, label, emit=False):
    """Corrected design: safety, deadlock freedom and (live) the temporal properties; optionally also the scenario table."""
    r = vlib.tlc(ctx, "ExportLocks",
                 _cfg(nm, nl, KINDS, True, emit, invariants=INVS + (["Emit"] if emit else []),
                      properties=["VMProgress", "ExportsComplete"] if live else [], deadlock=True),
                 coverage=coverage, label=label, timeout=2400)
    if coverage and r.zero_cov:
        raise vlib.InfraError("actions never taken in ExportLocks (%s): %s" % (label, r.zero_cov))
    return r


def _dedup(cases):
    """With the VM thread on, the post-state of a scenario is printed once per VM state: it must be the same each time."""
    tbl = {}
    for c in cases:
        k = _key(c["kind"], c["nls"], c["text"], c["fault"])
        if k in tbl and tbl[k] != c:
            raise vlib.InfraError("the model's post-state of scenario %r depends on the VM interleaving" % (k,))
        tbl[k] = c
    return tbl


def push_stall(ctx, sb):
    """The model's write fault on the real network path: a collector that accepts and never reads."""
    def once():
        return [r for r in vlib.run_harness(ctx, sb, args=["-pushstall"], timeout=120) if r.get("pushstall")][0]
    r = once()
    ctx.cov["push_stall"] = r
    bad = (not r["returned"]) or r["locked"] or r["update"] != "ok"
    if r["accepted"] < 1:
        raise vlib.InfraError("push-stall scenario: the exporter never connected to the collector: %s" % r)
    if bad:
        r2 = once()
        if (not r2["returned"]) or r2["locked"] or r2["update"] != "ok":
            ctx.violation({"kind": "push_stall", "first": r, "second": r2},
                          "push to a collector that accepts and never reads: PushMetrics %s (write deadline 1 s), metric %s afterwards, "
                          "a line-processing update %s" % ("returned after %d ms" % r2["push_ms"] if r2["returned"] else "did not return within 20 s",
                                                         "still read-locked" if r2["locked"] else "unlocked", r2["update"]))
        else:
            raise vlib.InfraError("push-stall scenario failed once, not twice: %s / %s" % (r, r2))


def stress(ctx):
    """Liveness side of ExportLocks.tla on the real code: exports interleaved with line processing (GetDatum needs the
    metric's write lock; a waiting writer blocks new readers).  Every export and every update must complete."""
    sb = vlib.build(ctx, "c12stress")
    push_stall(ctx, sb)
    rounds = 1500 if ctx.thorough else 150
    for k in range(3 if ctx.thorough else 1):
        rec = [r for r in vlib.run_harness(ctx, sb, args=["-rounds", str(rounds)], timeout=900, env={"VERIF_SEED": str(ctx.seed * 7 + k)}) if r.get("stress")][0]
        ctx.cov["concurrent_exports"] = ctx.cov.get("concurrent_exports", 0) + rec["exports"]
        ctx.cov["concurrent_updates"] = ctx.cov.get("concurrent_updates", 0) + rec["updates"]
        if rec.get("stalls"):
            again = [r for r in vlib.run_harness(ctx, sb, args=["-rounds", str(rounds)], timeout=900, env={"VERIF_SEED": str(ctx.seed * 7 + k)}) if r.get("stress")][0]
            if again.get("stalls"):
                st = again["stalls"][0]
                ctx.violation({"stage": "stress", "stall": {k2: v for k2, v in st.items() if k2 != "goroutines"}, "goroutines": st.get("goroutines", "")[:8000],
                               "rounds": rounds, "seed": ctx.seed * 7 + k},
                              "an %s interleaved with metric updates did not complete within 10 s (twice): %s" % (st["kind"], st["what"]))
                return


def run(ctx):
    stress(ctx)
    binary = vlib.build(ctx, "c12")
    open_devs = [d for d in vlib.open_devs(ctx.prop) if d in DEVS]
    unknown = [d for d in vlib.open_devs(ctx.prop) if d not in DEVS]
    if unknown:
        raise vlib.InfraError("known findings name deviations ExportLocks.tla does not have: %s" % unknown)
    nm, nl = (3, 3) if ctx.thorough else (2, 2)

    # 1. the corrected design satisfies C12: safety, deadlock freedom, liveness under fairness without state
    #    constraint (-coverage: no action is vacuous); the same run prints the scenario table of the 2x2 space
    r = _model(ctx, 2, 2, True, True, "ExportLocks-2x2-live", emit=True)
    ideal = _dedup(r.cases)
    if ctx.thorough:
        _model(ctx, 3, 2, True, False, "ExportLocks-3x2-live")
        r = _model(ctx, 3, 3, False, False, "ExportLocks-3x3-safety", emit=True)
        ideal = _dedup(r.cases)
    if not ideal:
        raise vlib.InfraError("TLC emitted no scenario")

    # 2. every open deviation really breaks it: a VM waiting for m.Lock() never gets it (liveness counterexample),
    #    and the post-state table with the open deviations on contains a read lock held after the attempt returned
    dev = None
    if open_devs:
        for d in open_devs:
            rr = vlib.expect_dev_counterexample(
                ctx, "ExportLocks", _cfg(2, 2, [DEVS[d]], True, False, devs=[d], properties=["VMProgress"]), d + "-stall")
            if rr.violated != "VMProgress":
                raise vlib.InfraError("%s on: expected a VMProgress counterexample, TLC reports %s" % (d, rr.violated))
        dk = sorted({DEVS[d] for d in open_devs})
        dev = dict(ideal)
        dev.update(_table(_emit(ctx, nm, nl, dk, open_devs, "ExportLocks-emit-dev-%dx%d" % (nm, nl))))
        for d in open_devs:
            if not any(c["locked"] for k, c in dev.items() if k[0] == DEVS[d]):
                raise vlib.InfraError("%s on: no scenario of the model ends with a read lock held - deviation mis-modelled" % d)
    ideal_cases = list(ideal.values())

    # 4. every scenario on the real code
    cases = _concrete(ideal_cases)
    findings = {}
    _check_batch(ctx, binary, cases, ideal, dev, findings)

    for d, lst in sorted(findings.items()):
        ent = vlib.open_finding(ctx.prop, d)
        lst.sort(key=lambda cr: (sum(cr[0]["nls"]), len(json.dumps(cr[0]))))
        c, r = lst[0]
        ctx.known_finding(d, "%s [%s] e.g. %s -> TryLock fails on %s, %d goroutine(s) blocked in EmitLabelSets, delivered %s" % (
            ent.get("what", ""), ent.get("site", ""), _describe(c), r["locked"], r["leaked"], r["out"]))
        ctx.cov.setdefault("scenarios_explained_by_open_findings", {})[d] = len(lst)

    seen = {(c["kind"], c["fmt"], tuple(c["nls"]), tuple(c["text"]), _fkey(c["fault"])) for c in cases if nontrivial(c)}
    ctx.cov["distinct_nontrivial"] = len(seen)
    ctx.cov["exhaustive"] = True
    ctx.cov["rule"] = ("every scenario of ExportLocks.tla (exporter kind x store shape nls in [1..%d -> 0..%d], text in [..-> BOOLEAN] "
                       "x one fault: unrepresentable position+reason / failing k-th write / cancel after k-th write / marshal error / none; "
                       "push x 3 formatters) is executed on the real exporter; non-trivial = a fault is present and its position is "
                       "actually visited by that exporter (distinct (kind, formatter, shape, fault) tuples)" % (nm, nl))
    ctx.cov["constants"] = {"NM": nm, "NL": nl, "kinds": KINDS, "push_formats": PUSH_FORMATS, "open_deviations": open_devs}
    for c in (cases[len(cases) // 3], cases[len(cases) // 2], cases[-1]):
        ctx.sample(c)
    for d, lst in findings.items():
        ctx.sample({"open_finding": d, "case": lst[0][0], "observed": _observed(lst[0][1])})
    ctx.assumptions += [
        "Go sync.RWMutex semantics: a waiting writer blocks new readers; Unlock admits blocked readers (strong fairness of RLock)",
        "Store.Range visits metrics in an uncontrolled (map) order: the real post-state must equal the model's for some order",
        "the consumer of Collect's channel (the Prometheus registry) always drains; one fault per export attempt",
        "an EmitLabelSets goroutine counts as left behind when its stack-dump state is a blocking one after the export returned",
    ]


def replay(ctx, path):
    binary = vlib.build(ctx, "c12")
    blob = json.load(open(path))
    c = blob["case"]["case"]
    nm, nl = len(c["nls"]), max([3 if len(c["nls"]) > 2 else 2] + c["nls"])
    open_devs = [d for d in vlib.open_devs(ctx.prop) if d in DEVS]
    ideal = _table(_emit(ctx, nm, nl, [c["kind"]], (), "replay-emit"))
    dev = _table(_emit(ctx, nm, nl, [c["kind"]], open_devs, "replay-emit-dev")) if open_devs else None
    res = _run_cases(ctx, binary, [dict(c, id=0)])[0]
    verdict, info = judge(c, res, ideal, dev)
    vlib.log("replay:", _describe(c), "->", verdict, info, _observed(res), res["followup"])
    if verdict == "bad":
        ctx.violation({"case": c, "got": _observed(res), "followup": res["followup"], "want_any_of": _predictions(c, ideal)},
                      "%s: %s" % (_describe(c), info))
    elif verdict == "finding":
        ent = vlib.open_finding(ctx.prop, info) or {}
        ctx.known_finding(info, "%s [%s] %s" % (ent.get("what", ""), ent.get("site", ""), _describe(c)))
