"""C22 - Every export format reports each label set's own value.

spec/Expo.tla (Mode "formats"): the ideal layer says, per format, which metrics
it carries and that there is exactly one record (graphite histograms: one line
per bucket + count + value) per label set with THAT label set's value and
timestamp: JsonIdeal (all metrics; names, keys, label values in key order, datum),
VarzIdeal (all metrics; labels + prog unless omitted + instance),
GraphiteIdeal (counters, gauges, timers, histograms), ScalarIdeal (statsd,
collectd: counters, gauges, timers).  The implementation-shaped layer writes
out metricToGraphite's bucket loop and HandleJSON's all-or-nothing marshal; TLC
checks RefinesGraphite / RefinesJson on the corrected design and produces the
counterexample store of each open deviation.  Label sets get pairwise distinct
values and timestamps (unique uid), so a formatter printing a neighbour's datum
is visible.

internal/verif/c22 builds each store for real and runs HandleJSON, HandleVarz,
HandleGraphite and writeSocketMetrics with the graphite / statsd / collectd
formatters, parses each output with a small parser of that format (which also
checks well-formedness; JSON is decoded back = round trip) and compares
multisets of records.
"""
import copy
import json

import expo
import vlib

LEVEL = "exploration"
META = {
    "text": "TLC enumerates the abstract stores of spec/Expo.tla exhaustively for small bounds (1 metric of every kind/type with <=2 "
            "label sets; every value token incl. NaN/+-Inf/huge; 2 histograms x 2 label sets) and samples stores of "
            "<=3 (thorough <=6) metrics x <=3 (5) label sets x <=2 (3) keys with pairwise distinct values and timestamps, prefix and "
            "hostname varied; each store is built for real and exported through HandleJSON, HandleVarz, HandleGraphite and "
            "writeSocketMetrics with the graphite/statsd/collectd formatters; per-format parsers turn the output into records that "
            "are compared as multisets with the specification's per-format expectations; JSON is decoded back (round trip).",
    "note": "Exploration, not proof: exhaustive only within the small bounds, sampled beyond; label values and names are restricted "
            "to characters that do not separate fields in the target formats (as the property states); text metrics in /graphite and "
            "histograms in statsd/collectd are outside the property and ignored; the push path is driven through writeSocketMetrics "
            "with a recording connection, not through a real socket.",
    "technique": "TLA+ oracle spec + TLC enumeration/simulation of stores, replayed into the real exporters (direction A)",
    "design_ref": "DESIGN.md 5/C22",
}
DEV_OF = {"graphite": "DEV_GraphiteHistogramFirstLabelSet", "graphite_http": "DEV_GraphiteHistogramFirstLabelSet",
          "json": "DEV_JsonFailsOnNonFinite"}
MODEL_INVS = ["HistOK", "RefinesGraphite", "RefinesJson"]
REFINES = {"DEV_GraphiteHistogramFirstLabelSet": "RefinesGraphite", "DEV_JsonFailsOnNonFinite": "RefinesJson"}


def presets(ctx):
    two = dict(hosts=["h", "host-1"], prefixes=["", "pfx."])
    P = [
        ("bfs-one-metric", dict(mm=1, ml=2, mk=1, mo=1, names=["foo"], kts=expo.KT_ALL, keys=["k1"], lvals=["a", "pct"],
                                itoks=["small"], ftoks=["small", "nan"], bounds=["b12"], obs=[0, 3], **two), None, None),
        ("bfs-values", dict(mm=1, ml=1, mk=0, mo=2, names=["bar_x"], kts=expo.KT_SCALAR + ["HistogramBuckets"],
                            itoks=expo.INT_TOKS, ftoks=expo.FLOAT_TOKS, bounds=["b12", "b0510", "none"], obs=[0, 2, 7]), None, None),
        ("bfs-two-histograms", dict(mm=2, ml=2, mk=1, mo=1, names=["foo", "bar_x"], kts=["HistogramBuckets"],
                                    keys=["k1"], lvals=["a", "b"], bounds=["b12"], obs=[3]), None, None),
    ]
    sim = dict(mm=3, ml=3, mk=2, mo=3, names=["foo", "bar_x", "baz"], progs=["p1", "p2"], kts=expo.KT_ALL, keys=["k1", "k2", "k3"],
               lvals=["a", "b", "pct"], itoks=expo.INT_TOKS, ftoks=expo.FLOAT_TOKS, bounds=["b12", "b0510", "none"],
               obs=[0, 1, 2, 3, 7, 11], **two)
    if ctx.thorough:
        P.append(("bfs-one-metric-2keys", dict(mm=1, ml=2, mk=2, mo=2, names=["foo"], kts=expo.KT_ALL, keys=["k1", "k2"],
                                               lvals=["a", "b"], itoks=["neg", "huge"], ftoks=["small", "nan", "ninf"],
                                               bounds=["b0510"], obs=[0, 5, 11], **two), None, None))
        P.append(("sim-3x3", sim, 1200, 14))
        P.append(("sim-6x5", dict(sim, mm=6, ml=5, mk=3, progs=["p1", "p2", "p3"]), 100, 38))
    else:
        P.append(("sim-3x3", sim, 250, 14))
    return P


def nontrivial(c):
    """at least one metric with two label sets: only then can a formatter print a neighbour's datum"""
    return any(len(m["lsets"]) >= 2 for m in c["store"])


def _verdicts(r):
    return {f: v["verdict"] for f, v in r["formats"].items()}


def _strip(c):
    return {k: c[k] for k in ("id", "store", "cfg", "want", "want_dev")}


def _selftest(ctx, binary, cases):
    """The replay engine must reject a case whose expected value was altered, in every format."""
    for c in cases:
        sc = c["want"]["scalar"]
        if sc and c["want"] == c["want_dev"] and len(c["want"]["varz"]) == len(sc):
            bad = copy.deepcopy(_strip(c))
            for lst in (bad["want"]["scalar"], bad["want"]["graphite"], bad["want"]["varz"], bad["want"]["json"]["recs"]):
                lst[0]["val"]["uid"] += 1000
                lst[0]["val"]["tok"] = "small"
            bad["want_dev"] = bad["want"]
            bad["id"] = 0
            v = _verdicts(expo.run_sharded(ctx, binary, [bad])[0])
            if any(x != "none" for x in v.values()):
                raise vlib.InfraError("self-test: the harness accepted an altered expected record: %s" % v)
            return
    raise vlib.InfraError("self-test: no case with only scalar metrics")


def _classify(v, open_devs):
    """-> "ok" | set of deviations that explain it | None (unexplained)"""
    if all(x == "want" for x in v.values()):
        return "ok"
    used = set()
    for f, x in v.items():
        if x == "want":
            continue
        if x == "want_dev" and DEV_OF.get(f) in open_devs:
            used.add(DEV_OF[f])
        else:
            return None
    return used


def _judge(ctx, binary, cases, open_devs, findings):
    res = expo.run_sharded(ctx, binary, [_strip(c) for c in cases])
    ctx.cov["evaluations"] += len(cases)
    ctx.cov["traces_validated_against_impl"] += len(cases)
    for c in cases:
        if len(ctx.violations) >= 5:      # enough confirmed counterexamples; each costs a fresh process
            break
        r = res[c["id"]]
        k = _classify(_verdicts(r), open_devs)
        if k is None:
            r = expo.run_sharded(ctx, binary, [dict(_strip(c), id=0)])[0]      # clean start before reporting
            k = _classify(_verdicts(r), open_devs)
        if k == "ok":
            continue
        if k is None:
            bad = {f: {q: x.get(q) for q in ("missing", "extra", "bad", "status")} for f, x in r["formats"].items()
                   if x["verdict"] != "want" and not (x["verdict"] == "want_dev" and DEV_OF.get(f) in open_devs)}
            ctx.violation({"case": _strip(c), "got": r["formats"]},
                          "export differs from the specification in %s: %s" % (sorted(bad), json.dumps(bad)[:1500]))
            continue
        for d in k:
            findings.setdefault(d, []).append((c, r))


def run(ctx):
    binary = vlib.build(ctx, "c22")
    open_devs = vlib.open_devs(ctx.prop)
    for d in open_devs:
        if d not in REFINES:
            raise vlib.InfraError("known findings name a deviation Expo.tla does not have for C22: %s" % d)
    P = presets(ctx)

    # 1. corrected design: metricToGraphite's loop / HandleJSON equal the ideal record sets; every state printed as a case
    runs = [(label, expo.constants("formats", random=bool(sim), emit=True, explain=open_devs, **kw), MODEL_INVS + ["Emit"], sim, depth)
            for label, kw, sim, depth in P]
    cases = expo.collect(ctx, runs, coverage_first=True)
    # 2. each open deviation breaks its refinement (abstract witness store)
    for d in open_devs:
        r = vlib.expect_dev_counterexample(ctx, "Expo", expo.cfg(expo.constants("formats", emit=False, devs=[d], **P[0][1]),
                                                                 [REFINES[d]]), d)
        if r.violated != REFINES[d]:
            raise vlib.InfraError("%s on: expected %s to fail, TLC reports %s" % (d, REFINES[d], r.violated))
    _selftest(ctx, binary, cases)

    # 3. replay
    findings = {}
    _judge(ctx, binary, cases, set(open_devs), findings)
    for d, lst in sorted(findings.items()):
        ent = vlib.open_finding(ctx.prop, d) or {}
        lst.sort(key=lambda cr: len(json.dumps(cr[0]["store"])))
        c, r = lst[0]
        fm = [f for f, x in r["formats"].items() if x["verdict"] == "want_dev" and DEV_OF.get(f) == d]
        detail = r["formats"][fm[0]]
        ctx.known_finding(d, "%s [%s] e.g. store %s: %s expected-but-missing %s got-instead %s %s" % (
            ent.get("what", ""), ent.get("site", ""), json.dumps(c["store"], separators=(",", ":")), fm,
            (detail.get("missing") or [])[:2], (detail.get("extra") or [])[:2], detail.get("status", "")))
        ctx.cov.setdefault("cases_explained_by_open_findings", {})[d] = len(lst)

    nt = [c for c in cases if nontrivial(c)]
    ctx.cov["distinct_nontrivial"] = len({expo.store_key(c) for c in nt})
    ctx.cov["exhaustive"] = False
    ctx.cov["rule"] = ("cases = distinct (store, cfg) states of Expo.tla: every state of the exhaustive presets %s and every state of "
                       "%s random behaviours, each exported in 6 ways (json, varz, graphite http, graphite/statsd/collectd push); "
                       "non-trivial = some metric has at least two label sets (distinct values/timestamps by construction), so a "
                       "record carrying another label set's datum is visible; distinct by canonical JSON of (store, cfg)" % (
                           [p[0] for p in P if not p[2]], [(p[0], p[2]) for p in P if p[2]]))
    ctx.cov["constants"] = {p[0]: dict(p[1]) for p in P}
    ctx.cov["label_sets_max"] = max(expo.n_labelsets(c) for c in cases)
    ctx.cov["cases_with_nonfinite_float"] = sum(1 for c in cases for m in c["store"] if m["type"] == "Float" and any(
        l["val"]["tok"] in ("nan", "pinf", "ninf") for l in m["lsets"]))
    big = sorted(nt, key=lambda c: -expo.n_labelsets(c))
    for c in (nt[len(nt) // 2], big[0]):
        ctx.sample({"store": c["store"], "cfg": c["cfg"], "want_graphite": c["want"]["graphite"][:4],
                    "want_varz": c["want"]["varz"][:2], "origin": c["origin"]})
    ctx.assumptions += [
        "the harness' per-format parsers (graphite/statsd/collectd/varz lines, encoding/json decoding) are trusted",
        "abstraction map internal/verif/expo: tokens -> concrete names, label values, numbers, times (injective, shared by store "
        "construction and expected records); numbers are compared by value (ints exactly, floats by float64 identity, NaN = NaN)",
        "names, keys and label values contain no '.', '-', ',', '=', whitespace (the property's restriction to non-separator characters)",
    ]


def replay(ctx, path):
    binary = vlib.build(ctx, "c22")
    c = json.load(open(path))["case"]["case"]
    open_devs = set(vlib.open_devs(ctx.prop))
    r = expo.run_sharded(ctx, binary, [dict(c, id=0)])[0]
    v = _verdicts(r)
    vlib.log("replay:", v)
    k = _classify(v, open_devs)
    if k == "ok":
        return
    if k is None:
        ctx.violation({"case": c, "got": r["formats"]}, "export differs from the specification")
        return
    for d in k:
        ctx.known_finding(d, "replayed case is explained by the open finding")
