"""C14 - Program reload preserves state and never duplicates series.

spec/Runtime.tla (family C14): CompileAndRun at the code's grain (hash
short-circuit, compile, ONE Store.Add per non-hidden metric, ProgLoads++, handle
swap), LoadAllPrograms/UnloadProgram, line fan-out, Gc and `del after` marks over an
explicit heap of *Metric and datum objects; the seven-version family of the property.

  1. TLC, corrected design (all DEV_ switches off): IdenticalReloadIsNoop,
     KeptDeclarationKeepsData, FailedLoadChangesNothing, RunningVmIsExported,
     NoDuplicateSeries, RefusalOnlyForeignKind, CountersExact - exhaustive.
  2. TLC, each *open* deviation on: must yield its counterexample (DESIGN 4.4).
  3. Direction A: every maximal history TLC enumerates (plus `-simulate` samples of
     longer ones) is replayed on a real runtime.Runtime + metrics.Store + Prometheus
     registry (harness internal/verif/c14 -> rtx); after every action the store
     projection, prog_* counters, handles, scrape and the rt.load.* hook events are
     compared with the model.  A mismatch against the corrected design that the
     model with exactly the open deviations reproduces is a KNOWN-FINDING,
     anything else a VIOLATION.
"""
import json

import rtlib
import vlib

LEVEL = "model_checking"
META = {
    "text": "TLC exhausts spec/Runtime.tla (CompileAndRun/Store.Add/LoadAllPrograms/Gc at the code's grain over a heap of "
            "metric and datum objects) for all histories of <=5 (thorough 6) actions over the seven-version family "
            "(identical, comment-only, declaration moved, kind/type/keys changed, syntax error) x lines x Gc x remove, checks "
            "IdenticalReloadIsNoop / KeptDeclarationKeepsData / FailedLoadChangesNothing / NoDuplicateSeries on the corrected "
            "design, and every enumerated history is replayed on a real Runtime+Store+Prometheus registry comparing store, "
            "counters, handles, scrape and hook events after each action.",
    "note": "Lines are sent only between loader calls (the interleaving of a line with a reload in progress is C20). "
            "One program, one label key; histograms, limits and text metrics are not in the version family.",
    "technique": "TLA+ spec + TLC exhaustive/simulated histories replayed into the real runtime, store and exporter (direction A); thorough: hook traces of the repository's runtime/program-load tests validated by spec/TraceRuntime.tla (direction B)",
    "design_ref": "DESIGN.md 5/C14, Appendix A.4",
}
FAM = "C14"
INVS = ["TypeOK", "IdenticalReloadIsNoop", "KeptDeclarationKeepsData", "FailedLoadChangesNothing", "RunningVmIsExported",
        "NoDuplicateSeries", "RefusalOnlyForeignKind", "CountersExact"]


def W(cid):
    return {"op": "write", "name": "p.mtail", "to": "", "cid": cid, "line": ""}


def L(l):
    return {"op": "line", "name": "", "to": "", "cid": "", "line": l}


# deviation -> (helper deviations needed to reach it in this family, invariants it must break, abstract witness)
DEMO = {
    "DEV_DupeKeyIncludesSource": ((), ["NoDuplicateSeries"], [W("v0"), W("v2")]),
    "DEV_DupeKeyIncludesType": ((), ["NoDuplicateSeries"], [W("v0"), L("a"), W("v4"), L("a")]),
    "DEV_AddDropsExpiry": ((), ["KeptDeclarationKeepsData"], [W("v0"), L("a"), W("v1")]),
    "DEV_PartialRegistration": (("DEV_KindCheckAgainstFirst",), ["FailedLoadChangesNothing", "RunningVmIsExported"],
                                [W("v0"), L("a"), W("v3"), L("b")]),
    "DEV_KindCheckAgainstFirst": ((), ["RefusalOnlyForeignKind"], [W("v0"), W("v3")]),
    "DEV_RegisterErrorNotCounted": (("DEV_KindCheckAgainstFirst",), ["CountersExact"], [W("v0"), W("v3")]),
}


def nontrivial(c):
    """a reload that changes the content while a version is running, after at least one line"""
    seen_line, loaded = False, None
    for s in c["h"]:
        a = s["a"]
        if a["op"] == "line" and loaded:
            seen_line = True
        elif a["op"] == "write":
            if loaded and a["cid"] != loaded and seen_line:
                return True
            if a["cid"] != "v6":
                loaded = a["cid"]
        elif a["op"] == "rm":
            loaded = None
    return False


def run(ctx):
    opened = vlib.open_devs(ctx.prop)
    unknown = [d for d in opened if d not in DEMO]
    if unknown:
        raise vlib.InfraError("open findings name deviations the C14 model does not have: %s" % unknown)
    th = ctx.thorough
    W4 = max(2, vlib.NCPU // 4)
    out = {}

    def job(name, f):
        def g():
            out[name] = f()
        return g

    jobs = [
        job("bin", lambda: vlib.build(ctx, "c14")),
        # (1) corrected design, exhaustive, history-free fingerprint
        job("prop", lambda: rtlib.model(ctx, FAM, 6 if th else 5, invs=INVS, label="C14-props", workers=W4 * 2, timeout=1500)),
        # (3) histories to replay
        job("emit", lambda: rtlib.model(ctx, FAM, 5 if th else 4, invs=INVS, emit=True, label="C14-emit", workers=W4, timeout=1500,
                                        coverage=not th)),
    ]
    if opened:
        jobs.append(job("emitdev", lambda: rtlib.model(ctx, FAM, 5 if th else 4, devs=opened, emit=True,
                                                       label="C14-emit-dev", workers=W4, timeout=1500)))
    if th:
        jobs.append(job("prop_free", lambda: rtlib.model(ctx, FAM, 5, invs=INVS, firstbase=False, label="C14-props-anyfirst",
                                                         workers=W4, timeout=1500)))
        jobs.append(job("prop_omit", lambda: rtlib.model(ctx, FAM, 5, invs=INVS, omit_source=True, label="C14-props-omitsource",
                                                         workers=W4, timeout=1500, coverage=True)))
        jobs.append(job("emit_omit", lambda: rtlib.model(ctx, FAM, 4, invs=INVS, emit=True, omit_source=True,
                                                         label="C14-emit-omitsource", workers=W4, timeout=1500)))
        if opened:
            jobs.append(job("emitdev_omit", lambda: rtlib.model(ctx, FAM, 4, devs=opened, emit=True, omit_source=True,
                                                                label="C14-emit-dev-omitsource", workers=W4, timeout=1500)))
    # (2) every open deviation must produce its counterexample on its witness
    for dev in opened:
        helpers, targets, script = DEMO[dev]

        def demo(dev=dev, helpers=helpers, targets=targets, script=script):
            r = rtlib.model(ctx, FAM, len(script), devs=(dev,) + tuple(helpers), invs=targets, scripts=[script], view=False,
                            label="C14-dev-" + dev, workers=1, expect_violation=True, timeout=600)
            if r.violated not in targets:
                raise vlib.InfraError("deviation %s on, but TLC reports %r instead of one of %s: mis-modelled" % (
                    dev, r.violated, targets))
        jobs.append(demo)
    nsim, depth = (800, 8) if th else (150, 7)
    jobs.insert(1, job("sim", lambda: rtlib.model(ctx, FAM, depth, invs=INVS, emit=True, simulate=nsim, depth=depth * 14 + 5,
                                                  seed=ctx.seed * 13 + 1, label="C14-sim", timeout=900, maxlines=4)))
    if th:
        # direction B: the repository's own runtime / program-load tests, recorded with the hooks on
        jobs.append(lambda: rtlib.direction_b(ctx, "C14"))
    rtlib.parallel(jobs)
    rtlib.check_coverage(out["prop_omit"] if th else out["emit"], FAM)

    binary = out["bin"]
    seen = set()

    def replay(cases, cases_dev, what, **kw):
        for c in cases:
            if nontrivial(c):
                seen.add(rtlib.case_key(c) + what[-5:])
        ctx.sample({"history": rtlib.describe(FAM, cases[len(cases) // 3]), "configuration": what,
                    "expected_after_last_action": cases[len(cases) // 3]["h"][-1]["obs"]["store"]})
        rtlib.replay(ctx, binary, FAM, cases, cases_dev, what=what, open_devs=opened, **kw)

    replay(out["emit"].cases, out["emitdev"].cases if opened else None, "exhaustive")
    if th:
        replay(out["emit_omit"].cases, out["emitdev_omit"].cases if opened else None, "exhaustive, OmitMetricSource",
               omit_source=True)
    # longer histories: TLC -simulate under the corrected design, then the deviating model follows exactly those
    sim = out["sim"]
    uniq = {}
    for c in sim.cases:
        uniq.setdefault(rtlib.case_key(c), c)
    simc = list(uniq.values())
    simdev = None
    if opened and simc:
        scripts = [[s["a"] for s in c["h"]] for c in simc]
        simdev = rtlib.model(ctx, FAM, depth, devs=opened, emit=True, scripts=scripts, label="C14-sim-dev", workers=W4 * 2,
                             timeout=1500, maxlines=4).cases
    if simc:
        replay(simc, simdev, "simulated depth %d" % depth)

    ctx.cov["distinct_nontrivial"] = len(seen)
    ctx.cov["exhaustive"] = True
    ctx.cov["rule"] = ("every maximal history of Runtime.tla/C14 (first action = load the base version, then every sequence of "
                       "write one of 7 versions+LoadAllPrograms | remove+LoadAllPrograms | line a/b/old-a | Gc) is replayed on the "
                       "real code; non-trivial = the history reloads changed content over a running version after at least one "
                       "line; distinct by action sequence and configuration")
    ctx.cov["constants"] = {"MaxOps_properties": 6 if th else 5, "MaxOps_replayed_exhaustively": 5 if th else 4,
                            "simulated_histories": len(simc), "simulated_length": depth, "versions": 7,
                            "open_deviations": opened}
    ctx.assumptions += [
        "a line is sent only while no load is in progress (line/reload interleavings are property C20)",
        "abstract versions are rendered to mtail source by lib/rtlib.py; the replay compares kind, type, keys and the "
        "declaration's source line of every stored metric with the model, so a wrong rendering is a mismatch, not a pass",
        "datum timestamps are abstracted to 'older than one hour' (settime(1000)) vs 'now'",
    ]


def replay(ctx, path):
    rtlib.replay_file(ctx, "c14", path)
