"""C17 - Pipes and sockets deliver all bytes, never splice connections, then end.

spec/ConnStream.tla models fifostream.go / socketstream.go / dgramstream.go / cancel.go at the grain of
their goroutines' critical sections (writers and the canceller as environment, the kernel's queues, the
accept / closer / handler / reader goroutines, the lines channel).  TLC checks the statement of C17
(per-source order, unterminated tail once at close, no splicing, everything read is delivered before the
channel is closed, the stream only ends for a legitimate reason, and - under fairness - it does end
after cancel / after the pipe's writers are gone) on every interleaving of small configurations.

Binding, direction B: the Go harness (internal/verif/c17) runs REAL named pipes, stdin, unix and tcp
stream sockets, unixgram and udp sockets created through logstream.New with 1-4 scripted writer
goroutines (seeded chunking, delays, partial last lines, closes) and cancellation at seeded points, and
records harness-side events ordered by one mutex-protected counter per trace.  spec/TraceConnStream.tla
explains every trace as a behaviour of ConnStream (silent kernel/goroutine steps inferred by TLC); a
trace it cannot explain is real-code behaviour the corrected design forbids.
"""
import json
import time
import os
import random
import subprocess
import threading

import vlib

LEVEL = "model_checking"
META = {
    "text": "TLC exhausts spec/ConnStream.tla (writers, kernel queues, accept/closer/handler/reader goroutines of "
            "fifostream.go, socketstream.go, dgramstream.go, cancel.go) for 1-3 writers x <=2-3 chunks x every interleaving "
            "incl. cancel, and spec/TraceConnStream.tla validates hundreds of event traces recorded around real fifo, stdin, "
            "unix, tcp, unixgram and udp log streams (1-4 writer goroutines, seeded chunking/delays/closes/cancellation).",
    "note": "Kernel reads and goroutine scheduling cannot be driven from outside, so schedules are sampled (seeded delays), "
            "not enumerated; TLC infers the unobservable steps.  UDP loss is modelled as an explicit kernel Drop (assumption). "
            "CR handling and buffer reslicing of the LineReader are C15's.",
    "technique": "TLA+ spec + TLC exhaustive model check; trace validation of real executions (direction B)",
    "design_ref": "DESIGN.md 5/C17, 2.3 B, Appendix A.6",
}

DEVS = ["DEV_CloserAwaitsFirstConn", "DEV_HandlerAddedAfterWait", "DEV_DgramSharedBuffer"]
MUTS = ["MUT_SharedReader", "MUT_FifoEndsOnStartupEof", "MUT_FinishSkipped", "MUT_NoReadDeadline"]
SAFETY = ["TypeOK", "NoSplice", "InOrder", "NoSendAfterClose", "ReadIsDelivered", "AllDeliveredAtClose", "EndJustified"]
LIVENESS = ["EndsAfterCancel", "FifoEndsAfterClose", "EventuallyDelivered"]
MODEL_KIND = {"fifo": "fifo", "stdin": "fifo", "unix": "sock", "tcp": "sock", "unixgram": "dgram", "udp": "dgram"}
KINDS = ["unix", "tcp", "fifo", "unixgram", "udp", "stdin", "unix", "fifo"]


# ---------------------------------------------------------------------------
# TLC configs
# ---------------------------------------------------------------------------
def _cfg(spec, configs=None, shapes=None, maxchunks=1000, on=(), invariants=(), properties=(),
         tracefile=None, postcondition=None, relaxed=False):
    L = ["SPECIFICATION %s" % spec, "CONSTANTS"]
    if tracefile:
        L += ['  TraceFile = "%s"' % tracefile, "  Relaxed = %s" % ("TRUE" if relaxed else "FALSE"),
              "  Configs = {}", "  ChunkShapes = {}"]
    else:
        L += ["  Configs <- %s" % configs, "  ChunkShapes <- %s" % shapes]
    L.append("  MaxChunks = %d" % maxchunks)
    for k in DEVS + MUTS:
        L.append("  %s = %s" % (k, "TRUE" if k in on else "FALSE"))
    L += ["INVARIANT %s" % i for i in invariants]
    L += ["PROPERTY %s" % p for p in properties]
    if postcondition:
        L.append("POSTCONDITION %s" % postcondition)
    L.append("CHECK_DEADLOCK FALSE")
    return "\n".join(L) + "\n"


def _par(jobs, width):
    """Run thunks concurrently (each is one TLC process); first error wins."""
    sem = threading.Semaphore(width)
    out, errs = [None] * len(jobs), []

    def work(i):
        with sem:
            try:
                out[i] = jobs[i]()
            except Exception as e:       # noqa: BLE001 - re-raised below
                errs.append(e)
    ths = [threading.Thread(target=work, args=(i,)) for i in range(len(jobs))]
    for t in ths:
        t.start()
    for t in ths:
        t.join()
    if errs:
        raise errs[0]
    return out


def model_stage(ctx):
    """Step 1 of DESIGN 4.4: the corrected design satisfies C17; each open deviation and each model
    mutation breaks it."""
    if ctx.thorough:
        safety = [("CfgSock2", "Shapes3", 2), ("CfgSock3N", "Shapes2", 1), ("CfgFifo2", "Shapes2", 3), ("CfgFifo2", "Shapes3", 2),
                  ("CfgDgram2", "ShapesDgram", 2), ("CfgFifo3", "Shapes2", 1), ("CfgSock1", "Shapes3", 3)]
        live = [("CfgAll1", "Shapes3", 3), ("CfgFifo2", "Shapes2", 1), ("CfgSock2", "Shapes2", 1),
                ("CfgDgram2", "Shapes2", 1)]
    else:
        safety = [("CfgFifo2", "Shapes2", 2), ("CfgSock2", "Shapes2", 1), ("CfgDgram2", "ShapesDgram", 1),
                  ("CfgSock1", "Shapes3", 3)]
        live = [("CfgAll1", "Shapes3", 2)]
    w = max(2, vlib.NCPU // 4)
    jobs = []
    for c, s, m in safety:
        jobs.append(lambda c=c, s=s, m=m: vlib.tlc(
            ctx, "MCConnStream", _cfg("Spec", c, s, m, invariants=SAFETY), workers=w,
            label="safety-%s-%s-%d" % (c, s, m), timeout=1800, coverage=not ctx.thorough))
    for c, s, m in live:
        jobs.append(lambda c=c, s=s, m=m: vlib.tlc(
            ctx, "MCConnStream", _cfg("Spec", c, s, m, invariants=SAFETY, properties=LIVENESS), workers=w,
            label="live-%s-%s-%d" % (c, s, m), timeout=1800))
    if ctx.thorough:
        # coverage on one small instance per stream shape
        for c, s in (("CfgFifo2", "Shapes2"), ("CfgSock2", "Shapes2"), ("CfgDgram2", "ShapesDgram")):
            jobs.append(lambda c=c, s=s: vlib.tlc(ctx, "MCConnStream", _cfg("Spec", c, s, 1, invariants=SAFETY), workers=w,
                                                  label="coverage-" + c, timeout=900, coverage=True))
    # deviations and mutations must break the property on the model
    expect = {
        "DEV_CloserAwaitsFirstConn": ("CfgSock1", "Shapes2", 1, [], ["EndsAfterCancel"]),
        "DEV_HandlerAddedAfterWait": ("CfgSock2", "Shapes2", 1, ["NoSendAfterClose"], []),
        "DEV_DgramSharedBuffer": ("CfgDgram2", "ShapesDgram", 2, ["NoSplice"], []),
        "MUT_SharedReader": ("CfgSock2", "Shapes2", 1, ["NoSplice"], []),
        "MUT_FifoEndsOnStartupEof": ("CfgFifo1", "Shapes2", 1, ["EndJustified"], []),
        "MUT_FinishSkipped": ("CfgSock1", "Shapes2", 1, ["AllDeliveredAtClose"], []),
        "MUT_NoReadDeadline": ("CfgSock1", "Shapes2", 1, [], ["EndsAfterCancel"]),
    }
    # quick: the open deviations and one mutation; thorough: all
    names = [sw for sw in expect if ctx.thorough or sw.startswith("DEV_") or sw == "MUT_SharedReader"]
    for sw in names:
        c, s, m, inv, prop = expect[sw]
        jobs.append(lambda sw=sw, c=c, s=s, m=m, inv=inv, prop=prop: vlib.expect_dev_counterexample(
            ctx, "MCConnStream", _cfg("Spec", c, s, m, on=[sw], invariants=inv, properties=prop), sw, workers=2, timeout=900))
    res = _par(jobs, width=max(2, vlib.NCPU // w))
    never = None
    cov_runs = [r for r in res[:len(safety)]] if not ctx.thorough else res[len(safety) + len(live):len(safety) + len(live) + 3]
    for r in cov_runs:
        z = set(r.zero_cov)
        never = z if never is None else (never & z)
    # SSendNone exists only for MUT_SharedReader; SCloserWait / SCloseChan only for the code before fix 9cf62fdb
    # (DEV_HandlerAddedAfterWait: the closer goroutine waited and closed the channel), exercised by its counterexample run
    never = sorted((never or set()) - {"SSendNone", "SCloserWait", "SCloseChan"})
    ctx.cov["actions_never_taken"] = never
    if never:
        raise vlib.InfraError("ConnStream actions never taken in any coverage run (vacuous model): %s" % never)
    for sw, r in zip(names, res[-len(names):]):
        ctx.cov.setdefault("switch_counterexamples", {})[sw] = r.violated


# ---------------------------------------------------------------------------
# case generation (the whole schedule script lives in the case: replayable)
# ---------------------------------------------------------------------------
def gen_case(rng, cid, kind):
    sock = kind in ("unix", "tcp")
    dgram = kind in ("unixgram", "udp")
    nw = rng.choice([1, 2, 2, 3, 3, 4]) if kind != "stdin" else rng.choice([1, 2, 3])
    oneshot = (sock and rng.random() < 0.25) or (dgram and rng.random() < 0.3)
    tight = rng.random() < 0.35            # no delays at all: maximal contention
    writers = []
    for w in range(1, nw + 1):
        nlines = rng.choice([0, 1, 2, 2, 3, 4])
        stream = []
        for ln in range(nlines):
            for pos in range(rng.randint(1, 5)):
                stream.append(10 * w + (ln * 3 + pos) % 10)
            stream.append(0)
        if stream and rng.random() < 0.5:
            stream.pop()                   # unterminated last line
        cuts = sorted(set(rng.randint(1, len(stream) - 1) for _ in range(rng.randint(0, 3)))) if len(stream) > 1 else []
        chunks = [stream[a:b] for a, b in zip([0] + cuts, cuts + [len(stream)])] if stream else []
        if dgram and oneshot and rng.random() < 0.5:
            chunks.append([])              # zero-length datagram: the one-shot "close"
        elif dgram and not oneshot and rng.random() < 0.35:
            chunks.insert(rng.randint(0, len(chunks)), [])     # ... which a stream that is not one-shot just skips
        d = (lambda hi: 0) if tight else (lambda hi: rng.choice([0, 0, rng.randint(1, hi)]))
        writers.append({"open_delay_us": d(2000), "chunks": chunks, "delays_us": [d(1500) for _ in chunks],
                        "close_delay_us": d(1000)})
    if writers and rng.random() < 0.25:
        rng.choice(writers)["hold"] = True     # stays open until the stream ended: only the read deadline can end it
    mode = rng.choice(["drain", "cut"])
    return {"id": cid, "kind": kind, "oneshot": oneshot, "mode": mode, "writers": writers,
            "cancel_us": rng.choice([0, rng.randint(0, 300), rng.randint(0, 4000)]),
            "cancel_lines": rng.choice([-1, -1, 0, 1, 2, 3])}


def hunt_case(rng, cid):
    """The schedule that DEV_HandlerAddedAfterWait needs: a second connection dialled while the
    stream is being cancelled (first connection already served, so `started` is closed)."""
    return {"id": cid, "kind": "unix", "oneshot": False, "mode": "cut", "hunt": True,
            "writers": [{"open_delay_us": 0, "chunks": [[11, 0]], "delays_us": [0], "close_delay_us": 3000},
                        {"open_delay_us": 150 + rng.randint(0, 120), "chunks": [[21, 22]], "delays_us": [0],
                         "close_delay_us": 1000}],
            "cancel_us": 150 + rng.randint(0, 120), "cancel_lines": -1}


def witness_noconn(cid, kind="unix"):
    """DEV_CloserAwaitsFirstConn: a stream socket nobody connects to, then cancel."""
    return {"id": cid, "kind": kind, "oneshot": False, "mode": "drain", "writers": [], "cancel_us": 0, "cancel_lines": -1}


def nontrivial(case):
    """>= 2 writers that write something, or a cut that can land mid-stream."""
    active = [w for w in case["writers"] if any(w["chunks"])]
    return len(active) >= 2 or (case["mode"] == "cut" and len(active) >= 1)


# ---------------------------------------------------------------------------
# running the harness
# ---------------------------------------------------------------------------
class Crash(Exception):
    """The harness process was killed by a Go panic / fatal error raised inside mtail's own code."""
    def __init__(self, stderr, rc):
        Exception.__init__(self, "harness crashed rc=%s" % rc)
        self.stderr, self.rc = stderr, rc
        i = max(stderr.find("panic:"), 0) if "panic:" in stderr else max(stderr.find("fatal error:"), 0)
        self.stack = stderr[i:i + 2500]
        self.send_closed = "send on closed channel" in self.stack


def _is_mtail_crash(stderr):
    """A runtime panic whose running goroutine is inside internal/tailer (not the harness' own code)."""
    if "panic:" not in stderr and "fatal error:" not in stderr:
        return False
    i = stderr.find("panic:") if "panic:" in stderr else stderr.find("fatal error:")
    first = stderr[i:].split("\n\n")[1] if "\n\n" in stderr[i:] else stderr[i:]
    return "mtail/internal/tailer/" in first and "mtail/internal/verif/c17.run" not in first.split("created by")[0].split("mtail/internal/tailer/")[0]


def _run_proc(ctx, binary, cases, par, deadline, tag):
    d = ctx.sub("c17-" + tag)
    inp, out = os.path.join(d, "cases.ndjson"), os.path.join(d, "events.ndjson")
    with open(inp, "w") as f:
        for c in cases:
            f.write(json.dumps(c, separators=(",", ":")) + "\n")
    env = vlib.harness_env(ctx)
    env["VERIF_SEED"] = str(ctx.seed)
    with open(inp) as fin:
        try:
            r = subprocess.run([binary, "-out=" + out, "-par=%d" % par, "-deadline=%ds" % deadline], stdin=fin, env=env,
                               capture_output=True, text=True, errors="replace", cwd=d,
                               timeout=120 + 4 * deadline + len(cases) * 0.5)
        except subprocess.TimeoutExpired:
            raise vlib.InfraError("c17 harness timed out (%s)" % tag)
    events = {}
    if os.path.exists(out):
        for line in open(out):
            try:
                e = json.loads(line)
            except ValueError:
                continue                   # a line cut short by a crash
            events.setdefault(e["t"], []).append(e)
    for evs in events.values():
        evs.sort(key=lambda e: e["n"])
    crash = None
    if r.returncode != 0:
        if r.returncode == 2 and _is_mtail_crash(r.stderr):
            crash = Crash(r.stderr, r.returncode)
        else:
            raise vlib.InfraError("c17 harness exited %d (%s):\n%s" % (r.returncode, tag, r.stderr[-3000:]))
    if crash:
        crash.order = [c["id"] for c in cases]
        crash.events = events
    return events, crash


def run_cases(ctx, binary, cases, procs, par, deadline, tag, resume=False):
    """Run the cases in `procs` harness processes.  Returns ({case id: events}, [Crash...]).  With
    resume, a process that was killed by a panic inside the stream is restarted on the cases it had not
    reached yet (the crashed trace itself is not repeated)."""
    shards = [cases[i::procs] for i in range(procs)]
    shards = [s for s in shards if s]
    res = [None] * len(shards)
    errs = []

    def work(i):
        try:
            todo, events, crashes = shards[i], {}, []
            for attempt in range(40):
                ev, crash = _run_proc(ctx, binary, todo, par, deadline, "%s-%d-%d" % (tag, i, attempt))
                events.update(ev)
                if not crash:
                    break
                crashes.append(crash)
                if not resume:
                    break
                done = set(ev)
                todo = [c for c in todo if c["id"] not in done]
                if not todo:
                    break
            res[i] = (events, crashes)
        except Exception as e:           # noqa: BLE001 - re-raised below
            errs.append(e)
    ths = [threading.Thread(target=work, args=(i,)) for i in range(len(shards))]
    for i, t in enumerate(ths):
        t.start()
    for t in ths:
        t.join()
    if errs:
        raise errs[0]
    events, crashes = {}, []
    for ev, crs in res:
        events.update(ev)
        for crash in crs:
            crash.unfinished = {k: e for k, e in crash.events.items() if not complete(e) and e and e[0]["ev"] == "reset"}
            crashes.append(crash)
    return events, crashes


def complete(evs):
    return bool(evs) and evs[-1]["ev"] == "end"


def to_records(evs, tid, panic=False):
    """Harness events of one trace -> the records TraceConnStream.tla reads."""
    out = []
    for e in evs:
        ev = e["ev"]
        if ev == "reset":
            out.append({"ev": "reset", "id": tid, "kind": MODEL_KIND[e["real"]], "oneshot": bool(e["oneshot"]),
                        "lossy": e["real"] == "udp", "nw": e["nw"]})
        elif ev in ("open", "opened", "openfail", "written", "writefail", "close"):
            out.append({"ev": ev, "w": e["w"]})
        elif ev == "write":
            out.append({"ev": ev, "w": e["w"], "b": e["b"]})
        elif ev == "line":
            out.append({"ev": ev, "b": e["b"]})
        elif ev == "stall":
            out.append({"ev": ev, "what": e["what"]})
        else:
            out.append({"ev": ev})
    if panic:
        if out and out[-1]["ev"] == "end":
            out.pop()
        if not any(r["ev"] == "chanclosed" for r in out):
            out.append({"ev": "chanclosed"})      # the panic message itself says the channel was closed
        out += [{"ev": "panic"}, {"ev": "end"}]
    return out


def renumber(recs):
    """The k-th "line" record gets k; the reset record gets all observed lines (the prophecy the trace
    specification uses to place the silent sends)."""
    recs = [dict(r) for r in recs]
    lines = []
    for r in recs:
        if r["ev"] == "line":
            lines.append(r["b"])
            r["k"] = len(lines)
    recs[0]["lines"] = lines
    recs[0]["opens"] = sorted({r["w"] for r in recs if r["ev"] == "opened"})
    return recs


def validate(ctx, traces, on=(), label="traces", invariants=("TSafety",), relaxed=False):
    """traces: {key: [records]} -> (set of accepted keys, {key: index of the first event that could not be
    explained, relative to the trace})."""
    allkeys = list(traces)
    if not allkeys:
        return set(), {}
    nshard = max(1, min(vlib.NCPU // 2 or 1, 6, len(allkeys) // (2 if relaxed else 40) or 1))
    results, errs = [], []

    def work(si, keys):
        try:
            lines, start = [], {}
            for i, k in enumerate(keys):
                recs = renumber(traces[k])
                recs[0]["id"] = i + 1
                start[i + 1] = len(lines) + 1
                lines += [json.dumps(r, separators=(",", ":")) for r in recs]
            r = vlib.tlc(ctx, "TraceConnStream",
                         _cfg("TSpec", tracefile="trace.ndjson", on=on, invariants=list(invariants) if not on else [],
                              postcondition="Post", relaxed=relaxed),
                         workers=1, timeout=1200, extra_files={"trace.ndjson": "\n".join(lines) + "\n"},
                         label="%s-%d" % (label, si))
            acc, hw = set(), {}
            for c in r.cases:
                if "accept" in c:
                    acc.add(keys[c["accept"] - 1])
                elif "hw" in c:
                    hw[keys[c["tr"] - 1]] = c["hw"] - start[c["tr"]]
            if len(hw) != len(keys):
                raise vlib.InfraError("trace validation did not report every trace (%d of %d)" % (len(hw), len(keys)))
            results.append((acc, hw))
        except Exception as e:           # noqa: BLE001 - re-raised below
            errs.append(e)
    ths = [threading.Thread(target=work, args=(si, allkeys[si::nshard])) for si in range(nshard)]
    for t in ths:
        t.start()
    for t in ths:
        t.join()
    if errs:
        raise errs[0]
    acc, hw = set(), {}
    for a, h in results:
        acc |= a
        hw.update(h)
    return acc, hw


def selftest(ctx, traces, accepted):
    """DESIGN 7: the trace specification really binds - corrupt one recorded field / drop one event /
    reorder two deliveries of an accepted real trace and expect a rejection."""
    best = None
    for k in accepted:
        recs = traces[k]
        lines = [i for i, r in enumerate(recs) if r["ev"] == "line" and r["b"]]
        owners = [recs[i]["b"][0] // 10 for i in lines]
        if recs[0]["kind"] == "sock" and recs[0]["nw"] >= 2 and len(lines) >= 3 and len(set(owners)) < len(owners) and \
                any(r["ev"] == "chanclosed" for r in recs):
            best = (k, recs, lines)
            break
    if best is None:
        raise vlib.InfraError("self-test: no accepted stream-socket trace with >= 2 writers and >= 3 lines")
    k, recs, lines = best
    muts = {}
    m = [dict(r) for r in recs]
    i = lines[len(lines) // 2]
    other = 10 * (m[i]["b"][0] // 10 % recs[0]["nw"] + 1) + 7
    m[i]["b"] = m[i]["b"][:-1] + [other]                 # one byte of another connection spliced in
    muts["corrupt-byte"] = m
    same = [(a, b) for a in lines for b in lines if a < b and recs[a]["b"][0] // 10 == recs[b]["b"][0] // 10]
    if same:
        a, b = same[0]
        # a line that is followed by a later line of the same connection goes missing
        muts["drop-line"] = [dict(r) for j, r in enumerate(recs) if j != a]
        m = [dict(r) for r in recs]
        m[a], m[b] = m[b], m[a]
        muts["swap-lines"] = m
    muts["dup-line"] = recs[:lines[-1] + 1] + [dict(recs[lines[-1]])] + recs[lines[-1] + 1:]
    cc = [j for j, r in enumerate(recs) if r["ev"] == "chanclosed"][0]
    muts["drop-chanclosed"] = [dict(r) for j, r in enumerate(recs) if j != cc]
    muts["chanclosed-before-last-line"] = recs[:lines[-1]] + [recs[cc]] + [recs[lines[-1]]] + \
        [r for j, r in enumerate(recs[lines[-1] + 1:], lines[-1] + 1) if j != cc]
    muts["control-unmodified"] = recs
    acc, _ = validate(ctx, muts, label="selftest")
    wrongly = sorted(a for a in acc if a != "control-unmodified")
    if wrongly or "control-unmodified" not in acc:
        raise vlib.InfraError("trace-spec self-test failed: corrupted traces accepted %s / control accepted %s" % (
            wrongly, "control-unmodified" in acc))
    ctx.cov["selftest_mutants_rejected"] = len(muts) - 1


# ---------------------------------------------------------------------------
def classify(ctx, binary, cases, traces, rejected, hw, deadline):
    """DESIGN 4.4 steps 2-3 for the traces the corrected design rejects."""
    if not rejected:
        return
    open_devs = [d for d in vlib.open_devs(ctx.prop) if d in DEVS]
    left = set(rejected)
    sub = {k: traces[k] for k in left}
    accs = _par([lambda dev=dev: validate(ctx, sub, on=[dev], label="explain-" + dev)[0] for dev in open_devs], width=4)
    for dev, acc in zip(open_devs, accs):
        acc = acc & left
        if acc:
            k = sorted(acc, key=lambda x: len(traces[x]))[0]
            f = vlib.open_finding(ctx.prop, dev)
            known(ctx, dev, "%s; %d trace(s) of this run, e.g. %s" % (
                f.get("what", ""), len(acc), json.dumps(brief(traces[k]), separators=(",", ":"))))
            ctx.cov.setdefault("explained_by_open_finding", {})[dev] = \
                ctx.cov.setdefault("explained_by_open_finding", {}).get(dev, 0) + len(acc)
        left -= acc
    if left and len(open_devs) > 1:
        acc, _ = validate(ctx, {k: traces[k] for k in left}, on=open_devs, label="explain-all-open")
        for dev in open_devs if acc else []:
            known(ctx, dev, "%s (in combination with the other open findings)" % vlib.open_finding(ctx.prop, dev).get("what", ""))
        left -= acc
    if left:
        # The pruned search delays silent steps until an event needs them; should one of its "when" guards be
        # too strict for some schedule, the complete (slow) search still decides: silent steps before any event.
        acc, hwr = validate(ctx, {k: traces[k] for k in left}, label="relaxed", relaxed=True)
        ctx.cov["accepted_only_by_relaxed_search"] = sorted(acc, key=str)
        if acc:
            vlib.log("traces explained only by the relaxed search (a pruning guard is too strict): %s" % [
                (k, hw[k], traces[k][hw[k]] if hw[k] < len(traces[k]) else None) for k in sorted(acc, key=str)])
        left -= acc
        hw.update({k: hwr[k] for k in left})
        if left and open_devs:
            acc, _ = validate(ctx, {k: traces[k] for k in left}, on=open_devs, label="relaxed-open", relaxed=True)
            for dev in open_devs if acc else []:
                known(ctx, dev, "%s (relaxed search, open findings combined)" % vlib.open_finding(ctx.prop, dev).get("what", ""))
            left -= acc
    # neither the property nor an open finding explains these: reproduce from a clean start
    for k in sorted(left, key=str)[:6]:
        case = cases.get(k)
        why = "event %d (%s) cannot be explained by spec/ConnStream.tla" % (
            hw[k], json.dumps(traces[k][hw[k]] if hw[k] < len(traces[k]) else None))
        if case is None:
            ctx.violation({"trace": traces[k], "rejected_at": hw[k]}, why)
            continue
        stalled = any(r["ev"] == "stall" for r in traces[k])
        tries = 1 if stalled else 25
        again = [dict(case, id=1000 + i) for i in range(tries)]
        ev2, crashes = run_cases(ctx, binary, again, procs=min(tries, 4), par=1 if stalled else 2, deadline=deadline,
                                 tag="reexec")
        t2 = {i: to_records(e, 1) for i, e in ev2.items() if complete(e)}
        acc2, hw2 = validate(ctx, t2, label="reexec")
        acc3 = set()
        if open_devs and set(t2) - acc2:
            acc3, _ = validate(ctx, {i: t2[i] for i in set(t2) - acc2}, on=open_devs, label="reexec-open")
        bad = sorted(set(t2) - acc2 - acc3)
        if bad or crashes:
            i = bad[0] if bad else None
            ctx.violation({"case": case, "trace": traces[k], "rejected_at": hw[k],
                           "reproduced_trace": t2.get(i), "reproduced_rejected_at": hw2.get(i),
                           "crash": crashes[0].stderr[-3000:] if crashes else None}, why)
        else:
            try:        # keep the evidence: such a trace is rare and cannot be had again on demand
                os.makedirs(os.path.join(vlib.VERIF, "replays"), exist_ok=True)
                with open(os.path.join(vlib.VERIF, "replays", "C17-unreproduced-%d.json" % int(time.time())), "w") as f:
                    json.dump({"why": why, "case": case, "trace": traces[k], "rejected_at": hw[k]}, f, indent=1)
            except OSError:
                pass
            raise vlib.InfraError("a recorded trace was rejected (%s) but %d re-executions of its case were all accepted; "
                                  "case=%s trace=%s" % (why, tries, json.dumps(case), json.dumps(traces[k])))


_reported = set()


def known(ctx, dev, what):
    """One KNOWN-FINDING line per entry and run."""
    if dev not in _reported:
        _reported.add(dev)
        ctx.known_finding(dev, what)


def brief(recs):
    return [[r["ev"]] + [r[x] for x in ("w", "b", "what") if x in r] for r in recs if r["ev"] not in ("opened", "written")]


def handle_crashes(ctx, binary, crashes, cases):
    """A harness process died from a panic inside the stream: real-code behaviour.  Traces run one at a
    time per process, so the unfinished trace of that process is the one the panic belongs to."""
    dev = "DEV_HandlerAddedAfterWait"
    reported = 0
    # one TLC run for all crashes: the unfinished stream-socket trace of each crashed process (+ "panic")
    allc, prevc = {}, {}
    for n, cr in enumerate(crashes):
        cr.cands = {}
        if cr.send_closed and dev in vlib.open_devs(ctx.prop):
            cr.cands = {(n, k): to_records(e, 1, panic=True) for k, e in cr.unfinished.items()
                        if MODEL_KIND[e[0]["real"]] == "sock"}
            allc.update(cr.cands)
    acc = validate(ctx, allc, on=[dev], label="explain-panic")[0] if allc else set()
    for n, cr in enumerate(crashes):
        # a handler of the PREVIOUS stream of this process that outlived its trace (the harness waits for them, but
        # cannot see every goroutine state): try the stream socket trace that ran just before
        if cr.send_closed and cr.cands and not set(cr.cands) <= acc and len(cr.unfinished) == 1:
            k0 = list(cr.unfinished)[0]
            before = [k for k in cr.order[:cr.order.index(k0)] if k in cr.events and complete(cr.events[k])
                      and MODEL_KIND[cr.events[k][0]["real"]] == "sock"] if k0 in cr.order else []
            if before:
                cr.cands = {(n, before[-1]): to_records(cr.events[before[-1]], 1, panic=True)}
                cr.prev = before[-1]
                prevc.update(cr.cands)
    if prevc:
        acc |= validate(ctx, prevc, on=[dev], label="explain-panic-prev")[0]
    for n, cr in enumerate(crashes):
        unf = cr.unfinished
        base = [cases[k] for k in sorted(unf, key=str) if k in cases][:24]
        if getattr(cr, "prev", None) in cases:
            base = [cases[cr.prev]]
        if cr.send_closed and cr.cands and set(cr.cands) <= acc:
            k = sorted(cr.cands, key=lambda x: len(cr.cands[x]))[0]
            known(ctx, dev, "%s; witness of this run: %s" % (
                vlib.open_finding(ctx.prop, dev).get("what", ""), json.dumps(brief(cr.cands[k]), separators=(",", ":"))))
            d = ctx.cov.setdefault("explained_by_open_finding", {})
            d[dev] = d.get(dev, 0) + 1
            continue
        if reported >= 2:
            continue
        # not explained by an open finding: re-execute the case(s) that were in flight
        again = [dict(c, id=5000 + i) for i, c in enumerate(base * (400 // max(1, len(base))))]
        crashes2 = []
        for _ in range(4):
            if crashes2 or not again:
                break
            _ev, crashes2 = run_cases(ctx, binary, again, procs=min(vlib.NCPU, 4), par=max(1, min(6, len(base))), deadline=10,
                                      tag="recrash")
        what = "the stream's own code panicked: %s" % cr.stack.splitlines()[0]
        if cr.send_closed:
            what += " (a handler sent after close(lines); spec/ConnStream.tla NoSendAfterClose)"
        if crashes2:
            reported += 1
            ctx.violation({"cases_in_flight": base, "trace": {str(k): to_records(e, 1, panic=cr.send_closed) for k, e in unf.items()},
                           "crash": cr.stack, "crash_on_reexecution": crashes2[0].stack}, what)
        else:
            raise vlib.InfraError("a harness process died from a panic inside internal/tailer that did not reproduce in %d "
                                  "re-executions:\n%s" % (len(again) * 4, cr.stack))


def run(ctx):
    binary = vlib.build(ctx, "c17")
    rng = random.Random(ctx.seed * 1000003 + 17)
    n = 1200 if ctx.thorough else 200
    deadline = 10
    cases = {}
    for i in range(1, n + 1):
        cases[i] = gen_case(rng, i, KINDS[i % len(KINDS)])
    procs = min(vlib.NCPU, 8)
    wid = n + 1
    wit = {wid: witness_noconn(wid, "unix"), wid + 1: witness_noconn(wid + 1, "tcp")}
    nh = 16000 if ctx.thorough else 3000
    hunts = {i: hunt_case(rng, i) for i in range(10001, 10001 + nh)}
    # The model stage (TLC), the random traces, the two stalling witnesses (10 s each) and the race hunt run
    # side by side.  One trace at a time per harness process: a panic inside the stream is then attributable
    # to exactly one trace.
    jobs = [lambda: None if os.environ.get("VERIF_C17_SKIP_MODEL") else model_stage(ctx),    # developer switch
            lambda: run_cases(ctx, binary, list(cases.values()), procs=procs, par=1, deadline=deadline, tag="random",
                              resume=True),
            lambda: run_cases(ctx, binary, list(wit.values()), procs=1, par=2, deadline=deadline, tag="witness"),
            lambda: run_cases(ctx, binary, list(hunts.values()), procs=min(vlib.NCPU, 4), par=1, deadline=deadline, tag="hunt")]
    _, (events, crashes), (wev, wcr), (hev, hcr) = _par(jobs, width=4)
    cases.update(wit)
    events.update(wev)
    crashes += wcr
    cases.update(hunts)
    keep = sorted(k for k in hev if complete(hev[k]))
    for k in keep[::max(1, len(keep) // 150)]:
        events[k] = hev[k]
    for k in hev:
        if not complete(hev[k]):
            events[k] = hev[k]
    crashes += hcr
    ctx.cov["hunt_iterations"] = len(hev)
    ctx.cov["crashes"] = len(crashes)

    traces = {k: to_records(e, 1) for k, e in events.items() if complete(e)}
    missing = [k for k in cases if k < 10001 and k not in traces and not crashes]
    if missing:
        raise vlib.InfraError("harness produced no complete trace for cases %s" % missing[:10])
    acc, hw = validate(ctx, traces, label="traces")
    ctx.cov["traces_validated_against_impl"] += len(traces)
    ctx.cov["evaluations"] += len(traces)
    ctx.cov["events_validated"] = sum(len(t) for t in traces.values())
    ctx.cov["distinct_nontrivial"] = len({vlib.stable_hash(brief(traces[k])) for k in traces
                                          if k in cases and nontrivial(cases[k])})
    by_kind = {}
    for k, t in traces.items():
        e0 = events[k][0]
        by_kind[e0["real"]] = by_kind.get(e0["real"], 0) + 1
    ctx.cov["traces_by_kind"] = by_kind
    for k in sorted(acc)[:200]:
        if k in cases and nontrivial(cases[k]) and len(traces[k]) > 12:
            ctx.sample({"case": cases[k], "trace": brief(traces[k])}, limit=3)
    if not acc:
        raise vlib.InfraError("no trace at all was accepted - harness or trace specification broken")
    rejected = sorted(set(traces) - acc)
    ctx.cov["rejected_by_corrected_design"] = len(rejected)

    def verdicts():
        handle_crashes(ctx, binary, crashes, cases)
        classify(ctx, binary, cases, traces, rejected, hw, deadline)
    _par([lambda: selftest(ctx, traces, [k for k in sorted(acc)]), verdicts], width=2)
    ctx.cov["exhaustive"] = False
    ctx.cov["rule"] = ("model: every interleaving of ConnStream.tla for the listed configurations; implementation: one trace "
                       "per seeded case (kind x 1-4 writers x chunking x delays x drain|cut) run on the real stream; "
                       "non-trivial = at least two writers that write, or a cancellation with data in flight; distinct = "
                       "different event sequences")
    ctx.cov["constants"] = {"random_cases": n, "hunt_cases": nh, "stall_deadline_s": deadline}
    ctx.assumptions += [
        "kernel: a pipe write <= PIPE_BUF is atomic; a stream socket delivers a prefix of what was written, in order; "
        "a datagram is delivered whole or (udp only) dropped - KDrop is an explicit silent action for udp",
        "harness events are ordered by one mutex-protected counter per trace; an announced call is logged before it, an "
        "observation after it",
        "a stall (nothing for 10 s) is believed only after the case stalled again when re-executed",
        "LineReader framing (CR, buffer growth) is C15's; C17 uses LF-only payloads with writer-specific bytes",
    ]


def replay(ctx, path):
    blob = json.load(open(path))["case"]
    binary = vlib.build(ctx, "c17")
    case = blob.get("case")
    if case is None:
        acc, hw = validate(ctx, {"t": blob["trace"]}, label="replay")
        if not acc:
            ctx.violation(blob, "recorded trace rejected at event %d" % hw["t"])
        return
    tries = 1 if any(r["ev"] == "stall" for r in blob.get("trace") or []) else 40
    ev, crashes = run_cases(ctx, binary, [dict(case, id=i + 1) for i in range(tries)], procs=4, par=2, deadline=10, tag="replay")
    traces = {i: to_records(e, 1) for i, e in ev.items() if complete(e)}
    acc, hw = validate(ctx, traces, label="replay")
    bad = sorted(set(traces) - acc)
    if bad or crashes:
        ctx.violation(blob, "replayed case rejected again" + (" (process crashed)" if crashes else " at event %d" % hw[bad[0]]))
