"""C10 - Garbage collection removes exactly the expired and over-limit data.

spec/StoreGc.tla: Store.Gc at the code's grain (Range over the metrics in any
order; the limit loop `len >= Limit / for i := len; i > Limit; i--` calling
RemoveOldestDatum; the expiry sweep with its `i--` after a removal; metrics are
the slice+index records of MetricOps.tla) against the ideal GcPost, the statement
of C10 as a predicate on (store before, T, store after).  TLC starts from EVERY
store within the bounds and every T, checks GcPost / IndexOK / OnlyCurShrinks and
prints every finished pass; the Go harness (internal/verif/c10) builds each store
with the public API, calls the real Store.Gc() and compares the stores.  A real
result that differs from the module's deterministic one is judged by TLC against
GcPost itself (a different tie-break among equally old data is not a violation).
"""
import json
import os

import covutil
import vlib

LEVEL = "model_checking"
META = {
    "text": "TLC runs spec/StoreGc.tla (Store.Gc loop by loop on slice+index metrics, RemoveOldestDatum tie-breaking included) from "
            "every store of 1 metric x <=3 (thorough 4, model-only 5) data x timestamps 1-3 x expiry 0-2 x limit 0-3(4) and of 2 "
            "metrics x <=2 data, at every GC time 1-5(6), checking the statement GcPost; every finished pass is replayed on a real "
            "metrics.Store through Store.Gc() and the stores compared datum by datum; then a SECOND pass is run on the store each "
            "pass left (T2 in {T, T+1, T+2}, one datum re-stamped) and TLC judges the real (before, T2, after) with GcPost itself.",
    "note": "Gc reads time.Now(): model time t is mapped to now-(T-t)h+30min, so 'older than expiry' is reproduced for all integer "
            "ages; the exact boundary age == expiry (strict '>') is decided in the model only.",
    "technique": "TLA+ spec + TLC exhaustive over initial stores, every pass replayed into real metrics.Store.Gc (direction A); real deviations judged by the TLA+ predicate",
    "design_ref": "DESIGN.md 5/C10",
}
INVS = ["TypeOK", "IndexOK", "GcPost", "Emit"]


def rng(a, b):
    return "={%s}" % ", ".join(str(x) for x in range(a, b + 1))


def cfg(metrics, data, times, exps, limits, gct, emit=True):
    return vlib.cfg_text(spec="Spec", constants={
        "DEV_BackslashNotEscaped": False, "MaxMetrics": metrics, "MaxData": data, "Times": rng(1, times),
        "ExpirySet": rng(0, exps), "Limits": rng(0, limits), "GcTimes": rng(1, gct), "EmitCases": emit},
        invariants=INVS, properties=["OnlyCurShrinks"])


def judge(ctx, recs, op="Judge"):
    """TLC evaluates the statement (Judge = GcPost on a record) on stores the real Gc produced."""
    path = os.path.join(ctx.sub("judge"), "real.ndjson")
    with open(path, "w") as f:
        for r in recs:
            f.write(json.dumps(r) + "\n")
    mc = ('---- MODULE MCJudge ----\nEXTENDS StoreGc\nRecs == ndJsonDeserialize("%s")\nVARIABLE k\n'
          'JInit == k \\in 1..Len(Recs) /\\ pre = <<>> /\\ store = <<>> /\\ T = 0 /\\ pc = "judge" /\\ todo = {} /\\ cur = 0 /\\ i = 0\n'
          'JNext == UNCHANGED <<vars, k>>\n'
          'JEmit == PrintT(<<"CASE", ToJson([k |-> k, ok |-> %s(Recs[k])])>>)\n====\n' % (path, op))
    c = vlib.cfg_text(init="JInit", next_="JNext", constants={
        "DEV_BackslashNotEscaped": False, "MaxMetrics": 1, "MaxData": 1, "Times": "={1}", "ExpirySet": "={0}",
        "Limits": "={0}", "GcTimes": "={1}", "EmitCases": False}, invariants=["JEmit"])
    r = vlib.tlc(ctx, "MCJudge", c, extra_files={"MCJudge.tla": mc}, workers=1, label="StoreGc-judge")
    ok = {x["k"]: x["ok"] for x in r.cases}
    if len(ok) != len(recs):
        raise vlib.InfraError("TLC judged %d of %d real stores" % (len(ok), len(recs)))
    return [ok[k + 1] for k in range(len(recs))]


def nontrivial(c):
    """the pass removes something from a metric that also keeps something, or limit and expiry both apply"""
    for pre, post in zip(c["pre"], c["post"]):
        n = len(pre["data"])
        if n >= 2 and 0 < len(post) < n:
            return True
        if pre["limit"] and n > pre["limit"] and any(e > 0 for _t, e in pre["data"]):
            return True
    return False


def key(c):
    return json.dumps([c["T"], c["pre"]], sort_keys=True)


def replay_cases(ctx, binary, cases, what, drift):
    if not cases:
        raise vlib.InfraError("TLC emitted no Gc passes for %s" % what)
    # two metrics can be visited in either order: the same (store, T) is printed once per order; the
    # outcome must not depend on the order (the real Range order cannot be chosen by the harness)
    by = {}
    for c in cases:
        k = key(c)
        if k in by and by[k]["post"] != c["post"]:
            raise vlib.InfraError("model result depends on the Range order: %s" % k)
        by[k] = c
    uniq = list(by.values())
    recs = vlib.run_harness(ctx, binary, cases=uniq, timeout=1800)
    summ = [r for r in recs if r.get("summary")]
    if not summ or summ[0]["cases"] != len(uniq):
        raise vlib.InfraError("harness did not process all cases (%s)" % what)
    ctx.cov["traces_validated_against_impl"] += len(uniq)
    ctx.cov["evaluations"] += len(uniq)
    bad = [r for r in recs if r.get("mismatch")]
    if bad:
        bad = [r for r in vlib.run_harness(ctx, binary, cases=[r["case"] for r in bad]) if r.get("mismatch")]
    if not bad:
        return uniq
    structural = [r for r in bad if not r["why"].startswith("store after Gc is")]
    differ = [r for r in bad if r["why"].startswith("store after Gc is")]
    for r in structural[:20]:
        ctx.violation({"case": r["case"], "got": r["got"], "why": r["why"]}, "Store.Gc: " + r["why"])
    if differ:
        verdicts = judge(ctx, [{"T": r["case"]["T"], "pre": r["case"]["pre"], "post": r["got"]} for r in differ[:500]])
        for r, ok in zip(differ, verdicts):
            if ok:
                drift.append(r["why"])       # satisfies the statement; only the implementation-shaped layer differs
            else:
                ctx.violation({"case": r["case"], "got": r["got"], "why": r["why"]},
                              "Store.Gc at T=%d on %s: %s - rejected by GcPost" % (r["case"]["T"], json.dumps(r["case"]["pre"]), r["why"]))
    return uniq


def second_passes(ctx, binary, cases):
    """A later pass must do what the statement says whatever an earlier pass saw: every finished pass of the model is run
    again, on the real store it left, at T2 in {T, T+1, T+2} (time passing = every datum re-stamped as far before the new
    pass as the model says, i.e. updates with OLDER timestamps) and with one datum re-stamped; TLC judges the real
    (before, T2, after) with the statement GcPost itself (Judge2)."""
    todo = []
    for n, c in enumerate(cases):
        if not any(c["post"]):
            continue
        for dt in (0, 1, 2):
            todo.append(dict(c, second={"T2": c["T"] + dt}))
        m = next(i for i, p in enumerate(c["post"]) if p)
        d = c["post"][m][n % len(c["post"][m])]
        for nt in {max(1, d[1] - 2), d[1] + 1}:
            todo.append(dict(c, second={"T2": c["T"] + 1, "upd": [m + 1, d[0], nt]}))
    recs = [r for r in vlib.run_harness(ctx, binary, cases=todo, timeout=1800) if "second" in r]
    if len(recs) != len(todo):
        raise vlib.InfraError("second passes: harness answered %d of %d" % (len(recs), len(todo)))
    ok = judge(ctx, [r["second"] for r in recs], op="Judge2")
    ctx.cov["second_passes"] = len(recs)
    ctx.cov["evaluations"] += len(recs)
    for r, good in zip(recs, ok):
        if good or ctx.enough():
            continue
        again = [x for x in vlib.run_harness(ctx, binary, cases=[r["case"]]) if "second" in x][0]
        if not judge(ctx, [again["second"]], op="Judge2")[0]:
            s2 = again["second"]
            ctx.violation({"kind": "second", "case": r["case"], "second": s2},
                          "a second Store.Gc pass at T=%d on the store %s (limits %s) that an earlier pass at T=%d left: store after the pass is %s - "
                          "rejected by GcPost" % (s2["T"], json.dumps(s2["before"]), s2["limits"], r["case"]["T"], json.dumps(s2["post"])))


def run(ctx):
    binary = vlib.build(ctx, "c10")
    drift = []
    seen = []
    if ctx.thorough:
        bounds = [("one-metric", (1, 4, 3, 2, 4, 6)), ("two-metrics", (2, 2, 2, 1, 2, 4))]
    else:
        bounds = [("one-metric", (1, 3, 3, 2, 3, 5)), ("two-metrics", (2, 2, 2, 1, 1, 3))]
    configs = [(n, cfg(*b)) for n, b in bounds]
    for name, c in configs:
        r = vlib.tlc(ctx, "StoreGc", c, label="StoreGc-" + name, timeout=2400)
        seen += replay_cases(ctx, binary, r.cases, name, drift)
        for x in [x for x in r.cases if nontrivial(x)][7:9]:
            ctx.sample(x)
    if not ctx.violations:
        uniq = list({key(c): c for c in seen}.values())
        second_passes(ctx, binary, uniq if ctx.thorough else uniq[::3])
    if ctx.thorough:
        # model only: five data per metric; and a small configuration with coverage: no action may be vacuous
        vlib.tlc(ctx, "StoreGc", cfg(1, 5, 2, 1, 3, 4, emit=False), label="StoreGc-five-data", timeout=2400)
        r = vlib.tlc(ctx, "StoreGc", cfg(2, 2, 2, 1, 1, 3, emit=False), label="StoreGc-coverage", coverage=True, timeout=2400)
        if covutil.final_zero_cov(r.stdout):
            raise vlib.InfraError("actions never taken in StoreGc.tla: %s" % covutil.final_zero_cov(r.stdout))
    ctx.cov["distinct_nontrivial"] = sum(1 for c in seen if nontrivial(c))
    ctx.cov["exhaustive"] = True
    ctx.cov["rule"] = ("every (store, T) within the bounds is one Gc pass replayed on a real Store; non-trivial = some metric with >= 2 "
                       "data loses some but not all of them, or a metric over its limit also holds expiry-marked data")
    ctx.cov["constants"] = {n: dict(zip(("MaxMetrics", "MaxData", "Times_1_to", "Expiry_0_to", "Limits_0_to", "GcTimes_1_to"), b))
                            for n, b in bounds}
    if ctx.thorough:
        ctx.cov["constants"]["model_only_five_data"] = dict(zip(("MaxMetrics", "MaxData", "Times_1_to", "Expiry_0_to", "Limits_0_to", "GcTimes_1_to"), (1, 5, 2, 1, 3, 4)))
    if drift:
        ctx.cov["impl_layer_drift"] = {"count": len(drift), "first": drift[0],
                                       "meaning": "real result differs from StoreGc.tla's deterministic result but TLC accepts it under GcPost"}
    ctx.assumptions += [
        "model instant t -> base-(T-t)h+30min with base=time.Now() just before the store is built; expiry e -> e hours; the exact boundary age == expiry is checked in the model only",
        "Range visits the metrics of the Go map in an order the harness cannot choose; TLC explores both orders and the check requires the model's result to be order-independent",
        "stores are built by GetDatum in slice order, one timestamped Set per datum, ExpireDatum for marked data; metric 1 is an Int counter, metric 2 a Float gauge",
    ]


def replay(ctx, path):
    binary = vlib.build(ctx, "c10")
    blob = json.load(open(path))["case"]
    if blob.get("kind") == "second":
        again = [x for x in vlib.run_harness(ctx, binary, cases=[blob["case"]]) if "second" in x][0]
        if not judge(ctx, [again["second"]], op="Judge2")[0]:
            ctx.violation(blob, "reproduced: second pass leaves %s" % json.dumps(again["second"]["post"]))
        return
    recs = [r for r in vlib.run_harness(ctx, binary, cases=[blob["case"]]) if r.get("mismatch")]
    for r in recs:
        if not r["why"].startswith("store after Gc is") or not judge(ctx, [{"T": blob["case"]["T"], "pre": blob["case"]["pre"], "post": r["got"]}])[0]:
            ctx.violation(blob, r["why"])
