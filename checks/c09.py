"""C09 - A metric behaves as a map from label tuples to values.

spec/Metric.tla (with spec/MetricOps.tla = metric.go method by method on the
slice LabelValues + the index labelValuesMap) against the ideal insertion-ordered
map `amap`.  TLC exhausts the state graph for every metrics.Type over a universe
of 3 label tuples (with '-', '\\', 0xff, empty labels) plus 2 wrong-length
tuples, checking IndexOK / Refines / EmitOnce / ResultAgrees / RejectedUnchanged /
OthersUntouched, and prints the graph; the check selects a transition-covering set
of walks, and the Go harness (internal/verif/c09) executes every walk on a real
metrics.Metric comparing slice, index, results, EmitLabelSets and JSON after every
call.  Long random walks over a larger universe come from `tlc -simulate`.
"""
import json
import random

import metricmodel as mm
import covutil
import vlib

LEVEL = "model_checking"
META = {
    "text": "TLC exhausts spec/Metric.tla (GetDatum/datum updates/RemoveDatum/ExpireDatum/RemoveOldestDatum/EmitLabelSets as in "
            "metric.go, on slice+index) against the ideal insertion-ordered map for all four value types over 3 label tuples + 2 "
            "wrong-length tuples; every transition of the resulting state graph is replayed on a real metrics.Metric "
            "(transition-covering walks), comparing slice, index, results, EmitLabelSets and JSON after each call; long "
            "-simulate walks over 4 tuples.",
    "note": "Sequential behaviour only (locking is C11). Values/timestamps/expiries range over 2-4 representatives; the map "
            "logic does not inspect them. Datum timestamps made by the constructor are accepted as 'now' (0 for Buckets).",
    "technique": "TLA+ spec + TLC exhaustive state graph, transition-covering walks and simulated walks replayed into real metrics.Metric (direction A)",
    "design_ref": "DESIGN.md 5/C09, Appendix A.3",
}

# right-length tuples whose keys differ under the code's encoding and under the corrected one
TUPLES = [["a-", "b"], ["a", "-b"], ["\\F", ""]]
TUPLES4 = TUPLES + [["", "a-b"]]
BAD = [["a"], ["a", "b", "c"]]
ALL_TYPES = ("Int", "Float", "String", "Buckets")
INVS = mm.STATE_INVS + ["StepOK", "Emit"]


def describe_call(tuples, bad):
    allt = tuples + bad

    def d(c):
        t = allt[c["t"] - 1] if c["t"] else None
        return {"op": c["op"], "labels": t, "update": c["u"], "ts": c["ts"], "expiry_h": c["e"]}
    return d


def graph_stage(ctx, binary, vtypes, maxts, exps, valbound, label, wide=None, random_walks=0):
    devs = vlib.open_devs(ctx.prop)
    mc = mm.mc_module(TUPLES, BAD, expiries=exps, vtypes=vtypes, wide=wide)
    g = mm.Graph()
    r = vlib.tlc(ctx, "MCMetric", mm.cfg("graph", maxts=maxts, valbound=valbound, invariants=INVS, view="GraphView"),
                 extra_files={"MCMetric.tla": mc}, case_sink=g.add, label="Metric-graph-" + label, timeout=1500)
    g.check_closed()
    if len(g.edges) != r.distinct:
        raise vlib.InfraError("TLC found %d states but printed %d" % (r.distinct, len(g.edges)))
    cache = {}

    def dev_graph():
        if not devs:
            return None
        if "g" not in cache:
            gd = mm.Graph()
            vlib.tlc(ctx, "MCMetric", mm.cfg("graph", dev="DEV_BackslashNotEscaped" in devs, maxts=maxts, valbound=valbound,
                                              invariants=["Emit"], view="GraphView"),
                     extra_files={"MCMetric.tla": mc}, case_sink=gd.add, label="Metric-graph-dev-" + label, timeout=1500)
            cache["g"] = gd
        return cache["g"]

    hdr = mm.header(TUPLES, BAD, 2)
    nontrivial = 0
    for v in vtypes:
        walks = g.cover(v)
        covered = set()
        for w in walks:
            covered.update(w)
        reach = sum(len(g.edges[k]) for k in g._bfs_paths(g.init[v]))
        if len(covered) != reach:
            raise vlib.InfraError("walk cover incomplete: %d of %d transitions" % (len(covered), reach))
        for (k, i) in covered:
            s = json.loads(k.split("|", 1)[1])
            if len(s["l"]) >= 2:
                nontrivial += 1
        lines = [g.walk_json(v, w) for w in walks]
        # long seeded random walks over the same graph (history-dependent behaviour of the real code)
        rnd = random.Random(ctx.seed * 1000003 + len(lines))
        for _ in range(random_walks):
            lines.append(g.walk_json(v, g.random_walk(v, rnd, 150)))
        ctx.sample({"type": v, "walk": json.loads(lines[len(lines) // 2])["walk"][:6]}, limit=4)
        _n, _steps, explained = mm.replay_walks(ctx, binary, (), hdr, lines, "%s graph walks (%s)" % (v, label),
                                                dev_graph=dev_graph, describe=describe_call(TUPLES, BAD))
        for rec, why in explained:
            ctx.known_finding(devs[0], "%s on calls %s" % (why, json.dumps([st["o"]["c"]["op"] for st in rec["case"]["walk"][: rec["step"] + 1]])))
        vlib.log("%s: %d transitions covered by %d walks" % (v, reach, len(walks)))
    return g.nedges, nontrivial


def walk_stage(ctx, binary, n, walklen):
    mc = mm.mc_module(TUPLES4, BAD, expiries=(1, 2), vtypes=ALL_TYPES)
    r = vlib.tlc(ctx, "MCMetric", mm.cfg("walk", maxts=2, valbound=2, walklen=walklen, invariants=mm.STATE_INVS + ["Emit"]),
                 extra_files={"MCMetric.tla": mc}, simulate=n, depth=walklen + 1, label="Metric-walks", timeout=900)
    lines = [mm.dumps(c) for c in r.cases]
    if len(lines) < n // 2:
        raise vlib.InfraError("TLC -simulate emitted %d walks, expected about %d" % (len(lines), n))
    hdr = mm.header(TUPLES4, BAD, 2)
    _n, steps, explained = mm.replay_walks(ctx, binary, (), hdr, lines, "simulated walks", describe=describe_call(TUPLES4, BAD))
    return steps


def run(ctx):
    binary = vlib.build(ctx, "c09")
    if ctx.thorough:
        trans = nontriv = 0
        # one type at a time keeps the graph in memory small; Int with the richest value domain
        for v, vb in (("Int", 2), ("Float", 1), ("String", 1), ("Buckets", 1)):
            t, n = graph_stage(ctx, binary, (v,), maxts=2, exps=(1,), valbound=vb, label="thorough-" + v, random_walks=100)
            trans += t
            nontriv += n
        consts = {"tuples": 3, "bad_tuples": 2, "MaxTs": 2, "Expiries": [1], "ValBound": {"Int": 2, "others": 1}}
    else:
        # Int over all three tuples, the other types (same map code, other datum constructors) over two
        trans, nontriv = graph_stage(ctx, binary, ALL_TYPES, maxts=1, exps=(1,), valbound=1, label="quick",
                                     wide=("Int",), random_walks=60)
        # two timestamps for the types whose setters differ from Int's (an update with an unchanged value must still
        # move the timestamp), over two tuples
        t2, n2 = graph_stage(ctx, binary, ("String", "Float", "Buckets"), maxts=2, exps=(1,), valbound=1, label="quick-ts", wide=(), random_walks=20)
        trans, nontriv = trans + t2, nontriv + n2
        consts = {"tuples": 3, "tuples_for_non_Int_types": 2, "bad_tuples": 2, "MaxTs": "1 (2 for String/Float/Buckets over two tuples)",
                  "Expiries": [1], "ValBound": 1}
    wsteps = walk_stage(ctx, binary, 100, 80) if ctx.thorough else 0
    if ctx.thorough:
        # model only: two expiry values as well; and once with coverage: no action may be vacuous
        mc = mm.mc_module(TUPLES, BAD, expiries=(1, 2), vtypes=("Int", "Buckets"))
        vlib.tlc(ctx, "MCMetric", mm.cfg("check", maxts=2, valbound=1, invariants=mm.STATE_INVS + ["StepOK"], view="View"),
                 extra_files={"MCMetric.tla": mc}, label="Metric-check-large", timeout=2400)
        r = vlib.tlc(ctx, "MCMetric", mm.cfg("check", invariants=mm.STATE_INVS + ["StepOK"], view="View"),
                     extra_files={"MCMetric.tla": mm.mc_module(TUPLES, BAD, vtypes=ALL_TYPES, wide=("Int",))},
                     label="Metric-coverage", coverage=True, timeout=2400)
        if covutil.final_zero_cov(r.stdout):
            raise vlib.InfraError("actions never taken in Metric.tla: %s" % covutil.final_zero_cov(r.stdout))
        # the universe is collision-free under the code's key encoding as well
        vlib.tlc(ctx, "MCMetric", mm.cfg("check", dev=True, invariants=mm.STATE_INVS + ["StepOK"], view="View"),
                 extra_files={"MCMetric.tla": mm.mc_module(TUPLES, BAD, vtypes=("Int",))}, label="Metric-check-devkey")
    ctx.cov["distinct_nontrivial"] = nontriv
    ctx.cov["exhaustive"] = True
    ctx.cov["rule"] = ("every transition (state, call) of the state graph of Metric.tla is executed on a real metrics.Metric at least "
                       "once (%d transitions); non-trivial = distinct transitions whose source state holds at least two label "
                       "values (so slice order, splice and index interplay matter); plus seeded random walks of 150 calls over the same "
                       "graph (quick) / %d steps of tlc -simulate walks over 4 tuples (thorough)" % (trans, wsteps))
    ctx.cov["constants"] = dict(consts, types=list(ALL_TYPES), sim_tuples=4, sim_walk_len=80)
    ctx.assumptions += [
        "model characters a - \\ stand for themselves and F for the byte 0xff; the three universe tuples have distinct keys under the current and the corrected encoding",
        "timestamps k>0 are mapped to 2100-01-01 + k hours; a datum stamped by its constructor must carry a time between the start of the walk and now (0 for Buckets, which the constructor does not stamp)",
        "values: Int n, Float n+0.5, String from a table of 3 strings (one with an invalid UTF-8 byte), Buckets over ranges (0,1],(1,+Inf)",
        "data removed from the metric are overwritten with a poison value by the harness, so aliasing between removed and live data would show in the next projection",
    ]


def replay(ctx, path):
    binary = vlib.build(ctx, "c09")
    blob = json.load(open(path))["case"]
    recs = vlib.run_harness(ctx, binary, cases=[blob["universe"], blob["case"]])
    for r in recs:
        if r.get("mismatch"):
            ctx.violation(blob, r["why"])
