"""C15 - Line framing is independent of how bytes arrive.

spec/LineReader.tla: every stream over {\\n, \\r, x, e, f} up to MaxLen, every
chunking, buffer sizes 1..4.  TLC checks TypeOK/PrefixOK/FramingOK/AppendOnly on
the implementation-shaped buf/cap/off actions and prints every finished
behaviour; the Go harness (internal/verif/c15) replays each one into the real
logstream.LineReader with a scripted io.Reader and compares delivered lines and
the log_lines_total delta.  Long random streams come from `tlc -simulate`.
"""
import vlib

LEVEL = "model_checking"
META = {
    "text": "TLC exhausts spec/LineReader.tla (buf/cap/off actions of reader.go) against the ideal Split() for every stream "
            "of <=5 (thorough 6, model-only 8) bytes over {LF,CR,x,2-byte rune}, every chunking, buffer sizes 1-4, and every "
            "finished behaviour is replayed into the real LineReader with a scripted io.Reader; long streams via -simulate.",
    "note": "Trusts TLC, the io.Reader contract, and that non-delimiter bytes are interchangeable (the code inspects only LF/CR).",
    "technique": "TLA+ spec + TLC exhaustive/simulated behaviours replayed into real LineReader (direction A)",
    "design_ref": "DESIGN.md 5/C15, Appendix A.1",
}
INVS = ["TypeOK", "PrefixOK", "FramingOK", "Emit"]


def _cfg(size, maxlen, emit, view, zeros=1, errs=1):
    return vlib.cfg_text(
        spec="Spec",
        constants={"Size": size, "MaxLen": maxlen, "DEV_FinishKeepsBuffer": False, "EmitCases": emit,
                   "MaxZeroReads": zeros, "MaxErrReads": errs},
        invariants=INVS, properties=["AppendOnly"], view="View" if view else None)


def _replay(ctx, binary, cases, what):
    if not cases:
        raise vlib.InfraError("TLC emitted no cases for %s" % what)
    recs = vlib.run_harness(ctx, binary, cases=cases, timeout=1200)
    summ = [r for r in recs if r.get("summary")]
    if not summ or summ[0]["cases"] != len(cases):
        raise vlib.InfraError("harness did not process all cases (%s)" % what)
    ctx.cov["traces_validated_against_impl"] += len(cases)
    ctx.cov["evaluations"] += len(cases)
    for r in recs:
        if ctx.enough():
            break
        if r.get("mismatch"):
            # confirm from a clean start before reporting
            again = vlib.run_harness(ctx, binary, cases=[r["case"]])
            if any(x.get("mismatch") for x in again):
                ctx.violation({"case": r["case"], "got": r["got"], "want": r["want"]},
                              "LineReader delivers %r, specification says %r (%s)" % (r["got"], r["want"], r["why"]))


def nontrivial(c):
    # more than one read, and at least one line boundary or CR inside
    return len([k for k in c["chunks"] if k != 0]) > 1 and ("n" in c["stream"] or "r" in c["stream"])


def run(ctx):
    binary = vlib.build(ctx, "c15")
    emit_len = 6 if ctx.thorough else 5
    seen = set()
    # (size, stream length, reads-with-error allowed): the error-carrying reads double the behaviours, so they get one byte less
    plan = [(sz, 6, 0) for sz in (1, 2, 3, 4)] + [(sz, 5, 1) for sz in (1, 2, 3, 4)] if ctx.thorough else \
           [(1, 5, 0)] + [(sz, 4, 0) for sz in (2, 3, 4)] + [(sz, 4, 1) for sz in (1, 2)]
    for size, elen, errs in plan:
        r = vlib.tlc(ctx, "LineReader", _cfg(size, elen, True, False, errs=errs),
                     label="LineReader-emit-size%d-len%d-err%d" % (size, elen, errs), timeout=1500)
        for c in r.cases:
            if nontrivial(c):
                seen.add((tuple(c["stream"]), tuple(c["chunks"]), size))
        for c in r.cases[len(r.cases) // 2: len(r.cases) // 2 + 1]:
            ctx.sample(c)
        _replay(ctx, binary, r.cases, "size %d" % size)
    if ctx.thorough:
        # model only, one more byte, fingerprints without the chunk history
        for size in (1, 2, 3, 4):
            vlib.tlc(ctx, "LineReader", _cfg(size, 8 if size <= 2 else 7, False, True),
                     label="LineReader-view-size%d" % size, timeout=1500)
    # long random streams
    nsim = 3000 if ctx.thorough else 300
    for size in (2, 3, 4):
        r = vlib.tlc(ctx, "LineReader", _cfg(size, 120, True, False, zeros=3), simulate=nsim, depth=400,
                     label="LineReader-sim-size%d" % size, seed=ctx.seed * 7 + size, timeout=900)
        for c in r.cases:
            if nontrivial(c):
                seen.add((tuple(c["stream"]), tuple(c["chunks"]), size))
        if r.cases:
            ctx.sample(r.cases[0])
        _replay(ctx, binary, r.cases, "simulate size %d" % size)
    ctx.cov["distinct_nontrivial"] = len(seen)
    ctx.cov["exhaustive"] = True
    ctx.cov["rule"] = ("every (stream, chunking, size) behaviour of LineReader.tla with stream length <= %d over 5 byte "
                       "classes and sizes 1..4 is replayed into the real LineReader; non-trivial = more than one "
                       "non-empty read and the stream contains LF or CR; plus simulated streams up to 120 bytes" % emit_len)
    ctx.cov["constants"] = {"MaxLen_replayed": emit_len, "sizes": [1, 2, 3, 4], "sim_len": 120, "sim_behaviours": nsim * 3}
    ctx.assumptions += [
        "io.Reader contract: Read returns 0..len(p) bytes; the harness' scripted reader returns exactly the model's chunk",
        "byte classes x/e/f stand for all non-delimiter bytes (the code only inspects LF and CR)",
    ]


def replay(ctx, path):
    import json
    binary = vlib.build(ctx, "c15")
    case = json.load(open(path))["case"]["case"]
    recs = vlib.run_harness(ctx, binary, cases=[case])
    for r in recs:
        if ctx.enough():
            break
        if r.get("mismatch"):
            ctx.violation({"case": r["case"], "got": r["got"], "want": r["want"]}, r["why"])
