"""C18 - Every matching log path is tailed, once.

spec/Tailer.tla models tail.go (AddPattern normalisation, one poller per
pattern, doPatternGlob -> Ignore -> TailPath de-duplication on t.logstreams,
log_count, the forwarder that deletes the map entry when a stream's channel
closes) and what a file stream does when woken, over a directory with five
names (three log files, one ignorable name, one directory whose name matches),
six pattern sets built from four pattern instances (overlapping globs, the same
glob in absolute and relative spelling, an exact path spelled with `/./`) and an
optional ignore regexp.  The environment creates / deletes / renames / appends
at any time; poll rounds and wake rounds are explicit steps.

  1. TLC, corrected design: Complete, NeverBad, CountOK, NoDup, AllOwed,
     NoZombie for all histories of <= 4 (thorough 7) steps; -coverage once.
  2. TLC with each open deviation on must produce its counterexample.
  3. Direction A: every transition of the bounded state graph that completes a
     history step is printed with the path that reached it (ACTION_CONSTRAINT
     under VIEW) and replayed on a real directory against the real Tailer by
     internal/verif/c18; the model used for the expectation has exactly the
     open deviations switched on (it is then the code's behaviour); logstreams
     keys, log_count, parked stream goroutines and delivered lines are compared
     after every round.  Long histories come from -simulate.
  4. The witnesses of the open findings are re-executed on the real code and the
     property itself (a line delivered twice / an eligible file left untailed
     after a full poll round) is evaluated on what the real code did.
"""
import concurrent.futures
import json
import os

import vlib

LEVEL = "model_checking"
META = {
    "text": "TLC exhausts spec/Tailer.tla (AddPattern/doPatternGlob/Ignore/TailPath dedup/log_count/forwarder removal + stream "
            "wake behaviour) over a 5-name directory, 6 pattern sets (overlapping globs, absolute/relative/unclean spellings "
            "of the same path) x optional ignore regexp x 2 initial directories for all histories of <=4 (thorough 7) steps over "
            "{create, delete, rename, append, poll round, wake round}; every transition of that graph completing a step at "
            "depth <=3 (thorough 4) plus simulated 30-step histories is replayed on a real directory against the real Tailer "
            "comparing logstreams keys, log_count, parked stream goroutines and delivered lines after every round; one name is a unix "
            "socket file (matches, is not ignored, cannot be tailed: the poll goes on).",
    "note": "One log name may be replaced by a directory and back (model + dedicated witness run; not in the bulk replay); a "
            "log is never renamed onto a path that is being tailed; symlinks, permissions, fifos and sockets are not "
            "modelled. Pollers of one round are "
            "serialised in every order by TLC; the real ones run concurrently under logstreamsMu.",
    "technique": "TLA+ spec + TLC transition-coverage histories replayed on a real directory into the real Tailer (direction A)",
    "design_ref": "DESIGN.md 5/C18",
}

PATSETS = [["G1abs"], ["G2rel"], ["G1abs", "G2rel"], ["G1abs", "G1rel"], ["E3dot", "G1rel", "G2rel"], ["E3dot"]]
INITFS = [[], ["a.log", "a.log.gz", "d.log"], ["a0.log", "b.log"]]
DEVS = ["DEV_RemovalLagsClose", "DEV_PollWhileStreamStale", "DEV_StuckOnDirectory"]
INVS = ["TypeOK", "Complete", "Follows", "NoDirTailed", "NeverBad", "CountOK", "NoDup", "AllOwed", "NoZombie"]
DEV_INV = {"DEV_RemovalLagsClose": ["Complete"], "DEV_PollWhileStreamStale": ["NoDup"],
           "DEV_StuckOnDirectory": ["NoDirTailed", "Follows", "Complete"]}
GLOB = {"G1abs": {"a.log", "a0.log", "b.log", "d.log"}, "G1rel": {"a.log", "a0.log", "b.log", "d.log"}, "G2rel": {"a.log", "a.log.gz", "a0.log"},
        "E3dot": {"a.log"}}


def _sets(xs):
    return "={" + ", ".join("{" + ", ".join('"%s"' % y for y in x) + "}" for x in xs) + "}"


def _cfg(maxsteps, devs=(), emit=False, eager=False, invs=None, minsteps=0, patsets=PATSETS, initfs=INITFS, maxlines=2,
         swap=("a.log",)):
    consts = {"MaxSteps": maxsteps, "MaxLines": maxlines, "PatSets": _sets(patsets), "InitFS": _sets(initfs),
              "EagerRemove": eager, "EmitCases": emit, "MinSteps": minsteps, "SwapNames": set(swap)}
    for d in DEVS:
        consts[d] = d in devs
    return vlib.cfg_text(spec="Spec", constants=consts, invariants=list(INVS if invs is None else invs), view="View",
                         action_constraint="EmitStep" if emit else None)


def key(c):
    return json.dumps([sorted(c["pats"]), c["ign"], sorted(c["start"]), [[s["op"], s["a"], s["b"]] for s in c["hist"]]])


def render(c):
    st = ["%s %s%s" % (s["op"], s["a"], (" -> " + s["b"]) if s["b"] else "") if s["a"] else s["op"] for s in c["hist"][1:]]
    return "patterns %s%s, logs/ initially {%s}: %s" % (
        "+".join(sorted(c["pats"])), " ignore ^a.*\\.gz$" if c["ign"] else "", ", ".join(sorted(c["start"])), "; ".join(st))


def nontrivial(c):
    """de-duplication or removal is exercised: at some round a tailed path is matched by two or more of the
    pattern instances, or a stream ends (its key leaves logstreams) during the history"""
    prev = set()
    for o in c["obs"]:
        if o["kind"] == "env":
            continue
        keys = set(o["keys"])
        if any(sum(1 for p in c["pats"] if k in GLOB[p]) >= 2 for k in keys):
            return True
        if prev - keys:
            return True
        prev = keys
    return False


class Emitted:
    def __init__(self, ctx, name, shards, only=None):
        self.dir = ctx.sub(name)
        self.paths = [os.path.join(self.dir, "shard%02d.ndjson" % i) for i in range(shards)]
        self.files = [open(p, "w") for p in self.paths]
        self.n = 0
        self.only = only
        self.nontrivial = set()
        self.first = []
        self.model_dups = 0

    def sink(self, c):
        if self.only is not None and key(c) not in self.only:
            return
        self.files[self.n % len(self.files)].write(json.dumps(c, separators=(",", ":")) + "\n")
        self.n += 1
        ids = [l[1] for o in c["obs"] if o["kind"] != "env" for l in o["lines"]]
        if len(ids) != len(set(ids)):
            self.model_dups += 1
        if nontrivial(c):
            self.nontrivial.add(key(c))
            if len(self.first) < 3 and len(c["hist"]) >= 4:
                self.first.append(c)

    def close(self):
        for f in self.files:
            f.close()
        self.paths = [p for p in self.paths if os.path.getsize(p) > 0]


def _harness(ctx, binary, paths, n, what):
    env = {"VERIF_TMP": ctx.sub("fs")}

    def one(p):
        return vlib.run_harness(ctx, binary, infile=p, timeout=3000, env=env)

    recs = []
    with concurrent.futures.ThreadPoolExecutor(max_workers=max(1, len(paths))) as ex:
        for r in ex.map(one, paths):
            recs += r
    done = sum(r["cases"] for r in recs if r.get("summary"))
    skipped = sum(r.get("skipped", 0) for r in recs if r.get("summary"))
    if done + skipped != n:
        raise vlib.InfraError("harness processed %d of %d cases (%s)" % (done, n, what))
    if skipped:
        ctx.cov["skipped_after_stalls"] = ctx.cov.get("skipped_after_stalls", 0) + skipped
    return recs


def _single(ctx, binary, case):
    p = os.path.join(ctx.sub("one"), "case.ndjson")
    with open(p, "w") as f:
        f.write(json.dumps(case, separators=(",", ":")) + "\n")
    return _harness(ctx, binary, [p], 1, "single case")


def _emit(ctx, maxsteps, codedevs, label, shards, simulate=None, seed=None, minsteps=0, only=None, **kw):
    em = Emitted(ctx, "cases-" + label, shards, only)
    # replayed histories never turn a log into a directory: on the unfixed code the stream goroutine then never
    # finishes (it spins at cancellation), which a harness process must not collect; see _witness_dir
    cfg = _cfg(maxsteps, codedevs, emit=True, eager=True, invs=["TypeOK", "NeverBad", "CountOK"], minsteps=minsteps,
               swap=(), **kw)
    if simulate:
        vlib.tlc(ctx, "Tailer", cfg, simulate=simulate, depth=8 * maxsteps + 40, seed=seed, label=label, case_sink=em.sink,
                 timeout=1500)
    else:
        vlib.tlc(ctx, "Tailer", cfg, label=label, case_sink=em.sink, timeout=2400)
    em.close()
    return em


def _replay_all(ctx, binary, em, what):
    if em.n == 0:
        raise vlib.InfraError("TLC emitted no cases for %s" % what)
    recs = _harness(ctx, binary, em.paths, em.n, what)
    mism = [r for r in recs if r.get("mismatch")]
    mism.sort(key=lambda m: bool(m.get("stall")))
    done = sum(r["cases"] for r in recs if r.get("summary"))
    ctx.cov["traces_validated_against_impl"] += done
    ctx.cov["evaluations"] += done
    vlib.log("%s: %d cases replayed, %d mismatches" % (what, em.n, len(mism)))
    for m in mism[:8]:
        again = [r for r in _single(ctx, binary, m["case"]) if r.get("mismatch")]   # alone, fresh process
        if again:
            a = again[0]
            ctx.violation({"case": m["case"], "history": render(m["case"]), "got": a.get("got"), "step": a.get("step")},
                          "%s: %s" % (render(m["case"]), a["why"]))
    if len(mism) > 8 and ctx.violations:
        ctx.violation_count = getattr(ctx, "violation_count", 0) + len(mism) - 8


def _finding(ctx, dev):
    for e in vlib.load_findings(ctx.prop):
        if e["deviation"] == dev:
            return e
    return None


def _witness_stale(ctx, binary):
    """DEV_PollWhileStreamStale: rename a tailed file to another matching name, poll before the stream looked, append."""
    dev = "DEV_PollWhileStreamStale"
    ent = _finding(ctx, dev)
    w = {"pats": ["G1abs"], "ign": False, "start": ["a.log", "a.log.gz", "d.log"],
         "hist": [{"op": "start", "a": "", "b": ""}, {"op": "rename", "a": "a.log", "b": "b.log"},
                  {"op": "poll", "a": "", "b": ""}, {"op": "append", "a": "b.log", "b": ""}, {"op": "wake", "a": "", "b": ""}]}
    em = _emit(ctx, 4, (dev,), "witness-stale", 1, minsteps=5, only={key(w)}, patsets=[["G1abs"]],
               initfs=[["a.log", "a.log.gz", "d.log"]])
    if em.n < 1:
        raise vlib.InfraError("the witness of %s is not a history of the model" % dev)
    case = json.loads(open(em.paths[0]).readline())
    case["report"] = True
    recs = _single(ctx, binary, case)
    ctx.cov["traces_validated_against_impl"] += 1
    rep = [r for r in recs if r.get("report")]
    mism = [r for r in recs if r.get("mismatch")]
    if not rep:
        raise vlib.InfraError("witness run gave no report")
    texts = [l["Text"] for l in rep[0]["lines"]]
    twice = sorted({t for t in texts if texts.count(t) > 1})
    what = "%s -> delivered %s" % (render(case), ["%s:%s" % (os.path.basename(l["File"]), l["Text"]) for l in rep[0]["lines"]])
    if twice and not mism:
        if ent and ent["status"] == "open":
            ctx.known_finding(dev, "%s [%s] witness: %s" % (ent["what"], ent["site"], what))
        else:
            ctx.violation({"case": case, "history": render(case), "lines": rep[0]["lines"]},
                          "line delivered twice (one file, two streams): " + what)
    elif twice and mism:
        ctx.violation({"case": case, "history": render(case), "got": mism[0].get("got")}, render(case) + ": " + mism[0]["why"])
    else:
        vlib.log("%s: the witness delivers no line twice on this tree" % dev)
    return bool(twice)


def _witness_lag(ctx, binary):
    """DEV_RemovalLagsClose: slow consumer, delete + re-create around a stream wake, then a full poll round."""
    dev = "DEV_RemovalLagsClose"
    ent = _finding(ctx, dev)
    recs = _single(ctx, binary, {"witness": "lag"})
    ctx.cov["traces_validated_against_impl"] += 1
    w = [r for r in recs if r.get("witness") == "lag"]
    if not w:
        raise vlib.InfraError("lag witness gave no report")
    w = w[0]
    if w.get("stall"):
        again = [r for r in _single(ctx, binary, {"witness": "lag"}) if r.get("witness") == "lag"][0]
        if again.get("stall"):
            raise vlib.InfraError("lag witness stalls: %s" % again["stall"])
        w = again
    what = ("tail logs/*.log with a consumer that is not receiving; a.log holds an unterminated fragment; delete a.log; stream "
            "wake (flushes the fragment, closes); create a.log; full poll round -> logstreams=%s, %d stream added; consumer "
            "resumes -> logstreams=%s although a.log exists; next poll round -> %s" % (
                w["keys_after_poll"], w["adds_in_poll"], w["keys_after_release"], w["keys_after_next_poll"]))
    if w["untailed_after_poll"]:
        if ent and ent["status"] == "open":
            ctx.known_finding(dev, "%s [%s] witness: %s" % (ent["what"], ent["site"], what))
        else:
            ctx.violation({"case": {"witness": "lag"}, "report": w}, "eligible file untailed after a full poll round: " + what)
    else:
        vlib.log("%s: the schedule leaves nothing untailed on this tree (%s)" % (dev, what))
    return bool(w["untailed_after_poll"])


def _witness_dir(ctx, binary):
    """DEV_StuckOnDirectory: a tailed log is replaced by a directory of the same name and later by a file again."""
    dev = "DEV_StuckOnDirectory"
    ent = _finding(ctx, dev)
    w = [r for r in _single(ctx, binary, {"witness": "dirswap"}) if r.get("witness") == "dirswap"]
    ctx.cov["traces_validated_against_impl"] += 1
    if not w:
        raise vlib.InfraError("dirswap witness gave no report")
    w = w[0]
    if w.get("stall"):
        w = [r for r in _single(ctx, binary, {"witness": "dirswap"}) if r.get("witness") == "dirswap"][0]
        if w.get("stall"):
            raise vlib.InfraError("dirswap witness stalls: %s" % w["stall"])
    what = ("tail logs/*.log with a.log present; rm a.log; mkdir a.log; stream wake + poll round -> logstreams=%s "
            "(log_errors_total=%d); rmdir a.log; create a.log; stream wake + poll round; append \"L1\\n\"; stream wake -> "
            "delivered %s, logstreams=%s, log_errors_total=%d" % (
                w["keys_while_directory"], w["log_errors_while_directory"], w["delivered"], w["keys_after_file_is_back"],
                w["log_errors_total"]))
    bad = w["directory_tailed"] or w["line_lost"]
    if bad:
        if ent and ent["status"] == "open":
            ctx.known_finding(dev, "%s [%s] witness: %s" % (ent["what"], ent["site"], what))
        else:
            ctx.violation({"case": {"witness": "dirswap"}, "report": w},
                          "a directory is tailed / the regular file that replaced it is never tailed: " + what)
    else:
        vlib.log("%s: the schedule behaves as the corrected specification on this tree (%s)" % (dev, what))
    return bad


def run(ctx):
    binary = vlib.build(ctx, "c18")
    opendevs = [d for d in vlib.open_devs(ctx.prop) if d in DEVS]
    # the code's behaviour for replay: open deviations that change replayable behaviour are switched on
    codedevs = tuple(d for d in opendevs if d == "DEV_PollWhileStreamStale")

    # 1. model
    rc = vlib.tlc(ctx, "Tailer", _cfg(3, DEVS, invs=["TypeOK", "NeverBad", "CountOK"], patsets=[["G1abs", "G2rel"], ["E3dot"]]),
                  coverage=True, label="Tailer-coverage", timeout=900)
    if rc.zero_cov:
        raise vlib.InfraError("Tailer.tla: actions never taken (vacuous model): %s" % rc.zero_cov)
    model_steps = 7 if ctx.thorough else 4
    r = vlib.tlc(ctx, "Tailer", _cfg(model_steps), label="Tailer-steps%d" % model_steps, timeout=3000,
                 heap="12g" if ctx.thorough else None)
    # 2. deviations
    for d in opendevs:
        vlib.expect_dev_counterexample(ctx, "Tailer", _cfg(4, (d,), invs=DEV_INV[d], patsets=[["G1abs"]],
                                                           initfs=[["a.log", "a.log.gz", "d.log"]]), d, timeout=900)

    # 3. witnesses of the findings on the real code, then the replay
    _witness_stale(ctx, binary)
    _witness_lag(ctx, binary)
    _witness_dir(ctx, binary)
    replay_steps = 4 if ctx.thorough else 3
    shards = max(2, vlib.NCPU)
    seen = set()
    em = _emit(ctx, replay_steps, codedevs, "steps%d" % replay_steps, shards)
    for c in em.first:
        ctx.sample({"history": render(c), "expected": [o for o in c["obs"] if o["kind"] != "env"][-1]})
    _replay_all(ctx, binary, em, "histories <= %d steps" % replay_steps)
    seen |= em.nontrivial
    sim = _emit(ctx, 30, codedevs, "sim30", shards, simulate=1200 if ctx.thorough else 150, seed=ctx.seed * 17 + 3,
                minsteps=31, maxlines=8)
    if sim.first:
        ctx.sample({"history": render(sim.first[0])})
    _replay_all(ctx, binary, sim, "simulated histories")
    seen |= sim.nontrivial

    if ctx.cov.get("skipped_after_stalls") and not ctx.violations:
        raise vlib.InfraError("%d cases were skipped after barriers stalled repeatedly, and the stalls did not reproduce alone"
                              % ctx.cov["skipped_after_stalls"])
    ctx.cov["distinct_nontrivial"] = len(seen)
    ctx.cov["exhaustive"] = True
    ctx.cov["rule"] = ("replayed histories (pattern set, ignore, initial directory, step sequence) in which a tailed path is "
                       "matched by >= 2 pattern instances at some round or a stream ends and its key leaves logstreams; one "
                       "case per transition of the abstract state graph (VIEW without history) that completes a step, depth "
                       "<= %d, plus %d simulated 30-step histories; %d cases whose model run itself contains a line delivered "
                       "twice (open finding) were replayed and matched" % (replay_steps, sim.n, em.model_dups + sim.model_dups))
    ctx.cov["constants"] = {"model_MaxSteps": model_steps, "replay_MaxSteps": replay_steps, "MaxLines": 2, "pattern_sets": PATSETS,
                            "initial_dirs": INITFS, "sim_steps": 30, "sim_behaviours_replayed": sim.n,
                            "model_distinct_states": r.distinct, "replayed_with_deviations_on": list(codedevs)}
    ctx.assumptions += [
        "only a.log may turn into a directory and back (in the model and in the dirswap witness; the bulk replay keeps kinds fixed); no symlinks, permissions, fifos, sockets",
        "a log is never renamed onto a path that has a stream (it would be read from the start as a rotation)",
        "pollers of one round are serialised (in every order) in the model; in the code they run concurrently but TailPath holds logstreamsMu and the filesystem does not change during a round",
        "replay uses schedules in which the forwarders of ended streams finish inside the wake round (consumer keeps up); the other schedules are covered by the model and by the lag witness",
        "the harness' waker.Waker (tailh.Barrier) replaces waker.NewTest (exact accounting of goroutines that park for the first time between two rounds)",
    ]


def replay(ctx, path):
    binary = vlib.build(ctx, "c18")
    case = json.load(open(path))["case"]["case"]
    if case.get("witness") == "lag":
        _witness_lag(ctx, binary)
        return
    if case.get("witness") == "dirswap":
        _witness_dir(ctx, binary)
        return
    for a in [r for r in _single(ctx, binary, case) if r.get("mismatch")]:
        ctx.violation({"case": case, "history": render(case), "got": a.get("got"), "step": a.get("step")},
                      "%s: %s" % (render(case), a["why"]))
