"""C07 - Timestamps follow strptime/settime and default to processing time."""
import json
import vlib
import langcheck
import langlib

LEVEL = "model_checking"
COMPILES_PROGRAMS = True      # check reports mlang.Compile's long-lived-compiler comparison (vlib.report_compiler_reuse)
META = {
    "text": "MtailLang.tla carries the timestamp register (unset | settime(n) | strptime instant) and stamps every datum update with it; the "
            "strptime table ParseTab (layout x value -> instant id | fail) is checked entry by entry against time.Parse, and its concrete "
            "instants are computed per configuration (override zone, current-year option) with time.ParseInLocation.  TLC-generated programs "
            "of the time-rich profile (strptime with 4 layouts incl. two that read the same text differently and one without a year, "
            "settime, timestamp(), datum updates before/after) are run on the real VM under 3 configurations and every value AND every "
            "datum timestamp is compared after every line; 'now' must lie inside the wall-clock bracket of that line.",
    "note": "The meaning of a Go layout is delegated to time.Parse (trusted); year-0 instants without the current-year option are not "
            "representable in datum nanoseconds and are dropped; DST zones are not exercised (fixed offsets only).",
    "technique": "TLA+ reference semantics with timestamp register + TLC-generated programs replayed into the real VM under several zone/year configurations",
    "design_ref": "DESIGN.md 5/C07",
}
CONFIGS = [{"tz": 0, "year": False}, {"tz": 3600, "year": True}, {"tz": -18000, "year": True}]


def run(ctx):
    binary = vlib.build(ctx, "lang")
    n = 1200 if ctx.thorough else 200
    for k, cfg in enumerate(CONFIGS):
        langcheck.run_profile(ctx, binary, "time", ctx.seed * 100000 + 60000 + k * 5000, n, extra=cfg, year=cfg["year"])
    ctx.cov["configurations"] = CONFIGS
    ctx.cov["rule"] = ("programs/lines = MtailGen!GenCase(seed), profile time; each compared under one of 3 (zone, current-year) configurations; "
                       "non-trivial = some line changes a metric or raises an error")
    ctx.assumptions += ["time.ParseInLocation defines the instant of (layout, value, zone); ParseTab entries are verified against it at harness start",
                        "wall-clock reads bracket each ProcessLogLine call (t0 <= now <= t1)"]


def replay(ctx, path):
    binary = vlib.build(ctx, "lang")
    rc = json.load(open(path))["case"]
    cases = langcheck.generate(ctx, rc["profile"], seedset=[rc["seed"]], year=rc.get("year", False))
    rec = langcheck.replay(ctx, binary, cases, rc.get("opt", "on"), rc.get("extra"))[rc["seed"]]
    out, _, _ = langlib.compare_case(cases[0], rec)
    if out:
        ctx.violation(rc, out[0][:300])
