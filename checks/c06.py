"""C06 - Programs are isolated from each other.

spec/Runtime.tla (family C06): 1-3 programs p1..p3, each bound to one of five
sources that share the metric names n (scalar counter) and m (by k): same kind &
type (cint twice), same kind other type (cflt), other kind (gaug), does not compile
(bad), raises a runtime error on some lines (rterr).  Actions: write + LoadProgram
(a second write toggles a trailing comment: full recompile and re-registration next
to the other programs' same-named metrics), remove + UnloadProgram, lines.

  TLC: SoloOK - for every loaded program p the projection View(store, p) of the
  shared store equals solo[p], a plain per-program map evolving by p's own
  successful loads and the lines alone; RefusalOnlyForeignKind - Add refuses only on
  a kind clash with a different program's same-named metric; plus the C14
  invariants; all sorted source assignments x all action orders, exhaustively.
  Direction A: every enumerated history on a real Runtime + Store + registry; for
  the loaded programs the store projection and the scraped series, handles, rt.load.*
  events (including each Add's outcome), prog_loads/unloads/runtime_errors.
  Also with the OmitMetricSource option (the store's dedupe key then has no source
  position and only the program name separates same-named metrics).
"""
import rtlib
import vlib

LEVEL = "model_checking"
META = {
    "text": "TLC exhausts spec/Runtime.tla family C06 for 1-3 programs drawn from five sources sharing metric names (same "
            "kind&type, other type, other kind, broken, runtime error), all load/reload/unload orders and <=3 lines up to the "
            "action bound, checking View(store,p) = solo[p] for every loaded program and that Store.Add refuses only on a foreign "
            "kind clash; every enumerated history is replayed on a real Runtime+Store+Prometheus registry comparing the loaded "
            "programs' metrics, series, handles, Add outcomes and counters, with and without OmitMetricSource.",
    "note": "Only the metrics of currently loaded programs are compared (what a refused or unloaded program leaves in the store "
            "is C14's business); prog_load_errors_total is C25's.",
    "technique": "TLA+ spec + TLC exhaustive/simulated histories replayed into the real runtime, store and exporter (direction A)",
    "design_ref": "DESIGN.md 5/C06, Appendix A.4",
}
FAM = "C06"
INVS = ["TypeOK", "SoloOK", "RefusalOnlyForeignKind", "NoDuplicateSeries", "IdenticalReloadIsNoop", "KeptDeclarationKeepsData",
        "FailedLoadChangesNothing", "RunningVmIsExported", "CountersExact"]
P = rtlib.NAMES[FAM]


def nontrivial(c):
    """at least two programs were loaded with sources that compile, and a line arrived while two handles existed"""
    return any(s["a"]["op"] == "line" and len(s["obs"]["run"]) >= 2 for s in c["h"])


def run(ctx):
    opened = vlib.open_devs(ctx.prop)
    th = ctx.thorough
    W4 = max(2, vlib.NCPU // 4)
    out = {}

    def job(name, f):
        def g():
            out[name] = f()
        return g

    # (programs, MaxOps) of the property runs and of the runs whose histories are replayed
    props = [(3, 5), (2, 6), (1, 6)] if th else [(3, 3), (2, 4)]
    emits = [(3, 4), (2, 4)] if th else [(2, 3)]
    jobs = [job("bin", lambda: vlib.build(ctx, "c06"))]
    for k, d in props:
        jobs.append(job("prop%d" % k, lambda k=k, d=d: rtlib.model(
            ctx, FAM, d, invs=INVS, names=P[:k], label="C06-props-%dprogs" % k, workers=W4 * 2 if k == 3 else W4, timeout=3000,
            coverage=(k == 2 and not th) or (k == 1 and th))))
    for k, d in emits:
        jobs.append(job("emit%d" % k, lambda k=k, d=d: rtlib.model(
            ctx, FAM, d, invs=INVS, names=P[:k], emit=True, label="C06-emit-%dprogs" % k, workers=W4, timeout=3000)))
        if opened:
            jobs.append(job("emitdev%d" % k, lambda k=k, d=d: rtlib.model(
                ctx, FAM, d, devs=opened, names=P[:k], emit=True, label="C06-emit-dev-%dprogs" % k, workers=W4, timeout=3000)))
    # OmitMetricSource: the model's metrics carry source line 0
    ok_, od_ = (2, 4) if th else (2, 3)
    jobs.append(job("emit_omit", lambda: rtlib.model(ctx, FAM, od_, invs=INVS, names=P[:ok_], emit=True, omit_source=True,
                                                     label="C06-emit-omitsource", workers=W4, timeout=3000)))
    if opened:
        jobs.append(job("emitdev_omit", lambda: rtlib.model(ctx, FAM, od_, devs=opened, names=P[:ok_], emit=True, omit_source=True,
                                                            label="C06-emit-dev-omitsource", workers=W4, timeout=3000)))
    nsim, depth = (800, 8) if th else (150, 7)
    jobs.insert(1, job("sim", lambda: rtlib.model(ctx, FAM, depth, invs=INVS, emit=True, simulate=nsim, depth=depth * 12 + 5,
                                                  seed=ctx.seed * 19 + 5, label="C06-sim", timeout=1500)))
    rtlib.parallel(jobs)
    rtlib.check_coverage(out["prop1"] if th else out["prop2"], FAM)
    binary = out["bin"]
    seen = set()

    def replay(cases, cases_dev, what, **kw):
        for c in cases:
            if nontrivial(c):
                seen.add(rtlib.case_key(c) + what[-6:])
        ctx.sample({"history": rtlib.describe(FAM, cases[len(cases) // 2]), "configuration": what,
                    "expected_store_after_last_action": cases[len(cases) // 2]["h"][-1]["obs"]["store"]})
        rtlib.replay(ctx, binary, FAM, cases, cases_dev, scope="loaded", what=what, open_devs=opened, **kw)

    for k, d in emits:
        replay(out["emit%d" % k].cases, out["emitdev%d" % k].cases if opened else None, "exhaustive %d programs" % k)
    replay(out["emit_omit"].cases, out["emitdev_omit"].cases if opened else None, "exhaustive, OmitMetricSource", omit_source=True)
    sim = out["sim"]
    uniq = {}
    for c in sim.cases:
        uniq.setdefault(rtlib.case_key(c), c)
    simc = list(uniq.values())
    simdev = None
    if opened and simc:
        # the deviating model must start from the same assignment: group by assignment is not needed, the
        # assignment is part of the state and Prefixes constrains only the actions
        simdev = rtlib.model(ctx, FAM, depth, devs=opened, emit=True, scripts=[[s["a"] for s in c["h"]] for c in simc],
                             label="C06-sim-dev", workers=W4 * 2, timeout=1500).cases
        keys = {rtlib.case_key(c) for c in simc}
        simdev = [c for c in simdev if rtlib.case_key(c) in keys]
    if simc:
        replay(simc, simdev, "simulated %d actions" % depth)
    ctx.cov["distinct_nontrivial"] = len(seen)
    ctx.cov["exhaustive"] = True
    ctx.cov["rule"] = ("every maximal history of Runtime.tla/C06 (every sorted assignment of the 5 sources to 1-3 programs; write+"
                       "LoadProgram (first the source, then toggling a trailing comment), remove+UnloadProgram, lines a/b/0) is "
                       "replayed; non-trivial = a line arrives while at least two programs are running; distinct by assignment, "
                       "action sequence and configuration")
    ctx.cov["constants"] = {"properties_(programs,MaxOps)": props, "replayed_exhaustively_(programs,MaxOps)": emits,
                            "simulated_histories": len(simc), "simulated_length": depth, "sources": 5,
                            "open_deviations": opened}
    ctx.assumptions += [
        "programs are interchangeable: only assignments sorted by source are explored (every relative load order is still "
        "reached because each load is its own action)",
        "the comparison is restricted to currently loaded programs (scope of the property); leftovers of refused loads are "
        "reported by C14 (DEV_PartialRegistration)",
        "lines are sent only while no load is in progress",
    ]


def replay(ctx, path):
    rtlib.replay_file(ctx, "c06", path)
