"""C23 - Formatting a program preserves its meaning."""
import json
import os
import vlib
import langcheck

LEVEL = "exploration"
COMPILES_PROGRAMS = True      # check reports mlang.Compile's long-lived-compiler comparison (vlib.report_compiler_reuse)
META = {
    "text": "Programs are TLC-generated ASTs (spec/MtailGen.tla, profile fmt: trees that need parentheses at every precedence level, hidden / "
            "renamed / limited metrics, histograms with small and negative boundaries, string literals with quotes and backslashes, pattern "
            "concatenations and const fragments, decorators) rendered fully and minimally parenthesised; each source goes through the real "
            "parser+checker (as cmd/mfmt), the real Unparser, and parser+checker again: the canonical dump of both trees (declaration "
            "attributes, statement structure, expression trees, pattern and string texts) must be identical and a second formatting must "
            "reproduce the text; the mfmt command itself is built and run on every program: its standard output and the file it rewrites "
            "with -write must be the Unparser's text.",
    "note": "The canonical dump ignores source positions and checker-inserted conversions only; sampling of an infinite program space.",
    "technique": "TLC-generated programs (typed grammar in TLA+) pushed through real parse -> format -> parse with structural tree comparison",
    "design_ref": "DESIGN.md 5/C23",
}


def judge(rec):
    bad, rej = [], 0
    for mode in ("full", "min", "src"):
        o = rec.get(mode)
        if not o:
            continue
        if "input_rejected" in o:
            rej += 1
        elif "fail" in o:
            bad.append("[%s] %s" % (mode, o["fail"]))
    return bad, rej


def mfmt_command(ctx, recs, cases):
    """cmd/mfmt itself (the property's other anchor): the command's standard output, and the file it rewrites with -write,
    are the text the Unparser produced for that source - the text whose reparse was compared above."""
    import subprocess
    from concurrent.futures import ThreadPoolExecutor
    mfmt = vlib.build(ctx, "./cmd/mfmt", name="mfmt")
    d = ctx.sub("mfmt")
    todo = []
    for c in cases:
        o = recs[c["seed"]].get("min") or {}
        if "formatted" in o and "input_rejected" not in o and "fail" not in o:
            todo.append((c["seed"], o["src"], o["formatted"]))

    def one(t):
        seed, src, want = t
        a, b = os.path.join(d, "p%d.mtail" % seed), os.path.join(d, "w%d.mtail" % seed)
        for p in (a, b):
            with open(p, "w") as f:
                f.write(src)
        r1 = subprocess.run([mfmt, "-logtostderr", "-prog", a], capture_output=True, text=True, timeout=60)
        r2 = subprocess.run([mfmt, "-logtostderr", "-prog", b, "-write"], capture_output=True, text=True, timeout=60)
        with open(b) as f:
            written = f.read()
        bad = []
        if r1.returncode != 0 or r1.stdout != want:
            bad.append("mfmt -prog: exit %d, output differs from the Unparser's text: %r" % (r1.returncode, (r1.stdout or r1.stderr)[:200]))
        if r2.returncode != 0 or written != want:
            bad.append("mfmt -write: exit %d, rewritten file differs from the Unparser's text: %r" % (r2.returncode, (written or r2.stderr)[:200]))
        return seed, src, want, bad
    with ThreadPoolExecutor(max_workers=max(1, min(vlib.NCPU, 8))) as ex:
        res = list(ex.map(one, todo))
    ctx.cov["mfmt_command_runs"] = 2 * len(res)
    ctx.cov["evaluations"] += 2 * len(res)
    for seed, src, want, bad in res:
        if bad and not ctx.enough():
            _s, _src, _w, bad2 = one((seed, src, want))
            if bad2:
                ctx.violation({"kind": "mfmt", "seed": seed, "source": src, "unparser_text": want, "mismatches": bad2},
                              "seed %d: %s; Unparser text %r" % (seed, bad2[0][:300], want[:160]))


def run(ctx):
    binary = vlib.build(ctx, "fmtcheck")
    n = 3000 if ctx.thorough else 400
    lo = ctx.seed * 100000 + 80000
    cases = langcheck.generate(ctx, "fmt", lo, lo + n - 1)
    recs = {x["seed"]: x for x in vlib.run_harness(ctx, binary, cases=[{"seed": c["seed"], "prog": c["prog"]} for c in cases], timeout=2400) if "seed" in x}
    rejected = 0
    feats = set()
    for c in cases:
        rec = recs.get(c["seed"])
        if rec is None:
            raise vlib.InfraError("no harness record for seed %d" % c["seed"])
        bad, rej = judge(rec)
        rejected += rej
        ctx.cov["evaluations"] += 2
        ctx.cov["traces_validated_against_impl"] += 2
        feats |= langcheck.features(c)
        if bad and not ctx.enough():
            again = [x for x in vlib.run_harness(ctx, binary, cases=[{"seed": c["seed"], "prog": c["prog"]}]) if "seed" in x][0]
            bad2, _ = judge(again)
            if bad2:
                mode = "full" if bad2[0].startswith("[full]") else "min"
                ctx.violation({"seed": c["seed"], "source": again[mode]["src"], "formatted": again[mode].get("formatted"), "mismatches": bad2[:3]},
                              "seed %d: %s" % (c["seed"], bad2[0][:300]))
    if not ctx.violations:
        mfmt_command(ctx, recs, cases)
    if rejected > 0.02 * 2 * n:
        raise vlib.InfraError("%d of %d generated sources were rejected by the parser/checker: generator out of step with the grammar" % (rejected, 2 * n))
    ctx.cov["distinct_nontrivial"] = len(cases)
    ctx.cov["features"] = sorted(feats)
    ctx.cov["inputs_rejected_by_compiler"] = rejected
    c = cases[len(cases) // 2]
    ctx.sample({"seed": c["seed"], "source": recs[c["seed"]]["min"]["src"], "formatted": recs[c["seed"]]["min"].get("formatted")})
    ctx.cov["rule"] = "one generated program per seed (each distinct, each with expressions, attributes and literals from the fmt profile), 2 renderings each"


def replay(ctx, path):
    binary = vlib.build(ctx, "fmtcheck")
    rc = json.load(open(path))["case"]
    if rc.get("kind") == "mfmt":
        mfmt_command(ctx, {rc["seed"]: {"min": {"src": rc["source"], "formatted": rc["unparser_text"]}}}, [{"seed": rc["seed"]}])
        return
    rec = [x for x in vlib.run_harness(ctx, binary, cases=[{"seed": rc["seed"], "src": rc["source"]}]) if "seed" in x][0]
    bad, _ = judge(rec)
    if bad:
        ctx.violation(rc, bad[0][:300])
