"""C23 - Formatting a program preserves its meaning."""
import json
import vlib
import langcheck

LEVEL = "exploration"
COMPILES_PROGRAMS = True      # check reports mlang.Compile's long-lived-compiler comparison (vlib.report_compiler_reuse)
META = {
    "text": "Programs are TLC-generated ASTs (spec/MtailGen.tla, profile fmt: trees that need parentheses at every precedence level, hidden / "
            "renamed / limited metrics, histograms with small and negative boundaries, string literals with quotes and backslashes, pattern "
            "concatenations and const fragments, decorators) rendered fully and minimally parenthesised; each source goes through the real "
            "parser+checker (as cmd/mfmt), the real Unparser, and parser+checker again: the canonical dump of both trees (declaration "
            "attributes, statement structure, expression trees, pattern and string texts) must be identical and a second formatting must "
            "reproduce the text.",
    "note": "The canonical dump ignores source positions and checker-inserted conversions only; sampling of an infinite program space.",
    "technique": "TLC-generated programs (typed grammar in TLA+) pushed through real parse -> format -> parse with structural tree comparison",
    "design_ref": "DESIGN.md 5/C23",
}


def judge(rec):
    bad, rej = [], 0
    for mode in ("full", "min", "src"):
        o = rec.get(mode)
        if not o:
            continue
        if "input_rejected" in o:
            rej += 1
        elif "fail" in o:
            bad.append("[%s] %s" % (mode, o["fail"]))
    return bad, rej


def run(ctx):
    binary = vlib.build(ctx, "fmtcheck")
    n = 3000 if ctx.thorough else 400
    lo = ctx.seed * 100000 + 80000
    cases = langcheck.generate(ctx, "fmt", lo, lo + n - 1)
    recs = {x["seed"]: x for x in vlib.run_harness(ctx, binary, cases=[{"seed": c["seed"], "prog": c["prog"]} for c in cases], timeout=2400) if "seed" in x}
    rejected = 0
    feats = set()
    for c in cases:
        rec = recs.get(c["seed"])
        if rec is None:
            raise vlib.InfraError("no harness record for seed %d" % c["seed"])
        bad, rej = judge(rec)
        rejected += rej
        ctx.cov["evaluations"] += 2
        ctx.cov["traces_validated_against_impl"] += 2
        feats |= langcheck.features(c)
        if bad and not ctx.enough():
            again = [x for x in vlib.run_harness(ctx, binary, cases=[{"seed": c["seed"], "prog": c["prog"]}]) if "seed" in x][0]
            bad2, _ = judge(again)
            if bad2:
                mode = "full" if bad2[0].startswith("[full]") else "min"
                ctx.violation({"seed": c["seed"], "source": again[mode]["src"], "formatted": again[mode].get("formatted"), "mismatches": bad2[:3]},
                              "seed %d: %s" % (c["seed"], bad2[0][:300]))
    if rejected > 0.02 * 2 * n:
        raise vlib.InfraError("%d of %d generated sources were rejected by the parser/checker: generator out of step with the grammar" % (rejected, 2 * n))
    ctx.cov["distinct_nontrivial"] = len(cases)
    ctx.cov["features"] = sorted(feats)
    ctx.cov["inputs_rejected_by_compiler"] = rejected
    c = cases[len(cases) // 2]
    ctx.sample({"seed": c["seed"], "source": recs[c["seed"]]["min"]["src"], "formatted": recs[c["seed"]]["min"].get("formatted")})
    ctx.cov["rule"] = "one generated program per seed (each distinct, each with expressions, attributes and literals from the fmt profile), 2 renderings each"


def replay(ctx, path):
    binary = vlib.build(ctx, "fmtcheck")
    rc = json.load(open(path))["case"]
    rec = [x for x in vlib.run_harness(ctx, binary, cases=[{"seed": rc["seed"], "src": rc["source"]}]) if "seed" in x][0]
    bad, _ = judge(rec)
    if bad:
        ctx.violation(rc, bad[0][:300])
