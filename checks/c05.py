"""C05 - A line's effect never depends on earlier lines except through metrics."""
import json
import vlib
import langcheck
import langlib

LEVEL = "model_checking"
COMPILES_PROGRAMS = True      # check reports mlang.Compile's long-lived-compiler comparison (vlib.report_compiler_reuse)
META = {
    "text": "The reference semantics MtailLang!ExecLine is a function of (program, metrics, line) only; the implementation-shaped strptime memo "
            "is state of the model under DEV_Memo* switches.  TLC checks MemoFree (a line's effect is independent of the memo) on every "
            "generated program/history of the time-rich profile; every history is replayed on the real VM and compared line by line with the "
            "memory-less reference, and - the property executed literally - every line is also run on a freshly compiled copy given the same "
            "metric values (two-copy product on the real code) and both outcomes must agree.",
    "note": "Programs/histories are TLC-generated samples (histories repeat lines, the same timestamp text under several layouts, failing "
            "conversions, stop, runtime errors; the leak profile puts a match site behind a short-circuit and uses its capture); metric values are copied into the fresh VM through the public datum setters.",
    "technique": "TLA+ reference semantics + TLC-generated histories replayed into real VMs; two-copy product run on the real code (direction A)",
    "design_ref": "DESIGN.md 5/C05",
}


def run(ctx):
    binary = vlib.build(ctx, "lang")
    n = 1500 if ctx.thorough else 250
    for profile, lo in (("time", ctx.seed * 100000 + 20000), ("lang", ctx.seed * 100000 + 30000), ("leak", ctx.seed * 100000 + 35000)):
        cases = langcheck.generate(ctx, profile, lo, lo + n - 1, invariants=("Emit", "MemoFree"))
        by = langcheck.replay(ctx, binary, cases, fresh=True)
        suspects = {}
        for c in cases:
            rec = by[c["seed"]]
            mm = langlib.check_matches(c, rec)
            if mm:
                raise vlib.InfraError("pattern abstraction disagrees with Go regexp: %s" % mm[:3])
            fb = langcheck.compare_fresh(rec)
            ctx.cov["traces_validated_against_impl"] += 1
            ctx.cov["evaluations"] += len(c["lines"])
            if langcheck.nontrivial(c) and len(c["lines"]) > 1:
                ctx.cov["distinct_nontrivial"] += 1
            if fb and not ctx.enough():
                again = langcheck.replay(ctx, binary, [c], fresh=True)[c["seed"]]
                fb2 = langcheck.compare_fresh(again)
                if fb2:
                    ctx.violation({"profile": profile, "seed": c["seed"], "source": again["runs"][0]["src"],
                                   "lines": [" ".join("".join(t) for t in l["toks"]) for l in c["lines"]], "mismatches": fb2[:5], "kind": "fresh"},
                                  "seed %d: %s" % (c["seed"], fb2[0][:300]))
                continue
            out, _, _ = langlib.compare_case(c, rec)
            if out:
                suspects[c["seed"]] = (c, out)
        c = cases[len(cases) // 3]
        ctx.sample({"seed": c["seed"], "profile": profile, "source": by[c["seed"]]["runs"][0]["src"],
                    "history": [" ".join("".join(t) for t in l["toks"]) for l in c["lines"]]}, limit=2)
        if suspects:
            langcheck.explain(ctx, binary, profile, suspects, "on", None, True)
    ctx.cov["rule"] = ("histories = MtailGen!GenCase(seed) line sequences (repeated lines, same timestamp text under several layouts, failing "
                       "conversions); every line compared with ExecLine(metrics-before, line) AND with a fresh copy of the program holding the same "
                       "metrics; non-trivial = history of >=2 lines in which some line changes a metric or raises an error")
    ctx.assumptions += ["datum values and timestamps can be copied exactly through datum.SetInt/SetFloat/SetString",
                        "the only cross-line state considered by the model is the strptime memo; any other leak shows up as a replay mismatch"]


def replay(ctx, path):
    binary = vlib.build(ctx, "lang")
    rc = json.load(open(path))["case"]
    cases = langcheck.generate(ctx, rc["profile"], seedset=[rc["seed"]])
    rec = langcheck.replay(ctx, binary, cases, fresh=True)[rc["seed"]]
    fb = langcheck.compare_fresh(rec)
    out, _, _ = langlib.compare_case(cases[0], rec)
    if fb or out:
        ctx.violation(rc, (fb or out)[0][:300])
